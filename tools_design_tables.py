#!/usr/bin/env python3
"""Regenerates the machine-written tables of DESIGN.md (between <!-- BEGIN x --> / <!-- END x --> markers):
seeded changes (from seeded/*/meta.json), claimed checks (from MANIFEST.json + evidence), fixes and known findings."""
import json, glob, os, re, subprocess
HERE = os.path.dirname(os.path.abspath(__file__))

def reeval():
    try:
        return json.load(open(os.path.join(HERE, 'seeded', 'REEVAL.json')))
    except Exception:
        return {}

def now_col(sid, R):
    r = R.get(sid)
    if not r:
        return '—'
    if r.get('stale'):
        return 'patch no longer applies (later repair on the same lines)'
    return '; '.join('%s: %s' % (c, {'quiet': 'not detected', 'no-failing-input': 'no-failing-input-found', 'concrete': 'failing input'}.get(o, o))
                     for c, o in sorted(r['checks'].items())) + ' (@%s)' % r.get('repo', '?')

def seeded():
    R = reeval()
    rows = ['| seeded change | property | what it needs to manifest | detected by | how (when first evaluated) | re-evaluated with the checks as they are now |', '|---|---|---|---|---|---|']
    for f in sorted(glob.glob(os.path.join(HERE, 'seeded', '*', 'meta.json'))):
        m = json.load(open(f))
        if m.get('kind') == 'harmless':
            continue
        how = []
        for c, r in sorted(m.get('checks_run_against_it', {}).items()):
            if r['exit'] == 1:
                v = [l for l in r['lines'] if l.startswith('VIOLATION')]
                how.append('%s: %s' % (c, 'no-failing-input-found' if v and 'no-failing-input-found' in v[0] else 'failing input'))
            else:
                how.append('%s: not detected' % c)
        rows.append('| %s %s | %s | %s | %s | %s | %s |' % (m['seed_id'], m.get('title', '').replace('|', '/')[:90], m.get('property', ''),
                    str(m.get('needs_to_manifest', '')).replace('|', '/').replace('\n', ' ')[:160], ', '.join(m.get('detected_by', [])) or '—', '; '.join(how),
                    now_col(m['seed_id'], R)))
    return '\n'.join(rows)

def harmless():
    rows = ['| change (kept in seeded/<id>/) | property | what it changes | outcome of the check | why |', '|---|---|---|---|---|']
    for f in sorted(glob.glob(os.path.join(HERE, 'seeded', '*', 'meta.json'))):
        m = json.load(open(f))
        if m.get('kind') != 'harmless':
            continue
        outs = []
        why = []
        for c, r in sorted(m.get('checks_run_against_it', {}).items()):
            outs.append('%s: %s' % (c, {'quiet': 'exit 0', 'no-failing-input': 'no-failing-input-found', 'concrete': 'concrete violation'}.get(r.get('outcome'), r.get('outcome'))))
            rp = r.get('replay') or {}
            for b in (rp.get('broken_obligations') or [])[:2]:
                why.append(('%s: %s' % (b.get('what'), b.get('detail', '')))[:140].replace('|', '/').replace('\n', ' '))
            if r.get('outcome') == 'concrete':
                why.append(('%s: %s' % (rp.get('signature'), rp.get('detail', '')))[:160].replace('|', '/').replace('\n', ' '))
        note = m.get('verdict_note')
        rows.append('| %s %s | %s | %s | %s | %s |' % (m['seed_id'], m.get('title', '').replace('|', '/')[:100], m.get('property', ''),
                    str(m.get('what_changes', '')).replace('|', '/').replace('\n', ' ')[:160], '; '.join(outs), (note or '; '.join(why) or '—').replace('|', '/')))
    return '\n'.join(rows)

def claimed():
    m = json.load(open(os.path.join(HERE, 'MANIFEST.json')))
    rows = ['| property | theorems+gates (obligations) | correspondence cases | oracle cases | known findings reproduced | quick wall s |', '|---|---|---|---|---|---|']
    for c in m['checks']:
        p = c['property_id']
        try:
            e = json.load(open(os.path.join(HERE, 'evidence', p + '.json')))
            cov = e['coverage']
            rows.append('| %s | %d/%d | %d | %d | %d | %.0f |' % (p, cov['discharged'], cov['obligations'], cov['traces_validated_against_impl'],
                        cov['evaluations'], len(cov.get('known_findings_reproduced', [])), e['wall_s']))
        except Exception as ex:
            rows.append('| %s | (no evidence yet: %s) | | | | |' % (p, ex))
    return '\n'.join(rows)

def fixes():
    out = subprocess.run(['git', '-C', '/repo', 'log', '--reverse', '--format=%h %s', '9872b8a..HEAD'], stdout=subprocess.PIPE, universal_newlines=True).stdout
    props = {}
    for line in open(os.path.join(HERE, 'KNOWN_FINDINGS.txt')):
        if line.startswith('fixed:'):
            mm = re.match(r'fixed: property=(\S+) (\S+) ', line)
            if mm:
                props.setdefault(mm.group(2), []).append(mm.group(1))
    rows = ['| commit | properties | subject |', '|---|---|---|']
    for l in out.strip().splitlines():
        h, s = l.split(' ', 1)
        rows.append('| %s | %s | %s |' % (h, ' '.join(sorted(set(props.get(h, [])))) or '?', s))
    return '\n'.join(rows)

def known():
    rows = ['| property | id | signature | what fails |', '|---|---|---|---|']
    files = [os.path.join(HERE, 'KNOWN_FINDINGS.txt')] + sorted(glob.glob(os.path.join(HERE, 'known-findings', '*.txt')))
    count = {}
    for f in files:
        for line in open(f):
            if line.startswith('known:'):
                head, _, text = line[6:].partition('::')
                kv = dict(x.split('=', 1) for x in head.split() if '=' in x)
                count[kv.get('property')] = count.get(kv.get('property'), 0) + 1
                if count[kv.get('property')] <= 8:
                    rows.append('| %s | %s | `%s` | %s |' % (kv.get('property'), kv.get('id'), kv.get('sig'), text.strip()[:200].replace('|', '/')))
    rows.append('')
    rows.append('Totals: ' + ', '.join('%s: %d' % kv for kv in sorted(count.items())) + ' (tables above show at most 8 per property; the files are complete).')
    return '\n'.join(rows)

def main():
    p = os.path.join(HERE, 'DESIGN.md')
    s = open(p).read()
    for name, fn in (('SEEDED', seeded), ('HARMLESS', harmless), ('CLAIMED', claimed), ('FIXES', fixes), ('KNOWN', known)):
        b = '<!-- BEGIN %s -->' % name; e = '<!-- END %s -->' % name
        if b in s and e in s:
            i = s.index(b) + len(b); j = s.index(e)
            s = s[:i] + '\n' + fn() + '\n' + s[j:]
    open(p, 'w').write(s)

if __name__ == '__main__':
    main()

#!/usr/bin/env python3
"""Regenerates MANIFEST.json from the table below (keeps it schema-valid; every property is either
claimed or listed under not_applicable)."""
import json, os
HERE = os.path.dirname(os.path.abspath(__file__))
ids = [json.loads(l)['id'] for l in open(os.path.join(HERE, 'properties.jsonl'))]

# property -> (technique, level text, level note, design_ref)
XML_NOTE = ("Trusted: Lean kernel; the reference parser lean/OdfModel/Spec/XmlParse.lean as the meaning of 'namespace-well-formed XML 1.0' "
            "(a sub-language of XML; validated against expat on every emitted stream); the correspondence harness; CPython str/dict; expat as oracle. "
            "Hypotheses of the theorems (TreeOK): element/attribute local names are ASCII NCNames, no unqualified attribute is called 'xmlns', "
            "namespace names contain no filtered character, attribute keys are distinct (dict), every namespace was registered with get_nsprefix "
            "(Element.__init__/setAttrNS always do).")
CLAIMED = {
 'C01': ("Lean 4 proof: print/parse round trip of a hand-written model of the encoders and the writer against a reference XML parser; "
         "namespace-table invariant by induction over histories; translator for the filter table and the initial nsdict; correspondence with odf/element.py",
         "Kernel-checked: for every tree, every string as text/CDATA/attribute value, and every namespace table reachable by any history of the "
         "process, the emitted stream is accepted by the reference XML parser (emitted_wf, emitted_wf_after_any_history; 138 obligations incl. the "
         "lemma files). The model is tied to the code on every run: _handle_unrepresentable is probed on all 1,114,112 code points and the table the "
         "theorems use is regenerated; the three encoders agree with the model on every code point; Element.toXml agrees byte for byte on "
         "generated trees; get_nsprefix histories agree in fresh interpreters. Oracle: expat + UTF-8 encodability on every rendering "
         "(toXml, xml(), the four parts, the manifest, zip members).",
         XML_NOTE + " Part assembly (contentxml etc.) is covered by the part_assembly lemma plus the oracle on real renderings.",
         "DESIGN.md section 4 C01"),
 'C02': ("Lean 4 proof: parseDoc (render tbl t) = canon t by structural induction (lexical round trip with fuel, namespace resolution round trip); "
         "correspondence with odf/element.py; expat infoset oracle",
         "Kernel-checked: parsing what the writer emits returns exactly the tree - same elements by (namespace, local name) in order, same "
         "attributes with the same values, same character data - up to CDATA-vs-text, merging of adjacent character data and the library's "
         "character filter (print_parse), and with U+FFFD only for XML-unrepresentable characters for every tree without 'discouraged' code "
         "points (print_parse_partial). The excluded class is known finding KF-C02-1, proved as finding_discouraged and replayed on the real code "
         "every run. Tie and oracle as C01, with the expat infoset compared against the walked in-memory tree.",
         XML_NOTE, "DESIGN.md section 4 C02"),
 'C14': ("Lean 4 proof: invariant of the process-wide namespace table under every history of get_nsprefix calls (induction), history independence as a "
         "corollary of the print/parse round trip; translator for nsdict; correspondence in fresh interpreters",
         "Kernel-checked: after every history the declared table binds each prefix to exactly one namespace and each namespace to one prefix, "
         "never binds the empty namespace, uses NCName prefixes other than xmlns (init0_ok by decide +kernel over the regenerated nsdict, "
         "inv_reachable, tableOK_reachable); the parsed infoset of any tree is the same under any two reachable tables (history_independent_runs); "
         "a known prefix inside an attribute value gets declared and bound as nsdict binds it (value_prefix_declared). The unknown-prefix case is "
         "known finding KF-C14-1 (finding_value_prefix_unknown). Tie: prefixes and final table of random histories in fresh interpreters vs the "
         "model; oracle: same trees serialised fresh vs after a random history (incl. loading sample packages), compared after independent parsing.",
         XML_NOTE, "DESIGN.md section 4 C14"),
 'C17': ("Lean 4 proof over a hand-written model (induction on the encoder's recursion) + correspondence with odf/teletype.py",
         "Kernel-checked theorems for every string and every pending buffer: extractText(addTextToElement(s)) = s, "
         "also when appended to existing children and after adjacent text nodes are merged (save/load); inserted nodes never hold "
         "TAB/LF/two blanks. The model is tied to the code by running both on all strings <= 4 (quick) / <= 6 (thorough) over "
         "{SP,TAB,LF,CR,a,<,&} plus seeded random strings, node lists compared; the oracle re-checks the round trip on the real "
         "library directly, on pre-filled elements and through save()+load().",
         "Trusted: Lean kernel; the correspondence harness; CPython str/int; the save/load leg relies on C02 (XML round trip) which is checked by its own property.",
         "DESIGN.md section 4 C17"),
 'C10': ("Lean 4 proof: model of the reference scan (_stylerefs_of/_parseoneelement) and of the closure loop of _used_auto_styles; "
         "kernel-decided schema-attributes-are-followed table check (translator from the .rng and by probing the code); correspondence; expat oracle",
         "Kernel-checked for all trees: an automatic style is kept iff it is reachable from the scanned roots (kept_iff); every automatic style "
         "reachable from the body resp. the master styles through any style-reference attribute of the shipped schema, through chains of any "
         "length, is written to content.xml resp. styles.xml (closure_kept_content, closure_kept_styles; schema_refs_followed by decide over the "
         "tables regenerated from the .rng and measured on the code every run), as an unchanged sub-list of the automatic styles, each at most "
         "once (kept_sublist, kept_once, definition_unchanged). Tie: 780 random style graphs per run (5,180 thorough) model vs code; oracle: every "
         "reference site of the saved parts resolved against the styles present in its own part after an independent parse.",
         "Trusted: Lean kernel; harness; expat. Hypothesis WellNamed: automatic-style names contain none of the 29 characters str.split() splits at "
         "(true of every NCName).",
         "DESIGN.md section 4 C10"),
 'C12': ("Lean 4 proof: state-transformer model of the seven output calls, purity and repeatability by induction over call sequences; "
         "correspondence on call sequences; snapshot/infoset oracle",
         "Kernel-checked for all documents and all sequences of save/write/xml/contentxml/stylesxml/metaxml/settingsxml: the document afterwards "
         "is the original or its generator-normalised form and nothing outside office:meta changes (render_pure, queries_pure, nonmeta_pure), and "
         "two outputs of the same kind are infoset-equal (render_repeatable). Tie: 545 call sequences per run (all 49 ordered pairs + random "
         "sequences, 15,500 in thorough) with the model's prediction compared after every call; oracle: deep snapshot of the real document (tree, "
         "links, queries, pictures, objects) around every call and pairwise infoset comparison of repeated outputs.",
         "Trusted: Lean kernel; harness; expat/zipfile as oracles. The model abstracts part bodies as opaque infosets (their content is C01/C02) and child objects one level deep.",
         "DESIGN.md section 4 C12"),
 'C19': ("Lean 4 proof over a model of the update loop with value-type tables measured from the code (translator) + correspondence + infoset-diff oracle",
         "Kernel-checked for all declaration lists and all update dictionaries: update sets exactly the named fields in the attribute of their "
         "value type and listing returns the new values (update_sets, updateOp_sets), every other attribute, field and element is unchanged "
         "(update_frame, updateDoc_frame), unknown names are ignored, update is idempotent, listing is read-only; the measured tables equal the ODF "
         "table for every type string. Tie: driver correspondence on 834 cases per run; oracle: listing vs an expat reference, update(out) vs a "
         "plain load+save member by member, source bytes and mtime unchanged by listing.",
         "Trusted: Lean kernel; harness; the load/save layer underneath is not modelled here (C04/C05), it is exercised by the oracle only.",
         "DESIGN.md section 4 C19"),
}
NOT_YET = "check not built yet in this revision (planned, see DESIGN.md section 9)"

checks = []
for i in ids:
    if i in CLAIMED:
        tech, text, note, ref = CLAIMED[i]
        checks.append({
            "property_id": i,
            "quick_cmd": "./check %s --tier quick" % i,
            "thorough_cmd": "./check %s --tier thorough" % i,
            "evidence_file": "evidence/%s.json" % i,
            "replay_cmd_template": "./check %s --replay {path}" % i,
            "engine": "lean4-odfmodel",
            "level_claimed": {"category": "proof", "text": text, "design_ref": ref},
            "level_note": note,
            "technique": tech,
        })
m = {
 "version": 1,
 "setup_cmd": "./setup.sh",
 "hooks": {"guard": "EEA_ODFPY_VERIF", "enable": "no hooks are needed: the checks observe the public API only",
           "baseline_off_cmd": "cd /repo && /venv/bin/python -m pytest -ra -q -p no:cacheprovider --timeout=900 --continue-on-collection-errors",
           "source_commits": [], "add_only": True},
 "engines": [{"name": "lean4-odfmodel", "path": "lean", "serves_properties": sorted(CLAIMED),
              "kind_free_text": "Lean 4 library OdfModel (models + theorems), compiled line-protocol drivers, Python correspondence/oracle harness (./check)"}],
 "checks": checks,
 "notes": "Every check: translate (Generated/*.lean from /repo) -> lake build of the property's theorems + #print axioms audit -> correspondence model vs /repo -> oracle on /repo. See DESIGN.md.",
 "not_applicable": [{"property_id": i, "reason": NOT_YET} for i in ids if i not in CLAIMED],
}
json.dump(m, open(os.path.join(HERE, 'MANIFEST.json'), 'w'), indent=1)
print('claimed', sorted(CLAIMED))

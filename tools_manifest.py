#!/usr/bin/env python3
"""Regenerates MANIFEST.json from the table below (keeps it schema-valid; every property is either
claimed or listed under not_applicable)."""
import json, os
HERE = os.path.dirname(os.path.abspath(__file__))
ids = [json.loads(l)['id'] for l in open(os.path.join(HERE, 'properties.jsonl'))]

# property -> (technique, level text, level note, design_ref)
CLAIMED = {
 'C17': ("Lean 4 proof over a hand-written model (induction on the encoder's recursion) + correspondence with odf/teletype.py",
         "Kernel-checked theorems for every string and every pending buffer: extractText(addTextToElement(s)) = s, "
         "also when appended to existing children and after adjacent text nodes are merged (save/load); inserted nodes never hold "
         "TAB/LF/two blanks. The model is tied to the code by running both on all strings <= 4 (quick) / <= 6 (thorough) over "
         "{SP,TAB,LF,CR,a,<,&} plus seeded random strings, node lists compared; the oracle re-checks the round trip on the real "
         "library directly, on pre-filled elements and through save()+load().",
         "Trusted: Lean kernel; the correspondence harness; CPython str/int; the save/load leg relies on C02 (XML round trip) which is checked by its own property.",
         "DESIGN.md section 4 C17"),
}
NOT_YET = "check not built yet in this revision (planned, see DESIGN.md section 9)"

checks = []
for i in ids:
    if i in CLAIMED:
        tech, text, note, ref = CLAIMED[i]
        checks.append({
            "property_id": i,
            "quick_cmd": "./check %s --tier quick" % i,
            "thorough_cmd": "./check %s --tier thorough" % i,
            "evidence_file": "evidence/%s.json" % i,
            "replay_cmd_template": "./check %s --replay {path}" % i,
            "engine": "lean4-odfmodel",
            "level_claimed": {"category": "proof", "text": text, "design_ref": ref},
            "level_note": note,
            "technique": tech,
        })
m = {
 "version": 1,
 "setup_cmd": "./setup.sh",
 "hooks": {"guard": "EEA_ODFPY_VERIF", "enable": "no hooks are needed: the checks observe the public API only",
           "baseline_off_cmd": "cd /repo && /venv/bin/python -m pytest -ra -q -p no:cacheprovider --timeout=900 --continue-on-collection-errors",
           "source_commits": [], "add_only": True},
 "engines": [{"name": "lean4-odfmodel", "path": "lean", "serves_properties": sorted(CLAIMED),
              "kind_free_text": "Lean 4 library OdfModel (models + theorems), compiled line-protocol drivers, Python correspondence/oracle harness (./check)"}],
 "checks": checks,
 "notes": "Every check: translate (Generated/*.lean from /repo) -> lake build of the property's theorems + #print axioms audit -> correspondence model vs /repo -> oracle on /repo. See DESIGN.md.",
 "not_applicable": [{"property_id": i, "reason": NOT_YET} for i in ids if i not in CLAIMED],
}
json.dump(m, open(os.path.join(HERE, 'MANIFEST.json'), 'w'), indent=1)
print('claimed', sorted(CLAIMED))

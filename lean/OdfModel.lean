-- Root of the `OdfModel` library.  The models live in OdfModel/*.lean, the reference specifications in
-- OdfModel/Spec/, translator output in OdfModel/Generated/, and the property theorems in OdfModel/Props/Cxx.lean
-- (each built by its own check and by setup.sh).
import OdfModel.Basic

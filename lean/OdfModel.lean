-- Root of the `OdfModel` library: models, helper lemmas and property theorems.
import OdfModel.Basic
import OdfModel.Teletype
import OdfModel.Props.C17

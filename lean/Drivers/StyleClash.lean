/-
  drv_clash — line-protocol driver for OdfModel.StyleClash (property C11).
    pkg <nCA> def* <nB> ref* <nCO> def* <nSA> def* <nM> ref*
        def := <isStyle 0|1> <cls> <name> <marker> <nrefs> ref*       ref := <attr> <name> <cls>
      -> ok F <old>new ...> | L <marker>=<name>(<ref names>) ... ; <body names> ; <master names>
            | C <markers written to content.xml> | S <markers written to styles.xml>
            | R <before>/<in memory>/<saved> for every site (body, master, inside cAuto, sAuto, common styles)
            | H <package in the class `Handled`> <per site: in `HandledSite`>   (the hypotheses of resolve_preserved_partial)
    sess <pkg args> ;; <pkg args> ;; ...      the (sub)documents a process reads, in that order (`loadSession`)
      -> the `pkg` answer of every document, joined by ` ;; `
    names are `Wire.enc` strings; a resolution is a marker, `-` (dangling) or `~` (the site does not exist there)
-/
import OdfModel.StyleClash
open OdfModel OdfModel.Styles OdfModel.StyleClash

partial def parseRefs : Nat → List String → List Ref → Option (List Ref × List String)
  | 0, rest, acc => some (acc.reverse, rest)
  | n+1, a :: w :: c :: rest, acc => do
      let a ← a.toNat?
      let nm ← Wire.dec w
      let c ← c.toNat?
      parseRefs n rest (⟨a, nm, c⟩ :: acc)
  | _, _, _ => none

partial def parseDefs : Nat → List String → List Def → Option (List Def × List String)
  | 0, rest, acc => some (acc.reverse, rest)
  | n+1, s :: c :: w :: m :: k :: rest, acc => do
      let c ← c.toNat?
      let nm ← Wire.dec w
      let m ← m.toNat?
      let k ← k.toNat?
      let (refs, rest) ← parseRefs k rest []
      parseDefs n rest (⟨s == "1", c, nm, m, refs⟩ :: acc)
  | _, _, _ => none

def parseCount : List String → Option (Nat × List String)
  | n :: rest => do let n ← n.toNat?; pure (n, rest)
  | [] => none

def parsePkg (toks : List String) : Option Pkg := do
  let (n, r) ← parseCount toks
  let (ca, r) ← parseDefs n r []
  let (n, r) ← parseCount r
  let (b, r) ← parseRefs n r []
  let (n, r) ← parseCount r
  let (co, r) ← parseDefs n r []
  let (n, r) ← parseCount r
  let (sa, r) ← parseDefs n r []
  let (n, r) ← parseCount r
  let (m, r) ← parseRefs n r []
  if r.isEmpty then pure { cAuto := ca, body := b, common := co, sAuto := sa, master := m } else none

def words (l : List String) : String := if l.isEmpty then "~" else String.intercalate " " l

def showOpt : Option Nat → String
  | some m => toString m
  | none => "-"

def showRes (q : Pkg) (s : Site) : String :=
  if (siteRef q s).isSome then showOpt (resolveAt q s) else "~"

def showDef (d : Def) : String :=
  toString d.marker ++ "=" ++ Wire.enc d.name ++ "(" ++ String.intercalate "," (d.refs.map (fun r => Wire.enc r.name)) ++ ")"

/-- `a ;; b ;; c` -> [a, b, c] -/
def splitToks (l : List String) : List (List String) :=
  l.foldr (fun t acc => if t == ";;" then [] :: acc else
    match acc with
    | [] => [[t]]
    | g :: gs => (t :: g) :: gs) [[]]

def answer (p : Pkg) (d : Doc) : String :=
  let q := save d
  let mp := memPkg d
  "ok F " ++ words (d.fix.map (fun (a, b) => Wire.enc a ++ ">" ++ Wire.enc b))
        ++ " | L " ++ words ((d.common ++ d.auto).map showDef)
        ++ " ; " ++ words (d.body.map (fun r => Wire.enc r.name))
        ++ " ; " ++ words (d.master.map (fun r => Wire.enc r.name))
        ++ " | C " ++ words (q.cAuto.map (fun x => toString x.marker))
        ++ " | S " ++ words (q.sAuto.map (fun x => toString x.marker))
        ++ " | R " ++ words ((allSites p).map (fun s => showOpt (resolveAt p s) ++ "/" ++ showRes mp s ++ "/" ++ showRes q s))
        ++ " | H " ++ (if decide (Handled p) then "1" else "0") ++ " "
        ++ String.ofList ((allSites p).map (fun s => if decide (HandledSite p s) then '1' else '0'))

def handle (line : String) : String :=
  match line.trimAscii.toString.splitOn " " with
  | "pkg" :: toks =>
    match parsePkg toks with
    | some p => answer p (load p)
    | none => "err bad-arg"
  | "sess" :: toks =>
    match (splitToks toks).mapM parsePkg with
    | some ps => String.intercalate " ;; " ((ps.zip (loadSession ps)).map (fun (p, d) => answer p d))
    | none => "err bad-arg"
  | _ => "err bad-op"

partial def loop (h : IO.FS.Stream) (out : IO.FS.Stream) : IO Unit := do
  let line ← h.getLine
  if line.isEmpty then return ()
  out.putStrLn (handle line)
  out.flush
  loop h out

def main : IO Unit := do
  loop (← IO.getStdin) (← IO.getStdout)

import OdfModel.UserField
/-
  drv_userfield — line protocol for the C19 model (OdfModel.UserField + regenerated tables).

    update <n> (<key> <value>)*n <m> <item>*m   -> ok <item>*m ; <row>*        | err valueError | err unknownConverter
    list <m> <item>*m                           -> ok <row>*
    attr <type|~>                               -> ok <attribute key update writes> <attribute key listing reads>

  <item> = O <payload>  |  F <k> (<attr key> <value>)*k        (document order)
  <row>  = <name|~> <type|~> <value|~>     one per declaration (`~` = None); strings in wire form
-/
open OdfModel OdfModel.UserField

def decOpt (w : String) : Option (Option Str) := if w == "~" then some none else (Wire.dec w).map some

def encOpt : Option Str → String
  | none => "~"
  | some s => Wire.enc s

partial def parsePairs (n : Nat) (ws : List String) (acc : List (String × String)) : Option (List (String × String) × List String) :=
  match n, ws with
  | 0, ws => some (acc.reverse, ws)
  | n+1, a :: b :: r => parsePairs n r ((a, b) :: acc)
  | _, _ => none

partial def parseItems (n : Nat) (ws : List String) (acc : List Item) : Option (List Item × List String) :=
  match n, ws with
  | 0, ws => some (acc.reverse, ws)
  | n+1, "O" :: p :: r => do
      let p ← p.toNat?
      parseItems n r (.other p :: acc)
  | n+1, "F" :: k :: r => do
      let k ← k.toNat?
      let (ps, r') ← parsePairs k r []
      let attrs ← ps.mapM (fun (a, v) => do let a ← a.toNat?; let v ← Wire.dec v; pure (a, v))
      parseItems n r' (.field ⟨attrs⟩ :: acc)
  | _, _ => none

def showItem : Item → String
  | .other p => s!"O {p}"
  | .field f => s!"F {f.attrs.length}" ++ String.join (f.attrs.map (fun (k, v) => s!" {k} {Wire.enc v}"))

def showRows (fs : List Field) : String :=
  String.intercalate " " ((listFields fs).map (fun (n, t, v) => s!"{encOpt n} {encOpt t} {encOpt v}"))

def showErr : Err → String
  | .valueError => "valueError"
  | .unknownConverter => "unknownConverter"

def handle (line : String) : String :=
  match line.trimAscii.toString.splitOn " " with
  | ["attr", t] =>
    match decOpt t with
    | some vt => s!"ok {updAttrFor vt} {listAttrFor vt}"
    | none => "err bad-arg"
  | "list" :: m :: rest =>
    match m.toNat? >>= (fun m => parseItems m rest []) with
    | some (items, []) => "ok " ++ showRows (fieldsOf items)
    | _ => "err bad-arg"
  | "update" :: n :: rest =>
    match n.toNat? >>= (fun n => parsePairs n rest []) with
    | some (ps, m :: rest') =>
      match ps.mapM (fun (a, v) => do let a ← Wire.dec a; let v ← Wire.dec v; pure (a, v)),
            m.toNat? >>= (fun m => parseItems m rest' []) with
      | some data, some (items, []) =>
        match updateOp data ⟨items, none⟩ with
        | .error e => "err " ++ showErr e
        | .ok s => match s.dest with
          | some d => "ok " ++ String.intercalate " " (d.map showItem) ++ " ; " ++ showRows (fieldsOf d)
          | none => "err no-dest"
      | _, _ => "err bad-arg"
    | _ => "err bad-arg"
  | _ => "err bad-op"

partial def loop (h : IO.FS.Stream) (out : IO.FS.Stream) : IO Unit := do
  let line ← h.getLine
  if line.isEmpty then return ()
  out.putStrLn (handle line)
  out.flush
  loop h out

def main : IO Unit := do
  loop (← IO.getStdin) (← IO.getStdout)

/-
  drv_attr — line-protocol driver for the attribute-converter model (property C15).

    conv <converter-name> <hexstr>   -> ok <hexstr> | err ValueError | err Other
    match <pattern-name> <hexstr>    -> ok 1 | ok 0      `pattern_x.match(s) is not None` (anchor as in the source)
    full <pattern-name> <hexstr>     -> ok 1 | ok 0      `s ∈ L(pattern)` (full match)
    smatch <schema-pattern-id> <hexstr> -> ok 1 | ok 0 | ok unsupported      full match of the schema's facet
    bind <attr-id> <element-id>      -> ok <converter-name>    lookup order of AttrConverters.convert
    set <attr-id> <element-id> <hexstr> -> ok <hexstr> | err …  setAttrNS then getAttrNS
-/
import OdfModel.AttrConv
import OdfModel.Generated.AttrSchema
import OdfModel.Generated.AttrTable
open OdfModel OdfModel.Regex OdfModel.Attr OdfModel.Generated

def showRes : Except Err Str → String
  | .ok r => "ok " ++ Wire.enc r
  | .error .valueError => "err ValueError"
  | .error .other => "err Other"

def cnvByName (n : String) : Option Nat :=
  AttrConv.converters.findIdx? (fun p => p.1 == n)

def bit (b : Bool) : String := if b then "ok 1" else "ok 0"

def handle (line : String) : String :=
  match line.trimAscii.toString.splitOn " " with
  | ["conv", n, w] =>
    match cnvByName n, Wire.dec w with
    | some i, some s => showRes (cnv i s)
    | _, _ => "err bad-arg"
  | ["match", n, w] =>
    match AttrConv.codePatterns.find? (fun p => p.1 == n), Wire.dec w with
    | some p, some s =>
      let m := if p.2.2 == 1 then Mode.full else if p.2.2 == 2 then Mode.dollar else Mode.pref
      bit (matchMode m p.2.1 s)
    | _, _ => "err bad-arg"
  | ["full", n, w] =>
    match AttrConv.codePatterns.find? (fun p => p.1 == n), Wire.dec w with
    | some p, some s => bit (accepts p.2.1 s)
    | _, _ => "err bad-arg"
  | ["smatch", i, w] =>
    match i.toNat?, Wire.dec w with
    | some i, some s =>
      match AttrSchema.schemaPatterns[i]? with
      | some (some p) => bit (accepts p s)
      | some none => "ok unsupported"
      | none => "err bad-arg"
    | _, _ => "err bad-arg"
  | ["bind", a, e] =>
    match a.toNat?, e.toNat? with
    | some a, some e =>
      match AttrConv.converters[convertIdx AttrTable.bindings a e]? with
      | some p => "ok " ++ p.1
      | none => "err bad-arg"
    | _, _ => "err bad-arg"
  | ["set", a, e, w] =>
    match a.toNat?, e.toNat?, Wire.dec w with
    | some a, some e, some s => showRes (setAttr AttrTable.bindings a e s)
    | _, _, _ => "err bad-arg"
  | _ => "err bad-op"

partial def loop (h : IO.FS.Stream) (out : IO.FS.Stream) : IO Unit := do
  let line ← h.getLine
  if line.isEmpty then return ()
  out.putStrLn (handle line)
  out.flush
  loop h out

def main : IO Unit := do
  loop (← IO.getStdin) (← IO.getStdout)

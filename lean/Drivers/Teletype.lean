import OdfModel.Teletype
open OdfModel OdfModel.Teletype

partial def showNode : TNode → String
  | .text s => "T:" ++ Wire.enc s
  | .cdata s => "C:" ++ Wire.enc s
  | .sp n => "S:" ++ toString n
  | .spNoC => "S0"
  | .tab => "TAB"
  | .lb => "LB"
  | .elem ks => "E(" ++ String.intercalate " " (ks.map showNode) ++ ")"

def handle (line : String) : String :=
  match line.trimAscii.toString.splitOn " " with
  | ["enc", w] => match Wire.dec w with
      | some s => "ok " ++ String.intercalate " " ((enc [] s).map showNode)
      | none => "err bad-arg"
  | _ => "err bad-op"

partial def loop (h : IO.FS.Stream) (out : IO.FS.Stream) : IO Unit := do
  let line ← h.getLine
  if line.isEmpty then return ()
  out.putStrLn (handle line)
  out.flush
  loop h out

def main : IO Unit := do
  loop (← IO.getStdin) (← IO.getStdout)

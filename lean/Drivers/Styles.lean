/-
  drv_styles — line-protocol driver for OdfModel.Styles (property C10).
    kept <styles> <auto> <master> <body>      (four trees in the wire form of Drivers.StyleWire)
      -> ok <final name list, content.xml> | <scanned flags over auto's children> | <names, styles.xml> | <flags> | <counts>
  The configuration (followed attributes, separators of `str.split`) comes from the generated tables.
-/
import OdfModel.Styles
import OdfModel.Generated.StyleRefs
import Drivers.StyleWire
open OdfModel OdfModel.Styles OdfModel.Generated.StyleRefs Drivers.StyleWire

def parseDoc (toks : List String) : Option StyleDoc := do
  let (s, r) ← parseNode toks
  let (a, r) ← parseNode r
  let (m, r) ← parseNode r
  let (b, r) ← parseNode r
  if r.isEmpty then pure { styles := s, auto := a, master := m, body := b } else none

def handle (line : String) : String :=
  match line.trimAscii.toString.splitOn " " with
  | "kept" :: toks =>
    match parseDoc toks with
    | some d =>
      let F : Cfg := { single := followedAttrs, list := followedListAttrs, sp := fun c => pySpaceTable.contains c }
      let fl := (kidsOf d.auto).map (fun e => (false, e))
      let fc := closeLoop F (fl.length + 1) fl (collect F [d.styles, d.body] [])
      let fs := closeLoop F (fl.length + 1) fl (collect F [d.master] [])
      "ok " ++ showStrs fc.1 ++ " | " ++ showBits (fc.2.map (·.1))
        ++ " | " ++ showStrs fs.1 ++ " | " ++ showBits (fs.2.map (·.1))
        ++ " | " ++ toString (contentKept F d).length ++ " " ++ toString (stylesKept F d).length
    | none => "err bad-arg"
  | ["tables"] =>
    "ok " ++ toString schemaStyleRefAttrs.length ++ " " ++ toString followedAttrs.length ++ " " ++ toString followedListAttrs.length ++ " " ++ toString pySpaceTable.length
  | _ => "err bad-op"

partial def loop (h : IO.FS.Stream) (out : IO.FS.Stream) : IO Unit := do
  let line ← h.getLine
  if line.isEmpty then return ()
  out.putStrLn (handle line)
  out.flush
  loop h out

def main : IO Unit := do
  loop (← IO.getStdin) (← IO.getStdout)

import OdfModel.Xhtml
import OdfModel.Moin
/-!
  drv_xhtml — line protocol for the C18 models.

    xhtml <css 0|1> <cssText> <tree>      → ok <rendered string> <token> <token> …      | err <enum>
    moin <tree styles.xml> <tree content.xml> → ok <string>                              | err <enum>

  tree  := E <name> <nattrs> (<key> <value>)* <nkids> tree*  |  T <string>       (strings in wire form)
  token := o|tag|block|k,v|k,v…   c|tag|block   e|tag|k,v…   t|string   r|kind[|arg]
-/
open OdfModel OdfModel.Xhtml

partial def parseTree : List String → Option (Node × List String)
  | "T" :: w :: rest => (Wire.dec w).map (fun s => (Node.text s, rest))
  | "E" :: qn :: na :: rest => do
    let q ← Wire.dec qn
    let n ← na.toNat?
    let rec attrs (k : Nat) (acc : Attrs) (r : List String) : Option (Attrs × List String) :=
      match k, r with
      | 0, r => some (acc.reverse, r)
      | k+1, a :: v :: r => do attrs k ((← Wire.dec a, ← Wire.dec v) :: acc) r
      | _, _ => none
    let (as, rest) ← attrs n [] rest
    match rest with
    | nk :: rest => do
      let m ← nk.toNat?
      let rec kids (k : Nat) (acc : List Node) (r : List String) : Option (List Node × List String) :=
        match k with
        | 0 => some (acc.reverse, r)
        | k+1 => do
          let (c, r) ← parseTree r
          kids k (c :: acc) r
      let (ks, rest) ← kids m [] rest
      pure (Node.elem q as ks, rest)
    | [] => none
  | _ => none

def showAttrs (a : Attrs) : String := String.join (a.map (fun kv => "|" ++ Wire.enc kv.1 ++ "," ++ Wire.enc kv.2))

def showTok : Tok → String
  | .otag t a b => "o|" ++ Wire.enc t ++ "|" ++ (if b then "1" else "0") ++ showAttrs a
  | .ctag t b => "c|" ++ Wire.enc t ++ "|" ++ (if b then "1" else "0")
  | .etag t a => "e|" ++ Wire.enc t ++ showAttrs a
  | .text s => "t|" ++ Wire.enc s
  | .raw .doctype => "r|doctype"
  | .raw .nbsp => "r|nbsp"
  | .raw .sp => "r|sp"
  | .raw (.num n) => "r|num|" ++ toString n
  | .raw .titleOpen => "r|titleOpen"
  | .raw .titleClose => "r|titleClose"
  | .raw .cdataOpen => "r|cdataOpen"
  | .raw .cdataClose => "r|cdataClose"
  | .raw .defaultStyles => "r|defaultStyles"
  | .raw (.css s) => "r|css|" ++ Wire.enc s

def showErr : Err → String
  | .keyError => "KeyError" | .indexError => "IndexError" | .valueError => "ValueError"
  | .attributeError => "AttributeError" | .unmodelled => "unmodelled"

def handle (line : String) : String :=
  match line.trimAscii.toString.splitOn " " with
  | "xhtml" :: css :: cw :: rest =>
    match Wire.dec cw, parseTree rest with
    | some cssText, some (t, []) =>
      match convert { css := css == "1", cssText := cssText } t with
      | .ok toks => "ok " ++ Wire.enc (render toks) ++ String.join (toks.map (fun t => " " ++ showTok t))
      | .error e => "err " ++ showErr e
    | _, _ => "err bad-arg"
  | "moin" :: rest =>
    match parseTree rest with
    | some (s, rest2) =>
      match parseTree rest2 with
      | some (c, []) =>
        match Moin.toString s c with
        | .ok r => "ok " ++ Wire.enc r
        | .error e => "err " ++ showErr e
      | _ => "err bad-arg"
    | none => "err bad-arg"
  | _ => "err bad-op"

partial def loop (h : IO.FS.Stream) (out : IO.FS.Stream) : IO Unit := do
  let line ← h.getLine
  if line.isEmpty then return ()
  out.putStrLn (handle line)
  out.flush
  loop h out

def main : IO Unit := do
  loop (← IO.getStdin) (← IO.getStdout)

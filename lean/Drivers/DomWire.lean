/-
  Helpers shared by the DOM drivers (wire format of node records and of the abstract verdicts).
-/
import OdfModel.Dom
open OdfModel.Dom
namespace DomWire

def errName : Err → String
  | .IllegalChild => "IllegalChild" | .IllegalText => "IllegalText" | .AttributeError => "AttributeError"
  | .ValueError => "ValueError" | .NotFound => "NotFound" | .Hierarchy => "Hierarchy"
  | .KeyError => "KeyError" | .Other => "Other" | .RecursionError => "RecursionError"

def errOfName : String → Option Err
  | "IllegalChild" => some .IllegalChild | "IllegalText" => some .IllegalText
  | "AttributeError" => some .AttributeError | "ValueError" => some .ValueError
  | "NotFound" => some .NotFound | "Hierarchy" => some .Hierarchy
  | "KeyError" => some .KeyError | "Other" => some .Other
  | "RecursionError" => some .RecursionError
  | _ => none

def showOpt : Option Nat → String
  | none => "-"
  | some n => toString n

def kindName : Kind → String
  | .elem => "e" | .text => "t" | .cdata => "c"

def insertSorted (a : Nat × Nat) : List (Nat × Nat) → List (Nat × Nat)
  | [] => [a]
  | b :: r => if a.1 < b.1 || (a.1 == b.1 && a.2 ≤ b.2) then a :: b :: r else b :: insertSorted a r

def showNode (h : Heap) (i : Nat) : String :=
  let r := h i
  let attrs := r.attrs.foldr insertSorted []
  toString i ++ ":" ++ kindName r.kind ++ ":" ++ showOpt r.parent ++ ":" ++ showOpt r.prev ++ ":" ++ showOpt r.next
    ++ ":[" ++ String.intercalate "," (r.kids.map toString) ++ "]:{"
    ++ String.intercalate "," (attrs.map fun (k, v) => toString k ++ "=" ++ toString v) ++ "}"

def insertId (i : Nat) : List Nat → List Nat
  | [] => [i]
  | j :: r => if i < j then i :: j :: r else if i = j then j :: r else j :: insertId i r

def bool01 (s : String) : Option Bool :=
  if s = "1" then some true else if s = "0" then some false else none

def optId (s : String) : Option (Option Nat) :=
  if s = "-" then some none else s.toNat?.map some

def parseConv (s : String) : Option (Except Err Nat) :=
  match s.toList with
  | 'o' :: r => (String.ofList r).toNat?.map Except.ok
  | 'e' :: r => (errOfName (String.ofList r)).map Except.error
  | _ => none


end DomWire

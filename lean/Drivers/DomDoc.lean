/-
  drv_domdoc — line-protocol driver of the document layer (OdfModel.DomDoc), property C09.

    reset
    new e <id> <qn> | new t <id> | new c <id>
    mkdoc <topnode id>
    clear | rebuild                 (the public doc.clear_caches() / doc.rebuild_caches())
    append <p> <c> | insb <p> <new> <ref|-> | rm <p> <c>
    adde <p> <c> <allowed01> | addt <p> <t> <allowsText01> <nonempty01> | addc <p> <t> <allowsText01>
    setns <e> <key> <conv>          conv = o<val> | e<Enum>
    rma <e> <known01> <tuple01> <allowed01> <key>      (removeAttribute: a style loses its style:name)
    regen <meta> <g> <t>            (__replaceGenerator: xml(), metaxml(), save())
    bytype <qn>  -> ok [ids]        (document-level getElementsByType; may rebuild the indexes)
    elbytype <id> <qn> -> ok [ids]  (element-level getElementsByType)
    style <name> -> ok <id|->       (getStyleByName; may rebuild the indexes)
    snap -> ok <nodes> | <element_dict sorted by qname> | <_styles_dict sorted> | <_styles_ooo_fix sorted>
            node = id:kind:parent:prev:next:[kids]:{attrs}:owner01

  Fixed tokens: see OdfModel/DomDoc.lean.
-/
import OdfModel.DomDoc
import Drivers.DomWire
open OdfModel.Dom OdfModel.DomDoc DomWire

structure St where
  s : DState
  ids : List Nat

def showIds (l : List Nat) : String := "[" ++ String.intercalate "," (l.map toString) ++ "]"

def insertKey {α} (a : Nat × α) : List (Nat × α) → List (Nat × α)
  | [] => [a]
  | b :: r => if a.1 ≤ b.1 then a :: b :: r else b :: insertKey a r

def showState (st : St) : String :=
  let s := st.s
  let nodes := st.ids.map fun i => showNode s.heap i ++ ":" ++ (if s.owned i then "1" else "0")
  let ed := (s.edict.foldr insertKey []).map fun (q, l) => toString q ++ "=" ++ showIds l
  let sd := (s.sdict.foldr insertKey []).map fun (n, e) => toString n ++ "=" ++ toString e
  let fx := (s.fix.foldr insertKey []).map fun (a, b) => toString a ++ "=" ++ toString b
  String.intercalate " " nodes ++ " | " ++ String.intercalate " " ed ++ " | " ++ String.intercalate " " sd
    ++ " | " ++ String.intercalate " " fx

/-- the same state with heap and owner map re-tabulated over the created ids -/
def compact (st : St) : St :=
  let recs := st.ids.map fun i => (i, st.s.heap i, st.s.owned i)
  let h' : Heap := ⟨recs.map fun (i, r, _) => (i, r)⟩
  { st with s := { st.s with heap := h', ownedL := recs.map fun (i, _, b) => (i, b) } }

def exec (st : St) (newIds : List Nat) (m : DM Unit) : St × String :=
  match m.run st.s with
  | (s', r) =>
    let st' : St := { s := s', ids := newIds.foldl (fun acc i => insertId i acc) st.ids }
    match r with
    | .ok _ => (st', "ok")
    | .error e => (st', "err " ++ errName e)

def handle (st : St) (line : String) : St × String :=
  let bad : St × String := (st, "err bad-line")
  match line.trimAscii.toString.splitOn " " with
  | ["reset"] => ({ s := DState.init, ids := [] }, "ok")
  | ["snap"] => let st' := compact st; (st', "ok " ++ showState st')
  | ["new", k, i, qn] =>
    match k, i.toNat?, qn.toNat? with
    | "e", some i, some qn => exec st [i] (stepD (.tree (.newNode i .elem qn)))
    | _, _, _ => bad
  | ["new", k, i] =>
    match k, i.toNat? with
    | "t", some i => exec st [i] (stepD (.tree (.newNode i .text 0)))
    | "c", some i => exec st [i] (stepD (.tree (.newNode i .cdata 0)))
    | _, _ => bad
  | ["clear"] =>      -- doc.clear_caches()
    exec st [] (updD fun s => { s with edict := [], sdict := [], fix := [] })
  | ["rebuild"] =>    -- doc.rebuild_caches()
    exec st [] rebuildAll
  | ["mkdoc", t] =>
    match t.toNat? with
    | some t => exec st [] (stepD (.mkDoc t))
    | none => bad
  | ["append", p, c] =>
    match p.toNat?, c.toNat? with
    | some p, some c => exec st [] (stepD (.tree (.append p c)))
    | _, _ => bad
  | ["insb", p, n, r] =>
    match p.toNat?, n.toNat?, optId r with
    | some p, some n, some r => exec st [] (stepD (.tree (.insertBefore p n r)))
    | _, _, _ => bad
  | ["rm", p, c] =>
    match p.toNat?, c.toNat? with
    | some p, some c => exec st [] (stepD (.tree (.remove p c)))
    | _, _ => bad
  | ["adde", p, c, a] =>
    match p.toNat?, c.toNat?, bool01 a with
    | some p, some c, some a => exec st [] (stepD (.tree (.addElement p c a)))
    | _, _, _ => bad
  | ["addt", p, t, a, ne] =>
    match p.toNat?, t.toNat?, bool01 a, bool01 ne with
    | some p, some t, some a, some ne => exec st (if a && ne then [t] else []) (stepD (.tree (.addText p t a ne)))
    | _, _, _, _ => bad
  | ["addc", p, t, a] =>
    match p.toNat?, t.toNat?, bool01 a with
    | some p, some t, some a => exec st (if a then [t] else []) (stepD (.tree (.addCDATA p t a)))
    | _, _, _ => bad
  | ["setns", e, key, conv] =>
    match e.toNat?, key.toNat?, parseConv conv with
    | some e, some key, some conv => exec st [] (stepD (.tree (.setAttrNS e key conv)))
    | _, _, _ => bad
  | ["rma", e, k, t, a, key] =>     -- e.removeAttribute(attr): same request line as drv_dom
    match e.toNat?, bool01 k, bool01 t, bool01 a, key.toNat? with
    | some e, some k, some t, some a, some key => exec st [] (stepD (.tree (.removeAttribute e k t a key)))
    | _, _, _, _, _ => bad
  | ["regen", m, g, t] =>
    match m.toNat?, g.toNat?, t.toNat? with
    | some m, some g, some t => exec st [g, t] (stepD (.replaceGenerator m g t))
    | _, _, _ => bad
  | ["bytype", q] =>
    match q.toNat? with
    | some q =>
      match (docByType q).run st.s with
      | (s', .ok l) => ({ st with s := s' }, "ok " ++ showIds l)
      | (s', .error e) => ({ st with s := s' }, "err " ++ errName e)
    | none => bad
  | ["elbytype", i, q] =>
    match i.toNat?, q.toNat? with
    | some i, some q =>
      match elByType st.s.heap i q with
      | some l => (st, "ok " ++ showIds l)
      | none => (st, "err RecursionError")
    | _, _ => bad
  | ["style", n] =>
    match n.toNat? with
    | some n =>
      match (styleByName n).run st.s with
      | (s', .ok r) => ({ st with s := s' }, "ok " ++ showOpt r)
      | (s', .error e) => ({ st with s := s' }, "err " ++ errName e)
    | none => bad
  | _ => (st, "err bad-op")

partial def loop (st : St) (inp : IO.FS.Stream) (out : IO.FS.Stream) : IO Unit := do
  let line ← inp.getLine
  if line.isEmpty then return ()
  let (st', ans) := handle st line
  out.putStrLn ans
  out.flush
  loop st' inp out

def main : IO Unit := do
  loop { s := DState.init, ids := [] } (← IO.getStdin) (← IO.getStdout)

/-
  drv_easylist — line-protocol driver for the list-style builder model (property C20).

    css <spacing>                                   -> ok <group1> <units> | ok none      cssLengthPattern.search
    fmt <spec>                                      -> ok <prefix> <char> <suffix> | ok none   numFormatPattern.search
    list <showAll 0|1> <name> <spacing> <base|E> <n> <spec>*n <mul>*n
    str  <showAll 0|1> <name> <specifiers> <delim> <spacing> <base|E> <m> <mul>*m
        -> ok <style:name> <style:display-name> <nlevels> { <tag> <k> (<attr> <value>)*k <kp> (<attr> <value>)*kp }*   | err ValueError | err IndexError
    calls <showAll 0|1> <name> <spacing> <base|E> <n> <spec>*n <mul>*n     (same arguments as `list`)
        -> ok <ncalls> { C <elem id> <k> (<keyword> <attr id> <value>)*k | S <elem id> <keyword> <attr id> <value>
                         | N <elem id> <attr id> <value> | A <parent id> <child id> }*     | err …
           the grammar-relevant API calls in program order (EasyList.callsOf); ids of Generated/GrammarNames.lean,
           keywords as hex code points
  <base> = str(cssLengthNum) and <mul>_k = str(cssLengthNum * k) are computed by the harness with Python's float
  (the model's FloatOracle); `E` = float() raised ValueError.
-/
import OdfModel.EasyListCalls
open OdfModel OdfModel.EasyList

def showAttrs (l : List (String × Str)) : String :=
  toString l.length ++ String.join (l.map fun p => " " ++ p.1 ++ " " ++ Wire.enc p.2)

def showLevel (l : Level) : String :=
  let a := levelAttrs l
  a.1 ++ " " ++ showAttrs a.2 ++ " " ++ showAttrs (propAttrs l)

def showRes : Except Err ListStyle → String
  | .ok st => "ok " ++ Wire.enc st.name ++ " " ++ Wire.enc st.displayName ++ " " ++ toString st.levels.length ++
      String.join (st.levels.map fun l => " " ++ showLevel l)
  | .error .valueError => "err ValueError"
  | .error .indexError => "err IndexError"

def showKw (k : KwArg) : String :=
  Wire.enc (GrammarNamesCodec.bytes k.kw) ++ " " ++ toString k.attr ++ " " ++ Wire.enc k.value

def showCall : Call → String
  | .construct e kws => "C " ++ toString e ++ " " ++ toString kws.length ++ String.join (kws.map fun k => " " ++ showKw k)
  | .setAttribute e k => "S " ++ toString e ++ " " ++ showKw k
  | .setAttrNS e a v => "N " ++ toString e ++ " " ++ toString a ++ " " ++ Wire.enc v
  | .addElement p c => "A " ++ toString p ++ " " ++ toString c

def showCalls : Except Err ListStyle → String
  | .ok st => "ok " ++ toString (callsOf st).length ++ String.join ((callsOf st).map fun c => " " ++ showCall c)
  | .error .valueError => "err ValueError"
  | .error .indexError => "err IndexError"

def oracle (base : String) (muls : List String) : Option FloatOracle :=
  if base == "E" then some ⟨fun _ => none⟩ else
  match Wire.dec base, muls.mapM Wire.dec with
  | some b, some ms => some ⟨fun _ => some (b, fun k => (ms[k - 1]?).getD [63])⟩
  | _, _ => none

def handle (line : String) : String :=
  match line.trimAscii.toString.splitOn " " with
  | ["css", w] =>
    match Wire.dec w with
    | some s => match cssSplit s with
      | some (g, u) => "ok " ++ Wire.enc g ++ " " ++ Wire.enc u
      | none => "ok none"
    | none => "err bad-arg"
  | ["fmt", w] =>
    match Wire.dec w with
    | some s => match findFmt s with
      | some (p, c, u) => "ok " ++ Wire.enc p ++ " " ++ Wire.enc [c] ++ " " ++ Wire.enc u
      | none => "ok none"
    | none => "err bad-arg"
  | "list" :: sa :: name :: spacing :: base :: n :: rest =>
    match n.toNat?, Wire.dec name, Wire.dec spacing with
    | some n, some name, some spacing =>
      match (rest.take n).mapM Wire.dec, oracle base (rest.drop n) with
      | some specs, some F => showRes (styleFromList F name specs spacing (sa == "1"))
      | _, _ => "err bad-arg"
    | _, _, _ => "err bad-arg"
  | "calls" :: sa :: name :: spacing :: base :: n :: rest =>
    match n.toNat?, Wire.dec name, Wire.dec spacing with
    | some n, some name, some spacing =>
      match (rest.take n).mapM Wire.dec, oracle base (rest.drop n) with
      | some specs, some F => showCalls (styleFromList F name specs spacing (sa == "1"))
      | _, _ => "err bad-arg"
    | _, _, _ => "err bad-arg"
  | "str" :: sa :: name :: specifiers :: delim :: spacing :: base :: _m :: rest =>
    match Wire.dec name, Wire.dec specifiers, Wire.dec delim, Wire.dec spacing, oracle base rest with
    | some name, some sp, some d, some spacing, some F => showRes (styleFromString F name sp d spacing (sa == "1"))
    | _, _, _, _, _ => "err bad-arg"
  | _ => "err bad-op"

partial def loop (h : IO.FS.Stream) (out : IO.FS.Stream) : IO Unit := do
  let line ← h.getLine
  if line.isEmpty then return ()
  out.putStrLn (handle line)
  out.flush
  loop h out

def main : IO Unit := do
  loop (← IO.getStdin) (← IO.getStdout)

/-
  drv_dom — line-protocol driver of the node-tree model (OdfModel.Dom), properties C08/C07.

  Stateful: the loop keeps the heap and the list of ids that were ever created.

    reset
    new e <id> <qn> | new t <id> | new c <id>
    append <p> <c> | insb <p> <new> <ref|-> | rm <p> <c>
    adde <p> <c> <allowed01> | addt <p> <t> <allowsText01> <nonempty01> | addc <p> <t> <allowsText01>
    seta <e> <known01> <tuple01> <allowed01> <key> <conv> | setns <e> <key> <conv> | rma <e> <known01> <tuple01> <allowed01> <key>
        conv = o<val> | e<Enum>
    ctor <id> <qn> <allowsText01> <text: - | tid:nonempty01> <cdata: - | cid> <parent: - | pid:allowed01>
         <nreq> <req>… <nattrs> <attr>…      attr = s:<known01><tuple01><allowed01>:<key>:<conv> | n:<key>:<conv> | r:<key>:<val>
    gcopy <new> <src> | gkids <p> <c> | gpar <c> <p>      (pointer surgery by the caller: record copy, strike from child list, set parent)
    snap

  Answers: `ok` / `err <Enum>`; `snap` answers `ok ` + one `id:kind:parent:prev:next:[kids]:{attrs}` per created id.
-/
import OdfModel.Dom
open OdfModel.Dom

structure St where
  heap : Heap
  ids : List Nat

def errName : Err → String
  | .IllegalChild => "IllegalChild" | .IllegalText => "IllegalText" | .AttributeError => "AttributeError"
  | .ValueError => "ValueError" | .NotFound => "NotFound" | .Hierarchy => "Hierarchy"
  | .KeyError => "KeyError" | .Other => "Other" | .RecursionError => "RecursionError"

def errOfName : String → Option Err
  | "IllegalChild" => some .IllegalChild | "IllegalText" => some .IllegalText
  | "AttributeError" => some .AttributeError | "ValueError" => some .ValueError
  | "NotFound" => some .NotFound | "Hierarchy" => some .Hierarchy
  | "KeyError" => some .KeyError | "Other" => some .Other
  | "RecursionError" => some .RecursionError
  | _ => none

def showOpt : Option Nat → String
  | none => "-"
  | some n => toString n

def kindName : Kind → String
  | .elem => "e" | .text => "t" | .cdata => "c"

def insertSorted (a : Nat × Nat) : List (Nat × Nat) → List (Nat × Nat)
  | [] => [a]
  | b :: r => if a.1 < b.1 || (a.1 == b.1 && a.2 ≤ b.2) then a :: b :: r else b :: insertSorted a r

def showNode (h : Heap) (i : Nat) : String :=
  let r := h i
  let attrs := r.attrs.foldr insertSorted []
  toString i ++ ":" ++ kindName r.kind ++ ":" ++ showOpt r.parent ++ ":" ++ showOpt r.prev ++ ":" ++ showOpt r.next
    ++ ":[" ++ String.intercalate "," (r.kids.map toString) ++ "]:{"
    ++ String.intercalate "," (attrs.map fun (k, v) => toString k ++ "=" ++ toString v) ++ "}"

def insertId (i : Nat) : List Nat → List Nat
  | [] => [i]
  | j :: r => if i < j then i :: j :: r else if i = j then j :: r else j :: insertId i r

def bool01 (s : String) : Option Bool :=
  if s = "1" then some true else if s = "0" then some false else none

def optId (s : String) : Option (Option Nat) :=
  if s = "-" then some none else s.toNat?.map some

def parseConv (s : String) : Option (Except Err Nat) :=
  match s.toList with
  | 'o' :: r => (String.ofList r).toNat?.map Except.ok
  | 'e' :: r => (errOfName (String.ofList r)).map Except.error
  | _ => none

def parseAttr (s : String) : Option AttrArg :=
  match s.splitOn ":" with
  | ["s", flags, key, conv] =>
    match flags.toList with
    | [a, b, c] => do
      let k ← bool01 (String.singleton a); let t ← bool01 (String.singleton b); let al ← bool01 (String.singleton c)
      let key ← key.toNat?; let conv ← parseConv conv
      pure (.viaSet k t al key conv)
    | _ => none
  | ["n", key, conv] => do
    let key ← key.toNat?; let conv ← parseConv conv
    pure (.viaNS key conv)
  | ["r", key, val] => do
    let key ← key.toNat?; let val ← val.toNat?
    pure (.raw key val)
  | _ => none

def parsePair (s : String) : Option (Option (Nat × Bool)) :=
  if s = "-" then some none else
  match s.splitOn ":" with
  | [a, b] => do let a ← a.toNat?; let b ← bool01 b; pure (some (a, b))
  | _ => none

/-- run one statement sequence of the model on the current heap -/
def exec (st : St) (newIds : List Nat) (m : M Unit) : St × String :=
  let (h', r) := m.run st.heap
  let st' : St := { heap := h', ids := newIds.foldl (fun acc i => insertId i acc) st.ids }
  match r with
  | .ok _ => (st', "ok")
  | .error e => (st', "err " ++ errName e)

def parseCtor (ws : List String) : Option (M Unit × List Nat) :=
  match ws with
  | self :: qn :: atx :: text :: cdata :: parent :: rest => do
    let self ← self.toNat?; let qn ← qn.toNat?; let atx ← bool01 atx
    let text ← parsePair text; let cdata ← optId cdata; let parent ← parsePair parent
    match rest with
    | nreq :: rest => do
      let nreq ← nreq.toNat?
      let req ← (rest.take nreq).mapM String.toNat?
      match rest.drop nreq with
      | na :: rest2 => do
        let na ← na.toNat?
        if rest2.length ≠ na then none
        let attrs ← rest2.mapM parseAttr
        let ids := [self] ++ (match text with | some (t, ne) => if atx && ne then [t] else [] | none => []) ++ (match cdata with | some c => if atx then [c] else [] | none => [])
        pure (construct self qn atx text cdata attrs req parent, ids)
      | [] => none
    | [] => none
  | _ => none

def handle (st : St) (line : String) : St × String :=
  let bad : St × String := (st, "err bad-line")
  match line.trimAscii.toString.splitOn " " with
  | ["reset"] => ({ heap := Heap.empty, ids := [] }, "ok")
  | ["snap"] =>
    -- the same heap, re-tabulated over the created ids (every other id holds the blank record), so
    -- that lookups do not walk the whole update history
    let recs := st.ids.map fun i => (i, st.heap i)
    let h' : Heap := ⟨recs⟩
    ({ st with heap := h' }, "ok " ++ String.intercalate " " (recs.map fun (i, _) => showNode h' i))
  | ["new", k, i, qn] =>
    match k, i.toNat?, qn.toNat? with
    | "e", some i, some qn => exec st [i] (step (.newNode i .elem qn))
    | _, _, _ => bad
  | ["new", k, i] =>
    match k, i.toNat? with
    | "t", some i => exec st [i] (step (.newNode i .text 0))
    | "c", some i => exec st [i] (step (.newNode i .cdata 0))
    | _, _ => bad
  | ["append", p, c] =>
    match p.toNat?, c.toNat? with
    | some p, some c => exec st [] (step (.append p c))
    | _, _ => bad
  | ["insb", p, n, r] =>
    match p.toNat?, n.toNat?, optId r with
    | some p, some n, some r => exec st [] (step (.insertBefore p n r))
    | _, _, _ => bad
  | ["rm", p, c] =>
    match p.toNat?, c.toNat? with
    | some p, some c => exec st [] (step (.remove p c))
    | _, _ => bad
  | ["adde", p, c, a] =>
    match p.toNat?, c.toNat?, bool01 a with
    | some p, some c, some a => exec st [] (step (.addElement p c a))
    | _, _, _ => bad
  | ["addt", p, t, a, ne] =>
    match p.toNat?, t.toNat?, bool01 a, bool01 ne with
    | some p, some t, some a, some ne => exec st (if a && ne then [t] else []) (step (.addText p t a ne))
    | _, _, _, _ => bad
  | ["addc", p, t, a] =>
    match p.toNat?, t.toNat?, bool01 a with
    | some p, some t, some a => exec st (if a then [t] else []) (step (.addCDATA p t a))
    | _, _, _ => bad
  | ["seta", e, k, t, a, key, conv] =>
    match e.toNat?, bool01 k, bool01 t, bool01 a, key.toNat?, parseConv conv with
    | some e, some k, some t, some a, some key, some conv => exec st [] (step (.setAttribute e k t a key conv))
    | _, _, _, _, _, _ => bad
  | ["setns", e, key, conv] =>
    match e.toNat?, key.toNat?, parseConv conv with
    | some e, some key, some conv => exec st [] (step (.setAttrNS e key conv))
    | _, _, _ => bad
  | ["rma", e, k, t, a, key] =>
    match e.toNat?, bool01 k, bool01 t, bool01 a, key.toNat? with
    | some e, some k, some t, some a, some key => exec st [] (step (.removeAttribute e k t a key))
    | _, _, _, _, _ => bad
  -- states reached by a caller's own pointer surgery (not by any modelled method): a record copy under a new id,
  -- a child struck from a child list by hand, a parent pointer assigned by hand
  | ["gcopy", i, s] =>
    match i.toNat?, s.toNat? with
    | some i, some s => exec st [i] (upd fun h => h.set i (h s))
    | _, _ => bad
  | ["gkids", p, c] =>
    match p.toNat?, c.toNat? with
    | some p, some c => exec st [] (upd fun h => setKids h p ((h p).kids.erase c))
    | _, _ => bad
  | ["gpar", c, p] =>
    match c.toNat?, p.toNat? with
    | some c, some p => exec st [] (upd fun h => setParent h c (some p))
    | _, _ => bad
  | "ctor" :: ws =>
    match parseCtor ws with
    | some (m, ids) => exec st ids m
    | none => bad
  | _ => (st, "err bad-op")

partial def loop (st : St) (inp : IO.FS.Stream) (out : IO.FS.Stream) : IO Unit := do
  let line ← inp.getLine
  if line.isEmpty then return ()
  let (st', ans) := handle st line
  out.putStrLn ans
  out.flush
  loop st' inp out

def main : IO Unit := do
  loop { heap := Heap.empty, ids := [] } (← IO.getStdin) (← IO.getStdout)

import OdfModel.GrammarData
import OdfModel.GrammarExceptions
import OdfModel.GrammarHist
open OdfModel OdfModel.GrammarExceptions OdfModel.Grammar OdfModel.GrammarApi OdfModel.GrammarData OdfModel.Generated

/-
  drv_grammar — line protocol (ids are decimal; lists are comma separated, `-` = empty, `*` = ANY)

    info                      ok nElems nSchemaElems nAttrs nSchemaAttrs nKws nDefs nDecls
    schema <e>                ok <isElem> <mayText> <mayElems> <mayAttrs> <mustAttrs>      (Lean semantics of the .rng)
    ename|aname|kname <i>     ok <name>
    add <chk> <p> <c>         ok | err IllegalChild          (any ids, also ids outside the tables = foreign elements)
    addrow <chk> <p>          ok <one char per child id: . accepted, C IllegalChild>
    text|cdata <chk> <e>      ok | err IllegalText
    setrow <chk> <e>          ok <per keyword of the keyword universe (kname order): attribute id | A (AttributeError) | V (ValueError)>
    ctor <chk> <e> <given>    ok | err AttributeError <missing attribute id>
    ctorkw <chk> <e> <given> <kws>   ok | err AttributeError kw <index> | err AttributeError missing <attribute id>
                              (<kws> = indices into the keyword universe, in the order the keywords are passed)
    hist <p> <ops>            ok <one char per call: . returned, C IllegalChild> <childNodes afterwards: ids, t = text node, - = none>
                              a history of calls on ONE parent (OdfModel.GrammarHist); <ops> comma separated:
                              c<id> addElement (checked), u<id> addElement(check_grammar=False), a<id> appendChild,
                              i<k>:<id> insertBefore(new, childNodes[k]), t addText(check_grammar=False), r<k> removeChild(childNodes[k])
    histrow <p> <ops> [<xs>]  ok <outcomes>/<childNodes> per child id X of the tables (or of the list <xs>); in <ops> the letter X stands for that id
    factories                 ok <element ids produced by the factories>
    exceptions | known        ok <kind|element|item> …      (the hand-written lists of GrammarExceptions.lean, by name)
    prefixes                  ok <excepted element-name prefixes>
-/

def kindName : Kind → String
  | .children => "children" | .text => "text" | .attrs => "attrs" | .required => "required" | .factory => "factory"

def showRow (r : Row) : String :=
  s!"{kindName r.kind}|{GrammarNamesCodec.decode r.elem}|{if r.item == NOITEM then "" else GrammarNamesCodec.decode r.item}"

def showRows (l : List Row) : String := if l.isEmpty then "ok" else "ok " ++ String.intercalate " " (l.map showRow)

def showList (l : List Nat) : String :=
  if l.isEmpty then "-" else String.intercalate "," (l.map fun x => if x == ANY then "*" else toString x)

def parseList (s : String) : Option (List Nat) :=
  if s == "-" then some [] else (s.splitOn ",").mapM String.toNat?

def b (x : Bool) : String := if x then "1" else "0"

def errName : Err → String
  | .IllegalChild => "IllegalChild" | .IllegalText => "IllegalText"
  | .AttributeError => "AttributeError" | .ValueError => "ValueError"

def parseOp (s : String) : Option GrammarHist.Op :=
  match s.toList with
  | 'c' :: r => (String.ofList r).toNat?.map (GrammarHist.Op.add true)
  | 'u' :: r => (String.ofList r).toNat?.map (GrammarHist.Op.add false)
  | 'a' :: r => (String.ofList r).toNat?.map GrammarHist.Op.append
  | 'r' :: r => (String.ofList r).toNat?.map GrammarHist.Op.remove
  | ['t'] => some GrammarHist.Op.text
  | 'i' :: r => match (String.ofList r).splitOn ":" with
      | [k, c] => match k.toNat?, c.toNat? with
          | some k, some c => some (GrammarHist.Op.insert k c)
          | _, _ => none
      | _ => none
  | _ => none

def showKids (l : List GrammarHist.Kid) : String :=
  if l.isEmpty then "-" else String.intercalate "," (l.map fun k => match k with | .elem q => toString q | .text => "t")

def showHist (p : Nat) (ops : List GrammarHist.Op) (sep : String) : String :=
  let r := GrammarHist.run T ⟨p, []⟩ ops
  String.ofList (r.1.map fun o => match o with | none => '.' | some _ => 'C') ++ sep ++ showKids r.2.kids

def histRow (p ops : String) (xs : Option (List Nat)) : String :=
  match p.toNat? with
  | some p => "ok " ++ String.intercalate " " ((xs.getD (List.range GrammarTables.nElems)).map fun x =>
      match ((ops.replace "X" (toString x)).splitOn ",").mapM parseOp with
      | some ops => showHist p ops "/"
      | none => "bad")
  | none => "err bad-arg"

def handle (line : String) : String :=
  match line.trimAscii.toString.splitOn " " with
  | ["info"] => s!"ok {GrammarTables.nElems} {GrammarSchema.nSchemaElems} {GrammarTables.nAttrs} {GrammarSchema.nSchemaAttrs} {GrammarTables.nKws} {GrammarSchema.nDefs} {GrammarSchema.nDecls}"
  | ["schema", e] => match e.toNat? with
      | some e => s!"ok {b (schema.isElem e)} {b (schema.mayText e)} {showList (dedup (schema.mayElems e))} {showList (dedup (schema.mayAttrs e))} {showList (dedup (schema.mustAttrs e))}"
      | none => "err bad-arg"
  | ["ename", i] => match i.toNat? with | some i => "ok " ++ GrammarNamesCodec.decode (elemName i) | none => "err bad-arg"
  | ["aname", i] => match i.toNat? with | some i => "ok " ++ GrammarNamesCodec.decode (attrName i) | none => "err bad-arg"
  | ["kname", i] => match i.toNat? with | some i => "ok " ++ GrammarNamesCodec.decode (kwName i) | none => "err bad-arg"
  | ["add", c, p, ch] => match c.toNat?, p.toNat?, ch.toNat? with
      | some c, some p, some ch => (match addElement T (c != 0) p ch with | .ok _ => "ok" | .error x => "err " ++ errName x)
      | _, _, _ => "err bad-arg"
  | ["addrow", c, p] => match c.toNat?, p.toNat? with
      | some c, some p => "ok " ++ String.ofList ((List.range GrammarTables.nElems).map fun ch =>
          match addElement T (c != 0) p ch with | .ok _ => '.' | .error _ => 'C')
      | _, _ => "err bad-arg"
  | ["text", c, e] => match c.toNat?, e.toNat? with
      | some c, some e => (match addText T (c != 0) e with | .ok _ => "ok" | .error x => "err " ++ errName x)
      | _, _ => "err bad-arg"
  | ["cdata", c, e] => match c.toNat?, e.toNat? with
      | some c, some e => (match addCDATA T (c != 0) e with | .ok _ => "ok" | .error x => "err " ++ errName x)
      | _, _ => "err bad-arg"
  | ["setrow", c, e] => match c.toNat?, e.toNat? with
      | some c, some e => "ok " ++ String.intercalate " " (GrammarNames.kwName.map fun k =>
          match setAttribute T (c != 0) e k with
          | .ok a => toString a | .error .ValueError => "V" | .error _ => "A")
      | _, _ => "err bad-arg"
  | ["ctor", c, e, g] => match c.toNat?, e.toNat?, parseList g with
      | some c, some e, some g => (match construct T (c != 0) e g with
          | .ok _ => "ok" | .error (x, r) => s!"err {errName x} {r}")
      | _, _, _ => "err bad-arg"
  | ["ctorkw", c, e, g, ks] => match c.toNat?, e.toNat?, parseList g, parseList ks with
      | some c, some e, some g, some ks =>
        let kws := ks.map fun i => GrammarNames.kwName[i]?.getD 0
        (match constructKw T (c != 0) e g kws with
          | .ok _ => "ok"
          | .error (.refusedKeyword kw) => s!"err AttributeError kw {GrammarNames.kwName.idxOf kw}"
          | .error (.missingRequired r) => s!"err AttributeError missing {r}")
      | _, _, _, _ => "err bad-arg"
  | ["hist", p, ops] => match p.toNat?, (ops.splitOn ",").mapM parseOp with
      | some p, some ops => "ok " ++ showHist p ops " "
      | _, _ => "err bad-arg"
  | ["histrow", p, ops] => histRow p ops none
  | ["histrow", p, ops, xs] => histRow p ops (parseList xs)
  | ["factories"] => "ok " ++ showList GrammarFactories.factoryQnames
  | ["exceptions"] => showRows Exceptions
  | ["known"] => showRows KnownFindings
  | ["prefixes"] => "ok " ++ String.intercalate " " (ExceptedPrefixes.map GrammarNamesCodec.decode)
  | _ => "err bad-op"

partial def loop (h : IO.FS.Stream) (out : IO.FS.Stream) : IO Unit := do
  let line ← h.getLine
  if line.isEmpty then return ()
  out.putStrLn (handle line)
  out.flush
  loop h out

def main : IO Unit := do
  loop (← IO.getStdin) (← IO.getStdout)

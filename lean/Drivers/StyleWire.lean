/-
  Wire codec for element trees (used by drv_styles and drv_render).
    node := "E" name nattrs (attr value)* nkids node*   |   "T" str
  names / attribute codes are decimal `Nat`s, strings are `Wire.enc` (hex code points joined by '.').
-/
import OdfModel.Styles
namespace Drivers.StyleWire
open OdfModel OdfModel.Styles

mutual
partial def parseNode : List String → Option (Node × List String)
  | "T" :: w :: rest => do let s ← Wire.dec w; pure (.text s, rest)
  | "E" :: nm :: na :: rest => do
      let name ← nm.toNat?
      let n ← na.toNat?
      let (attrs, rest) ← parseAttrs n rest []
      match rest with
      | nk :: rest => do
          let k ← nk.toNat?
          let (kids, rest) ← parseNodes k rest []
          pure (.elem name attrs kids, rest)
      | [] => none
  | _ => none
partial def parseAttrs : Nat → List String → Attrs → Option (Attrs × List String)
  | 0, rest, acc => some (acc.reverse, rest)
  | n+1, a :: v :: rest, acc => do
      let a ← a.toNat?
      let v ← Wire.dec v
      parseAttrs n rest ((a, v) :: acc)
  | _, _, _ => none
partial def parseNodes : Nat → List String → List Node → Option (List Node × List String)
  | 0, rest, acc => some (acc.reverse, rest)
  | n+1, rest, acc => do
      let (k, rest) ← parseNode rest
      parseNodes n rest (k :: acc)
end

partial def showNode : Node → List String
  | .text s => ["T", Wire.enc s]
  | .elem name attrs kids =>
      ["E", toString name, toString attrs.length]
        ++ attrs.flatMap (fun (a, v) => [toString a, Wire.enc v])
        ++ [toString kids.length] ++ kids.flatMap showNode

def showStrs (l : List Str) : String :=
  if l.isEmpty then "~" else String.intercalate " " (l.map Wire.enc)

def showBits (l : List Bool) : String :=
  if l.isEmpty then "~" else String.ofList (l.map (fun b => if b then '1' else '0'))

end Drivers.StyleWire

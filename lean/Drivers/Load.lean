import OdfModel.LoadSax
open OdfModel OdfModel.Xml OdfModel.LoadSax

/-! line protocol of the load layer (see harness/loadcommon.py, harness/c04.py, harness/c05.py)
  new                                        -> ok                 a fresh document (eight empty sections, empty style index)
  part <member name>                         -> ok                 a fresh LoadParser on the current document (doc._parsing = member name)
  S <ns> <local> <k> (<ns> <local> <value>)^k -> ok | err crash     startElementNS
  C <s>                                      -> ok                 characters
  E <ns> <local>                             -> ok | err crash     endElementNS
  endpart                                    -> ok                 the parser is dropped (open elements stay attached)
  spaces                                     -> ok <hex>*           the code points the model takes for Python's \\s
  dump                                       -> ok (<section> <k> (<ns> <local> <value>)^k <n> <tree>^n)^8   section attributes and children, in the order
                                                 meta scripts font-face-decls settings styles automatic-styles master-styles body
  state                                      -> ok parsing=<b> data=<s> root=<r> depth=<n> currdet=<b>
  fixxml <s>                                 -> ok <s>             __fixXmlPart
  savetrees <tv> <10 forests>                -> ok <content> | <styles> | <meta> | <settings or ->   the trees save writes
  normev / evtree are not needed: the harness produces the events itself
  tree := E <ns> <local> <k> (<ns> <local> <value>)^k <m> tree^m | T <s> | C <s>   (as Drivers/Xml.lean)
-/

mutual
partial def showNode : Node → String
  | .text s => "T " ++ Wire.enc s
  | .cdata s => "C " ++ Wire.enc s
  | .elem q attrs kids =>
    let as := attrs.map (fun (a : QName × Str) => Wire.enc a.1.ns ++ " " ++ Wire.enc a.1.loc ++ " " ++ Wire.enc a.2)
    let ks := showForest kids
    String.intercalate " " (["E", Wire.enc q.ns, Wire.enc q.loc, toString attrs.length] ++ as ++ [toString ks.length] ++ ks)
partial def showForest : Forest → List String
  | .nil => []
  | .cons h t => showNode h :: showForest t
end

def showSec (name : String) (attrs : List (QName × Str)) (f : Forest) : String :=
  let ks := showForest f
  let as := attrs.map (fun (a : QName × Str) => Wire.enc a.1.ns ++ " " ++ Wire.enc a.1.loc ++ " " ++ Wire.enc a.2)
  String.intercalate " " ([name, toString attrs.length] ++ as ++ [toString ks.length] ++ ks)

def showDoc (d : Doc) : String :=
  String.intercalate " " [showSec "meta" (d.sattrs .metaS) d.metaS, showSec "scripts" (d.sattrs .scripts) d.scripts,
    showSec "font-face-decls" (d.sattrs .fontFace) d.fontFace, showSec "settings" (d.sattrs .settings) d.settings,
    showSec "styles" (d.sattrs .styles) d.styles, showSec "automatic-styles" (d.sattrs .autoStyles) d.autoStyles,
    showSec "master-styles" (d.sattrs .master) d.master, showSec "body" (d.sattrs .body) d.body]

/-- the code points `isPySpace` accepts -/
def pySpaces : String := Id.run do
  let mut out : Array String := #[]
  for c in [0:0x110000] do
    if isPySpace c then out := out.push (Wire.toHex c)
  return String.intercalate " " out.toList

def showRoot : Root → String
  | .unset => "unset" | .none => "none" | .top => "top" | .det => "det"
  | .sec s => "sec:" ++ (match s with
      | .autoStyles => "automatic-styles" | .body => "body" | .fontFace => "font-face-decls" | .master => "master-styles"
      | .metaS => "meta" | .scripts => "scripts" | .settings => "settings" | .styles => "styles")

def parseAttrs : Nat → List String → Option (List (QName × Str) × List String)
  | 0, r => some ([], r)
  | n+1, a :: b :: c :: r => do
    let ns ← Wire.dec a; let l ← Wire.dec b; let v ← Wire.dec c
    let (rest, r') ← parseAttrs n r
    pure ((⟨ns, l⟩, v) :: rest, r')
  | _, _ => none

def parseEvent (toks : List String) : Option Event :=
  match toks with
  | ["C", w] => (Wire.dec w).map Event.chars
  | ["E", a, b] => do let ns ← Wire.dec a; let l ← Wire.dec b; pure (.stop ⟨ns, l⟩)
  | "S" :: a :: b :: k :: r => do
    let ns ← Wire.dec a; let l ← Wire.dec b; let n ← k.toNat?
    let (attrs, rest) ← parseAttrs n r
    if rest.isEmpty then pure (.start ⟨ns, l⟩ attrs) else none
  | _ => none

abbrev P := StateT (List String) Option

def tok : P String := do
  match (← get) with
  | [] => failure
  | t :: r => set r; pure t

def pstr : P Str := do
  match Wire.dec (← tok) with
  | some s => pure s
  | none => failure

def pnat : P Nat := do
  match (← tok).toNat? with
  | some n => pure n
  | none => failure

def rep {α} (p : P α) : Nat → P (List α)
  | 0 => pure []
  | n+1 => do let a ← p; let r ← rep p n; pure (a :: r)

def forestOfList : List Node → Forest
  | [] => .nil
  | h :: t => .cons h (forestOfList t)

partial def ptree : P Node := do
  match (← tok) with
  | "T" => return .text (← pstr)
  | "C" => return .cdata (← pstr)
  | "E" =>
    let ns ← pstr; let l ← pstr
    let k ← pnat
    let attrs ← rep (do let a ← pstr; let b ← pstr; let v ← pstr; pure ((⟨a, b⟩ : QName), v)) k
    let m ← pnat
    let kids ← rep ptree m
    return .elem ⟨ns, l⟩ attrs (forestOfList kids)
  | _ => failure

def pforest : P Forest := do
  let n ← pnat
  let ks ← rep ptree n
  pure (forestOfList ks)

/-- `savetrees <tv> <meta> <scripts> <fonts> <settings> <styles> <auto-unused> <master> <body> <usedC> <usedS>` (each a
    forest `<n> tree^n`) -> the four part trees -/
def saveTrees (toks : List String) : Option String :=
  let p : P String := do
    let tv ← pstr
    let m ← pforest; let sc ← pforest; let ff ← pforest; let se ← pforest; let st ← pforest
    let _au ← pforest; let ma ← pforest; let bo ← pforest; let uc ← pforest; let us ← pforest
    let d : Doc := { metaS := m, scripts := sc, fontFace := ff, settings := se, styles := st, master := ma, body := bo }
    pure (String.intercalate " | " [showNode (contentTree d uc), showNode (stylesTree d us), showNode (metaTree tv d),
      if writesSettings d then showNode (settingsTree d) else "-"])
  match p.run toks with
  | some (r, []) => some r
  | _ => none

structure Session where
  loaded : Loaded := {}
  cur : Option St := none
  crashed : Bool := false

def handle (s : Session) (line : String) : Session × String :=
  let toks := line.trimAscii.toString.splitOn " "
  match toks with
  | ["new"] => ({}, "ok")
  | ["part", f] =>
    match Wire.dec f with
    | none => (s, "err bad-arg")
    | some member =>
    let sp := stylesPartOf member
    ({ s with cur := some { doc := s.loaded.doc, names := s.loaded.names, fix := s.loaded.fix, stylesPart := sp }, crashed := false }, "ok")
  | ["endpart"] =>
    match s.cur with
    | some st => let t := settle st; ({ loaded := ⟨t.doc, t.names, t.fix⟩, cur := none, crashed := false }, "ok")
    | none => (s, "err no-part")
  | ["dump"] =>
    match s.cur with
    | some st => (s, "ok " ++ showDoc (settle st).doc)
    | none => (s, "ok " ++ showDoc s.loaded.doc)
  | ["state"] =>
    match s.cur with
    | some st => (s, "ok parsing=" ++ toString st.parsing ++ " data=" ++ Wire.enc st.data ++ " root=" ++ showRoot st.root ++
        " depth=" ++ toString st.spine.length ++ " currdet=" ++ toString st.currDet ++ " names=" ++
        String.intercalate "," (st.names.map Wire.enc))
    | none => (s, "err no-part")
  | "savetrees" :: rest =>
    match saveTrees rest with
    | some r => (s, "ok " ++ r)
    | none => (s, "err bad-arg")
  | ["spaces"] => (s, "ok " ++ pySpaces)
  | ["fixxml", w] =>
    match Wire.dec w with
    | some x => (s, "ok " ++ Wire.enc (fixXmlPart x))
    | none => (s, "err bad-arg")
  | _ =>
    match parseEvent toks with
    | none => (s, "err bad-op")
    | some ev =>
      if s.crashed then (s, "err crash") else
      match s.cur with
      | none => (s, "err no-part")
      | some st =>
        match step st ev with
        | some st' => ({ s with cur := some st' }, "ok")
        | none => ({ s with crashed := true }, "err crash")

partial def loop (h : IO.FS.Stream) (out : IO.FS.Stream) (s : Session) : IO Unit := do
  let line ← h.getLine
  if line.isEmpty then return ()
  let (s', r) := handle s line
  out.putStrLn r
  out.flush
  loop h out s'

def main : IO Unit := do
  loop (← IO.getStdin) (← IO.getStdout) {}

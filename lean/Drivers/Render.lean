/-
  drv_render — line-protocol driver for OdfModel.Render (property C12).
    run <tv> <ops> <doc>
       tv   TOOLSVERSION (wire string)
       ops  letters: S save, W write, X xml, C contentxml, Y stylesxml, M metaxml, T settingsxml,
            F / G a save()/write() that raised before / after metaxml() ran (output "N")
       doc  mimetype nTopAttrs (a v)* meta scripts ffd settings styles auto master body
            nPics (name mt id)*  nObjects (folder mimetype meta <7 nodes> nPics (name mt id)* nExtras (name mt (N | id))*)*
            thumb(N | id) thumbMediaType  nExtras (name mt (N | id))*
    -> ok ; <state> @ <output> ; <state> @ <output> ...      one group per call
       state  = "="  (document dump identical to the dump before the call)  |  "D" <doc>
       output = "X" <node>  |  "P" n (name ("x" <node> | "r" id | "b" str))*  |  "N"
  The style-reference configuration is built from the generated tables.
-/
import OdfModel.Render
import OdfModel.Generated.StyleRefs
import Drivers.StyleWire
open OdfModel OdfModel.Styles OdfModel.Render OdfModel.Generated.StyleRefs Drivers.StyleWire

abbrev P := StateT (List String) Option

def tok : P String := do
  match (← get) with
  | t :: r => set r; pure t
  | [] => failure

def pNat : P Nat := do let t ← tok; match t.toNat? with | some n => pure n | none => failure
def pStr : P Str := do let t ← tok; match Wire.dec t with | some s => pure s | none => failure
def pNode : P Node := do
  match parseNode (← get) with
  | some (n, r) => set r; pure n
  | none => failure
def pOptNat : P (Option Nat) := do
  let t ← tok
  if t == "N" then pure none else match t.toNat? with | some n => pure (some n) | none => failure

partial def pMany {α} (n : Nat) (p : P α) : P (List α) :=
  match n with
  | 0 => pure []
  | n+1 => do let x ← p; let r ← pMany n p; pure (x :: r)

def pPart : P Part := do
  let a ← pNode; let b ← pNode; let c ← pNode; let d ← pNode; let e ← pNode; let f ← pNode; let g ← pNode
  pure { scripts := a, ffd := b, settings := c, styles := d, auto := e, master := f, body := g }

def pPics : P Pics := do
  let n ← pNat
  pMany n (do let a ← pStr; let b ← pStr; let c ← pNat; pure (a, b, c))

def pExtras : P Extras := do
  let ne ← pNat
  pMany ne (do let a ← pStr; let b ← pStr; let c ← pOptNat; pure (a, b, c))

def pSub : P SubDoc := do
  let f ← pStr; let mt ← pStr; let m ← pNode; let p ← pPart; let ps ← pPics; let ex ← pExtras
  pure { folder := f, mimetype := mt, metaEl := m, part := p, pictures := ps, extras := ex }

def pDoc : P Doc := do
  let mt ← pStr
  let na ← pNat
  let ta ← pMany na (do let a ← pNat; let v ← pStr; pure (a, v))
  let m ← pNode
  let p ← pPart
  let ps ← pPics
  let no ← pNat
  let os ← pMany no pSub
  let th ← pOptNat
  let tt ← pStr
  let ex ← pExtras
  pure { mimetype := mt, topAttrs := ta, metaEl := m, part := p, pictures := ps, objects := os, thumbnail := th, thumbType := tt, extras := ex }

def showPart (p : Part) : List String :=
  showNode p.scripts ++ showNode p.ffd ++ showNode p.settings ++ showNode p.styles ++ showNode p.auto
    ++ showNode p.master ++ showNode p.body

def showPics (ps : Pics) : List String :=
  [toString ps.length] ++ ps.flatMap (fun (a, b, c) => [Wire.enc a, Wire.enc b, toString c])

def showOptNat : Option Nat → String
  | none => "N"
  | some n => toString n

def showExtras (ex : Extras) : List String :=
  [toString ex.length] ++ ex.flatMap (fun (a, b, c) => [Wire.enc a, Wire.enc b, showOptNat c])

def showDoc (d : Doc) : List String :=
  [Wire.enc d.mimetype, toString d.topAttrs.length] ++ d.topAttrs.flatMap (fun (a, v) => [toString a, Wire.enc v])
    ++ showNode d.metaEl ++ showPart d.part ++ showPics d.pictures
    ++ [toString d.objects.length]
    ++ d.objects.flatMap (fun o => [Wire.enc o.folder, Wire.enc o.mimetype] ++ showNode o.metaEl ++ showPart o.part
         ++ showPics o.pictures ++ showExtras o.extras)
    ++ [showOptNat d.thumbnail, Wire.enc d.thumbType] ++ showExtras d.extras

def showOut : Out → List String
  | .xml n => "X" :: showNode n
  | .pkg ms => ["P", toString ms.length] ++ ms.flatMap (fun (n, m) =>
      Wire.enc n :: (match m with
        | .xml r => "x" :: showNode r
        | .raw i => ["r", toString i]
        | .bytes s => ["b", Wire.enc s]))

def opOf : Char → Option Op
  | 'S' => some .save | 'W' => some .write | 'X' => some .xml | 'C' => some .contentxml
  | 'Y' => some .stylesxml | 'M' => some .metaxml | 'T' => some .settingsxml | _ => none

/-- `F` / `G`: a save()/write() that raised before / after `metaxml()` ran (`Render.Call`) -/
def callOf : Char → Option Call
  | 'F' => some .failedEarly | 'G' => some .failedLate | ch => (opOf ch).map Call.ok

def showOptOut : Option Out → List String
  | some o => showOut o
  | none => ["N"]

def runAll (c : Render.Cfg) : List Call → Doc → List String
  | [], _ => []
  | k :: r, d =>
    let o := outC c k d
    let d' := stepC c k d
    let before := showDoc d
    let after := showDoc d'
    [";"] ++ (if before == after then ["="] else "D" :: after) ++ ["@"] ++ showOptOut o ++ runAll c r d'

def handle (line : String) : String :=
  match line.trimAscii.toString.splitOn " " with
  | "run" :: tv :: ops :: toks =>
    match Wire.dec tv, ops.toList.mapM callOf, (pDoc.run toks) with
    | some tv, some ops, some (d, []) =>
      String.intercalate " " ("ok" :: runAll { followed := { single := followedAttrs, list := followedListAttrs, sp := fun c => pySpaceTable.contains c }, tv := tv } ops d)
    | _, _, _ => "err bad-arg"
  | _ => "err bad-op"

partial def loop (h : IO.FS.Stream) (out : IO.FS.Stream) : IO Unit := do
  let line ← h.getLine
  if line.isEmpty then return ()
  out.putStrLn (handle line)
  out.flush
  loop h out

def main : IO Unit := do
  loop (← IO.getStdin) (← IO.getStdout)

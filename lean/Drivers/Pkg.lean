/-
  drv_pkg — line-protocol driver of OdfModel.Pkg (properties C03, C16).

  Strings and byte strings travel as `Wire.enc` (hex code points joined by '.', '-' = empty), `~` = None.
  A document in prefix form:
    D <id> <mimetype> <hasSettings 0|1> <npics> {<href> <F|I> <filename|bytes> <mediatype>}
      <thumbnail|~> <thumbnail media type> <nextras> {<filename> <mediatype> <bytes|~>} <folder> <nkids> {Doc}
  (in a request the pictures are the REGISTRATION sequence; the model applies the dict store)

  requests
    save <Doc>                                            → ok <listing>
    hist <Doc root> <npool> {Doc} <nops> {<parent> <child> <name|~>}
                                                          → ok parentsFirst=<0|1> R {<child> <ref> <resolves 0|1> | E} ; <listing>
                                                            (E = that addObject call raised ValueError)
    load <mimetype|~> <nman> {<path> <mediatype>} <nmem> {<name> <bytes>} <nset> {<name>}
                                                          → ok <Doc> ; <listing of save (load p)>
  listing:  {Z <name> <S|D> <extra> <content>} {M <path> <mediatype> <F|f>}
  content:  b:<bytes> | f:<filename> | p:<styles|content|settings|meta>:<id> | m
-/
import OdfModel.Pkg
open OdfModel OdfModel.Pkg

abbrev P := StateT (List String) Option

def tok : P String := do
  match (← get) with
  | [] => failure
  | t :: ts => set ts; pure t

def pStr : P Str := do
  match Wire.dec (← tok) with
  | some s => pure s
  | none => failure

def pOptStr : P (Option Str) := do
  let t ← tok
  if t == "~" then pure none else
  match Wire.dec t with
  | some s => pure (some s)
  | none => failure

def pNat : P Nat := do
  match (← tok).toNat? with
  | some n => pure n
  | none => failure

def pMany {α} (p : P α) : Nat → P (List α)
  | 0 => pure []
  | n+1 => do let a ← p; let r ← pMany p n; pure (a :: r)

def pPic : P Pic := do
  let href ← pStr
  let k ← tok
  let data ← pStr
  let mt ← pStr
  if k == "F" then pure ⟨href, .file data, mt⟩
  else if k == "I" then pure ⟨href, .image data, mt⟩
  else failure

def pExtra : P Extra := do
  let fn ← pStr
  let mt ← pStr
  let c ← pOptStr
  pure ⟨fn, mt, c⟩

partial def pDoc : P Doc := do
  let t ← tok
  if t != "D" then failure
  let id ← pNat
  let mt ← pStr
  let hs ← pNat
  let np ← pNat
  let pics ← pMany pPic np
  let th ← pOptStr
  let thmt ← pStr
  let ne ← pNat
  let ex ← pMany pExtra ne
  let fo ← pStr
  let nk ← pNat
  let kids ← pMany pDoc nk
  pure ⟨id, mt, hs == 1, pics.foldl register [], th.map (fun b => ⟨b, thmt⟩), ex, fo, kids⟩

def pOp : P Op := do
  let p ← pNat
  let c ← pNat
  let n ← pOptStr
  pure ⟨p, c, n⟩

def showOpt : Option Str → String
  | none => "~"
  | some s => Wire.enc s

def showContent : Content → String
  | .bytes b => "b:" ++ Wire.enc b
  | .file f => "f:" ++ Wire.enc f
  | .part .styles i => "p:styles:" ++ toString i
  | .part .content i => "p:content:" ++ toString i
  | .part .settings i => "p:settings:" ++ toString i
  | .part .metadata i => "p:meta:" ++ toString i
  | .manifestXml => "m"

def showZE (e : ZE) : String :=
  "Z " ++ Wire.enc e.name ++ " " ++ (match e.method with | .stored => "S" | .deflated => "D") ++ " "
    ++ Wire.enc e.extra ++ " " ++ showContent e.content

def showME (e : ME) : String :=
  "M " ++ Wire.enc e.path ++ " " ++ Wire.enc e.mediatype ++ " " ++ (if e.isFolder then "F" else "f")

def showOut (o : Out) : String :=
  String.intercalate " " (o.zip.map showZE ++ o.man.map showME)

def showPic (p : Pic) : String :=
  Wire.enc p.href ++ " " ++ (match p.src with
    | .file f => "F " ++ Wire.enc f
    | .image b => "I " ++ Wire.enc b) ++ " " ++ Wire.enc p.mediatype

def showExtra (e : Extra) : String :=
  Wire.enc e.filename ++ " " ++ Wire.enc e.mediatype ++ " " ++ showOpt e.content

partial def showDoc (d : Doc) : String :=
  String.intercalate " " (
    ["D", toString d.id, Wire.enc d.mimetype, (if d.hasSettings then "1" else "0"), toString d.pictures.length]
    ++ d.pictures.map showPic ++ [showOpt (d.thumbnail.map (·.content)), Wire.enc ((d.thumbnail.map (·.mediatype)).getD []), toString d.extras.length] ++ d.extras.map showExtra
    ++ [Wire.enc d.folder, toString d.children.length] ++ d.children.map showDoc)

/-- runs the ops one by one; a ValueError is reported as `E` for that op and the history goes on -/
def runOps (h : Hist) : List Op → List Bool → Option (Hist × List Bool)
  | [], acc => some (h, acc.reverse)
  | op :: ops, acc => match step h op with
    | .ok h' => runOps h' ops (true :: acc)
    | .valueError => runOps h ops (false :: acc)
    | .unsupported => none

def pHist : P String := do
  let root ← pDoc
  let np ← pNat
  let pool ← pMany pDoc np
  let no ← pNat
  let ops ← pMany pOp no
  let h0 : Hist := ⟨root, pool, []⟩
  match runOps h0 ops [] with
  | none => pure "err unsupported"
  | some (h, oks) =>
    let out := save h.root
    let rec fmt : List Bool → List (Nat × Str × Str) → List String
      | [], _ => []
      | false :: bs, rs => "E" :: fmt bs rs
      | true :: bs, (c, mt, r) :: rs =>
        (toString c ++ " " ++ Wire.enc r ++ " " ++ (if refResolves out r c mt then "1" else "0")) :: fmt bs rs
      | true :: _, [] => ["?"]
    pure ("ok parentsFirst=" ++ (if parentsFirst h0 ops then "1" else "0") ++ " R "
          ++ String.intercalate " " (fmt oks h.refs) ++ " ; " ++ showOut out)

def pLoad : P String := do
  let mt ← pOptStr
  let nm ← pNat
  let man ← pMany (do let a ← pStr; let b ← pStr; pure (a, b)) nm
  let nz ← pNat
  let mem ← pMany (do let a ← pStr; let b ← pStr; pure (a, b)) nz
  let ns ← pNat
  let sets ← pMany pStr ns
  match load ⟨mt, man, mem, sets⟩ with
  | none => pure "err raises"
  | some d => pure ("ok " ++ showDoc d ++ " ; " ++ showOut (save d))

def handle (line : String) : String :=
  match line.trimAscii.toString.splitOn " " with
  | "save" :: rest => match pDoc.run rest with
      | some (d, []) => "ok " ++ showOut (save d)
      | _ => "err bad-arg"
  | "hist" :: rest => match pHist.run rest with
      | some (r, []) => r
      | _ => "err bad-arg"
  | "load" :: rest => match pLoad.run rest with
      | some (r, []) => r
      | _ => "err bad-arg"
  | _ => "err bad-op"

partial def loop (h : IO.FS.Stream) (out : IO.FS.Stream) : IO Unit := do
  let line ← h.getLine
  if line.isEmpty then return ()
  out.putStrLn (handle line)
  out.flush
  loop h out

def main : IO Unit := do
  loop (← IO.getStdin) (← IO.getStdout)

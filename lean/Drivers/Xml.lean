import OdfModel.Spec.XmlParse
import OdfModel.Ns
open OdfModel OdfModel.Xml OdfModel.Spec OdfModel.Ns

/-! line protocol of the XML layer (see harness/xmlcorr.py)
  text <s> | cdata <s> | attr <s>            -> ok <s>          the three encoders
  classes text|attr|cdata                    -> ok <rle>        per-code-point behaviour over ALL code points
  print <tbl> <tree>                         -> ok <s>          toXml(0) of the tree with namespace table tbl
  render <tbl> <tree>                        -> ok <s>          prologue + toXml(0)
  parse <s>                                  -> ok <tree> | err the reference parser
  tbl  := <n> (<ns> <prefix>)^n ;  tree := E <ns> <local> <k> (<ns> <local> <value>)^k <m> tree^m | T <s> | C <s>
-/

abbrev P := StateT (List String) Option

def tok : P String := do
  match (← get) with
  | [] => failure
  | t :: r => set r; pure t

def str : P Str := do
  match Wire.dec (← tok) with
  | some s => pure s
  | none => failure

def nat : P Nat := do
  match (← tok).toNat? with
  | some n => pure n
  | none => failure

def rep {α} (p : P α) : Nat → P (List α)
  | 0 => pure []
  | n+1 => do let a ← p; let r ← rep p n; pure (a :: r)

def forestOfList : List Node → Forest
  | [] => .nil
  | h :: t => .cons h (forestOfList t)

partial def tree : P Node := do
  match (← tok) with
  | "T" => return .text (← str)
  | "C" => return .cdata (← str)
  | "E" =>
    let ns ← str; let l ← str
    let k ← nat
    let attrs ← rep (do let a ← str; let b ← str; let v ← str; pure ((⟨a, b⟩ : QName), v)) k
    let m ← nat
    let kids ← rep tree m
    return .elem ⟨ns, l⟩ attrs (forestOfList kids)
  | _ => failure

def table : P NsTable := do
  let n ← nat
  rep (do let a ← str; let b ← str; pure (a, b)) n

mutual
partial def showNode : Node → String
  | .text s => "T " ++ Wire.enc s
  | .cdata s => "C " ++ Wire.enc s
  | .elem q attrs kids =>
    let as := attrs.map (fun (a : QName × Str) => Wire.enc a.1.ns ++ " " ++ Wire.enc a.1.loc ++ " " ++ Wire.enc a.2)
    let ks := showForest kids
    String.intercalate " " (["E", Wire.enc q.ns, Wire.enc q.loc, toString attrs.length] ++ as ++ [toString ks.length] ++ ks)
partial def showForest : Forest → List String
  | .nil => []
  | .cons h t => showNode h :: showForest t
end

/-- per-code-point classes over the whole code space, run-length encoded: `lo-hi:class` where class is
    `=` (unchanged), `F` (U+FFFD) or the hex of the output -/
def classOf (f : Cp → Str) (c : Cp) : String :=
  let o := f c
  if o == [c] then "=" else if o == [0xFFFD] then "F" else Wire.enc o

def rle (f : Cp → Str) : String := Id.run do
  let mut out : Array String := #[]
  let mut lo := 0
  let mut cur := classOf f 0
  for c in [1:0x110000] do
    let k := classOf f c
    if k != cur then
      out := out.push (Wire.toHex lo ++ "-" ++ Wire.toHex (c-1) ++ ":" ++ cur)
      lo := c; cur := k
  out := out.push (Wire.toHex lo ++ "-" ++ Wire.toHex 0x10ffff ++ ":" ++ cur)
  return String.intercalate " " out.toList

/-- strip the quotes chosen by quoteattr so that a single character's class is comparable -/
def handle (line : String) : String :=
  match line.trimAscii.toString.splitOn " " with
  | ["text", w] => match Wire.dec w with | some s => "ok " ++ Wire.enc (textToXml s) | none => "err bad-arg"
  | ["cdata", w] => match Wire.dec w with | some s => "ok " ++ Wire.enc (cdataToXml s) | none => "err bad-arg"
  | ["attr", w] => match Wire.dec w with | some s => "ok " ++ Wire.enc (quoteattr s) | none => "err bad-arg"
  | ["classes", "text"] => "ok " ++ rle (fun c => textToXml [c])
  | ["classes", "attr"] => "ok " ++ rle (fun c => ((quoteattr [c]).drop 1).dropLast)
  | ["classes", "attrquote"] => "ok " ++ rle (fun c => (quoteattr [c]).take 1)
  | ["classes", "cdata"] => "ok " ++ rle (fun c => (((cdataToXml [c]).drop 9).reverse.drop 3).reverse)
  | "print" :: rest =>
    match (do let t ← table; let n ← tree; pure (t, n) : P _).run rest with
    | some ((t, n), []) => "ok " ++ Wire.enc (printNode (rawRoot t n))
    | _ => "err bad-arg"
  | "renderpart" :: rest =>
    match (do let t ← table; let n ← tree; pure (t, n) : P _).run rest with
    | some ((t, .elem q attrs kids), []) => "ok " ++ Wire.enc (renderPart t q attrs kids)
    | _ => "err bad-arg"
  | "render" :: rest =>
    match (do let t ← table; let n ← tree; pure (t, n) : P _).run rest with
    | some ((t, n), []) => "ok " ++ Wire.enc (render t n)
    | _ => "err bad-arg"
  | "nsrun" :: rest =>
    -- a history of get_nsprefix calls from the initial table: the prefixes returned and the final Element.namespaces
    match rest.mapM Wire.dec with
    | some nss =>
      let step := fun (acc : NsState × List Str) ns => let r := getNsPrefix acc.1 ns; (r.1, acc.2 ++ [r.2])
      let (st, ps) := nss.foldl step (initial, [])
      "ok " ++ String.intercalate " " (ps.map Wire.enc) ++ " | " ++
        String.intercalate " " (st.seen.map (fun e => Wire.enc e.1 ++ " " ++ Wire.enc e.2))
    | none => "err bad-arg"
  | ["saveprefix", w] =>
    -- __save_prefix on the initial table: which namespace gets registered for this value
    match Wire.dec w with
    | some v => "ok " ++ String.intercalate " " ((savePrefix initial v).seen.map (fun e => Wire.enc e.1 ++ " " ++ Wire.enc e.2))
    | none => "err bad-arg"
  | ["parse", w] => match Wire.dec w with
    | some s => match parseDoc s with
      | some n => "ok " ++ showNode n
      | none => "err reject"
    | none => "err bad-arg"
  | _ => "err bad-op"

partial def loop (h : IO.FS.Stream) (out : IO.FS.Stream) : IO Unit := do
  let line ← h.getLine
  if line.isEmpty then return ()
  out.putStrLn (handle line)
  out.flush
  loop h out

def main : IO Unit := do
  loop (← IO.getStdin) (← IO.getStdout)

import OdfModel.Entity
import OdfModel.EntityEnc
import OdfModel.EntityDamage
/-
  drv_entity — line protocol for the C13 model (OdfModel.Entity + the regenerated parse-site inventory).

    kind <ep> <obj> <part>                          -> ok defused-sax | defused-dom | defused-other | plain | none
    order <ep> <n> <file>*n <k> <manifest entry>*k  -> ok <member path>*   (members handed to a parser, in order)
    read <ep> <target> <decl> <ext> <n> <file>*n <k> <entry>*k
                                                     -> err forbidden-entities | err forbidden-external | err missing
                                                        | err no-parser | ok clean | ok expanded
       the package has the XML members <file>*, all clean except <target>, whose DOCTYPE declares an entity
       (<decl> = 1) and/or names an external subset (<ext> = 1); parser behaviour = `Entity.observed`
    readenc <ep> <target> <decl> <ext> <utf8> <n> <file>*n <k> <entry>*k
                                                     -> err undecodable | (as `read`)
       as `read`, the bytes of <target> being valid UTF-8 (<utf8> = 1) or not (<utf8> = 0: UTF-16 with a byte order
       mark, an 8-bit encoding with a non-ASCII byte, ...): `Entity.readE` of OdfModel.EntityEnc
    readdmg <ep> <target> <decl> <ext> <damaged> <n> <file>*n <k> <entry>*k
                                                     -> err not-well-formed | (as `read`)
       as `read`, the member <damaged> being not well-formed XML (empty, truncated, broken markup): `Entity.readD` of
       OdfModel.EntityDamage
    sites                                            -> ok <number of library sites> <number of script sites>
-/
open OdfModel OdfModel.Entity

def partOfCode : Nat → Option Part
  | 0 => some .manifest | 1 => some .settings | 2 => some .metadata | 3 => some .content | 4 => some .styles
  | _ => none

def showKind : Option Kind → String
  | none => "none"
  | some .plain => "plain"
  | some (.defused .sax) => "defused-sax"
  | some (.defused .dom) => "defused-dom"
  | some (.defused .other) => "defused-other"

def decList (ws : List String) : Option (List Str) := ws.mapM Wire.dec

/-- `<n> <w>*n <k> <w>*k` -/
def parsePkgArgs (ws : List String) : Option (List Str × List Str) := do
  match ws with
  | [] => none
  | n :: rest =>
    let n ← n.toNat?
    let files ← decList (rest.take n)
    match rest.drop n with
    | [] => none
    | k :: rest2 =>
      let k ← k.toNat?
      if rest2.length != k then none else
      let man ← decList rest2
      pure (files, man)

def showErr : Err → String
  | .entitiesForbidden => "forbidden-entities"
  | .externalReferenceForbidden => "forbidden-external"
  | .missing => "missing"
  | .noParser => "no-parser"

def handle (line : String) : String :=
  match line.trimAscii.toString.splitOn " " with
  | ["sites"] => s!"ok {Generated.ParseSites.sites.length} {Generated.ParseSites.scriptSites.length}"
  | ["kind", ep, obj, pt] =>
    match ep.toNat? >>= EP.ofCode, Wire.dec obj, pt.toNat? >>= partOfCode with
    | some ep, some obj, some pt => "ok " ++ showKind (kind ep ⟨obj, pt⟩)
    | _, _, _ => "err bad-arg"
  | "order" :: ep :: rest =>
    match ep.toNat? >>= EP.ofCode, parsePkgArgs rest with
    | some ep, some (files, man) =>
      let p : Pkg := { files := files.map (fun f => (f, XmlMember.clean)), manifest := man }
      let ms := (readOrder ep p).filter (fun m => (p.lookup m.path).isSome)
      "ok" ++ String.join (ms.map (fun m => " " ++ Wire.enc m.path))
    | _, _ => "err bad-arg"
  | "read" :: ep :: target :: decl :: ext :: rest =>
    match ep.toNat? >>= EP.ofCode, Wire.dec target, parsePkgArgs rest with
    | some ep, some target, some (files, man) =>
      let bad : XmlMember := ⟨decl == "1", ext == "1"⟩
      let p : Pkg := { files := files.map (fun f => (f, if f == target then bad else XmlMember.clean)), manifest := man }
      match read observed Prep.id ep p with
      | .error e => "err " ++ showErr e
      | .ok os => if os.any (·.expanded) then "ok expanded" else "ok clean"
    | _, _, _ => "err bad-arg"
  | "readenc" :: ep :: target :: decl :: ext :: utf8 :: rest =>
    match ep.toNat? >>= EP.ofCode, Wire.dec target, parsePkgArgs rest with
    | some ep, some target, some (files, man) =>
      let bad : XmlMember := ⟨decl == "1", ext == "1"⟩
      let p : PkgE := { pkg := { files := files.map (fun f => (f, if f == target then bad else XmlMember.clean)), manifest := man },
                        notUtf8 := if utf8 == "1" then [] else [target] }
      match readE observed Prep.id ep p with
      | .error .undecodable => "err undecodable"
      | .error (.refused e) => "err " ++ showErr e
      | .ok os => if os.any (·.expanded) then "ok expanded" else "ok clean"
    | _, _, _ => "err bad-arg"
  | "readdmg" :: ep :: target :: decl :: ext :: dmg :: rest =>
    match ep.toNat? >>= EP.ofCode, Wire.dec target, Wire.dec dmg, parsePkgArgs rest with
    | some ep, some target, some dmg, some (files, man) =>
      let bad : XmlMember := ⟨decl == "1", ext == "1"⟩
      let p : PkgD := { pkg := { files := files.map (fun f => (f, if f == target then bad else XmlMember.clean)), manifest := man },
                        damaged := [dmg] }
      match readD observed Prep.id ep p with
      | .error .notWellFormed => "err not-well-formed"
      | .error (.refused e) => "err " ++ showErr e
      | .ok os => if os.any (·.expanded) then "ok expanded" else "ok clean"
    | _, _, _, _ => "err bad-arg"
  | _ => "err bad-op"

partial def loop (h : IO.FS.Stream) (out : IO.FS.Stream) : IO Unit := do
  let line ← h.getLine
  if line.isEmpty then return ()
  out.putStrLn (handle line)
  out.flush
  loop h out

def main : IO Unit := do
  loop (← IO.getStdin) (← IO.getStdout)

/-
  OdfModel.Moin — model of the MoinMoin converter odf/odf2moinmoin.py (class ODF2MoinMoin), property C18.

  Input: the two minidom documents the converter parses (styles.xml, content.xml) as trees of
  (tagName, attributes by qualified name, children) and text nodes — `Xhtml.Node` is reused for that.

    load                    → `loadStyles`  (processFontDeclarations, processStyles, processListStyles on styles.xml,
                              then on content.xml; dict updates = newest binding first)
    extractTextProperties   → `textProps`   (the `parent` argument has no effect in the source: `textProp = parentProp`)
    extractParagraphProperties → `paraProps` (heading level is computed but never used: left out)
    _elements               → `elems` (toString: first element child of office:body; the loops of toString, listToString and
                              tableToString skip text nodes)
    toString                → `toString` (`topStr`: the children with a tag in [draw:page, text:p, text:h, text:list,
                              table:table] + CONTAINER_TAGS; lists first, then the containers, tables, paragraphs)
    CONTAINER_TAGS          → `isContainer` (generated `moinContainer`): textToString of the element, in toString and in
                              textToString (af61005)
    textToString            → `kidsStr` (the loop) / `nodeStr` (one child)
    paragraphToString       → `paraPost` applied to the inline_markup of the paragraph
    inline_markup           → `inlineMarkup` applied to the textToString of the node
    listToString            → `itemsStr` / `subitemsStr`
    tableToString           → `rowsStr` / `cellsStr`
    draw_image, text_note, text_s, text_tab, text_line_break, do_nothing, text_a (dead: text:a is in INLINE_TAGS, so the
    dict entry is overwritten by inline_markup) — dispatched through the generated `moinElements`
  State threaded through the recursion: `lastsegment`, `hasTitle`, `footnotes`.
  `str.strip()` = `pyStrip` (Python's `str.isspace` set).  `int()` on ASCII digit strings only; `float()` (margin-left) on
  `digits[.digits]` only — other spellings give `Err.unmodelled`; style:text-position other than ''/sub/super: unmodelled.
  text_note is modelled for the shape [text:note-citation […], text:note-body […]] (direct children, in this order): the label is
  the text of the citation's text children, the whole body goes through textToString.
-/
import OdfModel.Xhtml
namespace OdfModel.Moin
open OdfModel OdfModel.Xml OdfModel.Generated.Xhtml
open OdfModel.Xhtml (Node Attrs Err M pyInt)

def tTextBox : Str := [100, 114, 97, 119, 58, 116, 101, 120, 116, 45, 98, 111, 120]  -- draw:text-box
def tFrame : Str := [100, 114, 97, 119, 58, 102, 114, 97, 109, 101]  -- draw:frame
def tP : Str := [116, 101, 120, 116, 58, 112]  -- text:p
def tH : Str := [116, 101, 120, 116, 58, 104]  -- text:h
def tList : Str := [116, 101, 120, 116, 58, 108, 105, 115, 116]  -- text:list
def tSection : Str := [116, 101, 120, 116, 58, 115, 101, 99, 116, 105, 111, 110]  -- text:section
def tTable : Str := [116, 97, 98, 108, 101, 58, 116, 97, 98, 108, 101]  -- table:table
def tPage : Str := [100, 114, 97, 119, 58, 112, 97, 103, 101]  -- draw:page
def tHeaderRows : Str := [116, 97, 98, 108, 101, 58, 116, 97, 98, 108, 101, 45, 104, 101, 97, 100, 101, 114, 45, 114, 111, 119, 115]  -- table:table-header-rows
def tRow : Str := [116, 97, 98, 108, 101, 58, 116, 97, 98, 108, 101, 45, 114, 111, 119]  -- table:table-row
def tNote : Str := [116, 101, 120, 116, 58, 110, 111, 116, 101]  -- text:note
def tCitation : Str := [116, 101, 120, 116, 58, 110, 111, 116, 101, 45, 99, 105, 116, 97, 116, 105, 111, 110]  -- text:note-citation
def tNoteBody : Str := [116, 101, 120, 116, 58, 110, 111, 116, 101, 45, 98, 111, 100, 121]  -- text:note-body
def tBody : Str := [111, 102, 102, 105, 99, 101, 58, 98, 111, 100, 121]  -- office:body
def tStyle : Str := [115, 116, 121, 108, 101, 58, 115, 116, 121, 108, 101]  -- style:style
def tListStyle : Str := [116, 101, 120, 116, 58, 108, 105, 115, 116, 45, 115, 116, 121, 108, 101]  -- text:list-style
def tLevelNumber : Str := [116, 101, 120, 116, 58, 108, 105, 115, 116, 45, 108, 101, 118, 101, 108, 45, 115, 116, 121, 108, 101, 45, 110, 117, 109, 98, 101, 114]  -- text:list-level-style-number
def tFontDecls : Str := [111, 102, 102, 105, 99, 101, 58, 102, 111, 110, 116, 45, 102, 97, 99, 101, 45, 100, 101, 99, 108, 115]  -- office:font-face-decls
def tFontFace : Str := [115, 116, 121, 108, 101, 58, 102, 111, 110, 116, 45, 102, 97, 99, 101]  -- style:font-face
def tTextProps : Str := [115, 116, 121, 108, 101, 58, 116, 101, 120, 116, 45, 112, 114, 111, 112, 101, 114, 116, 105, 101, 115]  -- style:text-properties
def tParaProps : Str := [115, 116, 121, 108, 101, 58, 112, 97, 114, 97, 103, 114, 97, 112, 104, 45, 112, 114, 111, 112, 101, 114, 116, 105, 101, 115]  -- style:paragraph-properties
def kStyleName : Str := [116, 101, 120, 116, 58, 115, 116, 121, 108, 101, 45, 110, 97, 109, 101]  -- text:style-name
def kOutline : Str := [116, 101, 120, 116, 58, 111, 117, 116, 108, 105, 110, 101, 45, 108, 101, 118, 101, 108]  -- text:outline-level
def kHref : Str := [120, 108, 105, 110, 107, 58, 104, 114, 101, 102]  -- xlink:href
def kC : Str := [116, 101, 120, 116, 58, 99]  -- text:c
def kSName : Str := [115, 116, 121, 108, 101, 58, 110, 97, 109, 101]  -- style:name
def kFamily : Str := [115, 116, 121, 108, 101, 58, 102, 97, 109, 105, 108, 121]  -- style:family
def kFontStyle : Str := [102, 111, 58, 102, 111, 110, 116, 45, 115, 116, 121, 108, 101]  -- fo:font-style
def kFontWeight : Str := [102, 111, 58, 102, 111, 110, 116, 45, 119, 101, 105, 103, 104, 116]  -- fo:font-weight
def kUnderline : Str := [115, 116, 121, 108, 101, 58, 116, 101, 120, 116, 45, 117, 110, 100, 101, 114, 108, 105, 110, 101, 45, 115, 116, 121, 108, 101]  -- style:text-underline-style
def kLineThrough : Str := [115, 116, 121, 108, 101, 58, 116, 101, 120, 116, 45, 108, 105, 110, 101, 45, 116, 104, 114, 111, 117, 103, 104, 45, 115, 116, 121, 108, 101]  -- style:text-line-through-style
def kTextPosition : Str := [115, 116, 121, 108, 101, 58, 116, 101, 120, 116, 45, 112, 111, 115, 105, 116, 105, 111, 110]  -- style:text-position
def kFontName : Str := [115, 116, 121, 108, 101, 58, 102, 111, 110, 116, 45, 110, 97, 109, 101]  -- style:font-name
def kFontPitch : Str := [115, 116, 121, 108, 101, 58, 102, 111, 110, 116, 45, 112, 105, 116, 99, 104]  -- style:font-pitch
def kMarginLeft : Str := [102, 111, 58, 109, 97, 114, 103, 105, 110, 45, 108, 101, 102, 116]  -- fo:margin-left
def sStandard : Str := [83, 116, 97, 110, 100, 97, 114, 100]  -- Standard
def sTitle : Str := [84, 105, 116, 108, 101]  -- Title
def sText : Str := [116, 101, 120, 116]  -- text
def sParagraph : Str := [112, 97, 114, 97, 103, 114, 97, 112, 104]  -- paragraph
def sItalic : Str := [105, 116, 97, 108, 105, 99]  -- italic
def sBold : Str := [98, 111, 108, 100]  -- bold
def sNormal : Str := [110, 111, 114, 109, 97, 108]  -- normal
def sNone : Str := [110, 111, 110, 101]  -- none
def sFixed : Str := [102, 105, 120, 101, 100]  -- fixed
def sSub : Str := [115, 117, 98]  -- sub
def sSuper : Str := [115, 117, 112, 101, 114]  -- super
def sBR : Str := [91, 91, 66, 82, 93, 93]  -- [[BR]]
def sTab4 : Str := [32, 32, 32, 32]  --     
def sImageOpen : Str := [91, 91, 73, 109, 97, 103, 101, 40]  -- [[Image(
def sImageClose : Str := [41, 93, 93, 10]  -- )]]\n
def sPictures : Str := [80, 105, 99, 116, 117, 114, 101, 115, 47]  -- Pictures/
def sDotSlash : Str := [46, 47]  -- ./
def sOrdered : Str := [32, 49, 46, 32]  --  1. 
def sBullet : Str := [32, 42, 32]  --  * 
def sRowStart : Str := [10, 124, 124]  -- \n||
def sCellEnd : Str := [124, 124]  -- ||
def sRule : Str := [45, 45, 45, 45]  -- ----
def sCodeOpen : Str := [123, 123, 123, 10]  -- {{{\n
def sCodeClose : Str := [10, 125, 125, 125, 10]  -- \n}}}\n
def sTitleOpen : Str := [61, 32]  -- = 
def sTitleClose : Str := [32, 61, 10]  --  =\n
def sUnknownOpen : Str := [32, 123]  --  {
def sUnknownClose : Str := [125, 32]  -- } 

structure TextProps where
  italic : Bool := false
  bold : Bool := false
  fixed : Bool := false
  underlined : Bool := false
  strikethrough : Bool := false
  superscript : Bool := false
  subscript : Bool := false
  deriving Repr, DecidableEq

structure ParaProps where
  code : Bool := false
  title : Bool := false
  indented : Bool := false
  deriving Repr, DecidableEq

structure Styles where
  text : List (Str × TextProps) := [(sStandard, {})]
  para : List (Str × ParaProps) := [(sStandard, {})]
  list : List (Str × Bool) := []           -- name ↦ ordered
  fixedFonts : List Str := []

def getAttr (a : Attrs) (k : Str) : Str := (a.lookup k).getD []

def tagOf : Node → Option Str
  | .elem q _ _ => some q
  | .text _ => none

mutual
/-- descendant elements in document order (getElementsByTagName walks these) -/
def descs : Node → List Node
  | .text _ => []
  | .elem _ _ kids => descsL kids
def descsL : List Node → List Node
  | [] => []
  | n :: ns => (match n with | .elem .. => [n] | .text _ => []) ++ descs n ++ descsL ns
end

def byTag (n : Node) (t : Str) : List Node := (descs n).filter (fun d => tagOf d == some t)
def byTagL (ns : List Node) (t : Str) : List Node := (descsL ns).filter (fun d => tagOf d == some t)

/-- `ODF2MoinMoin._elements(node)`: the element children (white space between block level elements is not content) -/
def elems (l : List Node) : List Node := l.filter (fun n => (tagOf n).isSome)

def attrsOf : Node → Attrs
  | .elem _ a _ => a
  | .text _ => []

def kidsOf : Node → List Node
  | .elem _ _ k => k
  | .text _ => []

/-- Python `str.isspace` for one character -/
def isSpace (c : Cp) : Bool :=
  (9 ≤ c && c ≤ 13) || (28 ≤ c && c ≤ 32) || c == 133 || c == 160 || c == 5760 || (8192 ≤ c && c ≤ 8202) ||
  c == 8232 || c == 8233 || c == 8239 || c == 8287 || c == 12288

def pyStrip (s : Str) : Str := ((s.dropWhile isSpace).reverse.dropWhile isSpace).reverse

/-- `float(s) > 0.01` for s = digits[.digits] -/
def gtHundredth (s : Str) : Option Bool :=
  let ip := s.takeWhile Xhtml.isDigit
  let rest := s.dropWhile Xhtml.isDigit
  let frac : Option Str := match rest with
    | [] => some []
    | 46 :: f => if f.all Xhtml.isDigit then some f else none
    | _ => none
  match frac with
  | none => none
  | some f =>
    if ip.isEmpty && f.isEmpty then none
    else
      let iv := ip.foldl (fun a c => a * 10 + (c - 48)) 0
      -- 0.d1 d2 d3… > 0.01  ⇔  d1 > 0, or d2 > 1, or d2 = 1 and a later digit is non-zero
      let fgt := match f with
        | [] => false
        | d1 :: r => d1 > 48 || (match r with
            | [] => false
            | d2 :: r2 => d2 > 49 || (d2 == 49 && r2.any (· > 48)))
      some (iv ≥ 1 || fgt)

/-- extractTextProperties(style) -/
def textProps (sty : Styles) (style : Node) : M TextProps :=
  match byTag style tTextProps with
  | [] => .ok {}
  | el :: _ =>
    let a := attrsOf el
    let p : TextProps := {}
    let p := if getAttr a kFontStyle = sItalic then { p with italic := true } else p
    let p := if getAttr a kFontWeight = sBold then { p with bold := true } else p
    let u := getAttr a kUnderline
    let p := if !u.isEmpty && u != sNone then { p with underlined := true } else p
    let l := getAttr a kLineThrough
    let p := if !l.isEmpty && l != sNone then { p with strikethrough := true } else p
    let pos := getAttr a kTextPosition
    let first := pos.takeWhile (· != 32)
    let p? : M TextProps :=
      if pos.isEmpty then .ok p
      else if first = sSub then .ok { p with subscript := true }
      else if first = sSuper then .ok { p with superscript := true }
      else .error .unmodelled
    p?.map (fun p => if sty.fixedFonts.contains (getAttr a kFontName) then { p with fixed := true } else p)

/-- extractParagraphProperties(style) -/
def paraProps (sty : Styles) (style : Node) : M ParaProps := do
  let name := getAttr (attrsOf style) kSName
  let p : ParaProps := { title := name = sTitle }
  let p ← (match byTag style tParaProps with
    | [] => pure p
    | el :: _ =>
      let lm := getAttr (attrsOf el) kMarginLeft
      if lm.isEmpty then pure p
      else match gtHundredth (lm.take (lm.length - 2)) with
        | none => .error .unmodelled
        | some b => pure (if b then { p with indented := true } else p))
  let tp ← textProps sty style
  pure (if tp.fixed then { p with code := true } else p)

/-- processStyles -/
def processStyles (sty : Styles) : List Node → M Styles
  | [] => .ok sty
  | s :: rest =>
    let a := attrsOf s
    let name := getAttr a kSName
    if name = sStandard then processStyles sty rest
    else
      let fam := getAttr a kFamily
      if fam = sText then
        match textProps sty s with
        | .error e => .error e
        | .ok tp => processStyles { sty with text := (name, tp) :: sty.text } rest
      else if fam = sParagraph then
        match paraProps sty s, textProps sty s with
        | .ok pp, .ok tp => processStyles { sty with para := (name, pp) :: sty.para, text := (name, tp) :: sty.text } rest
        | .error e, _ => .error e
        | _, .error e => .error e
      else processStyles sty rest

/-- processListStyles -/
def processListStyles (sty : Styles) : List Node → Styles
  | [] => sty
  | s :: rest =>
    let ordered := (kidsOf s).any (fun k => tagOf k == some tLevelNumber)
    processListStyles { sty with list := (getAttr (attrsOf s) kSName, ordered) :: sty.list } rest

/-- processFontDeclarations on the first office:font-face-decls of a document -/
def processFonts (sty : Styles) (doc : Node) : Styles :=
  match byTag doc tFontDecls with
  | [] => sty
  | d :: _ =>
    let fixed := (byTag d tFontFace).filter (fun f => getAttr (attrsOf f) kFontPitch = sFixed)
    { sty with fixedFonts := sty.fixedFonts ++ fixed.map (fun f => getAttr (attrsOf f) kSName) }

def loadOne (sty : Styles) (doc : Node) : M Styles := do
  let sty := processFonts sty doc
  let sty ← processStyles sty (byTag doc tStyle)
  pure (processListStyles sty (byTag doc tListStyle))

/-- ODF2MoinMoin.load -/
def loadStyles (stylesDoc contentDoc : Node) : M Styles := do
  let sty ← loadOne {} stylesDoc
  loadOne sty contentDoc

/-! ### conversion -/

structure MSt where
  last : Option Str := none      -- self.lastsegment
  hasTitle : Bool := false
  foot : List (Str × Str) := []  -- self.footnotes

/-- inline_markup(node), given textToString(node) -/
def inlineMarkup (sty : Styles) (attrs : Attrs) (text : Str) : Str :=
  if (pyStrip text).isEmpty then text        -- "don't apply styles to white space": the text is returned as it is
  else
    let style := (sty.text.lookup (getAttr attrs kStyleName)).getD {}
    if style.fixed then [96] ++ text ++ [96]
    else
      let mark : List Str :=
        (if style.italic then [[39, 39]] else []) ++ (if style.bold then [[39, 39, 39]] else []) ++
        (if style.underlined then [[95, 95]] else []) ++ (if style.strikethrough then [[126, 126]] else []) ++
        (if style.superscript then [[94]] else []) ++ (if style.subscript then [[44, 44]] else [])
      mark.flatten ++ text ++ mark.reverse.flatten

/-- the text of a paragraph after `strip()` (unless code) and the blank line between two consecutive text:p -/
def paraText (pp : ParaProps) (q : Str) (st : MSt) (markup : Str) : Str :=
  let text := if !pp.code then pyStrip markup else markup
  if q = tP && st.last = some tP then [10] ++ text else text

/-- paragraphToString(paragraph), given inline_markup(paragraph) -/
def paraPost (sty : Styles) (q : Str) (attrs : Attrs) (markup : Str) (st : MSt) : M (Str × MSt) :=
  let pp := (sty.para.lookup (getAttr attrs kStyleName)).getD {}
  let text := paraText pp q st markup
  let st := { st with last := some q }
  if pp.title then .ok (sTitleOpen ++ text ++ sTitleClose, { st with hasTitle := true })
  else
    let ol := getAttr attrs kOutline
    let plain : Str := if pp.indented then [32, 32] ++ text else text
    if !ol.isEmpty then
      match pyInt ol with
      | none => .error .valueError
      | some l =>
        let level := if st.hasTitle then l + 1 else l
        if level ≥ 1 then .ok (List.replicate level 61 ++ [32] ++ text ++ [32] ++ List.replicate level 61 ++ [10], st)
        else .ok (plain, st)
    else if pp.code then .ok (sCodeOpen ++ text ++ sCodeClose, st)
    else .ok (plain, st)

/-- draw_image -/
def drawImage (attrs : Attrs) : Str :=
  let link := getAttr attrs kHref
  if !link.isEmpty && link.take 2 = sDotSlash then link ++ [10]
  else
    let link := if !link.isEmpty && link.take 9 = sPictures then link.drop 9 else link
    sImageOpen ++ link ++ sImageClose

/-- text_s -/
def textS (attrs : Attrs) : Str :=
  match pyInt (getAttr attrs kC) with
  | some n => List.replicate n 32
  | none => [32]

def moinMethod (q : Str) : Option MName := moinElements.lookup q

/-- `tag in CONTAINER_TAGS` (generated from the module): frames, text boxes, drawing shapes with text, sections,
    numbered paragraphs, the indexes with their title and body -/
def isContainer (q : Str) : Bool := moinContainer.contains q

mutual
/-- one iteration of textToString's loop -/
def nodeStr (sty : Styles) (st : MSt) : Node → M (Str × MSt)
  | .text s => .ok (s, st)
  | .elem q attrs kids =>
    if isContainer q then kidsStr sty st kids
    else if q = tP || q = tH then
      match kidsStr sty st kids with
      | .error e => .error e
      | .ok (t, st1) => paraPost sty q attrs (inlineMarkup sty attrs t) st1
    else if q = tList then
      itemsStr sty ((sty.list.lookup (getAttr attrs kStyleName)).getD false) 0 { st with last := some q } kids
    else if q = tTable then rowsStr sty { st with last := some q } kids
    else if q = tSection then kidsStr sty st kids
    else
      match moinMethod q with
      | none => .ok (sUnknownOpen ++ q ++ sUnknownClose, st)
      | some .do_nothing => .ok ([], st)
      | some .textToString => kidsStr sty st kids
      | some .inline_markup =>
        match kidsStr sty st kids with
        | .error e => .error e
        | .ok (t, st1) => .ok (inlineMarkup sty attrs t, st1)
      | some .draw_image => .ok (drawImage attrs, st)
      | some .text_line_break => .ok (sBR, st)
      | some .text_s => .ok (textS attrs, st)
      | some .text_tab => .ok (sTab4, st)
      | some .text_note =>
        match kids with
        | .elem qc _ ck :: .elem qb _ bk :: _ =>
          if qc = tCitation && qb = tNoteBody then
            let cite := (ck.map (fun c => match c with | .text v => v | .elem .. => [])).flatten
            match kidsStr sty st bk with
            | .error e => .error e
            | .ok (t, st1) => .ok ([94] ++ cite ++ [94], { st1 with foot := st1.foot ++ [(cite, t)] })
          else .error .unmodelled
        | _ => .error .unmodelled
/-- textToString(element) over element.childNodes -/
def kidsStr (sty : Styles) (st : MSt) : List Node → M (Str × MSt)
  | [] => .ok ([], st)
  | n :: ns =>
    match nodeStr sty st n with
    | .error e => .error e
    | .ok (t, st1) =>
      match kidsStr sty st1 ns with
      | .error e => .error e
      | .ok (u, st2) => .ok (t ++ u, st2)
/-- listToString: the loop over the list's children -/
def itemsStr (sty : Styles) (ordered : Bool) (indent : Nat) (st : MSt) : List Node → M (Str × MSt)
  | [] => .ok ([], st)
  | .text _ :: rest => itemsStr sty ordered indent st rest          -- `_elements`: only element children are looked at
  | .elem qi _ ikids :: rest =>
    match subitemsStr sty indent st ikids with
    | .error e => .error e
    | .ok (t, st1) =>
      match itemsStr sty ordered indent { st1 with last := some qi } rest with
      | .error e => .error e
      | .ok (u, st2) => .ok (List.replicate indent 32 ++ (if ordered then sOrdered else sBullet) ++ t ++ [10] ++ u, st2)
/-- the inner loop over item.childNodes (only text:p, text:h, text:list are looked at) -/
def subitemsStr (sty : Styles) (indent : Nat) (st : MSt) : List Node → M (Str × MSt)
  | [] => .ok ([], st)
  | .text _ :: rest => subitemsStr sty indent st rest
  | .elem q attrs kids :: rest =>
    if q = tList then
      match itemsStr sty ((sty.list.lookup (getAttr attrs kStyleName)).getD false) (indent + 3) { st with last := some q } kids with
      | .error e => .error e
      | .ok (t, st1) =>
        match subitemsStr sty indent { st1 with last := some q } rest with
        | .error e => .error e
        | .ok (u, st2) => .ok ([10] ++ t ++ u, st2)
    else if q = tP || q = tH then
      match kidsStr sty st kids with
      | .error e => .error e
      | .ok (t, st1) =>
        match paraPost sty q attrs (inlineMarkup sty attrs t) st1 with
        | .error e => .error e
        | .ok (t2, st2) =>
          match subitemsStr sty indent { st2 with last := some q } rest with
          | .error e => .error e
          | .ok (u, st3) => .ok (t2 ++ u, st3)
    else subitemsStr sty indent st rest
/-- the loop over the cells of a row -/
def cellsStr (sty : Styles) (st : MSt) : List Node → M (Str × MSt)
  | [] => .ok ([], st)
  | .text _ :: rest => cellsStr sty st rest
  | .elem q attrs kids :: rest =>
    match kidsStr sty st kids with
    | .error e => .error e
    | .ok (t, st1) =>
      match cellsStr sty { st1 with last := some q } rest with
      | .error e => .error e
      | .ok (u, st2) => .ok (inlineMarkup sty attrs t ++ sCellEnd ++ u, st2)

/-- tableToString: one child of the table (header rows recurse; other children are skipped) -/
def rowStr (sty : Styles) (st : MSt) : Node → M (Str × MSt)
  | .text _ => .ok ([], st)                                         -- not an element child: skipped by `_elements`
  | .elem q _ kids =>
    let st0 := { st with last := some q }
    if q = tHeaderRows then rowsStr sty st0 kids
    else if q = tRow then
      match cellsStr sty st0 kids with
      | .error e => .error e
      | .ok (t, st1) => .ok (sRowStart ++ t, st1)
    else .ok ([], st0)
/-- tableToString: the loop over the table's children -/
def rowsStr (sty : Styles) (st : MSt) : List Node → M (Str × MSt)
  | [] => .ok ([], st)
  | n :: rest =>
    match rowStr sty st n with
    | .error e => .error e
    | .ok (t, st1) =>
      match rowsStr sty st1 rest with
      | .error e => .error e
      | .ok (u, st2) => .ok (t ++ u, st2)
end

/-- the loop of toString over the children of office:text; returns the buffer entries -/
def topStr (sty : Styles) (st : MSt) : List Node → M (List Str × MSt)
  | [] => .ok ([], st)
  | .text _ :: rest => topStr sty st rest
  | .elem q attrs kids :: rest =>
    let r : Option (M (Str × MSt)) :=
      if q = tList then some (itemsStr sty ((sty.list.lookup (getAttr attrs kStyleName)).getD false) 0 { st with last := some q } kids)
      else if isContainer q then some (kidsStr sty st kids)
      else if q = tTable then some (rowsStr sty { st with last := some q } kids)
      else if q = tPage || q = tP || q = tH then
        some (match kidsStr sty st kids with
          | .error e => .error e
          | .ok (t, st1) => paraPost sty q attrs (inlineMarkup sty attrs t) st1)
      else none
    match r with
    | none => topStr sty st rest
    | some (.error e) => .error e
    | some (.ok (t, st1)) =>
      match topStr sty st1 rest with
      | .error e => .error e
      | .ok (ts, st2) => .ok ((if t.isEmpty then ts else t :: ts), st2)

/-- ODF2MoinMoin(file).toString() on the two parsed members -/
def toString (stylesDoc contentDoc : Node) : M Str := do
  let sty ← loadStyles stylesDoc contentDoc
  match byTag contentDoc tBody with
  | [] => .error .indexError
  | body :: _ =>
    match elems (kidsOf body) with
    | [] => .error .indexError
    | text :: _ =>
      let (buf, st) ← topStr sty {} (kidsOf text)
      let buf := if st.foot.isEmpty then buf else buf ++ [sRule] ++ st.foot.map (fun cb => cb.1 ++ [58, 32] ++ cb.2)
      pure (List.intercalate [10] (buf ++ [[]]))

end OdfModel.Moin

/-
  OdfModel.Ns — the process-wide namespace table of odf/element.py + odf/namespaces.py (layer L3).

    nsdict                         → `NsState.nsdict`   (namespace → prefix, insertion ordered; starts as `Generated.nsdict0`)
    Element.namespaces             → `NsState.seen`     (the entries declared on every root element)
    _nsassign(ns)                  → `nsAssign`         (`nsdict.setdefault(ns, "ns" + str(len(nsdict)))`)
    Element.get_nsprefix(ns)       → `getNsPrefix`      (empty namespace: empty prefix, nothing recorded)
    str(int)                       → `dec`
-/
import OdfModel.Xml.Tree
import OdfModel.Generated.NsDict
namespace OdfModel.Ns
open OdfModel OdfModel.Xml

/-- decimal digits of `n`, most significant first (`fuel` > number of digits) -/
def digits : Nat → Nat → Str
  | 0, _ => []
  | f+1, n => if n < 10 then [48 + n] else digits f (n / 10) ++ [48 + n % 10]

/-- `str(n)` -/
def dec (n : Nat) : Str := digits (n + 1) n

def NS_PFX : Str := [110, 115]   -- "ns"

structure NsState where
  nsdict : NsTable
  seen : NsTable

def initial : NsState := { nsdict := OdfModel.Generated.nsdict0, seen := [] }

/-- `_nsassign` -/
def nsAssign (d : NsTable) (ns : Str) : NsTable × Str :=
  match lookupNs d ns with
  | some p => (d, p)
  | none => (d ++ [(ns, NS_PFX ++ dec d.length)], NS_PFX ++ dec d.length)

/-- `Element.get_nsprefix` -/
def getNsPrefix (st : NsState) (ns : Str) : NsState × Str :=
  if ns.isEmpty then (st, [])
  else
    let r := nsAssign st.nsdict ns
    let seen := if (lookupNs st.seen ns).isSome then st.seen else st.seen ++ [(ns, r.2)]
    ({ nsdict := r.1, seen := seen }, r.2)

/-- a history of the process as far as the table is concerned: the namespaces handed to `get_nsprefix`, in order -/
def run (st : NsState) (nss : List Str) : NsState := nss.foldl (fun s ns => (getNsPrefix s ns).1) st

/-- `Element.get_knownns(prefix)`: the first namespace of `nsdict` whose prefix is `p` -/
def knownNs (d : NsTable) (p : Str) : Option Str :=
  match d with
  | [] => none
  | (n, q) :: r => if q = p then some n else knownNs r p

/-- `__save_prefix` of odf/attrconverters.py (cnv_formula, cnv_namespacedToken): when the text before the first
    colon of the value is a prefix known to `nsdict`, its namespace is registered (hence declared on every root) -/
def savePrefix (st : NsState) (v : Str) : NsState :=
  let p := v.takeWhile (· != 58)
  if p = v then st
  else match knownNs st.nsdict p with
    | none => st
    | some ns => (getNsPrefix st ns).1

end OdfModel.Ns

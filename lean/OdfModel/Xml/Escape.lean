/-
  OdfModel.Xml.Escape — model of the string encoders of odf/element.py (layer L1):

    _handle_unrepresentable   → `handleUnrep`  (regex sub over `Generated.filteredRanges` → U+FFFD)
    _escape                   → `escape`       (three `str.replace` calls, then one per entity, IN THAT ORDER)
    _sanitize                 → `sanitize`
    _quoteattr                → `quoteattr`    (entities \n \r \t, quote selection, &quot;)
    Text.toXml                → `textToXml`    (nothing for empty data; CR as &#13;)
    CDATASection.toXml        → `cdataToXml`   (filter, `]]>` → `]]]]><![CDATA[>`, CR → `]]>&#13;<![CDATA[`)

  `str.replace(old, new)` with a one-character `old` is `replace1`; with the three-character `]]>` it is
  `replCdataEnd` (leftmost, non-overlapping, scanning resumes after the match).
-/
import OdfModel.Basic
import OdfModel.Generated.EscTable
namespace OdfModel.Xml

/-- in one of the closed intervals -/
def inRanges (rs : List (Nat × Nat)) (c : Cp) : Bool := rs.any (fun r => r.1 ≤ c && c ≤ r.2)

/-- `_xml_filtered_chars_re` matches `c` -/
def filtered (c : Cp) : Bool := inRanges OdfModel.Generated.filteredRanges c

/-- one character through `_handle_unrepresentable` -/
def hu (c : Cp) : Cp := if filtered c then 0xFFFD else c

def handleUnrep (s : Str) : Str := s.map hu

/-- `s.replace(chr(c), rep)` -/
def replace1 (c : Cp) (rep : Str) (s : Str) : Str :=
  s.flatMap (fun x => if x = c then rep else [x])

-- the literal strings of the encoders, as code points
def AMP  : Str := [38, 97, 109, 112, 59]        -- &amp;
def LT   : Str := [38, 108, 116, 59]            -- &lt;
def GT   : Str := [38, 103, 116, 59]            -- &gt;
def QUOT : Str := [38, 113, 117, 111, 116, 59]  -- &quot;
def R10  : Str := [38, 35, 49, 48, 59]          -- &#10;
def R13  : Str := [38, 35, 49, 51, 59]          -- &#13;
def R9   : Str := [38, 35, 57, 59]              -- &#9;
def CDO  : Str := [60, 33, 91, 67, 68, 65, 84, 65, 91]   -- <![CDATA[
def CDC  : Str := [93, 93, 62]                            -- ]]>

/-- `_escape(data, entities)`: `&`, `<`, `>` first, then the entities in dict order -/
def escape (s : Str) (ents : List (Cp × Str)) : Str :=
  ents.foldl (fun d e => replace1 e.1 e.2 d) (replace1 62 GT (replace1 60 LT (replace1 38 AMP s)))

def sanitize (s : Str) (ents : List (Cp × Str)) : Str := escape (handleUnrep s) ents

/-- entities used by `Text.toXml` -/
def textEnts : List (Cp × Str) := [(13, R13)]
/-- entities accumulated in `_quoteattr`'s dict, in insertion order -/
def attrEnts : List (Cp × Str) := [(10, R10), (13, R13), (9, R9)]

/-- `Text.toXml` -/
def textToXml (s : Str) : Str := if s.isEmpty then [] else sanitize s textEnts

/-- `_quoteattr(data)` -/
def quoteattr (s : Str) : Str :=
  let d := sanitize s attrEnts
  if d.contains 34 then
    if d.contains 39 then [34] ++ replace1 34 QUOT d ++ [34]
    else [39] ++ d ++ [39]
  else [34] ++ d ++ [34]

/-- `data.replace(']]>', ']]]]><![CDATA[>')` -/
def replCdataEnd : Str → Str
  | 93 :: 93 :: 62 :: r => [93, 93] ++ CDC ++ CDO ++ [62] ++ replCdataEnd r
  | c :: r => c :: replCdataEnd r
  | [] => []

/-- `CDATASection.toXml` -/
def cdataToXml (s : Str) : Str :=
  if s.isEmpty then []
  else CDO ++ replace1 13 (CDC ++ R13 ++ CDO) (replCdataEnd (handleUnrep s)) ++ CDC

/-! Per-character views (proved equal to the `str.replace` pipelines in `Props/C01`). -/

/-- what `_sanitize(·, textEnts)` does to one character -/
def escTextC (c : Cp) : Str :=
  let d := hu c
  if d = 38 then AMP else if d = 60 then LT else if d = 62 then GT else if d = 13 then R13 else [d]

/-- what `_sanitize(·, attrEnts)` does to one character -/
def escAttrC (c : Cp) : Str :=
  let d := hu c
  if d = 38 then AMP else if d = 60 then LT else if d = 62 then GT
  else if d = 10 then R10 else if d = 13 then R13 else if d = 9 then R9 else [d]

end OdfModel.Xml

/-
  OdfModel.Xml.Tree — element trees and the recursive writer of odf/element.py (layers L2, L3).

  Two tree types:
  * `Node`/`Forest`   : the in-memory tree — elements carry (namespace, local name), attributes are keyed by
                        (namespace, local name), namespace `[]` = "no namespace";
  * `RNode`/`RForest` : the same tree after prefix assignment ("raw": qualified names are strings `prefix:local`,
                        namespace declarations are ordinary attributes `xmlns:prefix`).

  `rawOf tbl`   is what `Element.tagName` / `get_nsprefix` do with the process-wide namespace table
                (`Element.namespaces`, an insertion-ordered dict namespace → prefix), and
  `printNode`   is `Element.toXml(level ≥ 1)`, `Text.toXml`, `CDATASection.toXml`;
  `rawRoot tbl` adds what `toXml(0)` / `write_open_tag(0)` add: one `xmlns:prefix="namespace"` per table entry,
                in table order, before the element's own attributes.
  So `Element.toXml(0, f)` writes `printNode (rawRoot tbl e)`.
-/
import OdfModel.Xml.Escape
namespace OdfModel.Xml

structure QName where
  ns : Str
  loc : Str
deriving DecidableEq, Repr

mutual
inductive Node where
  | text (s : Str)
  | cdata (s : Str)
  | elem (q : QName) (attrs : List (QName × Str)) (kids : Forest)
inductive Forest where
  | nil
  | cons (h : Node) (t : Forest)
end

mutual
inductive RNode where
  | text (s : Str)
  | cdata (s : Str)
  | elem (tag : Str) (attrs : List (Str × Str)) (kids : RForest)
inductive RForest where
  | nil
  | cons (h : RNode) (t : RForest)
end

/-- the namespace table: (namespace, prefix) in insertion order -/
abbrev NsTable := List (Str × Str)

def lookupNs (tbl : NsTable) (ns : Str) : Option Str :=
  match tbl with
  | [] => none
  | (n, p) :: r => if n = ns then some p else lookupNs r ns

/-- `get_nsprefix` (after the fix: the empty namespace has the empty prefix and never enters the table) -/
def prefixOf (tbl : NsTable) (ns : Str) : Str :=
  if ns.isEmpty then [] else (lookupNs tbl ns).getD []

/-- `prefix + ':' + local`, or just `local` for an empty prefix -/
def qualify (tbl : NsTable) (q : QName) : Str :=
  let p := prefixOf tbl q.ns
  if p.isEmpty then q.loc else p ++ [58] ++ q.loc

def rawAttrs (tbl : NsTable) : List (QName × Str) → List (Str × Str)
  | [] => []
  | (q, v) :: r => (qualify tbl q, v) :: rawAttrs tbl r

mutual
def rawOf (tbl : NsTable) : Node → RNode
  | .text s => .text s
  | .cdata s => .cdata s
  | .elem q attrs kids => .elem (qualify tbl q) (rawAttrs tbl attrs) (rawOfF tbl kids)
def rawOfF (tbl : NsTable) : Forest → RForest
  | .nil => .nil
  | .cons h t => .cons (rawOf tbl h) (rawOfF tbl t)
end

def XMLNS_COLON : Str := [120, 109, 108, 110, 115, 58]   -- xmlns:

/-- the declarations written at level 0: ` xmlns:<prefix>=<quoteattr(namespace)>` per table entry -/
def nsDecls : NsTable → List (Str × Str)
  | [] => []
  | (n, p) :: r => (XMLNS_COLON ++ p, n) :: nsDecls r

/-- the root as written by `toXml(0)` -/
def rawRoot (tbl : NsTable) : Node → RNode
  | .elem q attrs kids => .elem (qualify tbl q) (nsDecls tbl ++ rawAttrs tbl attrs) (rawOfF tbl kids)
  | n => rawOf tbl n

/-- the attribute loop of `toXml` / `write_open_tag`: `' ' + _sanitize(name) + '=' + _quoteattr(value)` -/
def printAttrs : List (Str × Str) → Str
  | [] => []
  | (n, v) :: r => [32] ++ sanitize n [] ++ [61] ++ quoteattr v ++ printAttrs r

mutual
/-- `toXml` -/
def printNode : RNode → Str
  | .text s => textToXml s
  | .cdata s => cdataToXml s
  | .elem tag attrs .nil => [60] ++ tag ++ printAttrs attrs ++ [47, 62]
  | .elem tag attrs (.cons h t) =>
      [60] ++ tag ++ printAttrs attrs ++ [62] ++ printForest (.cons h t) ++ [60, 47] ++ tag ++ [62]
def printForest : RForest → Str
  | .nil => []
  | .cons h t => printNode h ++ printForest t
end

/-- `write_open_tag` … children … `write_close_tag` (the way contentxml/stylesxml/metaxml/settingsxml assemble a part):
    the open tag is always written in the long form, even without children -/
def printOpenClose (tag : Str) (attrs : List (Str × Str)) (kids : RForest) : Str :=
  [60] ++ tag ++ printAttrs attrs ++ [62] ++ printForest kids ++ [60, 47] ++ tag ++ [62]

/-- `_XMLPROLOGUE` = `<?xml version='1.0' encoding='UTF-8'?>\n` -/
def PROLOGUE : Str :=
  [60, 63, 120, 109, 108, 32, 118, 101, 114, 115, 105, 111, 110, 61, 39, 49, 46, 48, 39, 32, 101, 110, 99,
   111, 100, 105, 110, 103, 61, 39, 85, 84, 70, 45, 56, 39, 63, 62, 10]

/-- a whole emitted stream: prologue + root -/
def render (tbl : NsTable) (root : Node) : Str := PROLOGUE ++ printNode (rawRoot tbl root)

/-- a package part as `contentxml()`, `stylesxml()`, `metaxml()`, `settingsxml()` assemble it: prologue, the wrapper's
    open tag written with `write_open_tag(0)` (namespace declarations + the wrapper's own attributes), the selected
    children written with `toXml(1)` / `toXml(2)`, `write_close_tag` -/
def renderPart (tbl : NsTable) (q : QName) (attrs : List (QName × Str)) (kids : Forest) : Str :=
  PROLOGUE ++ printOpenClose (qualify tbl q) (nsDecls tbl ++ rawAttrs tbl attrs) (rawOfF tbl kids)

end OdfModel.Xml

/-
  Content round trip, character level: single steps of the reference parser's content loop, and what it does on the
  output of `Text.toXml` and `CDATASection.toXml`.
-/
import OdfModel.Xml.TagLemmas
namespace OdfModel.Xml
open OdfModel OdfModel.Spec

/-! ### single steps of `parseForest` -/

theorem pf_cd_close (f : Nat) (acc Y : Str) :
    parseForest (f + 1) true acc (93 :: 93 :: 62 :: Y) = parseForest f false acc Y := by
  rw [parseForest]; simp [CDC, dropPrefix?]

theorem pf_cd_char (f : Nat) (acc r : Str) (c : Nat) (h : dropPrefix? CDC (c :: r) = none)
    (hx : isXmlChar c = true) (h13 : c ≠ 13) :
    parseForest (f + 1) true acc (c :: r) = parseForest f true (acc ++ [c]) r := by
  rw [parseForest]; simp [h, hx, h13]

theorem pf_open_cd (f : Nat) (acc Y : Str) :
    parseForest (f + 1) false acc (60 :: 33 :: 91 :: 67 :: 68 :: 65 :: 84 :: 65 :: 91 :: Y) = parseForest f true acc Y := by
  rw [parseForest]; simp [CDO, dropPrefix?]

theorem pf_ref (f : Nat) (acc r r1 : Str) (d : Nat) (h : parseRef r = some (d, r1)) :
    parseForest (f + 1) false acc (38 :: r) = parseForest f false (acc ++ [d]) r1 := by
  rw [parseForest]; simp [CDO, dropPrefix?, h]

theorem pf_lit (f : Nat) (acc r : Str) (c : Nat) (h60 : c ≠ 60) (h38 : c ≠ 38) (h13 : c ≠ 13) (h62 : c ≠ 62)
    (hx : isXmlChar c = true) :
    parseForest (f + 1) false acc (c :: r) = parseForest f false (acc ++ [c]) r := by
  rw [parseForest]; simp [CDO, dropPrefix?, h60, Ne.symm h60, h38, h13, h62, hx]

theorem pf_close (f : Nat) (acc X : Str) :
    parseForest (f + 1) false acc (60 :: 47 :: X) = some (flush acc .nil, 60 :: 47 :: X) := by
  rw [parseForest]; simp [dropPrefix?]

/-! ### text nodes -/

theorem escTextC_length_pos (c : Nat) : 1 ≤ (escTextC c).length := by
  unfold escTextC
  simp only [AMP, LT, GT, R13]
  repeat' split
  all_goals simp

/-- one character written by `Text.toXml` is one step of the content loop -/
theorem pf_textC (f : Nat) (acc Y : Str) (c : Nat) (hc : c < 0x110000) :
    parseForest (f + 1) false acc (escTextC c ++ Y) = parseForest f false (acc ++ [hu c]) Y := by
  have hx := isXmlChar_hu c hc
  unfold escTextC
  simp only []
  split
  · rename_i h; simp only [AMP, List.cons_append, List.nil_append]; rw [pf_ref f acc _ Y 38 (parseRef_amp Y), h]
  split
  · rename_i h; simp only [LT, List.cons_append, List.nil_append]; rw [pf_ref f acc _ Y 60 (parseRef_lt Y), h]
  split
  · rename_i h; simp only [GT, List.cons_append, List.nil_append]; rw [pf_ref f acc _ Y 62 (parseRef_gt Y), h]
  split
  · rename_i h; simp only [R13, List.cons_append, List.nil_append]; rw [pf_ref f acc _ Y 13 (parseRef_13 Y), h]
  rename_i h38 h60 h62 h13
  simp only [List.cons_append, List.nil_append]
  exact pf_lit f acc Y (hu c) h60 h38 h13 h62 hx

/-- a whole text node: the parser arrives at what follows with the filtered text appended to the pending data -/
theorem pf_text (Y : Str) (s : Str) : ∀ (acc : Str) (fuel : Nat), StrOK s →
    (s.flatMap escTextC ++ Y).length + 1 ≤ fuel →
    ∃ fuel', Y.length + 1 ≤ fuel' ∧
      parseForest fuel false acc (s.flatMap escTextC ++ Y) = parseForest fuel' false (acc ++ s.map hu) Y := by
  induction s with
  | nil => intro acc fuel _ hf; exact ⟨fuel, by simpa using hf, by simp⟩
  | cons c r ih =>
    intro acc fuel hs hf
    obtain ⟨f, rfl⟩ : ∃ f, fuel = f + 1 := ⟨fuel - 1, by omega⟩
    have hpos := escTextC_length_pos c
    simp only [List.flatMap_cons, List.append_assoc, List.length_append] at hf ⊢
    rw [pf_textC f acc _ c (hs c (by simp))]
    obtain ⟨f', hf', h⟩ := ih (acc ++ [hu c]) f (fun c' hc' => hs c' (by simp [hc'])) (by simp only [List.length_append]; omega)
    exact ⟨f', hf', by rw [h]; simp⟩

/-! ### CDATA sections -/

/-- the body of the section as written: `replace('\r', …)` after `replace(']]>', …)` -/
def bodyC (t : Str) : Str := replace1 13 (CDC ++ R13 ++ CDO) (replCdataEnd t)

theorem bodyC_nil : bodyC [] = [] := by simp [bodyC, replCdataEnd, replace1]

theorem bodyC_pat (r : Str) :
    bodyC (93 :: 93 :: 62 :: r) = 93 :: 93 :: 93 :: 93 :: 62 :: 60 :: 33 :: 91 :: 67 :: 68 :: 65 :: 84 :: 65 :: 91 :: 62 :: bodyC r := by
  simp [bodyC, replCdataEnd, replace1, CDC, CDO]

theorem replCdataEnd_cons (c : Nat) (r : Str) (h : ∀ r', c :: r ≠ 93 :: 93 :: 62 :: r') :
    replCdataEnd (c :: r) = c :: replCdataEnd r := by
  rw [replCdataEnd.eq_def]
  split
  · rename_i r' heq; exact absurd heq (h r')
  · rename_i c' r' _ heq; cases heq; rfl
  · rename_i heq; cases heq

theorem bodyC_cr (r : Str) :
    bodyC (13 :: r) = 93 :: 93 :: 62 :: 38 :: 35 :: 49 :: 51 :: 59 :: 60 :: 33 :: 91 :: 67 :: 68 :: 65 :: 84 :: 65 :: 91 :: bodyC r := by
  unfold bodyC
  rw [replCdataEnd_cons 13 r (by intro r' h; cases h)]
  simp [replace1, CDC, CDO, R13]

theorem bodyC_cons (c : Nat) (r : Str) (h13 : c ≠ 13) (h : ∀ r', c :: r ≠ 93 :: 93 :: 62 :: r') :
    bodyC (c :: r) = c :: bodyC r := by
  unfold bodyC
  rw [replCdataEnd_cons c r h]
  simp [replace1, h13]

/-- first character of what the parser sees inside a section -/
def headB : Str → Nat
  | [] => 93
  | c :: _ => if c = 13 then 93 else c

theorem head_bodyC (r Y : Str) : ∃ W, bodyC r ++ 93 :: 93 :: 62 :: Y = headB r :: W := by
  cases r with
  | nil => exact ⟨93 :: 62 :: Y, by simp [bodyC_nil, headB]⟩
  | cons c r1 =>
    by_cases h13 : c = 13
    · subst h13
      refine ⟨93 :: 62 :: 38 :: 35 :: 49 :: 51 :: 59 :: 60 :: 33 :: 91 :: 67 :: 68 :: 65 :: 84 :: 65 :: 91 :: (bodyC r1 ++ 93 :: 93 :: 62 :: Y), ?_⟩
      simp [bodyC_cr, headB]
    · by_cases hp : ∃ r', c :: r1 = 93 :: 93 :: 62 :: r'
      · obtain ⟨r', hr'⟩ := hp
        cases hr'
        refine ⟨93 :: 93 :: 93 :: 62 :: 60 :: 33 :: 91 :: 67 :: 68 :: 65 :: 84 :: 65 :: 91 :: 62 :: (bodyC r' ++ 93 :: 93 :: 62 :: Y), ?_⟩
        simp [bodyC_pat, headB]
      · rw [bodyC_cons c r1 h13 (fun r' h => hp ⟨r', h⟩)]
        exact ⟨bodyC r1 ++ 93 :: 93 :: 62 :: Y, by simp [headB, h13]⟩

/-- inside a section, a data character that does not begin `]]>` is never mistaken for the end of the section -/
theorem no_cdc (c : Nat) (r Y : Str) (h13 : c ≠ 13) (h : ∀ r', c :: r ≠ 93 :: 93 :: 62 :: r') :
    dropPrefix? CDC (c :: (bodyC r ++ 93 :: 93 :: 62 :: Y)) = none := by
  by_cases hc : c = 93
  · subst hc
    -- second character
    cases r with
    | nil => simp [bodyC_nil, CDC, dropPrefix?]
    | cons d r1 =>
      by_cases hd13 : d = 13
      · subst hd13; simp [bodyC_cr, CDC, dropPrefix?]
      · by_cases hp : ∃ r', d :: r1 = 93 :: 93 :: 62 :: r'
        · obtain ⟨r', hr'⟩ := hp; cases hr'; simp [bodyC_pat, CDC, dropPrefix?]
        · rw [bodyC_cons d r1 hd13 (fun r' h => hp ⟨r', h⟩)]
          obtain ⟨W, hW⟩ := head_bodyC r1 Y
          simp only [List.cons_append, hW, CDC, dropPrefix?]
          by_cases hd : d = 93
          · subst hd
            have : headB r1 ≠ 62 := by
              intro h62
              cases r1 with
              | nil => simp [headB] at h62
              | cons e r2 =>
                simp only [headB] at h62
                split at h62
                · cases h62
                · subst h62; exact h r2 rfl
            simp [Ne.symm this]
          · simp [Ne.symm hd]
  · simp [CDC, dropPrefix?, Ne.symm hc]

/-- the body of a section, from inside the section to after its closing `]]>` -/
theorem pf_bodyC (Y : Str) (t : Str) : ∀ (acc : Str) (fuel : Nat),
    (∀ c ∈ t, isXmlChar c = true) →
    (bodyC t ++ 93 :: 93 :: 62 :: Y).length + 1 ≤ fuel →
    ∃ fuel', Y.length + 1 ≤ fuel' ∧
      parseForest fuel true acc (bodyC t ++ 93 :: 93 :: 62 :: Y) = parseForest fuel' false (acc ++ t) Y := by
  induction t using replCdataEnd.induct with
  | case1 r ih =>
    intro acc fuel hx hf
    rw [bodyC_pat] at hf ⊢
    simp only [List.cons_append, List.length_cons] at hf ⊢
    obtain ⟨f, rfl⟩ : ∃ f, fuel = f + 5 := ⟨fuel - 5, by omega⟩
    rw [pf_cd_char (f + 4) acc _ 93 (by simp [CDC, dropPrefix?]) (by decide) (by decide)]
    rw [pf_cd_char (f + 3) _ _ 93 (by simp [CDC, dropPrefix?]) (by decide) (by decide)]
    rw [pf_cd_close (f + 2), pf_open_cd (f + 1)]
    obtain ⟨W, hW⟩ := head_bodyC r Y
    rw [pf_cd_char f _ _ 62 (by simp [CDC, dropPrefix?]) (by decide) (by decide)]
    obtain ⟨f', hf', h⟩ := ih (acc ++ [93] ++ [93] ++ [62]) f (fun c hc => hx c (by simp [hc])) (by omega)
    exact ⟨f', hf', by rw [h]; simp⟩
  | case2 c r hnp ih =>
    intro acc fuel hx hf
    have hnp' : ∀ r', c :: r ≠ 93 :: 93 :: 62 :: r' := by
      intro r' h; cases h; exact hnp r' rfl rfl
    by_cases h13 : c = 13
    · subst h13
      rw [bodyC_cr] at hf ⊢
      simp only [List.cons_append, List.length_cons] at hf ⊢
      obtain ⟨f, rfl⟩ : ∃ f, fuel = f + 3 := ⟨fuel - 3, by omega⟩
      rw [pf_cd_close (f + 2), pf_ref (f + 1) acc _ _ 13 (parseRef_13 _), pf_open_cd f]
      obtain ⟨f', hf', h⟩ := ih (acc ++ [13]) f (fun c hc => hx c (by simp [hc])) (by omega)
      exact ⟨f', hf', by rw [h]; simp⟩
    · rw [bodyC_cons c r h13 hnp'] at hf ⊢
      simp only [List.cons_append, List.length_cons] at hf ⊢
      obtain ⟨f, rfl⟩ : ∃ f, fuel = f + 1 := ⟨fuel - 1, by omega⟩
      rw [pf_cd_char f acc _ c (no_cdc c r Y h13 hnp') (hx c (by simp)) h13]
      obtain ⟨f', hf', h⟩ := ih (acc ++ [c]) f (fun c' hc' => hx c' (by simp [hc'])) (by omega)
      exact ⟨f', hf', by rw [h]; simp⟩
  | case3 =>
    intro acc fuel _ hf
    rw [bodyC_nil] at hf ⊢
    simp only [List.nil_append, List.length_cons] at hf ⊢
    obtain ⟨f, rfl⟩ : ∃ f, fuel = f + 1 := ⟨fuel - 1, by omega⟩
    exact ⟨f, by omega, by rw [pf_cd_close]; simp⟩

/-- a whole CDATA node -/
theorem pf_cdata (Y : Str) (s : Str) (acc : Str) (fuel : Nat) (hs : StrOK s)
    (hf : (cdataToXml s ++ Y).length + 1 ≤ fuel) :
    ∃ fuel', Y.length + 1 ≤ fuel' ∧
      parseForest fuel false acc (cdataToXml s ++ Y) = parseForest fuel' false (acc ++ s.map hu) Y := by
  unfold cdataToXml at hf ⊢
  by_cases he : s.isEmpty = true
  · have : s = [] := by simpa using he
    subst this
    exact ⟨fuel, by simpa using hf, by simp⟩
  · have he' : s.isEmpty = false := by simpa using he
    simp only [he', Bool.false_eq_true, if_false] at hf ⊢
    have hb : replace1 13 (CDC ++ R13 ++ CDO) (replCdataEnd (handleUnrep s)) = bodyC (s.map hu) := rfl
    rw [hb] at hf ⊢
    simp only [CDO, CDC, List.cons_append, List.nil_append, List.append_assoc, List.length_cons,
      List.length_append] at hf ⊢
    obtain ⟨f, rfl⟩ : ∃ f, fuel = f + 1 := ⟨fuel - 1, by omega⟩
    rw [pf_open_cd f]
    have hx : ∀ c ∈ s.map hu, isXmlChar c = true := by
      intro c hc
      obtain ⟨c0, hc0, rfl⟩ := List.mem_map.mp hc
      exact isXmlChar_hu c0 (hs c0 hc0)
    exact pf_bodyC Y (s.map hu) acc f hx (by simp only [List.length_append, List.length_cons]; omega)

end OdfModel.Xml

/-
  The lexical round trip: the reference parser applied to what the writer wrote returns the canonical form of the
  raw tree — same tags and attribute names, attribute values and character data filtered character by character
  through `hu` (the library's replacement of unrepresentable characters), adjacent text/CDATA merged, empty
  character data dropped.
-/
import OdfModel.Xml.ContentLemmas
namespace OdfModel.Xml
open OdfModel OdfModel.Spec

/-- canonical form of a child list, with `acc` = character data pending from the left -/
def canonF (acc : Str) : RForest → RForest
  | .nil => flush acc .nil
  | .cons (.text s) t => canonF (acc ++ s.map hu) t
  | .cons (.cdata s) t => canonF (acc ++ s.map hu) t
  | .cons (.elem tag attrs kids) t => flush acc (.cons (.elem tag (huAttrs attrs) (canonF [] kids)) (canonF [] t))

/-- canonical form of an element -/
def canonE : RNode → RNode
  | .elem tag attrs kids => .elem tag (huAttrs attrs) (canonF [] kids)
  | n => n

mutual
/-- well-formedness of the raw tree: what the writer needs in order to produce XML at all -/
def WFN : RNode → Prop
  | .text s => StrOK s
  | .cdata s => StrOK s
  | .elem tag attrs kids => NameOK tag = true ∧ AttrsOK attrs ∧ nodupNames attrs = true ∧ WFF kids
def WFF : RForest → Prop
  | .nil => True
  | .cons h t => WFN h ∧ WFF t
end

mutual
def sizeN : RNode → Nat
  | .text _ => 1
  | .cdata _ => 1
  | .elem _ _ kids => 1 + sizeF kids
def sizeF : RForest → Nat
  | .nil => 1
  | .cons h t => 1 + sizeN h + sizeF t
end

theorem nodupNames_huAttrs (as : List (Str × Str)) : nodupNames (huAttrs as) = nodupNames as := by
  induction as with
  | nil => rfl
  | cons a r ih =>
    obtain ⟨n, v⟩ := a
    simp only [huAttrs, nodupNames, ih]
    congr 2
    clear ih
    induction r with
    | nil => rfl
    | cons b r' ih' => obtain ⟨m, w⟩ := b; simp [huAttrs, ih']

theorem textToXml_eq (s : Str) : textToXml s = s.flatMap escTextC := by
  unfold textToXml
  cases s with
  | nil => simp
  | cons c r => simp [sanitize_text]

/-- an element in the content of another element -/
theorem pf_elem (f : Nat) (acc r : Str) (c2 : Nat) (h47 : c2 ≠ 47) (h33 : c2 ≠ 33) :
    parseForest (f + 1) false acc (60 :: c2 :: r) =
      match parseElem f (60 :: c2 :: r) with
      | none => none
      | some (e, r1) => match parseForest f false [] r1 with
        | none => none
        | some (ff, r2) => some (flush acc (.cons e ff), r2) := by
  rw [parseForest]
  simp only [dropPrefix?, CDO, Ne.symm h47, Ne.symm h33, if_true, if_false]
  cases parseElem f (60 :: c2 :: r) with
  | none => rfl
  | some p => rfl

theorem nameStart_of_NameOK (tag : Str) (h : NameOK tag = true) :
    ∃ c r, tag = c :: r ∧ isNameStart c = true := by
  cases tag with
  | nil => simp [NameOK] at h
  | cons c r => simp only [NameOK, Bool.and_eq_true] at h; exact ⟨c, r, rfl, h.1⟩

theorem nameStart_ne (c : Nat) (h : isNameStart c = true) : c ≠ 47 ∧ c ≠ 33 := by
  simp [isNameStart] at h
  grind

theorem printAttrs_head (as : List (Str × Str)) (Z : Str) (c : Nat)
    (h : (printAttrs as ++ Z).head? = some c) : c = 32 ∨ Z.head? = some c := by
  cases as with
  | nil => right; simpa [printAttrs] using h
  | cons a r => obtain ⟨n, v⟩ := a; left; simp [printAttrs] at h; exact h.symm

mutual
/-- **lexical round trip, element**: for every raw element and every continuation `X` -/
theorem parseElem_print (fuel : Nat) (tag : Str) (attrs : List (Str × Str)) (kids : RForest) (X : Str)
    (hwf : WFN (.elem tag attrs kids))
    (hf : (printNode (.elem tag attrs kids) ++ X).length ≤ fuel) :
    parseElem fuel (printNode (.elem tag attrs kids) ++ X) =
      some (.elem tag (huAttrs attrs) (canonF [] kids), X) := by
  obtain ⟨hname, hattrs, hnodup, hkids⟩ := hwf
  have hall := NameOK_all tag hname
  obtain ⟨f, rfl⟩ : ∃ f, fuel = f + 1 := by
    refine ⟨fuel - 1, ?_⟩
    cases kids <;> simp [printNode] at hf <;> omega
  cases hkids0 : kids with
  | nil =>
    rw [hkids0] at hf
    have hshape : printNode (.elem tag attrs .nil) ++ X =
        60 :: (tag ++ (printAttrs attrs ++ tagEnd true ++ X)) := by
      simp [printNode, tagEnd]
    rw [hshape, parseElem]
    have htn : takeName (tag ++ (printAttrs attrs ++ tagEnd true ++ X)) =
        (tag, printAttrs attrs ++ tagEnd true ++ X) := by
      apply takeName_append tag _ hall
      intro c hc
      rw [List.append_assoc] at hc
      rcases printAttrs_head attrs _ c hc with rfl | h
      · decide
      · simp [tagEnd] at h; subst h; decide
    simp only [htn, hname, ne_eq, not_true_eq_false, if_false, Bool.not_true, Bool.false_eq_true]
    rw [parseAttrs_print true X attrs _ (by have := printAttrs_length attrs; simp only [List.length_append]; omega) hattrs]
    simp [nodupNames_huAttrs, hnodup, canonF, flush]
  | cons h t =>
    rw [hkids0] at hf hkids
    have hshape : printNode (.elem tag attrs (.cons h t)) ++ X =
        60 :: (tag ++ (printAttrs attrs ++ tagEnd false ++
          (printForest (.cons h t) ++ 60 :: 47 :: (tag ++ 62 :: X)))) := by
      simp [printNode, tagEnd]
    rw [hshape, parseElem]
    have htn : takeName (tag ++ (printAttrs attrs ++ tagEnd false ++
          (printForest (.cons h t) ++ 60 :: 47 :: (tag ++ 62 :: X)))) =
        (tag, printAttrs attrs ++ tagEnd false ++
          (printForest (.cons h t) ++ 60 :: 47 :: (tag ++ 62 :: X))) := by
      apply takeName_append tag _ hall
      intro c hc
      rw [List.append_assoc] at hc
      rcases printAttrs_head attrs _ c hc with rfl | h
      · decide
      · simp [tagEnd] at h; subst h; decide
    simp only [htn, hname, ne_eq, not_true_eq_false, if_false, Bool.not_true, Bool.false_eq_true]
    rw [parseAttrs_print false _ attrs _ (by have := printAttrs_length attrs; simp only [List.length_append]; omega) hattrs]
    simp only [nodupNames_huAttrs, hnodup, Bool.not_true, Bool.false_eq_true, if_false]
    have hlen : (printForest (.cons h t) ++ 60 :: 47 :: (tag ++ 62 :: X)).length + 1 ≤ f := by
      rw [hshape] at hf
      simp only [List.length_cons, List.length_append] at hf ⊢
      obtain ⟨c, r, rfl, _⟩ := nameStart_of_NameOK tag hname
      simp only [List.length_cons] at hf ⊢
      omega
    rw [parseForest_print f [] (.cons h t) (tag ++ 62 :: X) hkids hlen]
    have hcl := parseClose_print tag X
    simp only [List.cons_append, List.nil_append, List.append_assoc] at hcl
    simp [hcl]
termination_by sizeN (.elem tag attrs kids)
decreasing_by
  all_goals subst_vars
  all_goals simp [sizeN, sizeF]
  all_goals omega

/-- **lexical round trip, content**: up to the end tag of the enclosing element -/
theorem parseForest_print (fuel : Nat) (acc : Str) (f : RForest) (X : Str)
    (hwf : WFF f)
    (hf : (printForest f ++ 60 :: 47 :: X).length + 1 ≤ fuel) :
    parseForest fuel false acc (printForest f ++ 60 :: 47 :: X) = some (canonF acc f, 60 :: 47 :: X) := by
  cases hf0 : f with
  | nil =>
    rw [hf0] at hf
    obtain ⟨f', rfl⟩ : ∃ f', fuel = f' + 1 := ⟨fuel - 1, by omega⟩
    simp only [printForest, List.nil_append, canonF]
    exact pf_close f' acc X
  | cons h t =>
    rw [hf0] at hf hwf
    obtain ⟨hh, ht⟩ := hwf
    cases hh0 : h with
    | text s =>
      rw [hh0] at hf hh
      simp only [printForest, printNode, textToXml_eq, List.append_assoc] at hf ⊢
      obtain ⟨fuel', hf', heq⟩ := pf_text (printForest t ++ 60 :: 47 :: X) s acc fuel hh hf
      rw [heq, canonF]
      exact parseForest_print fuel' (acc ++ s.map hu) t X ht hf'
    | cdata s =>
      rw [hh0] at hf hh
      simp only [printForest, printNode, List.append_assoc] at hf ⊢
      obtain ⟨fuel', hf', heq⟩ := pf_cdata (printForest t ++ 60 :: 47 :: X) s acc fuel hh hf
      rw [heq, canonF]
      exact parseForest_print fuel' (acc ++ s.map hu) t X ht hf'
    | elem tag attrs kids =>
      rw [hh0] at hf hh
      obtain ⟨f', rfl⟩ : ∃ f', fuel = f' + 1 := ⟨fuel - 1, by omega⟩
      obtain ⟨c, r, htag, hc⟩ := nameStart_of_NameOK tag hh.1
      have hne := nameStart_ne c hc
      have hshape : printForest (.cons (.elem tag attrs kids) t) ++ 60 :: 47 :: X =
          printNode (.elem tag attrs kids) ++ (printForest t ++ 60 :: 47 :: X) := by
        simp [printForest]
      have hstart : ∃ r', printNode (.elem tag attrs kids) ++ (printForest t ++ 60 :: 47 :: X) = 60 :: c :: r' := by
        subst htag
        cases kids <;> exact ⟨_, by simp [printNode]; rfl⟩
      obtain ⟨r', hr'⟩ := hstart
      rw [hshape] at hf ⊢
      have hE := parseElem_print f' tag attrs kids (printForest t ++ 60 :: 47 :: X) hh (by omega)
      rw [hr'] at hE ⊢
      rw [pf_elem f' acc r' c hne.1 hne.2, hE]
      simp only []
      have hlen : (printForest t ++ 60 :: 47 :: X).length + 1 ≤ f' := by
        have : 3 ≤ (printNode (.elem tag attrs kids)).length := by
          subst htag
          cases kids <;> simp [printNode] <;> omega
        simp only [List.length_append] at hf ⊢
        omega
      rw [parseForest_print f' [] t X ht hlen]
      simp [canonF]
termination_by sizeF f
decreasing_by
  all_goals subst_vars
  all_goals simp [sizeN, sizeF]
  all_goals omega
end

end OdfModel.Xml

/-
  Namespace round trip for whole trees, the tree-level canonical form, and the composition with the lexical round
  trip: `parseDoc (render tbl t) = some (canonT t)`.
-/
import OdfModel.Xml.NsLemmas
namespace OdfModel.Xml
open OdfModel OdfModel.Spec

/-! ### attribute lists -/

theorem declsOf_rawAttrs {tbl : NsTable} (ht : TableOK tbl) (as : List (QName × Str))
    (h : ∀ a ∈ as, QNameOK a.1 ∧ Covered tbl a.1 ∧ StrOK a.2) : declsOf (rawAttrs tbl as) = some [] := by
  induction as with
  | nil => rfl
  | cons a r ih =>
    obtain ⟨q, v⟩ := a
    have ha := h (q, v) (by simp)
    simp only [rawAttrs, declsOf, (not_decl_qualify ht q ha.1 ha.2.1).1]
    exact ih (fun a' ha' => h a' (by simp [ha']))

theorem resolveAttrs_rawAttrs {tbl : NsTable} (ht : TableOK tbl) {env : NsEnv} (he : EnvFor tbl env)
    (as : List (QName × Str)) (h : ∀ a ∈ as, QNameOK a.1 ∧ Covered tbl a.1 ∧ StrOK a.2) :
    resolveAttrs env (rawAttrs tbl as) = some as := by
  induction as with
  | nil => rfl
  | cons a r ih =>
    obtain ⟨q, v⟩ := a
    have ha := h (q, v) (by simp)
    have hnd := not_decl_qualify ht q ha.1 ha.2.1
    simp only [rawAttrs, resolveAttrs, hnd.1]
    have : qualify tbl q ≠ [120, 109, 108, 110, 115] := hnd.2
    simp only [this, if_false, resolveName_qualify ht he q ha.1 ha.2.1,
      ih (fun a' ha' => h a' (by simp [ha']))]

theorem dropPrefix?_self_append (p X : Str) : dropPrefix? p (p ++ X) = some X := dropPrefix?_append p X

theorem declsOf_nsDecls {tbl0 : NsTable} (ht : TableOK tbl0) (tbl : NsTable) (hsub : ∀ e ∈ tbl, e ∈ tbl0)
    (rest : List (Str × Str)) (hrest : declsOf rest = some []) :
    declsOf (nsDecls tbl ++ rest) = some (envOf tbl) := by
  induction tbl with
  | nil => simpa [nsDecls, envOf] using hrest
  | cons e r ih =>
    obtain ⟨n, p⟩ := e
    have he := ht.2 (n, p) (hsub _ (by simp))
    have hn : n.isEmpty = false := by cases n <;> simp_all
    simp only [nsDecls, List.cons_append, declsOf, dropPrefix?_self_append, he.1, hn, Bool.not_false, Bool.and_self,
      if_true, ih (fun e' he' => hsub e' (by simp [he'])), Option.map_some, envOf, List.map_cons]

theorem resolveAttrs_nsDecls (env : NsEnv) (tbl : NsTable) (rest : List (Str × Str)) :
    resolveAttrs env (nsDecls tbl ++ rest) = resolveAttrs env rest := by
  induction tbl with
  | nil => rfl
  | cons e r ih => obtain ⟨n, p⟩ := e; simp only [nsDecls, List.cons_append, resolveAttrs, dropPrefix?_self_append, ih]

/-! ### trees -/

mutual
theorem resolve_rawOf {tbl : NsTable} (ht : TableOK tbl) {env : NsEnv} (he : EnvFor tbl env) (u : Node)
    (hu : TreeOK tbl u) : resolve env (rawOf tbl u) = some u := by
  cases u with
  | text s => rfl
  | cdata s => rfl
  | elem q attrs kids =>
    obtain ⟨hq, hc, ha, hk⟩ := hu
    simp only [rawOf, resolve, declsOf_rawAttrs ht attrs ha.2, List.nil_append,
      resolveName_qualify ht he q hq hc, resolveAttrs_rawAttrs ht he attrs ha.2,
      resolveF_rawOfF ht he kids hk, ha.1, if_true]
theorem resolveF_rawOfF {tbl : NsTable} (ht : TableOK tbl) {env : NsEnv} (he : EnvFor tbl env) (f : Forest)
    (hf : ForestOK tbl f) : resolveF env (rawOfF tbl f) = some f := by
  cases f with
  | nil => rfl
  | cons h t =>
    obtain ⟨hh, ht'⟩ := hf
    simp only [rawOfF, resolveF, resolve_rawOf ht he h hh, resolveF_rawOfF ht he t ht']
end

/-- **namespace round trip**: the root as written by `toXml(0)`, resolved in the empty environment -/
theorem resolve_rawRoot {tbl : NsTable} (ht : TableOK tbl) (q : QName) (attrs : List (QName × Str)) (kids : Forest)
    (hu : TreeOK tbl (.elem q attrs kids)) :
    resolve [] (rawRoot tbl (.elem q attrs kids)) = some (.elem q attrs kids) := by
  obtain ⟨hq, hc, ha, hk⟩ := hu
  have he : EnvFor tbl (envOf tbl ++ []) := envFor_envOf ht []
  simp only [rawRoot, resolve, declsOf_nsDecls ht tbl (fun _ h => h) _ (declsOf_rawAttrs ht attrs ha.2),
    resolveName_qualify ht he q hq hc, resolveAttrs_nsDecls, resolveAttrs_rawAttrs ht he attrs ha.2,
    resolveF_rawOfF ht he kids hk, ha.1, if_true]

/-! ### tree-level canonical form (what a parser must return, C02) -/

def huAttrsQ : List (QName × Str) → List (QName × Str)
  | [] => []
  | (q, v) :: r => (q, v.map hu) :: huAttrsQ r

def flushT (acc : Str) (f : Forest) : Forest := if acc.isEmpty then f else .cons (.text acc) f

/-- children: character data (text and CDATA alike) filtered through `hu`, adjacent runs merged, empty runs dropped -/
def canonTF (acc : Str) : Forest → Forest
  | .nil => flushT acc .nil
  | .cons (.text s) t => canonTF (acc ++ s.map hu) t
  | .cons (.cdata s) t => canonTF (acc ++ s.map hu) t
  | .cons (.elem q attrs kids) t => flushT acc (.cons (.elem q (huAttrsQ attrs) (canonTF [] kids)) (canonTF [] t))

def canonT : Node → Node
  | .elem q attrs kids => .elem q (huAttrsQ attrs) (canonTF [] kids)
  | n => n

theorem rawAttrs_huAttrsQ (tbl : NsTable) (as : List (QName × Str)) :
    rawAttrs tbl (huAttrsQ as) = huAttrs (rawAttrs tbl as) := by
  induction as with
  | nil => rfl
  | cons a r ih => obtain ⟨q, v⟩ := a; simp [huAttrsQ, rawAttrs, huAttrs, ih]

theorem rawOfF_flushT (tbl : NsTable) (acc : Str) (f : Forest) :
    rawOfF tbl (flushT acc f) = flush acc (rawOfF tbl f) := by
  unfold flushT flush; split <;> simp [rawOfF, rawOf]

theorem rawOfF_canonTF (tbl : NsTable) (acc : Str) (f : Forest) :
    rawOfF tbl (canonTF acc f) = canonF acc (rawOfF tbl f) := by
  fun_induction canonTF acc f with
  | case1 acc => simp [rawOfF_flushT, rawOfF, canonF]
  | case2 acc s t ih => simp [rawOfF, rawOf, canonF, ih]
  | case3 acc s t ih => simp [rawOfF, rawOf, canonF, ih]
  | case4 acc q attrs kids t ih1 ih2 =>
    simp [rawOfF_flushT, rawOfF, rawOf, canonF, ih1, ih2, rawAttrs_huAttrsQ]

/-- namespace names survive the filter unchanged -/
def NsClean (tbl : NsTable) : Prop := ∀ e ∈ tbl, e.1.map hu = e.1

theorem huAttrs_nsDecls (tbl : NsTable) (h : NsClean tbl) : huAttrs (nsDecls tbl) = nsDecls tbl := by
  induction tbl with
  | nil => rfl
  | cons e r ih =>
    obtain ⟨n, p⟩ := e
    have := h (n, p) (by simp)
    simp only [nsDecls, huAttrs, ih (fun e' he' => h e' (by simp [he']))]
    simp at this; rw [this]

theorem huAttrs_append (a b : List (Str × Str)) : huAttrs (a ++ b) = huAttrs a ++ huAttrs b := by
  induction a with
  | nil => rfl
  | cons x r ih => obtain ⟨n, v⟩ := x; simp [huAttrs, ih]

/-- the canonical form of the written root is the written form of the canonical root -/
theorem canonE_rawRoot (tbl : NsTable) (hc : NsClean tbl) (q : QName) (attrs : List (QName × Str)) (kids : Forest) :
    canonE (rawRoot tbl (.elem q attrs kids)) = rawRoot tbl (canonT (.elem q attrs kids)) := by
  simp [canonE, rawRoot, canonT, huAttrs_append, huAttrs_nsDecls tbl hc, rawAttrs_huAttrsQ, rawOfF_canonTF]

end OdfModel.Xml

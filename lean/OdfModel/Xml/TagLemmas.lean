/-
  Start-tag round trip: names, the attribute loop, the end tag.
-/
import OdfModel.Xml.AttrLemmas
namespace OdfModel.Xml
open OdfModel OdfModel.Spec

theorem isNameChar_ascii (c : Nat) (h : isNameChar c = true) :
    (45 ≤ c ∧ c ≤ 46) ∨ (48 ≤ c ∧ c ≤ 58) ∨ (65 ≤ c ∧ c ≤ 90) ∨ c = 95 ∨ (97 ≤ c ∧ c ≤ 122) := by
  simp [isNameChar, isNameStart] at h
  grind

theorem NameOK_all (n : Str) (h : NameOK n = true) : ∀ c ∈ n, isNameChar c = true := by
  cases n with
  | nil => simp [NameOK] at h
  | cons a r =>
    simp only [NameOK, Bool.and_eq_true, List.all_eq_true] at h
    intro c hc
    rcases List.mem_cons.mp hc with rfl | hc
    · simp [isNameChar, h.1]
    · exact h.2 c hc

/-- `_sanitize(name)` leaves a name alone -/
theorem sanitize_name (n : Str) (h : ∀ c ∈ n, isNameChar c = true) : sanitize n [] = n := by
  simp only [sanitize, escape, List.foldl_nil, handleUnrep_flatMap, replace1_flatMap]
  induction n with
  | nil => rfl
  | cons c r ih =>
    have hc := isNameChar_ascii c (h c (by simp))
    have hh : hu c = c := hu_ascii c (by grind)
    simp only [List.flatMap_cons]
    rw [ih (fun c' hc' => h c' (by simp [hc']))]
    have h1 : c ≠ 38 := by grind
    have h2 : c ≠ 60 := by grind
    have h3 : c ≠ 62 := by grind
    simp [replace1, hh, h1, h2, h3]

theorem takeName_append (n X : Str) (h : ∀ c ∈ n, isNameChar c = true) (hX : ∀ c, X.head? = some c → isNameChar c = false) :
    takeName (n ++ X) = (n, X) := by
  unfold takeName
  induction n with
  | nil =>
    cases X with
    | nil => simp
    | cons x r => simp [hX x (by simp)]
  | cons c r ih =>
    have hc := h c (by simp)
    have := ih (fun c' hc' => h c' (by simp [hc']))
    simp only [List.cons_append, List.takeWhile_cons, List.dropWhile_cons, hc, if_true]
    simp only [Prod.mk.injEq] at this ⊢
    exact ⟨by rw [this.1], this.2⟩

theorem dropPrefix?_append (p X : Str) : dropPrefix? p (p ++ X) = some X := by
  induction p with
  | nil => cases X <;> simp [dropPrefix?]
  | cons a r ih => simp [dropPrefix?, ih]

theorem parseClose_print (n X : Str) : parseClose n ([60, 47] ++ n ++ [62] ++ X) = some X := by
  unfold parseClose
  rw [show [60, 47] ++ n ++ [62] ++ X = ([60, 47] ++ n ++ [62]) ++ X by simp, dropPrefix?_append]

/-- what the parser returns for the attribute list -/
def huAttrs : List (Str × Str) → List (Str × Str)
  | [] => []
  | (n, v) :: r => (n, v.map hu) :: huAttrs r

def AttrsOK (as : List (Str × Str)) : Prop := ∀ a ∈ as, NameOK a.1 = true ∧ StrOK a.2

theorem printAttrs_length (as : List (Str × Str)) : as.length ≤ (printAttrs as).length := by
  induction as with
  | nil => simp
  | cons a r ih =>
    obtain ⟨n, v⟩ := a
    simp only [printAttrs, List.length_append, List.length_cons, List.length_nil]
    omega

/-- how a start tag ends: `/>` for an element without children, `>` otherwise -/
def tagEnd (e : Bool) : Str := if e then [47, 62] else [62]

/-- the attribute loop followed by `>` or `/>` -/
theorem parseAttrs_print (e : Bool) (X : Str) (as : List (Str × Str)) :
    ∀ fuel, as.length + 1 ≤ fuel → AttrsOK as →
    parseAttrs fuel (printAttrs as ++ tagEnd e ++ X) = some (huAttrs as, e, X) := by
  induction as with
  | nil =>
    intro fuel hf _
    obtain ⟨f, rfl⟩ : ∃ f, fuel = f + 1 := ⟨fuel - 1, by simp at hf; omega⟩
    cases e <;> simp [printAttrs, parseAttrs, huAttrs, tagEnd]
  | cons a r ih =>
    intro fuel hf hok
    obtain ⟨f, rfl⟩ : ∃ f, fuel = f + 1 := ⟨fuel - 1, by simp at hf; omega⟩
    obtain ⟨n, v⟩ := a
    have ha := hok (n, v) (by simp)
    have hall := NameOK_all n ha.1
    obtain ⟨q, r1, hq1, hq2, hq3⟩ :=
      parseAttVal_quoteattr v (printAttrs r ++ tagEnd e ++ X) ha.2
    have htn : takeName (n ++ 61 :: q :: r1) = (n, 61 :: q :: r1) :=
      takeName_append n _ hall (by intro c hc; simp at hc; subst hc; decide)
    have hshape : printAttrs ((n, v) :: r) ++ tagEnd e ++ X = 32 :: (n ++ 61 :: q :: r1) := by
      simp only [printAttrs, sanitize_name n hall, List.append_assoc, List.cons_append, List.nil_append]
      congr 2
      simpa [List.append_assoc] using hq1
    rw [hshape, parseAttrs]
    simp only [htn, ha.1, Bool.not_true, Bool.false_eq_true, if_false]
    have hq' : (q = 34 || q = 39) = true := by rcases hq2 with rfl | rfl <;> simp
    simp only [hq', if_true, hq3]
    rw [ih f (by simp at hf; omega) (fun a' ha' => hok a' (by simp [ha']))]
    simp [huAttrs]

end OdfModel.Xml

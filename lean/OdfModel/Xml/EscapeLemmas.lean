/-
  Helper lemmas about the string encoders (model in `OdfModel.Xml.Escape`):
  the `str.replace` pipelines are per-character maps, and the facts about the generated filter table that the
  round-trip proofs need.  Everything about `filtered` is re-checked against the regenerated table on every build.
-/
import OdfModel.Xml.Escape
import OdfModel.Spec.XmlParse
namespace OdfModel.Xml
open OdfModel OdfModel.Spec

/-! ### the filter table -/

/-- everything the filter lets through is an XML 1.0 `Char` (for real code points) -/
theorem unfiltered_isXmlChar (c : Cp) (hc : c < 0x110000) (h : filtered c = false) : isXmlChar c = true := by
  simp [filtered, inRanges, OdfModel.Generated.filteredRanges] at h
  simp [isXmlChar]
  grind

/-- the "discouraged" code points: XML 1.0 can represent them, the library replaces them anyway
    (known finding KF-C02-1, pinned by tests.testunicode.test_illegaltext) -/
def discouragedRanges : List (Nat × Nat) :=
  [(0x7F, 0x84), (0x86, 0x9F), (0x1FFFE, 0x1FFFF), (0x2FFFE, 0x2FFFF), (0x3FFFE, 0x3FFFF), (0x4FFFE, 0x4FFFF),
   (0x5FFFE, 0x5FFFF), (0x6FFFE, 0x6FFFF), (0x7FFFE, 0x7FFFF), (0x8FFFE, 0x8FFFF), (0x9FFFE, 0x9FFFF),
   (0xAFFFE, 0xAFFFF), (0xBFFFE, 0xBFFFF), (0xCFFFE, 0xCFFFF), (0xDFFFE, 0xDFFFF), (0xEFFFE, 0xEFFFF),
   (0xFFFFE, 0xFFFFF), (0x10FFFE, 0x10FFFF)]
def discouraged (c : Cp) : Bool := inRanges discouragedRanges c

/-- what the filter removes is either not an XML `Char` or a discouraged one -/
theorem filtered_cases (c : Cp) (h : filtered c = true) : isXmlChar c = false ∨ discouraged c = true := by
  simp [filtered, inRanges, OdfModel.Generated.filteredRanges] at h
  simp [isXmlChar, discouraged, discouragedRanges, inRanges]
  grind (splits := 60)

theorem notXmlChar_filtered (c : Cp) (h : isXmlChar c = false) (hc : c < 0x110000) : filtered c = true := by
  cases hf : filtered c with
  | true => rfl
  | false => rw [unfiltered_isXmlChar c hc hf] at h; cases h

/-! ### `str.replace` pipelines are per-character maps -/

theorem replace1_flatMap (c : Cp) (rep : Str) (f : Cp → Str) (s : Str) :
    replace1 c rep (s.flatMap f) = s.flatMap (fun x => replace1 c rep (f x)) := by
  simp [replace1, List.flatMap_assoc]

theorem handleUnrep_flatMap (s : Str) : handleUnrep s = s.flatMap (fun x => [hu x]) := by
  induction s with
  | nil => rfl
  | cons a r ih => simp [handleUnrep] at ih ⊢; exact ih

theorem escTextC_eq (x : Cp) :
    replace1 13 R13 (replace1 62 GT (replace1 60 LT (replace1 38 AMP [hu x]))) = escTextC x := by
  simp only [escTextC, replace1, AMP, LT, GT, R13]
  by_cases h1 : hu x = 38 <;> by_cases h2 : hu x = 60 <;> by_cases h3 : hu x = 62 <;> by_cases h4 : hu x = 13 <;>
    simp_all

theorem sanitize_text (s : Str) : sanitize s textEnts = s.flatMap escTextC := by
  simp only [sanitize, escape, textEnts, List.foldl_cons, List.foldl_nil, handleUnrep_flatMap, replace1_flatMap]
  congr 1; funext x; exact escTextC_eq x

theorem escAttrC_eq (x : Cp) :
    replace1 9 R9 (replace1 13 R13 (replace1 10 R10 (replace1 62 GT (replace1 60 LT (replace1 38 AMP [hu x]))))) =
      escAttrC x := by
  simp only [escAttrC, replace1, AMP, LT, GT, R13, R10, R9]
  by_cases h1 : hu x = 38 <;> by_cases h2 : hu x = 60 <;> by_cases h3 : hu x = 62 <;> by_cases h4 : hu x = 13 <;>
    by_cases h5 : hu x = 10 <;> by_cases h6 : hu x = 9 <;> simp_all

theorem sanitize_attr (s : Str) : sanitize s attrEnts = s.flatMap escAttrC := by
  simp only [sanitize, escape, attrEnts, List.foldl_cons, List.foldl_nil, handleUnrep_flatMap, replace1_flatMap]
  congr 1; funext x; exact escAttrC_eq x

end OdfModel.Xml

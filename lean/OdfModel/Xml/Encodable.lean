/-
  Every character the writer emits is an XML 1.0 `Char` (in particular never a lone surrogate, so encoding the
  stream as UTF-8 cannot raise).
-/
import OdfModel.Xml.Compose
namespace OdfModel.Xml
open OdfModel OdfModel.Spec

def AllXml (s : Str) : Prop := ∀ c ∈ s, isXmlChar c = true

theorem allXml_nil : AllXml [] := by intro c hc; cases hc

theorem allXml_lit {s : Str} (h : s.all isXmlChar = true) : AllXml s := by
  intro c hc; exact List.all_eq_true.mp h c hc

theorem allXml_append {a b : Str} (ha : AllXml a) (hb : AllXml b) : AllXml (a ++ b) := by
  intro c hc
  rcases List.mem_append.mp hc with h | h
  · exact ha c h
  · exact hb c h

theorem allXml_cons {a : Nat} {b : Str} (ha : isXmlChar a = true) (hb : AllXml b) : AllXml (a :: b) := by
  intro c hc
  rcases List.mem_cons.mp hc with rfl | h
  · exact ha
  · exact hb c h

theorem allXml_flatMap {s : Str} {f : Nat → Str} (h : ∀ c ∈ s, AllXml (f c)) : AllXml (s.flatMap f) := by
  intro c hc
  obtain ⟨x, hx, hcx⟩ := List.mem_flatMap.mp hc
  exact h x hx c hcx

theorem allXml_name {n : Str} (h : ∀ c ∈ n, isNameChar c = true) : AllXml n := by
  intro c hc
  have := isNameChar_ascii c (h c hc)
  simp [isXmlChar]; grind

theorem allXml_escAttrQ (dq : Bool) (c : Nat) (hc : c < 0x110000) : AllXml (escAttrQ dq c) := by
  have hx := isXmlChar_hu c hc
  unfold escAttrQ escAttrC
  simp only [AMP, LT, GT, R10, R13, R9, QUOT]
  repeat' split
  all_goals first
    | exact allXml_lit (by decide)
    | exact allXml_cons hx allXml_nil

theorem allXml_quoteattr (s : Str) (hs : StrOK s) : AllXml (quoteattr s) := by
  have hbody : ∀ dq, AllXml (s.flatMap (escAttrQ dq)) :=
    fun dq => allXml_flatMap (fun c hc => allXml_escAttrQ dq c (hs c hc))
  have hC : s.flatMap escAttrC = s.flatMap (escAttrQ false) := by
    have : escAttrQ false = escAttrC := by funext c; simp [escAttrQ]
    rw [this]
  unfold quoteattr
  simp only [sanitize_attr]
  split
  · split
    · rw [replace1_quot]
      exact allXml_append (allXml_append (allXml_cons (by decide) allXml_nil) (hbody true)) (allXml_cons (by decide) allXml_nil)
    · rw [hC]
      exact allXml_append (allXml_append (allXml_cons (by decide) allXml_nil) (hbody false)) (allXml_cons (by decide) allXml_nil)
  · rw [hC]
    exact allXml_append (allXml_append (allXml_cons (by decide) allXml_nil) (hbody false)) (allXml_cons (by decide) allXml_nil)

theorem allXml_escTextC (c : Nat) (hc : c < 0x110000) : AllXml (escTextC c) := by
  have hx := isXmlChar_hu c hc
  unfold escTextC
  simp only [AMP, LT, GT, R13]
  repeat' split
  all_goals first
    | exact allXml_lit (by decide)
    | exact allXml_cons hx allXml_nil

theorem allXml_textToXml (s : Str) (hs : StrOK s) : AllXml (textToXml s) := by
  rw [textToXml_eq]
  exact allXml_flatMap (fun c hc => allXml_escTextC c (hs c hc))

theorem allXml_bodyC (t : Str) (ht : AllXml t) : AllXml (bodyC t) := by
  induction t using replCdataEnd.induct with
  | case1 r ih =>
    rw [bodyC_pat]
    have := ih (fun c hc => ht c (by simp [hc]))
    intro c hc
    simp only [List.mem_cons] at hc
    rcases hc with rfl | rfl | rfl | rfl | rfl | rfl | rfl | rfl | rfl | rfl | rfl | rfl | rfl | rfl | rfl | hc
    all_goals first | decide | exact this c hc
  | case2 c r hnp ih =>
    have hnp' : ∀ r', c :: r ≠ 93 :: 93 :: 62 :: r' := by
      intro r' h; cases h; exact hnp r' rfl rfl
    have hr := ih (fun c' hc' => ht c' (by simp [hc']))
    by_cases h13 : c = 13
    · subst h13
      rw [bodyC_cr]
      intro c hc
      simp only [List.mem_cons] at hc
      rcases hc with rfl | rfl | rfl | rfl | rfl | rfl | rfl | rfl | rfl | rfl | rfl | rfl | rfl | rfl | rfl | rfl | rfl | hc
      all_goals first | decide | exact hr c hc
    · rw [bodyC_cons c r h13 hnp']
      exact allXml_cons (ht c (by simp)) hr
  | case3 => rw [bodyC_nil]; exact allXml_nil

theorem allXml_cdataToXml (s : Str) (hs : StrOK s) : AllXml (cdataToXml s) := by
  unfold cdataToXml
  split
  · exact allXml_nil
  · have hb : replace1 13 (CDC ++ R13 ++ CDO) (replCdataEnd (handleUnrep s)) = bodyC (s.map hu) := rfl
    rw [hb]
    have hx : AllXml (s.map hu) := by
      intro c hc
      obtain ⟨c0, hc0, rfl⟩ := List.mem_map.mp hc
      exact isXmlChar_hu c0 (hs c0 hc0)
    exact allXml_append (allXml_append (allXml_lit (by decide)) (allXml_bodyC _ hx)) (allXml_lit (by decide))

theorem allXml_printAttrs (as : List (Str × Str)) (h : AttrsOK as) : AllXml (printAttrs as) := by
  induction as with
  | nil => exact allXml_nil
  | cons a r ih =>
    obtain ⟨n, v⟩ := a
    have ha := h (n, v) (by simp)
    have hall := NameOK_all n ha.1
    simp only [printAttrs, sanitize_name n hall]
    exact allXml_append (allXml_append (allXml_append (allXml_append (allXml_lit (by decide)) (allXml_name hall)) (allXml_lit (by decide)))
      (allXml_quoteattr v ha.2)) (ih (fun a' ha' => h a' (by simp [ha'])))

mutual
theorem allXml_printNode (n : RNode) (h : WFN n) : AllXml (printNode n) := by
  cases hn : n with
  | text s => rw [hn] at h; simp only [printNode]; exact allXml_textToXml s h
  | cdata s => rw [hn] at h; simp only [printNode]; exact allXml_cdataToXml s h
  | elem tag attrs kids =>
    rw [hn] at h
    obtain ⟨hname, hattrs, _, hkids⟩ := h
    have htag := allXml_name (NameOK_all tag hname)
    cases hk : kids with
    | nil =>
      simp only [printNode]
      exact allXml_append (allXml_append (allXml_append (allXml_lit (by decide)) htag) (allXml_printAttrs attrs hattrs)) (allXml_lit (by decide))
    | cons hd tl =>
      rw [hk] at hkids
      simp only [printNode]
      have h1 : AllXml ([60] ++ tag ++ printAttrs attrs ++ [62]) :=
        allXml_append (allXml_append (allXml_append (allXml_lit (by decide)) htag) (allXml_printAttrs attrs hattrs)) (allXml_lit (by decide))
      have h2 : AllXml (printForest (.cons hd tl)) := allXml_printForest (.cons hd tl) hkids
      have h3 : AllXml ([60, 47] ++ tag ++ [62]) :=
        allXml_append (allXml_append (allXml_lit (by decide)) htag) (allXml_lit (by decide))
      have := allXml_append (allXml_append h1 h2) h3
      simpa [List.append_assoc] using this
termination_by sizeN n
decreasing_by
  all_goals subst_vars
  all_goals simp [sizeN, sizeF]
theorem allXml_printForest (f : RForest) (h : WFF f) : AllXml (printForest f) := by
  cases hf : f with
  | nil => simp only [printForest]; exact allXml_nil
  | cons hd tl =>
    rw [hf] at h
    simp only [printForest]
    exact allXml_append (allXml_printNode hd h.1) (allXml_printForest tl h.2)
termination_by sizeF f
decreasing_by
  all_goals subst_vars
  all_goals simp [sizeN, sizeF]
  all_goals omega
end

/-- **every emitted character is an XML `Char`** — so the stream contains no lone surrogate and `.encode('utf-8')`
    cannot raise -/
theorem allXml_render (tbl : NsTable) (q : QName) (attrs : List (QName × Str)) (kids : Forest)
    (ht : TableOK tbl) (hu : TreeOK tbl (.elem q attrs kids)) : AllXml (render tbl (.elem q attrs kids)) := by
  unfold render
  exact allXml_append (allXml_lit (by decide)) (allXml_printNode _ (WFN_rawRoot ht q attrs kids hu))

theorem isXmlChar_not_surrogate (c : Nat) (h : isXmlChar c = true) : ¬ (0xD800 ≤ c ∧ c ≤ 0xDFFF) := by
  simp [isXmlChar] at h; grind

end OdfModel.Xml

/-
  Namespace round trip: resolving the prefixes the writer assigned (from the process-wide table, declared in full on
  the root) gives back the expanded names of the in-memory tree.
-/
import OdfModel.Xml.RoundTrip
namespace OdfModel.Xml
open OdfModel OdfModel.Spec

def XMLNS_NAME : Str := [120, 109, 108, 110, 115]   -- xmlns

/-- the invariant of the process-wide namespace table (see `Props.C14.tableOK_reachable`) -/
def TableOK (tbl : NsTable) : Prop :=
  (tbl.map (·.2)).Nodup ∧
  ∀ e ∈ tbl, isNCName e.2 = true ∧ e.2 ≠ XMLNS_NAME ∧ e.1 ≠ [] ∧ StrOK e.1

/-- a qualified name the writer can write: NCName local part, and not the unqualified name `xmlns` -/
def QNameOK (q : QName) : Prop := isNCName q.loc = true ∧ (q.ns = [] → q.loc ≠ XMLNS_NAME)

/-- the namespace of `q` is the empty one or known to the table -/
def Covered (tbl : NsTable) (q : QName) : Prop := q.ns = [] ∨ ∃ p, lookupNs tbl q.ns = some p

def AttrsQOK (tbl : NsTable) (as : List (QName × Str)) : Prop :=
  nodupQ as = true ∧ ∀ a ∈ as, QNameOK a.1 ∧ Covered tbl a.1 ∧ StrOK a.2

mutual
/-- what every tree built through the API or by `load()` satisfies w.r.t. the table of its process -/
def TreeOK (tbl : NsTable) : Node → Prop
  | .text s => StrOK s
  | .cdata s => StrOK s
  | .elem q attrs kids => QNameOK q ∧ Covered tbl q ∧ AttrsQOK tbl attrs ∧ ForestOK tbl kids
def ForestOK (tbl : NsTable) : Forest → Prop
  | .nil => True
  | .cons h t => TreeOK tbl h ∧ ForestOK tbl t
end

def envOf (tbl : NsTable) : NsEnv := tbl.map (fun e => (e.2, e.1))

/-- `env` resolves every prefix of the table to its namespace -/
def EnvFor (tbl : NsTable) (env : NsEnv) : Prop :=
  ∀ ns p, lookupNs tbl ns = some p → lookupPrefix env p = some ns

theorem lookupNs_mem {tbl : NsTable} {ns p : Str} (h : lookupNs tbl ns = some p) : (ns, p) ∈ tbl := by
  induction tbl with
  | nil => simp [lookupNs] at h
  | cons e r ih =>
    obtain ⟨n, q⟩ := e
    simp only [lookupNs] at h
    split at h
    · rename_i hn; cases h; simp [hn]
    · exact List.mem_cons_of_mem _ (ih h)

theorem lookupPrefix_envOf {tbl : NsTable} (hnd : (tbl.map (·.2)).Nodup) {ns p : Str} (h : (ns, p) ∈ tbl)
    (env0 : NsEnv) : lookupPrefix (envOf tbl ++ env0) p = some ns := by
  induction tbl with
  | nil => cases h
  | cons e r ih =>
    obtain ⟨n, q⟩ := e
    simp only [List.map_cons, List.nodup_cons] at hnd
    simp only [envOf, List.map_cons, List.cons_append, lookupPrefix]
    rcases List.mem_cons.mp h with heq | hmem
    · cases heq; simp
    · have : q ≠ p := by
        intro hqp; subst hqp
        exact hnd.1 (List.mem_map.mpr ⟨(ns, q), hmem, rfl⟩)
      simp only [this, if_false]
      exact ih hnd.2 hmem

theorem envFor_envOf {tbl : NsTable} (h : TableOK tbl) (env0 : NsEnv) : EnvFor tbl (envOf tbl ++ env0) :=
  fun _ _ hl => lookupPrefix_envOf h.1 (lookupNs_mem hl) env0

/-! ### names -/

theorem not_mem_58_of_isNCName {n : Str} (h : isNCName n = true) : 58 ∉ n := by
  simp only [isNCName, Bool.and_eq_true, Bool.not_eq_true', List.contains_eq_mem, decide_eq_false_iff_not] at h
  exact h.2

theorem nameOK_of_isNCName {n : Str} (h : isNCName n = true) : NameOK n = true := by
  simp only [isNCName, Bool.and_eq_true] at h; exact h.1

theorem ne_nil_of_NameOK {n : Str} (h : NameOK n = true) : n ≠ [] := by
  intro hn; subst hn; simp [NameOK] at h

theorem takeWhile_ne58 (p l : Str) (hp : 58 ∉ p) :
    (p ++ 58 :: l).takeWhile (· != 58) = p ∧ (p ++ 58 :: l).dropWhile (· != 58) = 58 :: l := by
  induction p with
  | nil => simp
  | cons c r ih =>
    have hc : c ≠ 58 := by intro h; subst h; simp at hp
    have := ih (fun h => hp (List.mem_cons_of_mem _ h))
    simp [hc, this.1, this.2]

theorem splitQName_prefixed (p l : Str) (hp : 58 ∉ p) : splitQName (p ++ 58 :: l) = (p, l) := by
  have h := takeWhile_ne58 p l hp
  unfold splitQName
  have hc : (p ++ 58 :: l).contains 58 = true := by simp
  simp only [hc, if_true, h.1, h.2, List.drop_succ_cons, List.drop_zero]

theorem splitQName_plain (l : Str) (hl : 58 ∉ l) : splitQName l = ([], l) := by
  unfold splitQName
  have : l.contains 58 = false := by simp [hl]
  rw [this]; rfl

theorem dropPrefix?_eq_some {p l r : Str} (h : dropPrefix? p l = some r) : l = p ++ r := by
  induction p generalizing l with
  | nil => cases l <;> simp [dropPrefix?] at h <;> simp [h]
  | cons a p' ih =>
    cases l with
    | nil => simp [dropPrefix?] at h
    | cons c l' =>
      simp only [dropPrefix?] at h
      split at h
      · rename_i hac; subst hac; rw [ih h]; rfl
      · cases h

theorem prefixOf_of_lookup {tbl : NsTable} {ns p : Str} (hns : ns ≠ []) (h : lookupNs tbl ns = some p) :
    prefixOf tbl ns = p := by
  unfold prefixOf
  have : ns.isEmpty = false := by cases ns <;> simp_all
  simp [this, h]

theorem qualify_plain (tbl : NsTable) (q : QName) (h : q.ns = []) : qualify tbl q = q.loc := by
  simp [qualify, prefixOf, h]

theorem qualify_prefixed {tbl : NsTable} (ht : TableOK tbl) (q : QName) (hns : q.ns ≠ []) {p : Str}
    (h : lookupNs tbl q.ns = some p) : qualify tbl q = p ++ 58 :: q.loc ∧ isNCName p = true ∧ p ≠ XMLNS_NAME := by
  have hm := ht.2 _ (lookupNs_mem h)
  have hp : p ≠ [] := ne_nil_of_NameOK (nameOK_of_isNCName hm.1)
  have : p.isEmpty = false := by cases p <;> simp_all
  refine ⟨?_, hm.1, hm.2.1⟩
  simp [qualify, prefixOf_of_lookup hns h, this]

/-- **a written name resolves to the name it was written for** -/
theorem resolveName_qualify {tbl : NsTable} (ht : TableOK tbl) {env : NsEnv} (he : EnvFor tbl env) (q : QName)
    (hq : QNameOK q) (hc : Covered tbl q) : resolveName env (qualify tbl q) = some q := by
  have hl := not_mem_58_of_isNCName hq.1
  by_cases hns : q.ns = []
  · rw [qualify_plain tbl q hns]
    unfold resolveName
    rw [splitQName_plain _ hl]
    simp only [List.isEmpty_nil, if_true, hq.1]
    obtain ⟨ns, l⟩ := q
    simp at hns; simp [hns]
  · rcases hc with h | ⟨p, hp⟩
    · exact absurd h hns
    · obtain ⟨hqual, hpnc, _⟩ := qualify_prefixed ht q hns hp
      rw [hqual]
      unfold resolveName
      rw [splitQName_prefixed p q.loc (not_mem_58_of_isNCName hpnc)]
      have hpne : p ≠ [] := ne_nil_of_NameOK (nameOK_of_isNCName hpnc)
      have : p.isEmpty = false := by cases p <;> simp_all
      simp only [this, Bool.false_eq_true, if_false, hq.1, Bool.not_true, he _ _ hp]

/-- a written element/attribute name is never mistaken for a namespace declaration -/
theorem not_decl_qualify {tbl : NsTable} (ht : TableOK tbl) (q : QName) (hq : QNameOK q) (hc : Covered tbl q) :
    dropPrefix? XMLNS_COLON (qualify tbl q) = none ∧ qualify tbl q ≠ XMLNS_NAME := by
  have hl := not_mem_58_of_isNCName hq.1
  by_cases hns : q.ns = []
  · rw [qualify_plain tbl q hns]
    refine ⟨?_, hq.2 hns⟩
    cases hd : dropPrefix? XMLNS_COLON q.loc with
    | none => rfl
    | some r =>
      exfalso
      rw [dropPrefix?_eq_some hd] at hl
      simp [XMLNS_COLON] at hl
  · rcases hc with h | ⟨p, hp⟩
    · exact absurd h hns
    · obtain ⟨hqual, hpnc, hpx⟩ := qualify_prefixed ht q hns hp
      rw [hqual]
      have hp58 := not_mem_58_of_isNCName hpnc
      constructor
      · cases hd : dropPrefix? XMLNS_COLON (p ++ 58 :: q.loc) with
        | none => rfl
        | some r =>
          exfalso
          have h1 : (p ++ 58 :: q.loc).takeWhile (· != 58) = p := (takeWhile_ne58 p q.loc hp58).1
          rw [dropPrefix?_eq_some hd] at h1
          simp [XMLNS_COLON] at h1
          exact hpx (by simp [XMLNS_NAME, ← h1])
      · intro h
        have : 58 ∈ p ++ 58 :: q.loc := by simp
        rw [h] at this
        simp [XMLNS_NAME] at this

end OdfModel.Xml

/-
  Attribute-value round trip: the reference parser reads back what `_quoteattr` wrote.
-/
import OdfModel.Xml.EscapeLemmas
namespace OdfModel.Xml
open OdfModel OdfModel.Spec

theorem isXmlChar_hu (c : Nat) (hc : c < 0x110000) : isXmlChar (hu c) = true := by
  unfold hu
  cases h : filtered c with
  | true => simp [isXmlChar]
  | false => simpa using unfiltered_isXmlChar c hc h

/-- `hu` never produces one of the ASCII characters from another character -/
theorem hu_eq_ascii {c k : Nat} (hk : k < 0xFFFD) (h : hu c = k) : c = k := by
  unfold hu at h
  split at h
  · subst h; exact absurd hk (by decide)
  · exact h

theorem filtered_false_of (k : Nat) (h : k = 9 ∨ k = 10 ∨ k = 13 ∨ (32 ≤ k ∧ k ≤ 126)) : filtered k = false := by
  simp [filtered, inRanges, OdfModel.Generated.filteredRanges]
  grind (splits := 60)

theorem hu_ascii (k : Nat) (h : k = 9 ∨ k = 10 ∨ k = 13 ∨ (32 ≤ k ∧ k ≤ 126)) : hu k = k := by
  simp [hu, filtered_false_of k h]

/-- one character of the value as `_quoteattr` writes it; `dq` = the `&quot;` replacement is active -/
def escAttrQ (dq : Bool) (c : Nat) : Str := if dq = true ∧ hu c = 34 then QUOT else escAttrC c

theorem replace1_quot (s : Str) : replace1 34 QUOT (s.flatMap escAttrC) = s.flatMap (escAttrQ true) := by
  rw [replace1_flatMap]
  congr 1; funext x
  simp only [escAttrQ, escAttrC, replace1, true_and, AMP, LT, GT, R10, R13, R9, QUOT]
  by_cases h0 : hu x = 34 <;> by_cases h1 : hu x = 38 <;> by_cases h2 : hu x = 60 <;> by_cases h3 : hu x = 62 <;>
    by_cases h4 : hu x = 10 <;> by_cases h5 : hu x = 13 <;> by_cases h6 : hu x = 9 <;> simp_all

theorem parseRef_amp (Y : Str) : parseRef (97 :: 109 :: 112 :: 59 :: Y) = some (38, Y) := by simp [parseRef, dropPrefix?]
theorem parseRef_lt (Y : Str) : parseRef (108 :: 116 :: 59 :: Y) = some (60, Y) := by simp [parseRef, dropPrefix?]
theorem parseRef_gt (Y : Str) : parseRef (103 :: 116 :: 59 :: Y) = some (62, Y) := by simp [parseRef, dropPrefix?]
theorem parseRef_quot (Y : Str) : parseRef (113 :: 117 :: 111 :: 116 :: 59 :: Y) = some (34, Y) := by simp [parseRef, dropPrefix?]
theorem parseRef_10 (Y : Str) : parseRef (35 :: 49 :: 48 :: 59 :: Y) = some (10, Y) := by simp [parseRef, dropPrefix?]
theorem parseRef_13 (Y : Str) : parseRef (35 :: 49 :: 51 :: 59 :: Y) = some (13, Y) := by simp [parseRef, dropPrefix?]
theorem parseRef_9 (Y : Str) : parseRef (35 :: 57 :: 59 :: Y) = some (9, Y) := by simp [parseRef, dropPrefix?]

/-- a reference inside an attribute value -/
theorem parseAttVal_ref (fuel : Nat) (q d : Nat) (r r1 : Str) (hq : q = 34 ∨ q = 39) (h : parseRef r = some (d, r1)) :
    parseAttVal (fuel + 1) q (38 :: r) =
      match parseAttVal fuel q r1 with
      | none => none
      | some (v, r2) => some (d :: v, r2) := by
  have h1 : (38 : Nat) ≠ q := by omega
  rw [parseAttVal]
  simp only [h1, h, if_false, show (38:Nat) ≠ 60 by decide, if_true]
  cases parseAttVal fuel q r1 with
  | none => rfl
  | some p => rfl

/-- a literal character inside an attribute value -/
theorem parseAttVal_lit (fuel : Nat) (q c : Nat) (r : Str) (h1 : c ≠ q) (h2 : c ≠ 60) (h3 : c ≠ 38)
    (h4 : c ≠ 9) (h5 : c ≠ 10) (h6 : c ≠ 13) (hx : isXmlChar c = true) :
    parseAttVal (fuel + 1) q (c :: r) =
      match parseAttVal fuel q r with
      | none => none
      | some (v, r2) => some (c :: v, r2) := by
  rw [parseAttVal]
  simp only [h1, h2, h3, h4, h5, h6, hx, if_false, if_true, Bool.or_self, decide_false, Bool.false_eq_true]
  cases parseAttVal fuel q r with
  | none => rfl
  | some p => rfl

theorem parseAttVal_char (fuel : Nat) (q c : Nat) (dq : Bool) (Y : Str) (hc : c < 0x110000)
    (hq : q = 34 ∨ q = 39) (hne : hu c ≠ q ∨ (q = 34 ∧ dq = true)) :
    parseAttVal (fuel + 1) q (escAttrQ dq c ++ Y) =
      match parseAttVal fuel q Y with
      | none => none
      | some (v, r2) => some (hu c :: v, r2) := by
  unfold escAttrQ
  split
  · rename_i hd
    simp only [QUOT, List.cons_append, List.nil_append]
    rw [parseAttVal_ref fuel q 34 _ Y hq (parseRef_quot Y), hd.2]
  · rename_i hd
    have hx := isXmlChar_hu c hc
    have hnq : hu c ≠ q := by
      rcases hne with h | ⟨h1, h2⟩
      · exact h
      · intro h; exact hd ⟨h2, h1 ▸ h⟩
    unfold escAttrC
    simp only []
    split
    · rename_i h; simp only [AMP, List.cons_append, List.nil_append]
      rw [parseAttVal_ref fuel q 38 _ Y hq (parseRef_amp Y), h]
    split
    · rename_i h; simp only [LT, List.cons_append, List.nil_append]
      rw [parseAttVal_ref fuel q 60 _ Y hq (parseRef_lt Y), h]
    split
    · rename_i h; simp only [GT, List.cons_append, List.nil_append]
      rw [parseAttVal_ref fuel q 62 _ Y hq (parseRef_gt Y), h]
    split
    · rename_i h; simp only [R10, List.cons_append, List.nil_append]
      rw [parseAttVal_ref fuel q 10 _ Y hq (parseRef_10 Y), h]
    split
    · rename_i h; simp only [R13, List.cons_append, List.nil_append]
      rw [parseAttVal_ref fuel q 13 _ Y hq (parseRef_13 Y), h]
    split
    · rename_i h; simp only [R9, List.cons_append, List.nil_append]
      rw [parseAttVal_ref fuel q 9 _ Y hq (parseRef_9 Y), h]
    rename_i h38 h60 h62 h10 h13 h9
    simp only [List.cons_append, List.nil_append]
    exact parseAttVal_lit fuel q (hu c) Y hnq h60 h38 h9 h10 h13 hx

/-- all characters are real code points -/
def StrOK (s : Str) : Prop := ∀ c ∈ s, c < 0x110000

theorem escAttrQ_length_pos (dq : Bool) (c : Nat) : 1 ≤ (escAttrQ dq c).length := by
  unfold escAttrQ escAttrC
  simp only [AMP, LT, GT, R10, R13, R9, QUOT]
  repeat' split
  all_goals simp

theorem length_le_flatMap (dq : Bool) (s : Str) : s.length ≤ (s.flatMap (escAttrQ dq)).length := by
  induction s with
  | nil => simp
  | cons c r ih =>
    simp only [List.flatMap_cons, List.length_append, List.length_cons]
    have := escAttrQ_length_pos dq c
    omega

/-- the body of a quoted value, up to the closing quote -/
theorem parseAttVal_body (q : Nat) (dq : Bool) (X : Str) (hq : q = 34 ∨ q = 39) (s : Str) :
    ∀ fuel, s.length + 1 ≤ fuel →
    (∀ c ∈ s, c < 0x110000 ∧ (hu c ≠ q ∨ (q = 34 ∧ dq = true))) →
    parseAttVal fuel q (s.flatMap (escAttrQ dq) ++ q :: X) = some (s.map hu, X) := by
  induction s with
  | nil =>
    intro fuel hf _
    obtain ⟨f, rfl⟩ : ∃ f, fuel = f + 1 := ⟨fuel - 1, by simp at hf; omega⟩
    simp [parseAttVal]
  | cons c r ih =>
    intro fuel hf hs
    obtain ⟨f, rfl⟩ : ∃ f, fuel = f + 1 := ⟨fuel - 1, by simp at hf; omega⟩
    have hc := hs c (by simp)
    simp only [List.flatMap_cons, List.append_assoc, List.map_cons]
    rw [parseAttVal_char f q c dq _ hc.1 hq hc.2]
    rw [ih f (by simp at hf; omega) (fun c' hc' => hs c' (by simp [hc']))]

theorem mem_flatMap_escAttrC_34 (s : Str) (h : 34 ∈ s.flatMap escAttrC) : ∃ c ∈ s, hu c = 34 := by
  simp only [List.mem_flatMap] at h
  obtain ⟨c, hc, h34⟩ := h
  refine ⟨c, hc, ?_⟩
  unfold escAttrC at h34
  simp only [AMP, LT, GT, R10, R13, R9] at h34
  repeat' split at h34
  all_goals simp at h34
  exact h34.symm

theorem not_mem_flatMap_of {k : Nat} (hk : k = 34 ∨ k = 39) (s : Str) (h : k ∉ s.flatMap escAttrC) :
    ∀ c ∈ s, hu c ≠ k := by
  intro c hc hh
  apply h
  simp only [List.mem_flatMap]
  refine ⟨c, hc, ?_⟩
  unfold escAttrC
  simp only [hh]
  rcases hk with rfl | rfl <;> simp

/-- **attribute value round trip**: whatever quote style `_quoteattr` picks, the reference parser reads the value
    back as the filtered string -/
theorem parseAttVal_quoteattr (s X : Str) (hs : StrOK s) :
    ∃ q r1, quoteattr s ++ X = q :: r1 ∧ (q = 34 ∨ q = 39) ∧
      parseAttVal (r1.length + 1) q r1 = some (s.map hu, X) := by
  unfold quoteattr
  simp only [sanitize_attr, List.contains_iff_mem, List.elem_eq_mem, decide_eq_true_eq]
  by_cases h34 : 34 ∈ s.flatMap escAttrC
  · by_cases h39 : 39 ∈ s.flatMap escAttrC
    · simp only [h34, h39, if_true, replace1_quot]
      refine ⟨34, s.flatMap (escAttrQ true) ++ 34 :: X, by simp, Or.inl rfl, ?_⟩
      apply parseAttVal_body 34 true X (Or.inl rfl) s
      · have := length_le_flatMap true s; simp only [List.length_append, List.length_cons]; omega
      · intro c hc; exact ⟨hs c hc, Or.inr ⟨rfl, rfl⟩⟩
    · simp only [h34, h39, if_true, if_false]
      refine ⟨39, s.flatMap (escAttrQ false) ++ 39 :: X, ?_, Or.inr rfl, ?_⟩
      · have : escAttrQ false = escAttrC := by funext c; simp [escAttrQ]
        simp [this]
      · apply parseAttVal_body 39 false X (Or.inr rfl) s
        · have := length_le_flatMap false s; simp only [List.length_append, List.length_cons]; omega
        · intro c hc; exact ⟨hs c hc, Or.inl (not_mem_flatMap_of (Or.inr rfl) s h39 c hc)⟩
  · simp only [h34, if_false]
    refine ⟨34, s.flatMap (escAttrQ false) ++ 34 :: X, ?_, Or.inl rfl, ?_⟩
    · have : escAttrQ false = escAttrC := by funext c; simp [escAttrQ]
      simp [this]
    · apply parseAttVal_body 34 false X (Or.inl rfl) s
      · have := length_le_flatMap false s; simp only [List.length_append, List.length_cons]; omega
      · intro c hc; exact ⟨hs c hc, Or.inl (not_mem_flatMap_of (Or.inl rfl) s h34 c hc)⟩

end OdfModel.Xml

/-
  Composition: every tree that satisfies `TreeOK` w.r.t. an admissible table is written as a document the reference
  parser accepts, and the parser returns exactly the canonical form of the tree.
-/
import OdfModel.Xml.NsRoundTrip
namespace OdfModel.Xml
open OdfModel OdfModel.Spec

/-! ### the written tree is lexically well-formed -/

theorem nodupNames_iff (l : List (Str × Str)) : nodupNames l = true ↔ (l.map (·.1)).Nodup := by
  induction l with
  | nil => simp [nodupNames]
  | cons a r ih =>
    obtain ⟨n, v⟩ := a
    simp only [nodupNames, Bool.and_eq_true, Bool.not_eq_true', List.map_cons, List.nodup_cons, ih]
    constructor
    · rintro ⟨h1, h2⟩
      refine ⟨?_, h2⟩
      intro hm
      obtain ⟨b, hb, hbn⟩ := List.mem_map.mp hm
      have : (r.any fun a => a.1 == n) = true := List.any_eq_true.mpr ⟨b, hb, by simp [hbn]⟩
      rw [this] at h1; cases h1
    · rintro ⟨h1, h2⟩
      refine ⟨?_, h2⟩
      cases hany : (r.any fun a => a.1 == n) with
      | false => rfl
      | true =>
        obtain ⟨b, hb, hbn⟩ := List.any_eq_true.mp hany
        exact absurd (List.mem_map.mpr ⟨b, hb, by simpa using hbn⟩) h1

theorem nodupQ_iff (l : List (QName × Str)) : nodupQ l = true ↔ (l.map (·.1)).Nodup := by
  induction l with
  | nil => simp [nodupQ]
  | cons a r ih =>
    obtain ⟨n, v⟩ := a
    simp only [nodupQ, Bool.and_eq_true, Bool.not_eq_true', List.map_cons, List.nodup_cons, ih]
    constructor
    · rintro ⟨h1, h2⟩
      refine ⟨?_, h2⟩
      intro hm
      obtain ⟨b, hb, hbn⟩ := List.mem_map.mp hm
      have : (r.any fun a => a.1 == n) = true := List.any_eq_true.mpr ⟨b, hb, by simp [hbn]⟩
      rw [this] at h1; cases h1
    · rintro ⟨h1, h2⟩
      refine ⟨?_, h2⟩
      cases hany : (r.any fun a => a.1 == n) with
      | false => rfl
      | true =>
        obtain ⟨b, hb, hbn⟩ := List.any_eq_true.mp hany
        exact absurd (List.mem_map.mpr ⟨b, hb, by simpa using hbn⟩) h1

theorem nodup_map_on {α β} {f : α → β} {l : List α} (h : ∀ a ∈ l, ∀ b ∈ l, f a = f b → a = b) (hn : l.Nodup) :
    (l.map f).Nodup := by
  induction l with
  | nil => simp
  | cons x r ih =>
    simp only [List.map_cons, List.nodup_cons] at hn ⊢
    refine ⟨?_, ih (fun a ha b hb => h a (by simp [ha]) b (by simp [hb])) hn.2⟩
    intro hm
    obtain ⟨y, hy, hxy⟩ := List.mem_map.mp hm
    have := h y (by simp [hy]) x (by simp) hxy
    subst this
    exact hn.1 hy

theorem NameOK_append {a b : Str} (ha : NameOK a = true) (hb : ∀ c ∈ b, isNameChar c = true) :
    NameOK (a ++ b) = true := by
  cases a with
  | nil => simp [NameOK] at ha
  | cons c r =>
    simp only [NameOK, Bool.and_eq_true, List.all_eq_true, List.cons_append] at ha ⊢
    refine ⟨ha.1, ?_⟩
    intro x hx
    rcases List.mem_append.mp hx with h | h
    · exact ha.2 x h
    · exact hb x h

theorem NameOK_qualify {tbl : NsTable} (ht : TableOK tbl) (q : QName) (hq : QNameOK q) (hc : Covered tbl q) :
    NameOK (qualify tbl q) = true := by
  by_cases hns : q.ns = []
  · rw [qualify_plain tbl q hns]; exact nameOK_of_isNCName hq.1
  · rcases hc with h | ⟨p, hp⟩
    · exact absurd h hns
    · obtain ⟨hqual, hpnc, _⟩ := qualify_prefixed ht q hns hp
      rw [hqual]
      apply NameOK_append (nameOK_of_isNCName hpnc)
      intro c hc
      rcases List.mem_cons.mp hc with rfl | h
      · decide
      · exact NameOK_all _ (nameOK_of_isNCName hq.1) c h

theorem qualify_inj {tbl : NsTable} (ht : TableOK tbl) (q1 q2 : QName) (h1 : QNameOK q1) (c1 : Covered tbl q1)
    (h2 : QNameOK q2) (c2 : Covered tbl q2) (h : qualify tbl q1 = qualify tbl q2) : q1 = q2 := by
  have he : EnvFor tbl (envOf tbl ++ []) := envFor_envOf ht []
  have r1 := resolveName_qualify ht he q1 h1 c1
  have r2 := resolveName_qualify ht he q2 h2 c2
  rw [h, r2] at r1
  exact (Option.some.inj r1).symm

theorem map_fst_rawAttrs (tbl : NsTable) (as : List (QName × Str)) :
    (rawAttrs tbl as).map (·.1) = as.map (fun a => qualify tbl a.1) := by
  induction as with
  | nil => rfl
  | cons a r ih => obtain ⟨q, v⟩ := a; simp [rawAttrs, ih]

theorem map_fst_nsDecls (tbl : NsTable) : (nsDecls tbl).map (·.1) = tbl.map (fun e => XMLNS_COLON ++ e.2) := by
  induction tbl with
  | nil => rfl
  | cons e r ih => obtain ⟨n, p⟩ := e; simp [nsDecls, ih]

theorem nodup_rawAttrs {tbl : NsTable} (ht : TableOK tbl) (as : List (QName × Str)) (ha : AttrsQOK tbl as) :
    ((rawAttrs tbl as).map (·.1)).Nodup := by
  rw [map_fst_rawAttrs]
  have hnd := (nodupQ_iff as).mp ha.1
  rw [show as.map (fun a => qualify tbl a.1) = (as.map (·.1)).map (qualify tbl) by simp [List.map_map, Function.comp_def]]
  refine nodup_map_on ?_ hnd
  intro q1 hq1 q2 hq2 heq
  obtain ⟨a1, ha1, rfl⟩ := List.mem_map.mp hq1
  obtain ⟨a2, ha2, rfl⟩ := List.mem_map.mp hq2
  exact qualify_inj ht _ _ (ha.2 a1 ha1).1 (ha.2 a1 ha1).2.1 (ha.2 a2 ha2).1 (ha.2 a2 ha2).2.1 heq

theorem attrsOK_rawAttrs {tbl : NsTable} (ht : TableOK tbl) (as : List (QName × Str)) (ha : AttrsQOK tbl as) :
    AttrsOK (rawAttrs tbl as) := by
  intro a hmem
  induction as with
  | nil => cases hmem
  | cons x r ih =>
    obtain ⟨q, v⟩ := x
    have hx := ha.2 (q, v) (by simp)
    simp only [rawAttrs, List.mem_cons] at hmem
    rcases hmem with rfl | h
    · exact ⟨NameOK_qualify ht q hx.1 hx.2.1, hx.2.2⟩
    · have hnd : nodupQ r = true := by
        have := ha.1; simp only [nodupQ, Bool.and_eq_true] at this; exact this.2
      exact ih ⟨hnd, fun a' ha' => ha.2 a' (by simp [ha'])⟩ h

mutual
theorem WFN_rawOf {tbl : NsTable} (ht : TableOK tbl) (u : Node) (hu : TreeOK tbl u) : WFN (rawOf tbl u) := by
  cases u with
  | text s => exact hu
  | cdata s => exact hu
  | elem q attrs kids =>
    obtain ⟨hq, hc, ha, hk⟩ := hu
    exact ⟨NameOK_qualify ht q hq hc, attrsOK_rawAttrs ht attrs ha,
      (nodupNames_iff _).mpr (nodup_rawAttrs ht attrs ha), WFF_rawOfF ht kids hk⟩
theorem WFF_rawOfF {tbl : NsTable} (ht : TableOK tbl) (f : Forest) (hf : ForestOK tbl f) : WFF (rawOfF tbl f) := by
  cases f with
  | nil => trivial
  | cons h t => exact ⟨WFN_rawOf ht h hf.1, WFF_rawOfF ht t hf.2⟩
end

theorem mem_nsDecls (tbl : NsTable) (a : Str × Str) (h : a ∈ nsDecls tbl) :
    ∃ e ∈ tbl, a = (XMLNS_COLON ++ e.2, e.1) := by
  induction tbl with
  | nil => cases h
  | cons e r ih =>
    obtain ⟨n, p⟩ := e
    simp only [nsDecls, List.mem_cons] at h
    rcases h with rfl | h
    · exact ⟨(n, p), by simp, rfl⟩
    · obtain ⟨e, he, hae⟩ := ih h
      exact ⟨e, by simp [he], hae⟩

theorem isNameChar_xmlns_colon : ∀ c ∈ XMLNS_COLON, isNameChar c = true := by decide

theorem WFN_rawRoot {tbl : NsTable} (ht : TableOK tbl) (q : QName) (attrs : List (QName × Str)) (kids : Forest)
    (hu : TreeOK tbl (.elem q attrs kids)) : WFN (rawRoot tbl (.elem q attrs kids)) := by
  obtain ⟨hq, hc, ha, hk⟩ := hu
  refine ⟨NameOK_qualify ht q hq hc, ?_, ?_, WFF_rawOfF ht kids hk⟩
  · -- AttrsOK
    intro a hmem
    rcases List.mem_append.mp hmem with h | h
    · -- a declaration
      have := mem_nsDecls tbl a h
      obtain ⟨e, he, rfl⟩ := this
      have hte := ht.2 e he
      refine ⟨?_, hte.2.2.2⟩
      have : NameOK XMLNS_COLON = true := by decide
      exact NameOK_append this (NameOK_all _ (nameOK_of_isNCName hte.1))
    · exact attrsOK_rawAttrs ht attrs ha a h
  · -- no two attributes with the same written name
    rw [nodupNames_iff, List.map_append, List.nodup_append]
    refine ⟨?_, nodup_rawAttrs ht attrs ha, ?_⟩
    · rw [map_fst_nsDecls]
      rw [show tbl.map (fun e => XMLNS_COLON ++ e.2) = (tbl.map (·.2)).map (fun p => XMLNS_COLON ++ p) by simp [List.map_map, Function.comp_def]]
      exact nodup_map_on (fun a _ b _ h => List.append_cancel_left h) ht.1
    · intro x hx y hy hxy
      subst hxy
      rw [map_fst_nsDecls] at hx
      rw [map_fst_rawAttrs] at hy
      obtain ⟨e, _, rfl⟩ := List.mem_map.mp hx
      obtain ⟨a, ha', heq⟩ := List.mem_map.mp hy
      have := (not_decl_qualify ht a.1 (ha.2 a ha').1 (ha.2 a ha').2.1).1
      rw [heq, dropPrefix?_append] at this
      cases this

/-! ### the canonical tree is again an admissible tree -/

theorem hu_lt (c : Nat) (h : c < 0x110000) : hu c < 0x110000 := by
  unfold hu; split
  · decide
  · exact h

theorem strOK_map_hu (s : Str) (h : StrOK s) : StrOK (s.map hu) := by
  intro c hc
  obtain ⟨c0, hc0, rfl⟩ := List.mem_map.mp hc
  exact hu_lt c0 (h c0 hc0)

theorem strOK_append {a b : Str} (ha : StrOK a) (hb : StrOK b) : StrOK (a ++ b) := by
  intro c hc
  rcases List.mem_append.mp hc with h | h
  · exact ha c h
  · exact hb c h

theorem map_fst_huAttrsQ (as : List (QName × Str)) : (huAttrsQ as).map (·.1) = as.map (·.1) := by
  induction as with
  | nil => rfl
  | cons a r ih => obtain ⟨q, v⟩ := a; simp [huAttrsQ, ih]

theorem attrsQOK_huAttrsQ {tbl : NsTable} (as : List (QName × Str)) (h : AttrsQOK tbl as) :
    AttrsQOK tbl (huAttrsQ as) := by
  refine ⟨(nodupQ_iff _).mpr (by rw [map_fst_huAttrsQ]; exact (nodupQ_iff _).mp h.1), ?_⟩
  have h2 := h.2
  clear h
  induction as with
  | nil => intro a ha; cases ha
  | cons x r ih =>
    obtain ⟨q, v⟩ := x
    intro a ha
    simp only [huAttrsQ, List.mem_cons] at ha
    have hx := h2 (q, v) (by simp)
    rcases ha with rfl | ha
    · exact ⟨hx.1, hx.2.1, strOK_map_hu v hx.2.2⟩
    · exact ih (fun a' ha' => h2 a' (by simp [ha'])) a ha

theorem forestOK_flushT {tbl : NsTable} (acc : Str) (f : Forest) (ha : StrOK acc) (hf : ForestOK tbl f) :
    ForestOK tbl (flushT acc f) := by
  unfold flushT; split
  · exact hf
  · exact ⟨ha, hf⟩

theorem forestOK_canonTF {tbl : NsTable} (acc : Str) (f : Forest) (ha : StrOK acc) (hf : ForestOK tbl f) :
    ForestOK tbl (canonTF acc f) := by
  fun_induction canonTF acc f with
  | case1 acc => exact forestOK_flushT acc .nil ha trivial
  | case2 acc s t ih => exact ih (strOK_append ha (strOK_map_hu s hf.1)) hf.2
  | case3 acc s t ih => exact ih (strOK_append ha (strOK_map_hu s hf.1)) hf.2
  | case4 acc q attrs kids t ih1 ih2 =>
    obtain ⟨⟨hq, hc, hat, hk⟩, ht⟩ := hf
    have hnil : StrOK ([] : Str) := by intro c hc; cases hc
    exact forestOK_flushT acc _ ha ⟨⟨hq, hc, attrsQOK_huAttrsQ attrs hat, ih1 hnil hk⟩, ih2 hnil ht⟩

theorem treeOK_canonT {tbl : NsTable} (q : QName) (attrs : List (QName × Str)) (kids : Forest)
    (h : TreeOK tbl (.elem q attrs kids)) : TreeOK tbl (canonT (.elem q attrs kids)) := by
  obtain ⟨hq, hc, ha, hk⟩ := h
  exact ⟨hq, hc, attrsQOK_huAttrsQ attrs ha, forestOK_canonTF [] kids (by intro c hc; cases hc) hk⟩

/-- **print/parse round trip** (the core of C01, C02, C14): for every admissible table and every tree covered by it,
    the emitted stream is accepted by the reference parser, which returns the canonical form of the tree. -/
theorem parseDoc_render (tbl : NsTable) (q : QName) (attrs : List (QName × Str)) (kids : Forest)
    (ht : TableOK tbl) (hcl : NsClean tbl) (hu : TreeOK tbl (.elem q attrs kids)) :
    parseDoc (render tbl (.elem q attrs kids)) = some (canonT (.elem q attrs kids)) := by
  have hwf := WFN_rawRoot ht q attrs kids hu
  have hlex := parseElem_print ((printNode (rawRoot tbl (.elem q attrs kids)) ++ []).length + 1)
    (qualify tbl q) (nsDecls tbl ++ rawAttrs tbl attrs) (rawOfF tbl kids) [] hwf (by simp [rawRoot])
  unfold parseDoc parseRawDoc render
  rw [dropPrefix?_append]
  simp only [rawRoot, List.append_nil] at hlex ⊢
  rw [hlex]
  have hc := canonE_rawRoot tbl hcl q attrs kids
  simp only [canonE, rawRoot] at hc
  rw [hc]
  exact resolve_rawRoot ht q (huAttrsQ attrs) (canonTF [] kids) (treeOK_canonT q attrs kids hu)

end OdfModel.Xml

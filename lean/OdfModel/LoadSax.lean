/-
  OdfModel.LoadSax — model of odf/load.py (`LoadParser`) as a state machine over SAX events, with the part of
  `OpenDocument.build_caches` / `__register_stylename` that runs while a loaded element is attached, and of
  `__fixXmlPart` (odf/opendocument.py) at character level.  Properties C04, C05.

  Python (tree as of the `fix:` commits)                                           model
  ------------------------------------------------------------------------------  ---------------------------------
  LoadParser.__init__: doc, data = [], level = 0, parse = False                    `St.fresh` (`level` is never read)
        (`parent` / `curr` do not exist yet)                                       `Root.unset`
  characters(data): if parse and not skip: self.data.append(data)                  `stepChars` (`data` is kept as the
                                                                                    concatenation `''.join(self.data)`)
  startElementNS(tag, qname, attrs):                                               `stepStart`
     depth += 1; section = depth == 2 and tag in triggers      (repair e0e65e8)    `isSection`: only the children of
     if section: parse = True                                                         the root element are sections
     if not parse: return
     (at the start of an office:font-face-decls section: fonts = names declared so far)
     if skip or (style:font-face under doc.fontfacedecls whose style:name is in       `fontDeclared`: office:font-face-decls
         fonts): skip += 1; return                  (repair b40b9f8)    is read from content.xml AND styles.xml
     content = ''.join(data); if content: parent.addText(content); data = []           `addToParent` (`addText` skips '')
     e = Element(qname=tag, qattributes=attrs, check_grammar=False); curr = e          frame ⟨q, attrs, []⟩
     if tag is one of the eight section elements: e = the document's section object    `secOfTrigger`: the element just
         (office:font-face-decls only while parsing styles.xml)                        built is dropped (`currDet`), the
         for att, value in attrdict.items(): e.setAttrNS(..)   (fix 2a48e47)           section object gets its attributes
                                                                                       (`Doc.putAttrs`)
     if not section: parent.addElement(e)                                              push frame; `attachHook`
     parent = e
  endElementNS(tag, qname):                                                        `stepStop`
     depth -= 1; if not parse: return; if skip: skip -= 1; return
     s = ''.join(data); if s: curr.addText(s); data = []                               `addToCurr`
     curr = curr.parentNode; parent = curr                                             pop frame / climb `Root`
     if depth == 1 and tag in triggers: parse = False
  Node.appendChild → _child_attached → doc.rebuild_caches(e) → build_caches(e):    `attachHook`
     style:style with style:name under office:styles / office:automatic-styles is
     registered by name; a name already registered (during a load `__registered_style(name)` is
     just the index lookup: nothing is removed or renamed afterwards) is renamed 'M'+name (once; if that name
     is taken too its index entry is overwritten), and the pair
     goes into _styles_ooo_fix; then text:style-name of e is rewritten if it is a key
     of _styles_ooo_fix.   (the element has no children yet when it is attached)

  The tree is held as a zipper: `spine` = the open elements from the innermost outwards, each with the children
  it has so far; `root` = what the outermost open element hangs on (a section of the document, the
  office:document top node, a detached element, None, or nothing yet).  Python attaches an element to its parent
  at the START tag; the zipper attaches it when it is closed or when the parser abandons it (`settle`), which is
  the same tree once the part has been read.

  Attribute values: `Element.setAttrNS` passes every value through its converter (C15).  The model stores the
  values it is given; the harness applies the real converter to the recorded events before it sends them.

  `__fixXmlPart` (as of fixes 4cb8050, 692b8c3, e859a9c): `fixXmlPart` — the prolog (`prologLen`: Python's backtracking
  match of the prolog regex, modelled for every text), the document element's name exactly behind it, the text up to the
  next `>` outside quotes as "root tag", a white-space tolerant test per prefix on it, splice right after the element name.
-/
import OdfModel.Xml.Tree
namespace OdfModel.LoadSax
open OdfModel OdfModel.Xml

/-! ### names (code points) -/

/-- `urn:oasis:names:tc:opendocument:xmlns:office:1.0` -/
def OFFICENS : Str := [117, 114, 110, 58, 111, 97, 115, 105, 115, 58, 110, 97, 109, 101, 115, 58, 116, 99, 58, 111, 112, 101, 110, 100, 111, 99, 117, 109, 101, 110, 116, 58, 120, 109, 108, 110, 115, 58, 111, 102, 102, 105, 99, 101, 58, 49, 46, 48]
/-- `urn:oasis:names:tc:opendocument:xmlns:style:1.0` -/
def STYLENS : Str := [117, 114, 110, 58, 111, 97, 115, 105, 115, 58, 110, 97, 109, 101, 115, 58, 116, 99, 58, 111, 112, 101, 110, 100, 111, 99, 117, 109, 101, 110, 116, 58, 120, 109, 108, 110, 115, 58, 115, 116, 121, 108, 101, 58, 49, 46, 48]
/-- `urn:oasis:names:tc:opendocument:xmlns:text:1.0` -/
def TEXTNS : Str := [117, 114, 110, 58, 111, 97, 115, 105, 115, 58, 110, 97, 109, 101, 115, 58, 116, 99, 58, 111, 112, 101, 110, 100, 111, 99, 117, 109, 101, 110, 116, 58, 120, 109, 108, 110, 115, 58, 116, 101, 120, 116, 58, 49, 46, 48]
/-- `urn:oasis:names:tc:opendocument:xmlns:meta:1.0` -/
def METANS : Str := [117, 114, 110, 58, 111, 97, 115, 105, 115, 58, 110, 97, 109, 101, 115, 58, 116, 99, 58, 111, 112, 101, 110, 100, 111, 99, 117, 109, 101, 110, 116, 58, 120, 109, 108, 110, 115, 58, 109, 101, 116, 97, 58, 49, 46, 48]
def lAutomaticStyles : Str := [97, 117, 116, 111, 109, 97, 116, 105, 99, 45, 115, 116, 121, 108, 101, 115]
def lBody : Str := [98, 111, 100, 121]
def lFontFaceDecls : Str := [102, 111, 110, 116, 45, 102, 97, 99, 101, 45, 100, 101, 99, 108, 115]
def lMasterStyles : Str := [109, 97, 115, 116, 101, 114, 45, 115, 116, 121, 108, 101, 115]
def lMeta : Str := [109, 101, 116, 97]
def lScripts : Str := [115, 99, 114, 105, 112, 116, 115]
def lSettings : Str := [115, 101, 116, 116, 105, 110, 103, 115]
def lStyles : Str := [115, 116, 121, 108, 101, 115]
def lStyle : Str := [115, 116, 121, 108, 101]
def lName : Str := [110, 97, 109, 101]
def lStyleName : Str := [115, 116, 121, 108, 101, 45, 110, 97, 109, 101]
def lDocument : Str := [100, 111, 99, 117, 109, 101, 110, 116]

def qAutoStyles : QName := ⟨OFFICENS, lAutomaticStyles⟩
def qBody : QName := ⟨OFFICENS, lBody⟩
def qFontFace : QName := ⟨OFFICENS, lFontFaceDecls⟩
def qMaster : QName := ⟨OFFICENS, lMasterStyles⟩
def qMeta : QName := ⟨OFFICENS, lMeta⟩
def qScripts : QName := ⟨OFFICENS, lScripts⟩
def qSettings : QName := ⟨OFFICENS, lSettings⟩
def qStyles : QName := ⟨OFFICENS, lStyles⟩
def qDocument : QName := ⟨OFFICENS, lDocument⟩
/-- `style:style` -/
def qStyle : QName := ⟨STYLENS, lStyle⟩
/-- the attribute `style:name` -/
def aStyleName : QName := ⟨STYLENS, lName⟩
/-- the attribute `text:style-name` -/
def aTextStyleName : QName := ⟨TEXTNS, lStyleName⟩
/-- `style:font-face` -/
def qFontFaceEl : QName := ⟨STYLENS, [102, 111, 110, 116, 45, 102, 97, 99, 101]⟩

/-! ### events, sections, the document -/

inductive Event where
  | start (q : QName) (attrs : List (QName × Str))
  | chars (s : Str)
  | stop (q : QName)
deriving Repr

/-- the eight section objects of an `OpenDocument` -/
inductive Sec where
  | autoStyles | body | fontFace | master | metaS | scripts | settings | styles
deriving DecidableEq, Repr

/-- `LoadParser.triggers`, and which document attribute each one is routed to -/
def secOfTrigger (q : QName) : Option Sec :=
  if q = qAutoStyles then some .autoStyles
  else if q = qBody then some .body
  else if q = qFontFace then some .fontFace
  else if q = qMaster then some .master
  else if q = qMeta then some .metaS
  else if q = qScripts then some .scripts
  else if q = qSettings then some .settings
  else if q = qStyles then some .styles
  else none

def isTrigger (q : QName) : Bool := (secOfTrigger q).isSome

def qOfSec : Sec → QName
  | .autoStyles => qAutoStyles | .body => qBody | .fontFace => qFontFace | .master => qMaster
  | .metaS => qMeta | .scripts => qScripts | .settings => qSettings | .styles => qStyles

def appF : Forest → Forest → Forest
  | .nil, g => g
  | .cons h t, g => .cons h (appF t g)

def snocF (f : Forest) (n : Node) : Forest := appF f (.cons n .nil)

/-- the children of the eight section elements -/
structure Doc where
  autoStyles : Forest := .nil
  body : Forest := .nil
  fontFace : Forest := .nil
  master : Forest := .nil
  metaS : Forest := .nil
  scripts : Forest := .nil
  settings : Forest := .nil
  styles : Forest := .nil
  /-- the attributes of the section objects themselves (office:body … ): none on a fresh document -/
  sattrs : Sec → List (QName × Str) := fun _ => []

def Doc.get (d : Doc) : Sec → Forest
  | .autoStyles => d.autoStyles | .body => d.body | .fontFace => d.fontFace | .master => d.master
  | .metaS => d.metaS | .scripts => d.scripts | .settings => d.settings | .styles => d.styles

def Doc.set (d : Doc) (s : Sec) (f : Forest) : Doc :=
  match s with
  | .autoStyles => { d with autoStyles := f } | .body => { d with body := f }
  | .fontFace => { d with fontFace := f } | .master => { d with master := f }
  | .metaS => { d with metaS := f } | .scripts => { d with scripts := f }
  | .settings => { d with settings := f } | .styles => { d with styles := f }

/-- append children to a section -/
def Doc.app (d : Doc) (s : Sec) (f : Forest) : Doc := d.set s (appF (d.get s) f)

/-! ### parser state -/

/-- an open element and the children it has so far -/
structure Frame where
  q : QName
  attrs : List (QName × Str)
  kids : Forest

def Frame.close (f : Frame) : Node := .elem f.q f.attrs f.kids
def Frame.add (f : Frame) (ns : Forest) : Frame := { f with kids := appF f.kids ns }

/-- what the outermost open element hangs on -/
inductive Root where
  | unset            -- the attributes `parent` / `curr` do not exist yet
  | none             -- they are None (the parentNode of a detached element or of the top node)
  | top              -- the office:document top node (not one of the sections: what lands here is not observed)
  | det              -- an element that is attached to nothing: what lands here is lost
  | sec (s : Sec)    -- a section object of the document
deriving DecidableEq, Repr

structure St where
  doc : Doc
  names : List Str := []             -- keys of `_styles_dict`
  fix : List (Str × Str) := []       -- `_styles_ooo_fix`
  stylesPart : Bool                  -- `doc._parsing == "styles.xml"`
  parsing : Bool := false            -- `self.parse`
  data : Str := []                   -- `''.join(self.data)`
  root : Root := .unset
  spine : List Frame := []           -- open elements, innermost first
  depth : Int := 0                   -- `self.depth`: nesting depth of the current element, the root element is 1
  skip : Nat := 0                    -- `self.skip`: depth inside a font declaration that is skipped
  fonts : List (Option Str) := []    -- `self.fonts`: the font names declared when the current office:font-face-decls began
  currDet : Bool := false            -- `curr` is the discarded element built for a section start tag
                                     -- (then `parent` is the section, spine = [])

/-- attach the closed spine to its root (what Python did at each start tag) -/
def collapseInto (n : Node) : List Frame → Node
  | [] => n
  | g :: r => collapseInto (g.add (.cons n .nil)).close r

def collapse : List Frame → Option Node
  | [] => none
  | f :: r => some (collapseInto f.close r)

def attachToRoot (st : St) (ns : Forest) : St :=
  match st.root with
  | .sec s => { st with doc := st.doc.app s ns }
  | _ => st

/-- give up the open elements: they stay where they were attached -/
def settle (st : St) : St :=
  match collapse st.spine with
  | none => st
  | some n => { attachToRoot st (.cons n .nil) with spine := [] }

/-- `parent.addText(..)` / `parent.addElement(..)`: `none` = AttributeError (parent is None or does not exist) -/
def addToParent (st : St) (ns : Forest) : Option St :=
  match st.spine with
  | f :: r => some { st with spine := f.add ns :: r }
  | [] =>
    match st.root with
    | .sec s => some { st with doc := st.doc.app s ns }
    | .top => some st
    | .det => some st
    | .none => none
    | .unset => none

/-- `curr.addText(..)` -/
def addToCurr (st : St) (ns : Forest) : Option St :=
  if st.currDet then some st else addToParent st ns

/-- qname of `parent`, if `parent` belongs to the document (has an ownerDocument) -/
def parentQ (st : St) : Option QName :=
  match st.root with
  | .sec s => some (match st.spine with | f :: _ => f.q | [] => qOfSec s)
  | .top => some (match st.spine with | f :: _ => f.q | [] => qDocument)
  | _ => none

def lookupA (k : QName) : List (QName × Str) → Option Str
  | [] => none
  | (q, v) :: r => if q = k then some v else lookupA k r

/-- `self.attributes[k] = v` for an existing key (position kept) or a new one (appended) -/
def setA (k : QName) (v : Str) : List (QName × Str) → List (QName × Str)
  | [] => [(k, v)]
  | (q, w) :: r => if q = k then (k, v) :: r else (q, w) :: setA k v r

/-- `for (att, value) in attrdict.items(): e.setAttrNS(att[0], att[1], value)` on an element that may already have
    attributes: an existing key keeps its place and takes the new value, a new key is appended -/
def putAttrs (cur : List (QName × Str)) : List (QName × Str) → List (QName × Str)
  | [] => cur
  | (k, v) :: r => putAttrs (setA k v cur) r

/-- (fix 2a48e47) the section object receives the attributes of the section element of the file; when the same
    section occurs in several parts (office:automatic-styles in content.xml and styles.xml) later values overwrite -/
def Doc.putAttrs (d : Doc) (s : Sec) (a : List (QName × Str)) : Doc :=
  { d with sattrs := fun s' => if s' = s then OdfModel.LoadSax.putAttrs (d.sattrs s) a else d.sattrs s' }

def lookupFix (k : Str) : List (Str × Str) → Option Str
  | [] => none
  | (a, b) :: r => if a = k then some b else lookupFix k r

def setFix (k v : Str) : List (Str × Str) → List (Str × Str)
  | [] => [(k, v)]
  | (a, b) :: r => if a = k then (k, v) :: r else (a, b) :: setFix k v r

def addName (n : Str) (names : List Str) : List Str := if n ∈ names then names else names ++ [n]

/-- `build_caches(e)` for an element that is being attached under `pq` -/
def attachHook (names : List Str) (fix : List (Str × Str)) (pq : Option QName) (q : QName)
    (attrs : List (QName × Str)) : List Str × List (Str × Str) × List (QName × Str) :=
  match pq with
  | none => (names, fix, attrs)          -- the parent is not part of a document: no index is kept
  | some p =>
    -- __register_stylename
    let r : List Str × List (Str × Str) × List (QName × Str) :=
      if q = qStyle then
        match lookupA aStyleName attrs with
        | none => (names, fix, attrs)
        | some nm =>
          if p = qStyles ∨ p = qAutoStyles then
            if nm ∈ names then
              let nn := 77 :: nm
              (addName nn names, setFix nm nn fix, setA aStyleName nn attrs)
            else (names ++ [nm], fix, attrs)
          else (names, fix, attrs)
      else (names, fix, attrs)
    -- the OOo fix of text:style-name
    match lookupA aTextStyleName r.2.2 with
    | none => r
    | some v =>
      match lookupFix v r.2.1 with
      | none => r
      | some w => (r.1, r.2.1, setA aTextStyleName w r.2.2)

/-! ### the three handlers -/

def stepChars (st : St) (s : Str) : St :=
  if st.parsing && st.skip == 0 then { st with data := st.data ++ s } else st

/-- `[f.getAttrNS(STYLENS, 'name') for f in self.parent.childNodes if f.nodeType == 1]` -/
def declaredNames : Forest → List (Option Str)
  | .nil => []
  | .cons (.elem _ a _) t => lookupA aStyleName a :: declaredNames t
  | .cons _ t => declaredNames t

/-- (repair b40b9f8) `tag == style:font-face and self.parent is self.doc.fontfacedecls and attrs.get(style:name) in
    self.fonts`: a font declaration whose name a part read EARLIER has declared (`self.fonts` is taken once, when the
    office:font-face-decls section starts; repeats inside one part are all kept) -/
def fontDeclared (st : St) (q : QName) (attrs : List (QName × Str)) : Bool :=
  decide (q = qFontFaceEl) && st.spine.isEmpty && decide (st.root = .sec .fontFace) &&
  st.fonts.contains (lookupA aStyleName attrs)

def stepStart (st : St) (q : QName) (attrs : List (QName × Str)) : Option St :=
  let d := st.depth + 1
  -- (repair e0e65e8) the sections are the children of the root element
  let isSection := decide (d = 2) && isTrigger q
  let p1 := if isSection then true else st.parsing
  -- `self.fonts = [names declared so far]` when an office:font-face-decls section starts
  let fonts := if isSection && decide (q = qFontFace) then declaredNames st.doc.fontFace else st.fonts
  if !p1 then some { st with depth := d }
  else if st.skip != 0 || fontDeclared st q attrs then some { st with depth := d, parsing := true, skip := st.skip + 1 }
  else
    let flushed : Option St :=
      if st.data.isEmpty then some { st with depth := d, parsing := true, fonts := fonts }
      else (addToParent st (.cons (.text st.data) .nil)).map
        (fun s => { s with depth := d, data := [], parsing := true, fonts := fonts })
    match flushed with
    | none => none
    | some st1 =>
      match (if isSection then secOfTrigger q else none) with
      | some s =>
        -- the element that was built is dropped (`curr` still points to it); `parent` becomes the section
        -- object, which receives the attributes of the file (fix 2a48e47)
        let st2 := settle st1
        some { st2 with doc := st2.doc.putAttrs s attrs, root := .sec s, spine := [], currDet := true }
      | none =>
        -- `self.parent.addElement(e)`: AttributeError if `parent` does not exist or is None
        match st1.spine, st1.root with
        | [], .unset => none
        | [], .none => none
        | _, _ =>
          let h := attachHook st1.names st1.fix (parentQ st1) q attrs
          some { st1 with names := h.1, fix := h.2.1, spine := ⟨q, h.2.2, .nil⟩ :: st1.spine, currDet := false }

def stepStop (st : St) (q : QName) : Option St :=
  let d := st.depth - 1
  if !st.parsing then some { st with depth := d }
  else if st.skip != 0 then some { st with depth := d, skip := st.skip - 1 }
  else
    let flushed : Option St :=
      if st.data.isEmpty then some { st with depth := d }
      else (addToCurr st (.cons (.text st.data) .nil)).map (fun s => { s with depth := d, data := [] })
    match flushed with
    | none => none
    | some st1 =>
      -- curr = curr.parentNode ; parent = curr
      let climbed : Option St :=
        match st1.spine with
        | f :: g :: r => some { st1 with spine := g.add (.cons f.close .nil) :: r, currDet := false }
        | [f] => some { attachToRoot st1 (.cons f.close .nil) with spine := [], currDet := false }
        | [] =>
          if st1.currDet then some { st1 with root := .none, currDet := false }
          else match st1.root with
            | .sec _ => some { st1 with root := .top }
            | .top => some { st1 with root := .none }
            | .det => some { st1 with root := .none }
            | .none => none
            | .unset => none
      climbed.map (fun s => if decide (d = 1) && isTrigger q then { s with parsing := false } else s)

def step (st : St) : Event → Option St
  | .start q a => stepStart st q a
  | .chars s => some (stepChars st s)
  | .stop q => stepStop st q

def run (st : St) : List Event → Option St
  | [] => some st
  | e :: es => match step st e with
    | none => none
    | some st' => run st' es

/-- `styles.xml` -/
def sStylesXml : Str := [115, 116, 121, 108, 101, 115, 46, 120, 109, 108]

/-- `s.rsplit('/', 1)[-1]` -/
def baseName (s : Str) : Str := (s.reverse.takeWhile (· != 47)).reverse

/-- (fix 934baed) `doc._parsing.rsplit('/', 1)[-1] == "styles.xml"`: `_parsing` is the member name including the
    object folder ("Object 1/styles.xml"); only its base name is compared -/
def stylesPartOf (member : Str) : Bool := baseName member = sStylesXml

/-- `settings.xml`, `meta.xml`, `content.xml` -/
def sSettingsXml : Str := [115, 101, 116, 116, 105, 110, 103, 115, 46, 120, 109, 108]
def sMetaXml : Str := [109, 101, 116, 97, 46, 120, 109, 108]
def sContentXml : Str := [99, 111, 110, 116, 101, 110, 116, 46, 120, 109, 108]

/-- the document and its style index, as they travel from one part to the next -/
structure Loaded where
  doc : Doc := {}
  names : List Str := []
  fix : List (Str × Str) := []

/-- `LoadParser(doc)` on one part: a fresh parser over the same document -/
def loadPart (stylesPart : Bool) (l : Loaded) (evs : List Event) : Option Loaded :=
  match run { doc := l.doc, names := l.names, fix := l.fix, stylesPart := stylesPart } evs with
  | none => none
  | some st => let s := settle st; some ⟨s.doc, s.names, s.fix⟩

/-- `__loadxmlparts`: the parts of one (sub-)document in the order settings.xml, meta.xml, content.xml, styles.xml
    (the caller lists the ones that are in the manifest), each with a fresh parser, `_parsing` = the member name -/
def loadParts (l : Loaded) : List (Str × List Event) → Option Loaded
  | [] => some l
  | (member, evs) :: r =>
    match loadPart (stylesPartOf member) l evs with
    | none => none
    | some l' => loadParts l' r

/-! ### event stream of a tree -/

mutual
def evN : Node → List Event
  | .text s => [.chars s]
  | .cdata s => [.chars s]
  | .elem q a kids => .start q a :: (evF kids ++ [.stop q])
def evF : Forest → List Event
  | .nil => []
  | .cons h t => evN h ++ evF t
end

/-- adjacent character events merged, empty ones dropped: the chunking-free form of an event stream -/
def normEv : List Event → List Event
  | [] => []
  | .chars s :: r =>
    match normEv r with
    | .chars t :: r' => .chars (s ++ t) :: r'
    | r' => if s.isEmpty then r' else .chars s :: r'
  | e :: r => e :: normEv r

/-! ### the four parts `save` writes, as trees (contentxml / stylesxml / metaxml / settingsxml)

  `usedC` / `usedS` are the automatic styles `_used_auto_styles` selects for content.xml (segments
  `[styles, body]` since fix ff5b530) / styles.xml (`[masterstyles]`) — C10's subject: a parameter here.  A section element is written with the attributes of the section object (none on a document
  built through the API) — `secEl`.  scripts / font-face-decls / master-styles are written only `if hasChildNodes()`. -/

def lGenerator : Str := [103, 101, 110, 101, 114, 97, 116, 111, 114]
def lDocContent : Str := [100, 111, 99, 117, 109, 101, 110, 116, 45, 99, 111, 110, 116, 101, 110, 116]
def lDocStyles : Str := [100, 111, 99, 117, 109, 101, 110, 116, 45, 115, 116, 121, 108, 101, 115]
def lDocMeta : Str := [100, 111, 99, 117, 109, 101, 110, 116, 45, 109, 101, 116, 97]
def lDocSettings : Str := [100, 111, 99, 117, 109, 101, 110, 116, 45, 115, 101, 116, 116, 105, 110, 103, 115]
def lVersion : Str := [118, 101, 114, 115, 105, 111, 110]
/-- `1.2` -/
def v12 : Str := [49, 46, 50]

def qGenerator : QName := ⟨METANS, lGenerator⟩
def qDocContent : QName := ⟨OFFICENS, lDocContent⟩
def qDocStyles : QName := ⟨OFFICENS, lDocStyles⟩
def qDocMeta : QName := ⟨OFFICENS, lDocMeta⟩
def qDocSettings : QName := ⟨OFFICENS, lDocSettings⟩
/-- `office:version="1.2"` (DocumentContent() … are created with version="1.2") -/
def verAttrs : List (QName × Str) := [(⟨OFFICENS, lVersion⟩, v12)]

def isGen : Node → Bool
  | .elem q _ _ => decide (q = qGenerator)
  | _ => false

def filterNG : Forest → Forest
  | .nil => .nil
  | .cons h t => if isGen h then filterNG t else .cons h (filterNG t)

/-- `meta.Generator(text=TOOLSVERSION)` -/
def genNode (tv : Str) : Node := .elem qGenerator [] (if tv.isEmpty then .nil else .cons (.text tv) .nil)

/-- `__replaceGenerator`: every meta:generator child removed, a new one appended -/
def normGen (tv : Str) (m : Forest) : Forest := appF (filterNG m) (.cons (genNode tv) .nil)

/-- a section object written with `toXml`: its own attributes, its children -/
def secEl (d : Doc) (s : Sec) (f : Forest) : Node := .elem (qOfSec s) (d.sattrs s) f

/-- `a = AutomaticStyles()`: contentxml / stylesxml write the selected styles inside a FRESH element, so the
    attributes of `doc.automaticstyles` are never written -/
def autoEl (f : Forest) : Node := .elem qAutoStyles [] f

/-- `if x.hasChildNodes(): x.toXml(1, xml)` -/
def ifKids (d : Doc) (s : Sec) (f : Forest) : Forest :=
  match f with
  | .nil => .nil
  | f => .cons (secEl d s f) .nil

def contentTree (d : Doc) (usedC : Forest) : Node :=
  .elem qDocContent verAttrs
    (appF (ifKids d .scripts d.scripts) (appF (ifKids d .fontFace d.fontFace)
      (.cons (autoEl usedC) (.cons (secEl d .body d.body) .nil))))

def stylesTree (d : Doc) (usedS : Forest) : Node :=
  .elem qDocStyles verAttrs
    (appF (ifKids d .fontFace d.fontFace)
      (.cons (secEl d .styles d.styles) (.cons (autoEl usedS) (ifKids d .master d.master))))

def metaTree (tv : Str) (d : Doc) : Node :=
  .elem qDocMeta verAttrs (.cons (secEl d .metaS (normGen tv d.metaS)) .nil)

def settingsTree (d : Doc) : Node :=
  .elem qDocSettings verAttrs (.cons (secEl d .settings d.settings) .nil)

/-- `_saveXmlObjects`: settings.xml is written only `if settings.hasChildNodes()` -/
def writesSettings (d : Doc) : Bool := match d.settings with | .nil => false | _ => true

/-! ### `__fixXmlPart` -/

def isPrefixOf (p s : Str) : Bool :=
  match p, s with
  | [], _ => true
  | _ :: _, [] => false
  | a :: p', b :: s' => a == b && isPrefixOf p' s'

/-- `pat in s` -/
def isInfix (pat : Str) : Str → Bool
  | [] => pat.isEmpty
  | c :: s => isPrefixOf pat (c :: s) || isInfix pat s

/-- `s.index(pat)`; `none` = ValueError -/
def indexOf (pat : Str) : Str → Option Nat
  | [] => if pat.isEmpty then some 0 else none
  | c :: s => if isPrefixOf pat (c :: s) then some 0 else (indexOf pat s).map (· + 1)

/-- ` xmlns:` -/
def sXmlnsSp : Str := [32, 120, 109, 108, 110, 115, 58]
/-- `xmlns:` -/
def sXmlnsC : Str := [120, 109, 108, 110, 115, 58]
/-- `="urn:oasis:names:tc:opendocument:xmlns:` -/
def sInsMid : Str := [61, 34, 117, 114, 110, 58, 111, 97, 115, 105, 115, 58, 110, 97, 109, 101, 115, 58, 116, 99, 58, 111, 112, 101, 110, 100, 111, 99, 117, 109, 101, 110, 116, 58, 120, 109, 108, 110, 115, 58]
/-- `:1.0"` -/
def sInsEnd : Str := [58, 49, 46, 48, 34]

/-- `requestedPrefixes`: meta config dc style svg fo draw table form -/
def requested : List Str :=
  [[109, 101, 116, 97], [99, 111, 110, 102, 105, 103], [100, 99], [115, 116, 121, 108, 101], [115, 118, 103], [102, 111],
   [100, 114, 97, 119], [116, 97, 98, 108, 101], [102, 111, 114, 109]]

/-- ` xmlns:{prefix}="urn:oasis:names:tc:opendocument:xmlns:{prefix}:1.0"` -/
def toInsert (p : Str) : Str := sXmlnsSp ++ p ++ sInsMid ++ p ++ sInsEnd

/-- `\s` of Python's `re` on `str` (compared with the real `re` on every code point by the harness) -/
def isPySpace (c : Cp) : Bool :=
  (9 ≤ c && c ≤ 13) || (28 ≤ c && c ≤ 32) || c == 0x85 || c == 0xA0 || c == 0x1680 || (0x2000 ≤ c && c ≤ 0x200A) ||
  c == 0x2028 || c == 0x2029 || c == 0x202F || c == 0x205F || c == 0x3000

/-- `[^\s/>]` -/
def isRootNameCh (c : Cp) : Bool := !(isPySpace c || c == 47 || c == 62)

/-- the text of a quoted run after its opening quote `q`: (inside, rest after the closing quote) -/
def splitAtQuote (q : Cp) (r : Str) : Option (Str × Str) :=
  if r.contains q then some (r.takeWhile (· != q), (r.dropWhile (· != q)).drop 1) else none

/-! #### the prolog (fix e859a9c)

  `re.match(u'\ufeff?(?:\s|<\?(?:[^?]|\?(?!>))*\?>|<!--(?:[^-]|-(?!->))*-->|<!DOCTYPE(?:"[^"]*"|'[^']*'|\[(?:<!--(?:[^-]|-(?!->))*-->|<\?(?:[^?]|\?(?!>))*\?>|"[^"]*"|'[^']*'|[^\]"'<]|<(?!!--|\?))*\]|[^\[>"'])*>)*', x)`
  for EVERY text (well-formed prolog or not).  Every alternative of every group starts differently and has one way to
  match, so Python's backtracking matcher finds what a deterministic scanner finds:
  * nothing follows the outer `(...)*`, so it never fails: "take items while one matches" (`prologRest`);
  * `<\?(?:[^?]|\?(?!>))*\?>` runs from `<?` to the FIRST `?>` behind it, `<!--(?:[^-]|-(?!->))*-->` from `<!--` to the first
    `-->` (`afterFirst`); without one the alternative fails and no other starts with these characters: the prolog ends
    in front of them;
  * inside `<!DOCTYPE … >` (`dtTop`) and inside its `[ … ]` (`dtSubset`) quoted literals, and in the subset comments and
    processing instructions, are units; in the subset `<!--` / `<?` can ONLY be a comment / processing instruction
    (`[^\]"'<]|<(?!!--|\?)`), an unterminated one — like an unterminated literal, subset or declaration — makes the DOCTYPE
    alternative fail (`none`) and the prolog end in front of `<!DOCTYPE`.  (d63f155 had `<!--.*?-->|…|[^\]"']` there: two ways
    to read `<!--`, exponential backtracking on an unterminated subset.)
  Fuel: every call consumes at least one character, `length + 1` is enough. -/

/-- the text behind the first occurrence of `pat` -/
def afterFirst (pat : Str) : Str → Option Str
  | [] => if pat.isEmpty then some [] else none
  | c :: s => if isPrefixOf pat (c :: s) then some ((c :: s).drop pat.length) else afterFirst pat s

/-- `?>` -/
def sPiEnd : Str := [63, 62]
/-- `!--` (behind `<`) -/
def sBangDashes : Str := [33, 45, 45]
/-- `-->` -/
def sCommentEnd : Str := [45, 45, 62]
/-- `!DOCTYPE` (behind `<`) -/
def sBangDoctype : Str := [33, 68, 79, 67, 84, 89, 80, 69]

mutual
/-- behind `<!DOCTYPE`, outside `[ ]`: `"[^"]*"` | `'[^']*'` | `\[ … \]` | `[^\[>"']`, then `>` -/
def dtTop : Nat → Str → Option Str
  | 0, _ => none
  | _+1, [] => none
  | f+1, c :: r =>
    if c == 62 then some r
    else if c == 34 || c == 39 then
      match splitAtQuote c r with
      | some (_, rest) => dtTop f rest
      | none => none
    else if c == 91 then dtSubset f r
    else dtTop f r
/-- inside `[ ]`: comment | processing instruction | `"[^"]*"` | `'[^']*'` | `[^\]"'<]` | `<(?!!--|\?)`, then `\]` -/
def dtSubset : Nat → Str → Option Str
  | 0, _ => none
  | _+1, [] => none
  | f+1, c :: r =>
    if c == 93 then dtTop f r
    else if c == 34 || c == 39 then
      match splitAtQuote c r with
      | some (_, rest) => dtSubset f rest
      | none => none
    else if c == 60 && isPrefixOf sBangDashes r then
      match afterFirst sCommentEnd (r.drop 3) with
      | some rest => dtSubset f rest
      | none => none
    else if c == 60 && r.head? == some 63 then
      match afterFirst sPiEnd (r.drop 1) with
      | some rest => dtSubset f rest
      | none => none
    else dtSubset f r
end

/-- the items of the prolog: what is left of the text when no alternative matches any more -/
def prologRest : Nat → Str → Str
  | 0, s => s
  | _+1, [] => []
  | f+1, c :: r =>
    if isPySpace c then prologRest f r
    else if c == 60 then
      if r.head? == some 63 then
        match afterFirst sPiEnd (r.drop 1) with
        | some rest => prologRest f rest
        | none => c :: r
      else if isPrefixOf sBangDashes r then
        match afterFirst sCommentEnd (r.drop 3) with
        | some rest => prologRest f rest
        | none => c :: r
      else if isPrefixOf sBangDoctype r then
        match dtTop (r.length + 1) (r.drop 8) with
        | some rest => prologRest f rest
        | none => c :: r
      else c :: r
    else c :: r

/-- `\ufeff?` -/
def dropBom : Str → Str
  | 0xFEFF :: r => r
  | s => s

/-- `prolog.end()` -/
def prologLen (x : Str) : Nat := x.length - (prologRest (x.length + 1) (dropBom x)).length

/-- `re.compile(u'<(?![?!])[^\s/>]+').match(x, k)`: the END of the match (`root.end()`) -/
def rootEndAt (x : Str) (k : Nat) : Option Nat :=
  match x.drop k with
  | 60 :: d :: r =>
    if d != 63 && d != 33 && isRootNameCh d then some (k + 1 + ((d :: r).takeWhile isRootNameCh).length) else none
  | _ => none

/-- the end of the document element's name: looked for exactly behind the prolog (fix e859a9c; before, the first
    `<name` anywhere in the text was taken — inside a comment, a processing instruction or an entity literal too) -/
def findRootEnd (x : Str) : Option Nat := rootEndAt x (prologLen x)

/-- `re.match(u'(?:[^>"\']|"[^"]*"|\'[^\']*\')*', t).group(0)` (fix 692b8c3): the text up to the first `>` that is not
    inside a quoted attribute value; an opening quote without its closing quote ends the match -/
def scanTag : Nat → Str → Str
  | 0, _ => []
  | _+1, [] => []
  | f+1, c :: r =>
    if c == 62 then []
    else if c == 34 || c == 39 then
      match splitAtQuote c r with
      | some (ins, rest) => c :: (ins ++ c :: scanTag f rest)
      | none => []
    else c :: scanTag f r

def rootTagText (x : Str) (e : Nat) : Str := scanTag ((x.drop e).length + 1) (x.drop e)

/-- `\sxmlns:<p>\s*=` matches at the head of the text -/
def declAt (p : Str) : Str → Bool
  | [] => false
  | c :: r => isPySpace c && isPrefixOf (sXmlnsC ++ p) r &&
      ((r.drop (sXmlnsC ++ p).length).dropWhile isPySpace).head? == some 61

/-- `re.search(u'\sxmlns:%s\s*=' % p, roottag)` -/
def declares (p : Str) : Str → Bool
  | [] => false
  | c :: r => declAt p (c :: r) || declares p r

/-- one round of the loop (fixes 4cb8050, 692b8c3): the test looks at the document element's start tag (`rootTagText`),
    the splice goes right after the element name -/
def fixStep (tag : Str) (e : Nat) (result : Str) (p : Str) : Str :=
  if declares p tag then result else result.take e ++ toInsert p ++ result.drop e

def fixXmlPart (x : Str) : Str :=
  match findRootEnd x with
  | none => x
  | some e => requested.foldl (fixStep (rootTagText x e) e) x

end OdfModel.LoadSax

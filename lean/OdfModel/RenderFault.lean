/-
  OdfModel.RenderFault — output calls that FAIL part-way (property C12, with C07's "a failed call changes nothing").

  `save(stream)` / `write(stream)` hand every member to `zipfile.ZipFile.writestr`, which writes it to the stream at once; a stream
  whose `write()` raises (disk full, closed pipe), or a picture registered by a file name whose file is gone, makes the call
  raise while member number `k` of the package is being written.  What the document looks like afterwards is decided by ONE thing:
  whether `metaxml()` (the only rendering step that touches the document: `__replaceGenerator`) had already run.  `_saveXmlObjects`
  evaluates `self.metaxml()` as the argument of the `writestr` for `meta.xml`, i.e. after every member in front of `meta.xml` was
  written and before `meta.xml` itself is:

      failure while writing member k,  k <  position of meta.xml   → the document is untouched
      failure while writing member k,  k >= position of meta.xml   → the generator is normalised (as by any completed output call)

  Everything else `__zipwrite` sets up (`self._z`, `self.manifest`) is scratch state that the next call builds anew; the model has
  no such state, and the correspondence check (harness/c12.py: streams that raise at a chosen member, pictures by missing file)
  is what shows that the real code has none that matters.  A failed call has no output.
-/
import OdfModel.Render
namespace OdfModel.RenderFault
open OdfModel OdfModel.Render

/-- position of the first member called `n` in a member list (`none`: no such member) -/
def posOf (n : Str) : List (Str × Member) → Option Nat
  | [] => none
  | (m, _) :: r => if m == n then some 0 else (posOf n r).map (· + 1)

/-- a call and where it fails: `none` = it completes; `some k` = it raises while member `k` (0 = `mimetype`) is written.
    Only `save` / `write` take a stream; a fault on another call is ignored (those calls build a string in memory). -/
structure CallAt where
  op : Op
  fault : Option Nat
deriving Repr, Inhabited

def CallAt.fails (c : CallAt) : Bool :=
  match c.op, c.fault with
  | .save, some _ | .write, some _ => true
  | _, _ => false

/-- the document after a `save`/`write` that raised while member `k` was being written -/
def failStep (c : Cfg) (k : Nat) (d : Doc) : Doc :=
  match posOf (str "meta.xml") (pkg c.followed (normGen c.tv d)) with
  | some m => if m ≤ k then normGen c.tv d else d
  | none => d

def stepAt (c : Cfg) (call : CallAt) (d : Doc) : Doc :=
  match call.op, call.fault with
  | .save, some k | .write, some k => failStep c k d
  | op, _ => step c op d

/-- what the call hands back: nothing when it raised -/
def outAt (c : Cfg) (call : CallAt) (d : Doc) : Option Out :=
  if call.fails then none else some (out c call.op d)

def runAt (c : Cfg) : List CallAt → Doc → Doc
  | [], d => d
  | x :: r, d => runAt c r (stepAt c x d)

def outsAt (c : Cfg) : List CallAt → Doc → List (Option Out)
  | [], _ => []
  | x :: r, d => outAt c x d :: outsAt c r (stepAt c x d)

/-- the same call in the coarser vocabulary of `Render.Call` (a call that got through / raised before / raised after
    `metaxml()` ran): what the position `k` decides is only on which side of `meta.xml` the failure fell -/
def classify (c : Cfg) (d : Doc) (x : CallAt) : Render.Call :=
  match x.op, x.fault with
  | .save, some k | .write, some k =>
    (match posOf (str "meta.xml") (pkg c.followed (normGen c.tv d)) with
     | some m => if m ≤ k then .failedLate else .failedEarly
     | none => .failedEarly)
  | op, _ => .ok op

/-- the history with the failed calls taken out -/
def completed : List CallAt → List Op
  | [] => []
  | x :: r => if x.fails then completed r else x.op :: completed r

end OdfModel.RenderFault

/-
  OdfModel.Styles — model of the automatic-style selection of odf/opendocument.py (property C10),
  as of commits 8f9573d (complete reference-attribute list, closure over kept automatic styles) and
  ff5b530 (content.xml is seeded from the common styles and the body only).

  Python                                              model
  --------------------------------------------------  ------------------------------------------
  element tree (Element / Text / CDATASection)         `Node.elem name attrs kids` / `Node.text`
  `e.getAttrNS(ns, local)`  (dict lookup, None if       `attrs.lookup a`  (attribute names are `Nat`
     absent)                                              codes, table in Generated/StyleRefs)
  `_STYLE_REF_ATTRS`, `_STYLE_REF_LIST_ATTRS`,          `Cfg.single` (tuple order), `Cfg.list`,
     `str.split()`                                        `Cfg.sp` (Python's white-space code points)
  `_stylerefs_of(e, names)`                            `parseNode C e names`
      for styleref in self._STYLE_REF_ATTRS:              `scanAttrs C.single attrs acc`
        stylename = e.getAttrNS(..)
        if stylename and unicode(stylename) not in names:   value present and non-empty (truthy), `addRef`
          names.append(unicode(stylename))
      for styleref in self._STYLE_REF_LIST_ATTRS:         `scanList C.sp C.list attrs acc`
        for stylename in unicode(e.getAttrNS(..) or u'').split():   `splitBy C.sp v []`
          if stylename not in names: names.append(stylename)
      return self._parseoneelement(e, names)              `parseKids C kids …`
  `_parseoneelement(top, names)`                       `parseKids C (kidsOf top) names`
      for e in top.childNodes:                            (the attributes of `top` itself are NOT scanned)
        if e.nodeType == ELEMENT_NODE:                    `parseNode` skips text nodes
          names = self._stylerefs_of(e, names)
  `_used_auto_styles(segments)`                        `usedAuto C segments auto`
      for top in segments: names = _parseoneelement(..)   `collect C segments []`
      autostyles = [e for e in automaticstyles.childNodes  the children of `auto`, each with its `scanned`
                    if isinstance(e, Element)]               flag (text nodes never qualify: `keptPred`)
      scanned = set(); grown = True
      while grown:                                        `closeLoop` (fuel = number of children + 1; the
        grown = False                                       fuel is never exhausted: Props.C10.closeLoop_stable)
        for e in autostyles:                              `sweep`
          if id(e) not in scanned and
             e.getAttrNS(STYLENS,'name') in names:          `!b && keptPred names e`
            scanned.add(id(e))                              flag := true
            names = self._stylerefs_of(e, names)
            grown = True
      return [e for e in autostyles if id(e) in scanned]  filter on the flag, in `automatic-styles` order
  `contentxml()`: _used_auto_styles([styles, body])   (ff5b530)         `contentKept`
  `stylesxml()`:  _used_auto_styles([masterstyles])                      `stylesKept`

  The specification side (`Reach`) is the least fixpoint "referenced from a root, or from an automatic
  style that is itself reachable", parametrised by the function that says which names an element refers to.
-/
import OdfModel.Basic
namespace OdfModel.Styles

/-- attribute name: a code for (namespace, local name); 0 = `style:name` -/
abbrev Attr := Nat
abbrev Attrs := List (Attr × Str)

/-- the attribute that names a style of every kind found in `office:automatic-styles`
    (`style:style`, `text:list-style`, `number:*-style`, `style:page-layout`): `style:name` -/
def styleNameAttr : Attr := 0

inductive Node where
  | elem (name : Nat) (attrs : Attrs) (kids : List Node)
  | text (s : Str)
deriving Repr, Inhabited

def kidsOf : Node → List Node
  | .elem _ _ ks => ks
  | .text _ => []

def attrsOf : Node → Attrs
  | .elem _ as _ => as
  | .text _ => []

/-- which attributes are followed and how a list value is split -/
structure Cfg where
  single : List Attr          -- `_STYLE_REF_ATTRS`, in tuple order
  list : List Attr            -- `_STYLE_REF_LIST_ATTRS`
  sp : Cp → Bool              -- separators of `str.split()`

/-- `if stylename not in stylenamelist: stylenamelist.append(stylename)` -/
def addRef (acc : List Str) (v : Str) : List Str :=
  if v ∈ acc then acc else acc ++ [v]

/-- `s.split()` with separator set `sp`: maximal runs of non-separators (`cur` = run being read) -/
def splitBy (sp : Cp → Bool) : Str → Str → List Str
  | [], cur => if cur = [] then [] else [cur]
  | c :: r, cur =>
    if sp c then (if cur = [] then splitBy sp r [] else cur :: splitBy sp r [])
    else splitBy sp r (cur ++ [c])

/-- the loop over `_STYLE_REF_ATTRS` for one element -/
def scanAttrs : List Attr → Attrs → List Str → List Str
  | [], _, acc => acc
  | a :: r, attrs, acc =>
    scanAttrs r attrs
      (match attrs.lookup a with
       | some v => if v = [] then acc else addRef acc v
       | none => acc)

/-- the loop over `_STYLE_REF_LIST_ATTRS` for one element -/
def scanList (sp : Cp → Bool) : List Attr → Attrs → List Str → List Str
  | [], _, acc => acc
  | a :: r, attrs, acc =>
    scanList sp r attrs
      (match attrs.lookup a with
       | some v => (splitBy sp v []).foldl addRef acc
       | none => acc)

mutual
/-- `_stylerefs_of(e, acc)` (for a text node: the skipped iteration of `_parseoneelement`) -/
def parseNode (C : Cfg) : Node → List Str → List Str
  | .text _, acc => acc
  | .elem _ attrs kids, acc => parseKids C kids (scanList C.sp C.list attrs (scanAttrs C.single attrs acc))
/-- `_parseoneelement(top, acc)` given `top.childNodes` -/
def parseKids (C : Cfg) : List Node → List Str → List Str
  | [], acc => acc
  | n :: r, acc => parseKids C r (parseNode C n acc)
end

/-- first loop of `_used_auto_styles` -/
def collect (C : Cfg) : List Node → List Str → List Str
  | [], acc => acc
  | top :: r, acc => collect C r (parseKids C (kidsOf top) acc)

/-- `e.getAttrNS(STYLENS, 'name')` of a child of automatic-styles (None for text nodes / no attribute) -/
def styleNameOf : Node → Option Str
  | .elem _ attrs _ => attrs.lookup styleNameAttr
  | .text _ => none

/-- `isinstance(e, Element) and e.getAttrNS(STYLENS,'name') in stylenamelist` -/
def keptPred (names : List Str) (e : Node) : Bool :=
  match styleNameOf e with
  | some v => decide (v ∈ names)
  | none => false

/-- one round of the `for e in autostyles` loop; every child carries its `scanned` flag;
    result = (names, flags, grown) -/
def sweep (C : Cfg) : List (Bool × Node) → List Str → Bool → List Str × List (Bool × Node) × Bool
  | [], names, g => (names, [], g)
  | (b, e) :: r, names, g =>
    if !b && keptPred names e then
      let res := sweep C r (parseNode C e names) true
      (res.1, (true, e) :: res.2.1, res.2.2)
    else
      let res := sweep C r names g
      (res.1, (b, e) :: res.2.1, res.2.2)

/-- `while grown:` -/
def closeLoop (C : Cfg) : Nat → List (Bool × Node) → List Str → List Str × List (Bool × Node)
  | 0, fl, names => (names, fl)
  | f + 1, fl, names =>
    let res := sweep C fl names false
    if res.2.2 then closeLoop C f res.2.1 res.1 else (res.1, res.2.1)

/-- `_used_auto_styles(segments)` -/
def usedAuto (C : Cfg) (segments : List Node) (auto : Node) : List Node :=
  let fl := (kidsOf auto).map (fun e => (false, e))
  (((closeLoop C (fl.length + 1) fl (collect C segments [])).2).filter (·.1)).map (·.2)

/-- the four style-related containers of a document -/
structure StyleDoc where
  styles : Node
  auto : Node
  master : Node
  body : Node
deriving Repr, Inhabited

/-- automatic styles written to content.xml -/
def contentKept (C : Cfg) (d : StyleDoc) : List Node :=
  usedAuto C [d.styles, d.body] d.auto

/-- automatic styles written to styles.xml -/
def stylesKept (C : Cfg) (d : StyleDoc) : List Node :=
  usedAuto C [d.master] d.auto

def namesOf (l : List Node) : List (Option Str) := l.map styleNameOf

/-! ### Specification side -/

/-- names an element refers to through the single-valued attributes `S`, in the order of `S` -/
def ownRefs (S : List Attr) (attrs : Attrs) : List Str :=
  S.filterMap (fun a => match attrs.lookup a with
                        | some v => if v = [] then none else some v
                        | none => none)

/-- names an element refers to through the list-valued attributes `L` (values split at `sp`) -/
def ownListRefs (sp : Cp → Bool) (L : List Attr) (attrs : Attrs) : List Str :=
  (L.filterMap (fun a => attrs.lookup a)).flatMap (fun v => splitBy sp v [])

mutual
/-- names referred to from an element or anything below it -/
def refsNode (C : Cfg) : Node → List Str
  | .text _ => []
  | .elem _ attrs kids => ownRefs C.single attrs ++ ownListRefs C.sp C.list attrs ++ refsKids C kids
def refsKids (C : Cfg) : List Node → List Str
  | [] => []
  | n :: r => refsNode C n ++ refsKids C r
end

/-- white space of XML / of a RELAX NG `list`: space, tab, LF, CR -/
def xmlSpace (c : Cp) : Bool := c == 32 || c == 9 || c == 10 || c == 13

/-- the schema's notion of "refers to": single-valued attributes `S`, list-valued attributes `L` -/
def specCfg (S L : List Attr) : Cfg := { single := S, list := L, sp := xmlSpace }

/-- least fixpoint: `v` is referred to from inside a root container, or from (inside) an automatic
    style whose name is itself reachable.  `refs e` = the names element `e` (with its subtree) refers to. -/
inductive Reach (refs : Node → List Str) (roots : List Node) (auto : Node) : Str → Prop where
  | root {top k : Node} {v : Str} : top ∈ roots → k ∈ kidsOf top → v ∈ refs k → Reach refs roots auto v
  | step {e : Node} {s v : Str} : Reach refs roots auto s → e ∈ kidsOf auto → styleNameOf e = some s →
      v ∈ refs e → Reach refs roots auto v

end OdfModel.Styles

/-
  OdfModel.Entity — which XML parser every reading entry point of odfpy hands every package member to
  (property C13).

  Modelled Python (as it is after the `fix:` commits):

  * `odf/opendocument.py: load(odffile)` (dispatch as rewritten in 0372084)
        manifestpart = z.read('META-INF/manifest.xml'); manifest = manifestlist(manifestpart)
        __loadxmlparts(z, manifest, doc, u'')
        subdocs = {u'': doc}
        for mentry in manifest:
            objectpath = u''
            while True:                                             -- `chain`
                m = re.match(u"Object [0-9]+/", mentry[len(objectpath):])      -- `objSeg`
                if m is None or objectpath + m.group(0) not in manifest: break
                if objectpath + m.group(0) not in subdocs:          -- first discovery: `eraseDups`
                    …; __loadxmlparts(z, manifest, subdoc, objectpath + m.group(0)); …
                objectpath += m.group(0)
    i.e. a sub-document is every folder reached by a chain of `Object <digits>/` folders that are ALL listed in
    the manifest, at any depth and with any number of digits, loaded once, in order of first discovery;
    and `__loadxmlparts(z, manifest, doc, objectpath)`
        for xmlfile in (objectpath+'settings.xml', objectpath+'meta.xml', objectpath+'content.xml', objectpath+'styles.xml'):
            if xmlfile not in manifest: continue
            try: xmlpart = z.read(xmlfile) …; parser = make_parser(); …; parser.parse(inpsrc)
            except KeyError: pass            -- listed but absent from the zip: skipped
    ONE parse site serves every member of every object: the model is parametric in `objectpath : Str`.
  * `odf/odfmanifest.py: manifestlist(manifestxml)`, `odfmanifest(odtfile)`: the manifest only.
  * `odf/userfield.py: UserFields.loaddoc` (every public method goes through it) = `load`.
  * `odf/odf2xhtml.py: ODF2XHTML.load / odf2xhtml` = `load` (imported as top-level module `opendocument`).
  * `odf/odf2moinmoin.py: ODF2MoinMoin.load` (called by `__init__`):
        self._parse(zip.read("styles.xml")); self._parse(zip.read("content.xml"))    -- nothing else is opened
    with `_parse(data)`:
        doc = defusedxml.minidom.parseString(data)
        dt = doc.doctype
        if dt is not None and (dt.systemId or dt.publicId): raise ExternalReferenceForbidden(...)
    The second statement is CODE, not parser behaviour: it is the `doctypeGuard` flag of the site in the
    inventory and the `guarded` test of `readMember` below.

  WHICH parser a site constructs is not hand-written here: it is looked up in the inventory
  `OdfModel.Generated.ParseSites`, regenerated from the source on every run.

  TRUSTED, NOT PROVED: what the two parser kinds do with a member that declares entities.  That is the
  structure `ParserBehaviour` below: its fields are the assumptions (validated on every run by the fault
  matrix of harness/c13.py on the real defusedxml / expat).
-/
import OdfModel.Basic
import OdfModel.ParseSite
import OdfModel.Generated.ParseSites
namespace OdfModel.Entity
open OdfModel OdfModel.ParseSite

def lit (s : String) : Str := s.toList.map Char.toNat

/-- the five kinds of XML member of a package (or of an embedded object) -/
inductive Part where
  | manifest | settings | metadata | content | styles
deriving DecidableEq, Repr

def Part.code : Part → Nat
  | .manifest => 0 | .settings => 1 | .metadata => 2 | .content => 3 | .styles => 4

/-- member name inside its object, as code points (explicit lists: the kernel evaluates them in `decide`) -/
def Part.file : Part → Str
  | .manifest => [77, 69, 84, 65, 45, 73, 78, 70, 47, 109, 97, 110, 105, 102, 101, 115, 116, 46, 120, 109, 108] -- META-INF/manifest.xml
  | .settings => [115, 101, 116, 116, 105, 110, 103, 115, 46, 120, 109, 108]   -- settings.xml
  | .metadata => [109, 101, 116, 97, 46, 120, 109, 108]                            -- meta.xml
  | .content => [99, 111, 110, 116, 101, 110, 116, 46, 120, 109, 108]          -- content.xml
  | .styles => [115, 116, 121, 108, 101, 115, 46, 120, 109, 108]               -- styles.xml

/-- an XML member: `obj` is the object path ("" for the main document, "Object 1/" …) -/
structure Member where
  obj : Str
  part : Part
deriving DecidableEq, Repr

def Member.path (m : Member) : Str := m.obj ++ m.part.file

/-- the reading entry points of the library; `code` is the key of `Generated.ParseSites.reach` -/
inductive EP where
  | load | manifestlist | odfmanifest
  | ufListFields | ufListFieldsAndValues | ufListValues | ufGet | ufGetTypeAndValue | ufUpdate | ufLoaddoc
  | xhtmlLoad | xhtmlOdf2xhtml | moinInit | moinLoad
deriving DecidableEq, Repr

def EP.code : EP → Nat
  | .load => 0 | .manifestlist => 1 | .odfmanifest => 2
  | .ufListFields => 3 | .ufListFieldsAndValues => 4 | .ufListValues => 5 | .ufGet => 6
  | .ufGetTypeAndValue => 7 | .ufUpdate => 8 | .ufLoaddoc => 9
  | .xhtmlLoad => 10 | .xhtmlOdf2xhtml => 11 | .moinInit => 12 | .moinLoad => 13

def EP.all : List EP :=
  [.load, .manifestlist, .odfmanifest, .ufListFields, .ufListFieldsAndValues, .ufListValues, .ufGet,
   .ufGetTypeAndValue, .ufUpdate, .ufLoaddoc, .xhtmlLoad, .xhtmlOdf2xhtml, .moinInit, .moinLoad]

def EP.ofCode (n : Nat) : Option EP := EP.all.find? (fun e => e.code == n)

/-- how the entry point walks the package (hand-written from the source, tied by correspondence) -/
inductive Shape where
  | loadLike      -- manifest, then the four parts of "" and of every sub-document folder (`objFolders`)
  | manifestOnly
  | moin          -- styles.xml then content.xml of the main document, straight from the zip
deriving DecidableEq, Repr

def EP.shape : EP → Shape
  | .manifestlist | .odfmanifest => .manifestOnly
  | .moinInit | .moinLoad => .moin
  | _ => .loadLike

/-! ### the regenerated inventory -/

/-- ids of the parse sites the entry point's call graph reaches; `none` = the translator did not find the
    entry point in the source -/
def reachIds (ep : EP) : Option (List Nat) := (Generated.ParseSites.reach.find? (fun r => r.1 == ep.code)).map (·.2)

def reachSites (ep : EP) : List Site :=
  Generated.ParseSites.sites.filter (fun s => ((reachIds ep).getD []).contains s.id)

/-- bytes of a member of kind `pt` may flow into site `s`; `objEmpty` = the member belongs to the main
    document (object path ""); a member of an embedded object only flows into a site whose member name is
    built from a parameter.  Everything the inventory can say about a member depends on `(pt, objEmpty)` only:
    this is what makes "every object path" a finite check. -/
def flowsB (s : Site) (pt : Part) (objEmpty : Bool) : Bool :=
  (s.members.contains pt.code || s.members.contains 9) && (objEmpty || s.objParam)

def sitesForB (ep : EP) (pt : Part) (objEmpty : Bool) : List Site := (reachSites ep).filter (fun s => flowsB s pt objEmpty)

def sitesFor (ep : EP) (m : Member) : List Site := sitesForB ep m.part m.obj.isEmpty

/-- **`parses ep m`**: according to the inventory, `ep` can hand member `m` to some parser -/
def parses (ep : EP) (m : Member) : Prop := sitesFor ep m ≠ []

instance (ep : EP) (m : Member) : Decidable (parses ep m) := by unfold parses; infer_instance

inductive Api where
  | sax | dom | other
deriving DecidableEq, Repr

inductive Kind where
  | defused (api : Api)   -- constructed by `defusedxml.*`
  | plain                 -- constructed by `xml.*` / expat directly (or of unknown origin)
deriving DecidableEq, Repr

def Kind.isDefused : Kind → Bool
  | .defused _ => true
  | .plain => false

def siteApi (s : Site) : Api := if s.api = 0 then .sax else if s.api = 1 then .dom else .other

def siteKind (s : Site) : Kind := if s.origin = 0 then .defused (siteApi s) else .plain

/-- the parser kind member `m` meets when read through `ep`: `none` if no site takes it; `plain` as soon as
    one possible site is not a defusedxml one -/
def kindOfSites : List Site → Option Kind
  | [] => none
  | s :: ss => if (s :: ss).all (fun t => t.origin == 0) then some (siteKind s) else some .plain

def kindB (ep : EP) (pt : Part) (objEmpty : Bool) : Option Kind := kindOfSites (sitesForB ep pt objEmpty)

def kind (ep : EP) (m : Member) : Option Kind := kindB ep m.part m.obj.isEmpty

/-- every site the member can flow into is followed by the doctype test of `ODF2MoinMoin._parse` -/
def guardedB (ep : EP) (pt : Part) (objEmpty : Bool) : Bool := (sitesForB ep pt objEmpty).all (·.doctypeGuard)

def guarded (ep : EP) (m : Member) : Bool := guardedB ep m.part m.obj.isEmpty

/-! ### packages and the walk of each entry point -/

/-- what matters of one XML member's bytes -/
structure XmlMember where
  /-- the DOCTYPE's internal subset declares a general or parameter entity (internal or external) -/
  declaresEntity : Bool
  /-- the DOCTYPE names an external subset (`SYSTEM` / `PUBLIC` identifier) -/
  externalSubset : Bool
deriving DecidableEq, Repr

def XmlMember.clean : XmlMember := ⟨false, false⟩

structure Pkg where
  /-- zip members that are XML, by name -/
  files : List (Str × XmlMember)
  /-- the `manifest:full-path` values in document order (what a successful `manifestlist` returns) -/
  manifest : List Str

def Pkg.lookup (p : Pkg) (path : Str) : Option XmlMember := (p.files.find? (fun f => f.1 == path)).map (·.2)

def isDigit (c : Cp) : Bool := 48 ≤ c && c ≤ 57

/-- `re.match(u"Object [0-9]+/", s)`: the matched prefix (`[0-9]` is ASCII only; the greedy digit run must be
    followed by `/`, a shorter run would be followed by a digit) -/
def objSeg (s : Str) : Option Str :=
  if s.take 7 == [79, 98, 106, 101, 99, 116, 32] then
    let ds := (s.drop 7).takeWhile isDigit
    if !ds.isEmpty && (s.drop (7 + ds.length)).head? == some 47 then some (s.take (7 + ds.length + 1)) else none
  else none

/-- the `while True` loop for one manifest entry `e`: the listed `Object <n>/` folders along its path, outermost
    first, starting from `op`; `fuel` bounds the number of rounds (every round consumes ≥ 9 characters) -/
def chain (man : List Str) (e : Str) : Nat → Str → List Str
  | 0, _ => []
  | fuel + 1, op =>
    match objSeg (e.drop op.length) with
    | none => []
    | some seg => if man.contains (op ++ seg) then (op ++ seg) :: chain man e fuel (op ++ seg) else []

/-- the sub-document folders `load` discovers, in order of first discovery (the keys of `subdocs` but "") -/
def objFolders (man : List Str) : List Str := (man.flatMap (fun e => chain man e (e.length + 1) [])).eraseDups

/-- `__loadxmlparts`: the members of object `obj` it opens, in source order -/
def loadParts (p : Pkg) (obj : Str) : List Member :=
  ([Part.settings, .metadata, .content, .styles].map (fun pt => (⟨obj, pt⟩ : Member))).filter
    (fun m => p.manifest.contains m.path)

/-- the members the entry point hands to a parser, in order (members absent from the zip included: `read`
    decides what their absence means) -/
def readOrder (ep : EP) (p : Pkg) : List Member :=
  match ep.shape with
  | .manifestOnly => [⟨[], .manifest⟩]
  | .moin => [⟨[], .styles⟩, ⟨[], .content⟩]
  | .loadLike => ⟨[], .manifest⟩ :: (loadParts p [] ++ (objFolders p.manifest).flatMap (loadParts p))

/-! ### assumed parser behaviour -/

inductive Err where
  | entitiesForbidden | externalReferenceForbidden | missing | noParser
deriving DecidableEq, Repr

/-- what a successful parse did -/
structure Outcome where
  expanded : Bool       -- entity text was substituted into the result
deriving DecidableEq, Repr

/-- **ASSUMPTION (trusted, validated by the fault matrix, not proved).**  The behaviour of the XML parsers
    odfpy delegates to.  `parse k x` is what a parser of kind `k` does with member `x`. -/
structure ParserBehaviour where
  parse : Kind → XmlMember → Except Err Outcome
  /-- any defusedxml parser raises `EntitiesForbidden` at the first entity declaration -/
  defused_refuses_entities : ∀ api x, x.declaresEntity = true → parse (.defused api) x = .error .entitiesForbidden
  /-- the defusedxml SAX reader raises `ExternalReferenceForbidden` when the DOCTYPE names an external subset -/
  sax_refuses_external_subset : ∀ x, x.declaresEntity = false → x.externalSubset = true →
      parse (.defused .sax) x = .error .externalReferenceForbidden
  /-- a defusedxml parser given a member without entity declarations either parses it or refuses its external
      subset; it fails in no other way (members are otherwise well-formed) -/
  defused_no_other_failure : ∀ api x, x.declaresEntity = false →
      (∃ o, parse (.defused api) x = .ok o) ∨ parse (.defused api) x = .error .externalReferenceForbidden
  /-- a member without entity declarations and without external subset is parsed normally, nothing expanded -/
  clean_ok : ∀ k, parse k XmlMember.clean = .ok ⟨false⟩

/-- the behaviour observed on CPython 3.12 + defusedxml 0.7.1 (used by the driver and in the examples):
    `defusedxml.minidom` itself neither fetches nor refuses an external subset (expatbuilder never enables
    parameter-entity parsing; `ODF2MoinMoin._parse` refuses it afterwards, see `readMember`); the plain parsers expand internal entities -/
def observed : ParserBehaviour where
  parse k x := match k with
    | .defused api =>
        if x.declaresEntity then .error .entitiesForbidden
        else if x.externalSubset && api == .sax then .error .externalReferenceForbidden
        else .ok ⟨false⟩
    | .plain => .ok ⟨x.declaresEntity⟩
  defused_refuses_entities := by intro api x h; simp [h]
  sax_refuses_external_subset := by intro x h1 h2; simp [h1, h2]
  defused_no_other_failure := by
    intro api x h
    simp only [h]
    cases hx : (x.externalSubset && api == .sax)
    · exact Or.inl ⟨⟨false⟩, by simp⟩
    · exact Or.inr (by simp)
  clean_ok := by intro k; cases k <;> simp [XmlMember.clean]

/-- the member can reach its parser only through a text transformer (according to the inventory) -/
def preppedB (ep : EP) (pt : Part) (objEmpty : Bool) : Bool := (sitesForB ep pt objEmpty).any (fun s => s.prep != 0)

def prepped (ep : EP) (m : Member) : Bool := preppedB ep m.part m.obj.isEmpty

/-- **OBLIGATION on the text pre-processing between the zip member and the parser** (`__fixXmlPart` in
    `__loadxmlparts`: it inserts missing `xmlns:` declarations into the root element's start tag).  `fix` is its
    effect on what matters of the member; it must leave the DOCTYPE facts as they are — a transformer that deletes
    or rewrites the document type declaration would hide an entity declaration from the defused parser.
    A parameter of the refusal theorems; DISCHARGED for the character-level model of `__fixXmlPart`
    (OdfModel.LoadSax.fixXmlPart) in Props/C13Prep.lean (`prepOfFix`, from Props/C05.lean `fix_prolog_untouched`).
    Tied to the code by harness/c13.py: every member text of the fault matrix (all injection kinds × all prolog
    layouts × all prolog shapes) is fed to the real `__fixXmlPart` and everything before the root element must
    come back character for character; and by the `fixxml` correspondence of harness/c05.py. -/
structure Prep where
  fix : XmlMember → XmlMember
  preserves : ∀ x, fix x = x

def Prep.id : Prep := ⟨fun x => x, fun _ => rfl⟩

/-- a listed member that is absent from the zip: `__loadxmlparts` swallows the KeyError; the other readers
    let it propagate -/
def skipsMissing (ep : EP) (m : Member) : Bool := ep.shape == .loadLike && m.part != .manifest

/-- one member handed to its parser, then (where the code has it) the doctype test of `_parse` -/
def readMember (B : ParserBehaviour) (P : Prep) (ep : EP) (m : Member) (x : XmlMember) : Except Err Outcome :=
  match kind ep m with
  | none => .error .noParser
  | some k =>
    match B.parse k (if prepped ep m then P.fix x else x) with
    | .error e => .error e
    | .ok o => if guarded ep m && x.externalSubset then .error .externalReferenceForbidden else .ok o

/-- run the entry point's walk: the first refusal aborts the call -/
def readList (B : ParserBehaviour) (P : Prep) (ep : EP) (p : Pkg) : List Member → Except Err (List Outcome)
  | [] => .ok []
  | m :: ms =>
    match p.lookup m.path with
    | none => if skipsMissing ep m then readList B P ep p ms else .error .missing
    | some x =>
      match readMember B P ep m x with
      | .error e => .error e
      | .ok o => match readList B P ep p ms with
        | .error e => .error e
        | .ok os => .ok (o :: os)

def read (B : ParserBehaviour) (P : Prep) (ep : EP) (p : Pkg) : Except Err (List Outcome) :=
  readList B P ep p (readOrder ep p)

end OdfModel.Entity

/-
  OdfModel.Pkg — model of the package layer of odf/opendocument.py (properties C03, C16).

  Modelled, statement by statement (tree as of the `fix:` commits, in particular b8fd72d, 87ffca7, 31ca861):

  * `OpenDocument.__zipwrite`        → `save`
        mimetype member (ZIP_STORED, ZipInfo without extra) ; `_saveXmlObjects(self, "")` ;
        `_savePictures(self, "")` ; thumbnail ("Thumbnails/" + "Thumbnails/thumbnail.png") ;
        `_extra` except META-INF/documentsignatures.xml ; META-INF/manifest.xml last.
  * `OpenDocument._saveXmlObjects`   → `saveXml` / `saveXmlKids`
        manifest "/" (top) or the folder ; styles.xml ; content.xml ; settings.xml iff
        `settings.hasChildNodes()` ; meta.xml for the top only ; children `Object k/`, k = POSITION 1..
  * `OpenDocument._savePictures`     → `savePics` / `savePicsKids`
        every `Pictures` item (dict insertion order) at `folder + href`, ZIP_STORED, then the
        children with the same positional numbering.
  * `addPicture` / `addPictureFromFile` / `addPictureFromString` → `register` (a dict store:
        same key overwrites in place, a new key is appended).  The href itself
        ("Pictures/" + uuid4 + extension, or the caller's name) is an input of the model: uuid4 is an
        injected fresh-name oracle, `mimetypes.guess_*` is not modelled.
  * `addThumbnail`                   → field `thumbnail` (bytes + the `_thumbnail_mediatype` attribute that `load` sets
        since f4df084; "" when the attribute is absent; `addThumbnail` itself never touches it)
  * `addObject`                      → `attachIn` / `step` (history model for C16): the child is appended
        to `childobjects`, its `folder` becomes `parent.folder + "/Object %d" % len(childobjects)`
        (the parent's folder AT THAT TIME) or the explicit name; returned reference "." + folder.
  * `load` (manifest-driven dispatch) → `load`; `odfmanifest.manifestlist` → `manifestlist`
        (a dict keyed by full-path: a repeated path keeps its first position and the last value);
        `__detectmimetype` → `detectMimetype`.

  Abstractions: `zipfile` = "append entry (name, method, extra, content)"; member names are taken
  verbatim (true for names without NUL; `ZipFile.write` additionally runs normpath over the name of a
  picture registered by file name — since 31ca861 the generated href is "Pictures/" + uuid + splitext
  extension, which contains no path separator, so it is already normal).  The bodies of the XML
  parts are opaque tokens `Content.part kind objectId` (their text is C01/C02's business); the body of
  a picture registered by file name is the token `Content.file name` (whatever the file holds at save
  time).  `time` is ignored.  `str.encode('utf-8')` raises on a lone surrogate (no package is
  produced then); `utf8` is total and only meaningful for scalar values.
-/
import OdfModel.Basic
namespace OdfModel.Pkg

abbrev Bytes := List Nat

/-! ### constants (code points) -/

/-- `mimetype` -/
def sMimetype : Str := [109, 105, 109, 101, 116, 121, 112, 101]
/-- `META-INF/manifest.xml` -/
def sManifestPath : Str := [77, 69, 84, 65, 45, 73, 78, 70, 47, 109, 97, 110, 105, 102, 101, 115, 116, 46, 120, 109, 108]
/-- `META-INF/documentsignatures.xml` -/
def sDocSig : Str := [77, 69, 84, 65, 45, 73, 78, 70, 47, 100, 111, 99, 117, 109, 101, 110, 116, 115, 105, 103, 110, 97, 116, 117, 114, 101, 115, 46, 120, 109, 108]
/-- `styles.xml` -/
def sStyles : Str := [115, 116, 121, 108, 101, 115, 46, 120, 109, 108]
/-- `content.xml` -/
def sContent : Str := [99, 111, 110, 116, 101, 110, 116, 46, 120, 109, 108]
/-- `settings.xml` -/
def sSettings : Str := [115, 101, 116, 116, 105, 110, 103, 115, 46, 120, 109, 108]
/-- `meta.xml` -/
def sMeta : Str := [109, 101, 116, 97, 46, 120, 109, 108]
/-- `text/xml` -/
def sTextXml : Str := [116, 101, 120, 116, 47, 120, 109, 108]
/-- `/` -/
def sSlash : Str := [47]
/-- `Object ` -/
def sObjectSp : Str := [79, 98, 106, 101, 99, 116, 32]
/-- `/Object ` -/
def sSlashObjectSp : Str := [47, 79, 98, 106, 101, 99, 116, 32]
/-- `Pictures/` -/
def sPictures : Str := [80, 105, 99, 116, 117, 114, 101, 115, 47]
/-- `Thumbnails/` -/
def sThumbDir : Str := [84, 104, 117, 109, 98, 110, 97, 105, 108, 115, 47]
/-- `Thumbnails/thumbnail.png` -/
def sThumb : Str := [84, 104, 117, 109, 98, 110, 97, 105, 108, 115, 47, 116, 104, 117, 109, 98, 110, 97, 105, 108, 46, 112, 110, 103]
/-- `application/vnd.oasis.opendocument.text` -/
def sOdt : Str := [97, 112, 112, 108, 105, 99, 97, 116, 105, 111, 110, 47, 118, 110, 100, 46, 111, 97, 115, 105, 115, 46, 111, 112, 101, 110, 100, 111, 99, 117, 109, 101, 110, 116, 46, 116, 101, 120, 116]

/-! ### `"%d" % n` and `str.encode("utf-8")` -/

def decAux : Nat → Nat → Str
  | 0, n => [48 + n % 10]
  | f+1, n => if n < 10 then [48 + n] else decAux f (n / 10) ++ [48 + n % 10]

/-- decimal digits of `n` (`"%d" % n`) -/
def dec (n : Nat) : Str := decAux n n

/-- `"Object %d/" % k` -/
def objPrefix (k : Nat) : Str := sObjectSp ++ dec k ++ sSlash

def utf8c (c : Nat) : Bytes :=
  if c < 0x80 then [c]
  else if c < 0x800 then [0xC0 + c / 64, 0x80 + c % 64]
  else if c < 0x10000 then [0xE0 + c / 4096, 0x80 + c / 64 % 64, 0x80 + c % 64]
  else [0xF0 + c / 262144, 0x80 + c / 4096 % 64, 0x80 + c / 64 % 64, 0x80 + c % 64]

def utf8 (s : Str) : Bytes := s.flatMap utf8c

/-! ### data -/

inductive Method where
  | stored
  | deflated
deriving DecidableEq, Repr

inductive PartKind where
  | styles
  | content
  | settings
  | metadata
deriving DecidableEq, Repr

/-- what the bytes of a zip member are -/
inductive Content where
  | bytes (b : Bytes)                    -- literal bytes
  | file (fname : Str)                   -- the bytes of that file at save time (`ZipFile.write`)
  | part (k : PartKind) (obj : Nat)      -- an XML part of the object with that id (opaque)
  | manifestXml                          -- the serialised manifest (its entry list is `Out.man`)
deriving DecidableEq, Repr

/-- one `writestr` / `write` on the ZipFile -/
structure ZE where
  name : Str
  method : Method
  extra : Bytes
  content : Content
deriving DecidableEq, Repr

/-- one `manifest.FileEntry`.  `isFolder` is a ghost tag set by the model at the four places where the
    code adds an entry without writing a member: the root "/", an object folder, "Thumbnails/" and an
    extra whose content is None. -/
structure ME where
  path : Str
  mediatype : Str
  isFolder : Bool
deriving DecidableEq, Repr

inductive PicSrc where
  | file (fname : Str)      -- IS_FILENAME
  | image (b : Bytes)       -- IS_IMAGE
deriving DecidableEq, Repr

/-- one item of the `Pictures` dict: href ↦ (kind, bytes/filename, mediatype) -/
structure Pic where
  href : Str
  src : PicSrc
  mediatype : Str
deriving DecidableEq, Repr

/-- `OpaqueObject` -/
structure Extra where
  filename : Str
  mediatype : Str
  content : Option Bytes
deriving DecidableEq, Repr

/-- `thumbnail` together with `getattr(self, '_thumbnail_mediatype', u'')` (only `load` sets the latter, and only
    together with the former) -/
structure Thumb where
  content : Bytes
  mediatype : Str
deriving DecidableEq, Repr

/-- `OpenDocument` as far as the package layer reads it.  `id` is a ghost identity (it names the
    document whose XML parts a member holds). -/
structure Doc where
  id : Nat
  mimetype : Str
  hasSettings : Bool          -- `settings.hasChildNodes()`
  pictures : List Pic         -- `Pictures.items()` in insertion order
  thumbnail : Option Thumb
  extras : List Extra         -- `_extra`
  folder : Str                -- the `folder` attribute (written by addObject, NOT read by save)
  children : List Doc         -- `childobjects`
deriving Repr

/-- the two effect lists of a save: `ZipFile` members and manifest entries, each in call order -/
structure Out where
  zip : List ZE
  man : List ME
deriving Repr

def Out.empty : Out := ⟨[], []⟩
def Out.app (a b : Out) : Out := ⟨a.zip ++ b.zip, a.man ++ b.man⟩
instance : Append Out := ⟨Out.app⟩

@[simp] theorem Out.zip_append (a b : Out) : (a ++ b).zip = a.zip ++ b.zip := rfl
@[simp] theorem Out.man_append (a b : Out) : (a ++ b).man = a.man ++ b.man := rfl
@[simp] theorem Out.zip_empty : Out.empty.zip = [] := rfl
@[simp] theorem Out.man_empty : Out.empty.man = [] := rfl

/-- `self._z.writestr(zi, …)` -/
def emZ (e : ZE) : Out := ⟨[e], []⟩
/-- `self.manifest.addElement(manifest.FileEntry(…))` -/
def emM (e : ME) : Out := ⟨[], [e]⟩
/-- a manifest entry together with the member it describes -/
def emFile (name : Str) (m : Method) (c : Content) (mediatype : Str) : Out :=
  emM ⟨name, mediatype, false⟩ ++ emZ ⟨name, m, [], c⟩

@[simp] theorem emZ_zip (e : ZE) : (emZ e).zip = [e] := rfl
@[simp] theorem emZ_man (e : ZE) : (emZ e).man = [] := rfl
@[simp] theorem emM_zip (e : ME) : (emM e).zip = [] := rfl
@[simp] theorem emM_man (e : ME) : (emM e).man = [e] := rfl
@[simp] theorem emFile_zip (n : Str) (m : Method) (c : Content) (t : Str) :
    (emFile n m c t).zip = [⟨n, m, [], c⟩] := rfl
@[simp] theorem emFile_man (n : Str) (m : Method) (c : Content) (t : Str) :
    (emFile n m c t).man = [⟨n, t, false⟩] := rfl

/-! ### the picture registry -/

/-- `self.Pictures[href] = (kind, data, mediatype)` -/
def register (ps : List Pic) (p : Pic) : List Pic :=
  if ps.any (fun q => q.href == p.href) then ps.map (fun q => if q.href == p.href then p else q)
  else ps ++ [p]

/-! ### save -/

def xmlPart (F : Str) (k : PartKind) (name : Str) (id : Nat) : Out :=
  emFile (F ++ name) .deflated (.part k id) sTextXml

mutual
/-- `_saveXmlObjects(anObject, folder)`; `top` is the test `self == anObject` -/
def saveXml (top : Bool) (F : Str) : Doc → Out
  | ⟨id, mt, hs, _, _, _, _, kids⟩ =>
    emM ⟨if top then sSlash else F, mt, true⟩
    ++ xmlPart F .styles sStyles id
    ++ xmlPart F .content sContent id
    ++ (if hs then xmlPart F .settings sSettings id else Out.empty)
    ++ (if top then emFile sMeta .deflated (.part .metadata id) sTextXml else Out.empty)
    ++ saveXmlKids F 1 kids
/-- the loop over `childobjects` with `subobjectnum` -/
def saveXmlKids (F : Str) (k : Nat) : List Doc → Out
  | [] => Out.empty
  | c :: cs => saveXml false (F ++ objPrefix k) c ++ saveXmlKids F (k+1) cs
end

def picContent : PicSrc → Content
  | .file f => .file f
  | .image b => .bytes b

def picOut (F : Str) (p : Pic) : Out := emFile (F ++ p.href) .stored (picContent p.src) p.mediatype

def picsOut (F : Str) : List Pic → Out
  | [] => Out.empty
  | p :: ps => picOut F p ++ picsOut F ps

mutual
/-- `_savePictures(anObject, folder)` -/
def savePics (F : Str) : Doc → Out
  | ⟨_, _, _, pics, _, _, _, kids⟩ => picsOut F pics ++ savePicsKids F 1 kids
def savePicsKids (F : Str) (k : Nat) : List Doc → Out
  | [] => Out.empty
  | c :: cs => savePics (F ++ objPrefix k) c ++ savePicsKids F (k+1) cs
end

def thumbOut : Option Thumb → Out
  | none => Out.empty
  | some t => emM ⟨sThumbDir, [], true⟩ ++ emFile sThumb .deflated (.bytes t.content) t.mediatype

def extraOut (e : Extra) : Out :=
  if e.filename = sDocSig then Out.empty
  else match e.content with
    | none => emM ⟨e.filename, e.mediatype, true⟩
    | some b => emFile e.filename .deflated (.bytes b) e.mediatype

def extrasOut : List Extra → Out
  | [] => Out.empty
  | e :: es => extraOut e ++ extrasOut es

/-- `__zipwrite` -/
def save (d : Doc) : Out :=
  emZ ⟨sMimetype, .stored, [], .bytes (utf8 d.mimetype)⟩
  ++ saveXml true [] d
  ++ savePics [] d
  ++ thumbOut d.thumbnail
  ++ extrasOut d.extras
  ++ emZ ⟨sManifestPath, .deflated, [], .manifestXml⟩

/-! ### where each object of the tree lives (specification side of "folder") -/

mutual
/-- every document of the tree with the folder given by its POSITION: "" for the top,
    parent folder ++ "Object k/" for the k-th child -/
def objects (F : Str) : Doc → List (Str × Doc)
  | ⟨id, mt, hs, pics, th, ex, fo, kids⟩ => (F, ⟨id, mt, hs, pics, th, ex, fo, kids⟩) :: objectsK F 1 kids
def objectsK (F : Str) (k : Nat) : List Doc → List (Str × Doc)
  | [] => []
  | c :: cs => objects (F ++ objPrefix k) c ++ objectsK F (k+1) cs
end

/-! ### addObject: attachment histories (C16) -/

def Doc.setFolder (d : Doc) (f : Str) : Doc := { d with folder := f }

mutual
/-- `p.addObject(c, name)` where `p` is looked up by id inside the tree; returns the new tree and the
    folder given to `c` -/
def attachIn (p : Nat) (c : Doc) (name : Option Str) : Doc → Option (Doc × Str)
  | ⟨id, mt, hs, pics, th, ex, fo, kids⟩ =>
    if id = p then
      let f := match name with
        | none => fo ++ sSlashObjectSp ++ dec (kids.length + 1)
        | some n => n
      some (⟨id, mt, hs, pics, th, ex, fo, kids ++ [c.setFolder f]⟩, f)
    else match attachInK p c name kids with
      | some (kids', f) => some (⟨id, mt, hs, pics, th, ex, fo, kids'⟩, f)
      | none => none
def attachInK (p : Nat) (c : Doc) (name : Option Str) : List Doc → Option (List Doc × Str)
  | [] => none
  | d :: ds => match attachIn p c name d with
    | some (d', f) => some (d' :: ds, f)
    | none => match attachInK p c name ds with
      | some (ds', f) => some (d :: ds', f)
      | none => none
end

/-- `attach parent child name?` -/
structure Op where
  parent : Nat
  child : Nat
  name : Option Str
deriving Repr

/-- the document that is going to be saved (`root`, id 0 by convention), the documents not yet attached
    to anything (`pool`; each may already have objects of its own), and the references returned so far -/
structure Hist where
  root : Doc
  pool : List Doc
  refs : List (Nat × Str × Str)   -- (child id, child media type, returned reference)
deriving Repr

/-- one `addObject` call.  `none` = outside the model (child unknown / already attached / is the root,
    parent unknown or inside the child). -/
def step (h : Hist) (op : Op) : Option Hist :=
  match h.pool.find? (fun d => d.id == op.child) with
  | none => none
  | some c =>
    let pool := h.pool.filter (fun d => d.id != op.child)
    match attachIn op.parent c op.name h.root with
    | some (root', f) => some ⟨root', pool, h.refs ++ [(c.id, c.mimetype, 46 :: f)]⟩
    | none => match attachInK op.parent c op.name pool with
      | some (pool', f) => some ⟨h.root, pool', h.refs ++ [(c.id, c.mimetype, 46 :: f)]⟩
      | none => none

def run (h : Hist) : List Op → Option Hist
  | [] => some h
  | op :: ops => match step h op with
    | some h' => run h' ops
    | none => none

mutual
def hasId (p : Nat) : Doc → Bool
  | ⟨id, _, _, _, _, _, _, kids⟩ => id == p || hasIdK p kids
def hasIdK (p : Nat) : List Doc → Bool
  | [] => false
  | d :: ds => hasId p d || hasIdK p ds
end

/-- the op uses the default name, its parent already hangs under the root, and the child has no
    objects of its own yet -/
def orderedOp (h : Hist) (op : Op) : Bool :=
  op.name.isNone && hasId op.parent h.root &&
  (match h.pool.find? (fun d => d.id == op.child) with
   | some c => c.children.isEmpty
   | none => false)

/-- **the decidable hypothesis of `ref_names_folder_partial`**: default names only, and every parent is
    attached to the root chain before its children are attached -/
def ordered (h : Hist) : List Op → Bool
  | [] => true
  | op :: ops => orderedOp h op && (match step h op with
    | some h' => ordered h' ops
    | none => false)

/-- does reference `r` (as returned for the object with id `c` and media type `mt`) name a folder of
    `out` that holds `c`'s content.xml and styles.xml and that the manifest declares with `mt`?
    The folder named by "./X" is "X/". -/
def refResolves (out : Out) (r : Str) (c : Nat) (mt : Str) : Bool :=
  let F := r.drop 2 ++ sSlash
  r.take 2 == [46, 47] &&
  out.zip.any (fun (e : ZE) => e.name == F ++ sContent && e.content == Content.part .content c) &&
  out.zip.any (fun (e : ZE) => e.name == F ++ sStyles && e.content == Content.part .styles c) &&
  out.man.any (fun (e : ME) => e.path == F && e.mediatype == mt)

/-! ### load -/

/-- a package as `load` reads it -/
structure Package where
  mimetypeFile : Option Str             -- `z.read('mimetype').decode()`, none if that raises
  manifest : List (Str × Str)           -- the file-entry elements (full-path, media-type) in document order
  members : List (Str × Bytes)          -- zip members
  settingsNonEmpty : List Str           -- the settings.xml members whose office:settings has children
deriving Repr

/-- `manifest[p] = {...}` -/
def dictSet (d : List (Str × Str)) (k v : Str) : List (Str × Str) :=
  if d.any (fun e => e.1 == k) then d.map (fun e => if e.1 == k then (k, v) else e) else d ++ [(k, v)]

/-- `manifestlist` -/
def manifestlist (raw : List (Str × Str)) : List (Str × Str) :=
  raw.foldl (fun d e => dictSet d e.1 e.2) []

/-- `z.read(name)`: the last member of that name -/
def zread (ms : List (Str × Bytes)) (n : Str) : Option Bytes :=
  (ms.reverse.find? (fun m => m.1 == n)).map (·.2)

/-- `__detectmimetype` -/
def detectMimetype (p : Package) : Str :=
  match p.mimetypeFile with
  | some m => m
  | none => match (manifestlist p.manifest).find? (fun e => e.1 == sSlash) with
    | some e => e.2
    | none => sOdt

def isPicturePath (m : Str) : Bool := m.take 9 == sPictures && m.length > 9
def isObjectFolder (m : Str) : Bool := m.take 7 == sObjectSp && m.length < 11 && m.getLast? == some 47
def isXmlPart (m : Str) : Bool := m == sSettings || m == sMeta || m == sContent || m == sStyles
/-- `mentry in (u'/', u'Thumbnails/', u'mimetype', u'META-INF/manifest.xml')` -/
def isRegenerated (m : Str) : Bool := m == sSlash || m == sThumbDir || m == sMimetype || m == sManifestPath

/-- accumulated state of the dispatch loop of `load` -/
structure LoadSt where
  pics : List Pic
  thumb : Option Thumb
  kids : List Doc
  extras : List Extra
deriving Repr

def settingsOf (p : Package) (keys : List Str) (F : Str) : Bool :=
  keys.contains (F ++ sSettings) && p.settingsNonEmpty.contains (F ++ sSettings)
  && (zread p.members (F ++ sSettings)).isSome

/-- one iteration of `for mentry, mvalue in manifest.items()`; `none` = the KeyError / IndexError that
    `load` lets escape -/
def loadEntry (p : Package) (keys : List Str) (s : LoadSt) (e : Str × Str) : Option LoadSt :=
  let m := e.1
  if isPicturePath m then
    match zread p.members m with
    | some b => some { s with pics := register s.pics ⟨m, .image b, e.2⟩ }
    | none => none
  else if m == sThumb then
    match zread p.members m with
    | some b => some { s with thumb := some ⟨b, e.2⟩ }     -- (fix f4df084) the media type travels
    | none => none
  else if isXmlPart m then some s
  else if isRegenerated m then some s        -- (fix 87ffca7) written afresh by save()
  else if isObjectFolder m then
    some { s with kids := s.kids ++ [⟨s.kids.length + 1, e.2, settingsOf p keys m, [], none, [],
                                       47 :: m.dropLast, []⟩] }
  else if m.take 7 == sObjectSp then some s
  else match m.getLast? with
    | none => none
    | some c =>
      if c == 47 then some { s with extras := s.extras ++ [⟨m, e.2, none⟩] }
      else match zread p.members m with
        | some b => some { s with extras := s.extras ++ [⟨m, e.2, some b⟩] }
        | none => none

def loadLoop (p : Package) (keys : List Str) : LoadSt → List (Str × Str) → Option LoadSt
  | s, [] => some s
  | s, e :: es => match loadEntry p keys s e with
    | some s' => loadLoop p keys s' es
    | none => none

/-- `load`: the top document gets id 0, the k-th created sub-document id k -/
def load (p : Package) : Option Doc :=
  let man := manifestlist p.manifest
  let keys := man.map (·.1)
  match loadLoop p keys ⟨[], none, [], []⟩ man with
  | some s => some ⟨0, detectMimetype p, settingsOf p keys [], s.pics, s.thumb, s.extras, [], s.kids⟩
  | none => none

end OdfModel.Pkg

/-
  OdfModel.Pkg — model of the package layer of odf/opendocument.py (properties C03, C16).

  Modelled, statement by statement (tree as of the `fix:` commits b8fd72d, 87ffca7, 31ca861, f4df084, 0372084):

  * `OpenDocument.__zipwrite`        → `save`
        mimetype member (ZIP_STORED, ZipInfo without extra) ; `_saveXmlObjects(self, "")` ;
        `_savePictures(self, "")` ; thumbnail ("Thumbnails/" + "Thumbnails/thumbnail.png") ;
        `_allExtras(self)` (the extras of the document and of every sub-document, each below its folder)
        except META-INF/documentsignatures.xml ; META-INF/manifest.xml last.
  * `OpenDocument._saveXmlObjects`   → `saveXml` / `saveXmlKids`
        manifest "/" (top) or the folder ; styles.xml ; content.xml ; settings.xml iff
        `settings.hasChildNodes()` ; meta.xml for the top only ; every child under
        `child.folder[len(self.folder)+1:] + "/"` (`stor`) — the `folder` attribute is the single truth.
  * `OpenDocument._savePictures`     → `savePics` / `savePicsKids` (same folders)
  * `OpenDocument._allExtras`        → `saveExtras` / `saveExtrasKids`
  * `addPicture` / `addPictureFromFile` / `addPictureFromString` → `register` (a dict store).  The href itself
        ("Pictures/" + uuid4 + extension, or the caller's name) is an input of the model.
  * `addThumbnail`                   → field `thumbnail` (bytes + the `_thumbnail_mediatype` attribute `load` sets)
  * `addObject`                      → `attachIn` / `step` (history model for C16): names in use =
        `c.folder[len(self.folder)+1:]` of the children; default name = first free "Object n" from
        n = len(childobjects)+1; an explicit name loses its leading "/"s; a name in use raises ValueError
        (nothing attached); the child is appended and `_setFolder(parent.folder + "/" + name)` moves it
        and everything already attached to it (`setFolder`); returned reference "." + folder.
  * `load`                            → `load`: `manifestlist` (dict), then for every key the chain of listed
        "Object <digits>/" folders (`walk`, creating sub-documents on first sight: `ensure`), then the
        dispatch on the name inside the sub-document (`loadEntry`); the `subdocs` dict is the flat list
        `List Sub`, turned into the tree by `buildDoc`.  `__detectmimetype` → `detectMimetype`.

  Abstractions: `zipfile` = "append entry (name, method, extra, content)"; member names are taken
  verbatim (true for names without NUL; `ZipFile.write` runs normpath over the name of a picture
  registered by file name — "Pictures/" + uuid + splitext extension, already normal).  The bodies of the
  XML parts are opaque tokens `Content.part kind objectId`; the body of a picture registered by file name
  is the token `Content.file name`.  `time` is ignored.  `str.encode('utf-8')` raises on a lone surrogate
  (no package is produced then); `utf8` is total.  The ghost `id` of a loaded sub-document is 1 + the
  position of its folder entry among the manifest keys.  A document attached twice (or into itself) is
  outside the model.
-/
import OdfModel.Basic
namespace OdfModel.Pkg

abbrev Bytes := List Nat

/-! ### constants (code points) -/

/-- `mimetype` -/
def sMimetype : Str := [109, 105, 109, 101, 116, 121, 112, 101]
/-- `META-INF/manifest.xml` -/
def sManifestPath : Str := [77, 69, 84, 65, 45, 73, 78, 70, 47, 109, 97, 110, 105, 102, 101, 115, 116, 46, 120, 109, 108]
/-- `META-INF/documentsignatures.xml` -/
def sDocSig : Str := [77, 69, 84, 65, 45, 73, 78, 70, 47, 100, 111, 99, 117, 109, 101, 110, 116, 115, 105, 103, 110, 97, 116, 117, 114, 101, 115, 46, 120, 109, 108]
/-- `styles.xml` -/
def sStyles : Str := [115, 116, 121, 108, 101, 115, 46, 120, 109, 108]
/-- `content.xml` -/
def sContent : Str := [99, 111, 110, 116, 101, 110, 116, 46, 120, 109, 108]
/-- `settings.xml` -/
def sSettings : Str := [115, 101, 116, 116, 105, 110, 103, 115, 46, 120, 109, 108]
/-- `meta.xml` -/
def sMeta : Str := [109, 101, 116, 97, 46, 120, 109, 108]
/-- `text/xml` -/
def sTextXml : Str := [116, 101, 120, 116, 47, 120, 109, 108]
/-- `/` -/
def sSlash : Str := [47]
/-- `Object ` -/
def sObjectSp : Str := [79, 98, 106, 101, 99, 116, 32]
/-- `/Object ` -/
def sSlashObjectSp : Str := [47, 79, 98, 106, 101, 99, 116, 32]
/-- `Pictures/` -/
def sPictures : Str := [80, 105, 99, 116, 117, 114, 101, 115, 47]
/-- `Thumbnails/` -/
def sThumbDir : Str := [84, 104, 117, 109, 98, 110, 97, 105, 108, 115, 47]
/-- `Thumbnails/thumbnail.png` -/
def sThumb : Str := [84, 104, 117, 109, 98, 110, 97, 105, 108, 115, 47, 116, 104, 117, 109, 98, 110, 97, 105, 108, 46, 112, 110, 103]
/-- `application/vnd.oasis.opendocument.text` -/
def sOdt : Str := [97, 112, 112, 108, 105, 99, 97, 116, 105, 111, 110, 47, 118, 110, 100, 46, 111, 97, 115, 105, 115, 46, 111, 112, 101, 110, 100, 111, 99, 117, 109, 101, 110, 116, 46, 116, 101, 120, 116]

/-! ### `"%d" % n` and `str.encode("utf-8")` -/

def decAux : Nat → Nat → Str
  | 0, n => [48 + n % 10]
  | f+1, n => if n < 10 then [48 + n] else decAux f (n / 10) ++ [48 + n % 10]

/-- decimal digits of `n` (`"%d" % n`) -/
def dec (n : Nat) : Str := decAux n n

/-- `"Object %d/" % k` -/
def objPrefix (k : Nat) : Str := sObjectSp ++ dec k ++ sSlash

def utf8c (c : Nat) : Bytes :=
  if c < 0x80 then [c]
  else if c < 0x800 then [0xC0 + c / 64, 0x80 + c % 64]
  else if c < 0x10000 then [0xE0 + c / 4096, 0x80 + c / 64 % 64, 0x80 + c % 64]
  else [0xF0 + c / 262144, 0x80 + c / 4096 % 64, 0x80 + c / 64 % 64, 0x80 + c % 64]

def utf8 (s : Str) : Bytes := s.flatMap utf8c

/-! ### data -/

inductive Method where
  | stored
  | deflated
deriving DecidableEq, Repr

inductive PartKind where
  | styles
  | content
  | settings
  | metadata
deriving DecidableEq, Repr

/-- what the bytes of a zip member are -/
inductive Content where
  | bytes (b : Bytes)                    -- literal bytes
  | file (fname : Str)                   -- the bytes of that file at save time (`ZipFile.write`)
  | part (k : PartKind) (obj : Nat)      -- an XML part of the object with that id (opaque)
  | manifestXml                          -- the serialised manifest (its entry list is `Out.man`)
deriving DecidableEq, Repr

/-- one `writestr` / `write` on the ZipFile -/
structure ZE where
  name : Str
  method : Method
  extra : Bytes
  content : Content
deriving DecidableEq, Repr

/-- one `manifest.FileEntry`.  `isFolder` is a ghost tag set by the model at the four places where the
    code adds an entry without writing a member: the root "/", an object folder, "Thumbnails/" and an
    extra whose content is None. -/
structure ME where
  path : Str
  mediatype : Str
  isFolder : Bool
deriving DecidableEq, Repr

inductive PicSrc where
  | file (fname : Str)      -- IS_FILENAME
  | image (b : Bytes)       -- IS_IMAGE
deriving DecidableEq, Repr

/-- one item of the `Pictures` dict: href ↦ (kind, bytes/filename, mediatype) -/
structure Pic where
  href : Str
  src : PicSrc
  mediatype : Str
deriving DecidableEq, Repr

/-- `OpaqueObject` -/
structure Extra where
  filename : Str
  mediatype : Str
  content : Option Bytes
deriving DecidableEq, Repr

/-- `thumbnail` together with `getattr(self, '_thumbnail_mediatype', u'')` (only `load` sets the latter, and only
    together with the former) -/
structure Thumb where
  content : Bytes
  mediatype : Str
deriving DecidableEq, Repr

/-- `OpenDocument` as far as the package layer reads it.  `id` is a ghost identity (it names the
    document whose XML parts a member holds). -/
structure Doc where
  id : Nat
  mimetype : Str
  hasSettings : Bool          -- `settings.hasChildNodes()`
  pictures : List Pic         -- `Pictures.items()` in insertion order
  thumbnail : Option Thumb
  extras : List Extra         -- `_extra`
  folder : Str                -- the `folder` attribute (written by addObject, NOT read by save)
  children : List Doc         -- `childobjects`
deriving Repr

/-- the two effect lists of a save: `ZipFile` members and manifest entries, each in call order -/
structure Out where
  zip : List ZE
  man : List ME
deriving Repr

def Out.empty : Out := ⟨[], []⟩
def Out.app (a b : Out) : Out := ⟨a.zip ++ b.zip, a.man ++ b.man⟩
instance : Append Out := ⟨Out.app⟩

@[simp] theorem Out.zip_append (a b : Out) : (a ++ b).zip = a.zip ++ b.zip := rfl
@[simp] theorem Out.man_append (a b : Out) : (a ++ b).man = a.man ++ b.man := rfl
@[simp] theorem Out.zip_empty : Out.empty.zip = [] := rfl
@[simp] theorem Out.man_empty : Out.empty.man = [] := rfl

/-- `self._z.writestr(zi, …)` -/
def emZ (e : ZE) : Out := ⟨[e], []⟩
/-- `self.manifest.addElement(manifest.FileEntry(…))` -/
def emM (e : ME) : Out := ⟨[], [e]⟩
/-- a manifest entry together with the member it describes -/
def emFile (name : Str) (m : Method) (c : Content) (mediatype : Str) : Out :=
  emM ⟨name, mediatype, false⟩ ++ emZ ⟨name, m, [], c⟩

@[simp] theorem emZ_zip (e : ZE) : (emZ e).zip = [e] := rfl
@[simp] theorem emZ_man (e : ZE) : (emZ e).man = [] := rfl
@[simp] theorem emM_zip (e : ME) : (emM e).zip = [] := rfl
@[simp] theorem emM_man (e : ME) : (emM e).man = [e] := rfl
@[simp] theorem emFile_zip (n : Str) (m : Method) (c : Content) (t : Str) :
    (emFile n m c t).zip = [⟨n, m, [], c⟩] := rfl
@[simp] theorem emFile_man (n : Str) (m : Method) (c : Content) (t : Str) :
    (emFile n m c t).man = [⟨n, t, false⟩] := rfl

/-! ### the picture registry -/

/-- `self.Pictures[href] = (kind, data, mediatype)` -/
def register (ps : List Pic) (p : Pic) : List Pic :=
  if ps.any (fun q => q.href == p.href) then ps.map (fun q => if q.href == p.href then p else q)
  else ps ++ [p]

/-! ### save -/

def xmlPart (F : Str) (k : PartKind) (name : Str) (id : Nat) : Out :=
  emFile (F ++ name) .deflated (.part k id) sTextXml

/-- `subobject.folder[len(self.folder)+1:] + u'/'` — where `save` stores a sub-document (`L = len(self.folder)`
    of the document being saved) -/
def stor (L : Nat) (c : Doc) : Str := c.folder.drop (L+1) ++ sSlash

mutual
/-- `_saveXmlObjects(anObject, folder)`; `top` is the test `self == anObject` -/
def saveXml (L : Nat) (top : Bool) (F : Str) : Doc → Out
  | ⟨id, mt, hs, _, _, _, _, kids⟩ =>
    emM ⟨if top then sSlash else F, mt, true⟩
    ++ xmlPart F .styles sStyles id
    ++ xmlPart F .content sContent id
    ++ (if hs then xmlPart F .settings sSettings id else Out.empty)
    ++ (if top then emFile sMeta .deflated (.part .metadata id) sTextXml else Out.empty)
    ++ saveXmlKids L kids
/-- the loop over `childobjects` -/
def saveXmlKids (L : Nat) : List Doc → Out
  | [] => Out.empty
  | c :: cs => saveXml L false (stor L c) c ++ saveXmlKids L cs
end

def picContent : PicSrc → Content
  | .file f => .file f
  | .image b => .bytes b

def picOut (F : Str) (p : Pic) : Out := emFile (F ++ p.href) .stored (picContent p.src) p.mediatype

def picsOut (F : Str) : List Pic → Out
  | [] => Out.empty
  | p :: ps => picOut F p ++ picsOut F ps

mutual
/-- `_savePictures(anObject, folder)` -/
def savePics (L : Nat) (F : Str) : Doc → Out
  | ⟨_, _, _, pics, _, _, _, kids⟩ => picsOut F pics ++ savePicsKids L kids
def savePicsKids (L : Nat) : List Doc → Out
  | [] => Out.empty
  | c :: cs => savePics L (stor L c) c ++ savePicsKids L cs
end

def thumbOut : Option Thumb → Out
  | none => Out.empty
  | some t => emM ⟨sThumbDir, [], true⟩ ++ emFile sThumb .deflated (.bytes t.content) t.mediatype

/-- one iteration of the loop over `_allExtras` -/
def extraOut (F : Str) (e : Extra) : Out :=
  if e.filename = sDocSig then Out.empty
  else match e.content with
    | none => emM ⟨F ++ e.filename, e.mediatype, true⟩
    | some b => emFile (F ++ e.filename) .deflated (.bytes b) e.mediatype

def extrasOut (F : Str) : List Extra → Out
  | [] => Out.empty
  | e :: es => extraOut F e ++ extrasOut F es

mutual
/-- `_allExtras(anObject)` followed by the writing loop -/
def saveExtras (L : Nat) (F : Str) : Doc → Out
  | ⟨_, _, _, _, _, ex, _, kids⟩ => extrasOut F ex ++ saveExtrasKids L kids
def saveExtrasKids (L : Nat) : List Doc → Out
  | [] => Out.empty
  | c :: cs => saveExtras L (stor L c) c ++ saveExtrasKids L cs
end

/-- `__zipwrite` -/
def save (d : Doc) : Out :=
  emZ ⟨sMimetype, .stored, [], .bytes (utf8 d.mimetype)⟩
  ++ saveXml d.folder.length true [] d
  ++ savePics d.folder.length [] d
  ++ thumbOut d.thumbnail
  ++ saveExtras d.folder.length [] d
  ++ emZ ⟨sManifestPath, .deflated, [], .manifestXml⟩

/-! ### where each object of the tree is stored -/

mutual
/-- every document of the tree with the folder `save` stores it in: `F` for the document itself, `stor L c`
    for every (direct or indirect) sub-document `c` -/
def objects (L : Nat) (F : Str) : Doc → List (Str × Doc)
  | ⟨id, mt, hs, pics, th, ex, fo, kids⟩ => (F, ⟨id, mt, hs, pics, th, ex, fo, kids⟩) :: objectsK L kids
def objectsK (L : Nat) : List Doc → List (Str × Doc)
  | [] => []
  | c :: cs => objects L (stor L c) c ++ objectsK L cs
end

/-! ### addObject: attachment histories (C16) -/

mutual
/-- `_setFolder(folder)` -/
def setFolder (folder : Str) : Doc → Doc
  | ⟨id, mt, hs, pics, th, ex, fo, kids⟩ => ⟨id, mt, hs, pics, th, ex, folder, setFolderKids folder fo.length kids⟩
/-- `for c in self.childobjects: c._setFolder(folder + c.folder[len(self.folder):])` -/
def setFolderKids (folder : Str) (oldLen : Nat) : List Doc → List Doc
  | [] => []
  | c :: cs => setFolder (folder ++ c.folder.drop oldLen) c :: setFolderKids folder oldLen cs
end

/-- `while u"Object %d" % n in used: n += 1` (terminates within `len(used)+1` rounds) -/
def freeNum : Nat → Nat → List Str → Nat
  | 0, n, _ => n
  | f+1, n, used => if used.contains (sObjectSp ++ dec n) then freeNum f (n+1) used else n

/-- `objectname.lstrip(u"/")` -/
def lstripSlash (s : Str) : Str := s.dropWhile (· == 47)

/-- the name `addObject` uses: `none` = ValueError -/
def objectName (fo : Str) (kids : List Doc) (name : Option Str) : Option Str :=
  let used := kids.map (fun c => c.folder.drop (fo.length + 1))
  let n := match name with
    | none => sObjectSp ++ dec (freeNum (used.length + 1) (kids.length + 1) used)
    | some x => lstripSlash x
  if used.contains n then none else some n

/-- outcome of looking a parent up in a tree and calling `addObject` on it -/
inductive Attach (α : Type) where
  | notFound
  | valueError
  | ok (t : α) (folder : Str)

mutual
/-- `p.addObject(c, name)` where `p` is looked up by id inside the tree -/
def attachIn (p : Nat) (c : Doc) (name : Option Str) : Doc → Attach Doc
  | ⟨id, mt, hs, pics, th, ex, fo, kids⟩ =>
    if id = p then
      match objectName fo kids name with
      | none => .valueError
      | some n =>
        let f := fo ++ sSlash ++ n
        .ok ⟨id, mt, hs, pics, th, ex, fo, kids ++ [setFolder f c]⟩ f
    else match attachInK p c name kids with
      | .ok kids' f => .ok ⟨id, mt, hs, pics, th, ex, fo, kids'⟩ f
      | .valueError => .valueError
      | .notFound => .notFound
def attachInK (p : Nat) (c : Doc) (name : Option Str) : List Doc → Attach (List Doc)
  | [] => .notFound
  | d :: ds => match attachIn p c name d with
    | .ok d' f => .ok (d' :: ds) f
    | .valueError => .valueError
    | .notFound => match attachInK p c name ds with
      | .ok ds' f => .ok (d :: ds') f
      | .valueError => .valueError
      | .notFound => .notFound
end

/-- `attach parent child name?` -/
structure Op where
  parent : Nat
  child : Nat
  name : Option Str
deriving Repr

/-- the document that is going to be saved (`root`), the documents not yet attached to anything (`pool`; each
    may already have objects of its own), and the references returned so far -/
structure Hist where
  root : Doc
  pool : List Doc
  refs : List (Nat × Str × Str)   -- (child id, child media type, returned reference)
deriving Repr

inductive StepRes where
  | ok (h : Hist)
  | valueError          -- the call raised ValueError; nothing changed
  | unsupported         -- outside the model (child unknown / already attached / is the root, parent unknown or inside the child)

/-- one `addObject` call -/
def step (h : Hist) (op : Op) : StepRes :=
  match h.pool.find? (fun d => d.id == op.child) with
  | none => .unsupported
  | some c =>
    let pool := h.pool.filter (fun d => d.id != op.child)
    match attachIn op.parent c op.name h.root with
    | .ok root' f => .ok ⟨root', pool, h.refs ++ [(c.id, c.mimetype, 46 :: f)]⟩
    | .valueError => .valueError
    | .notFound => match attachInK op.parent c op.name pool with
      | .ok pool' f => .ok ⟨h.root, pool', h.refs ++ [(c.id, c.mimetype, 46 :: f)]⟩
      | .valueError => .valueError
      | .notFound => .unsupported

/-- a whole history; a call that raises ValueError is skipped (the caller catches it) -/
def run (h : Hist) : List Op → Option Hist
  | [] => some h
  | op :: ops => match step h op with
    | .ok h' => run h' ops
    | .valueError => run h ops
    | .unsupported => none

mutual
def hasId (p : Nat) : Doc → Bool
  | ⟨id, _, _, _, _, _, _, kids⟩ => id == p || hasIdK p kids
def hasIdK (p : Nat) : List Doc → Bool
  | [] => false
  | d :: ds => hasId p d || hasIdK p ds
end

/-- **the decidable hypothesis of `ref_names_folder_partial`**: every parent hangs under the saved document at
    the time it gets a child (references are handed out top-down) -/
def parentsFirst (h : Hist) : List Op → Bool
  | [] => true
  | op :: ops => hasId op.parent h.root && (match step h op with
    | .ok h' => parentsFirst h' ops
    | .valueError => parentsFirst h ops
    | .unsupported => false)

/-- does reference `r` (as returned for the object with id `c` and media type `mt`) name a folder of
    `out` that holds `c`'s content.xml and styles.xml and that the manifest declares with `mt`?
    The folder named by "./X" is "X/". -/
def refResolves (out : Out) (r : Str) (c : Nat) (mt : Str) : Bool :=
  let F := r.drop 2 ++ sSlash
  r.take 2 == [46, 47] &&
  out.zip.any (fun (e : ZE) => e.name == F ++ sContent && e.content == Content.part .content c) &&
  out.zip.any (fun (e : ZE) => e.name == F ++ sStyles && e.content == Content.part .styles c) &&
  out.man.any (fun (e : ME) => e.path == F && e.mediatype == mt)

/-! ### load -/

/-- a package as `load` reads it -/
structure Package where
  mimetypeFile : Option Str             -- `z.read('mimetype').decode()`, none if that raises
  manifest : List (Str × Str)           -- the file-entry elements (full-path, media-type) in document order
  members : List (Str × Bytes)          -- zip members
  settingsNonEmpty : List Str           -- the settings.xml members whose office:settings has children
deriving Repr

/-- `manifest[p] = {...}` -/
def dictSet (d : List (Str × Str)) (k v : Str) : List (Str × Str) :=
  if d.any (fun e => e.1 == k) then d.map (fun e => if e.1 == k then (k, v) else e) else d ++ [(k, v)]

/-- `manifestlist` -/
def manifestlist (raw : List (Str × Str)) : List (Str × Str) :=
  raw.foldl (fun d e => dictSet d e.1 e.2) []

/-- `z.read(name)`: the last member of that name -/
def zread (ms : List (Str × Bytes)) (n : Str) : Option Bytes :=
  (ms.reverse.find? (fun m => m.1 == n)).map (·.2)

/-- `__detectmimetype` -/
def detectMimetype (p : Package) : Str :=
  match p.mimetypeFile with
  | some m => m
  | none => match (manifestlist p.manifest).find? (fun e => e.1 == sSlash) with
    | some e => e.2
    | none => sOdt

def isPicturePath (m : Str) : Bool := m.take 9 == sPictures && m.length > 9
/-- `name in (u'settings.xml', u'content.xml', u'styles.xml', u'')` -/
def isParsedPart (m : Str) : Bool := m == sSettings || m == sContent || m == sStyles || m == []
/-- `mentry in (u'/', u'Thumbnails/', u'mimetype', u'META-INF/manifest.xml')` -/
def isRegenerated (m : Str) : Bool := m == sSlash || m == sThumbDir || m == sMimetype || m == sManifestPath

def isDigit (c : Nat) : Bool := 48 ≤ c && c ≤ 57

/-- `re.match(u"Object [0-9]+/", s)`: the matched text -/
def objComp (s : Str) : Option Str :=
  if s.take 7 == sObjectSp then
    let ds := (s.drop 7).takeWhile isDigit
    if !ds.isEmpty && (s.drop (7 + ds.length)).head? == some 47 then some (sObjectSp ++ ds ++ sSlash) else none
  else none

/-- one value of the `subdocs` dict: a (sub-)document under construction, keyed by its folder in the package -/
structure Sub where
  path : Str                -- "" for the top document, "Object 1/Object 2/" …
  id : Nat
  mimetype : Str
  pics : List Pic
  thumb : Option Thumb
  extras : List Extra
  kids : List Str           -- the paths of its sub-documents, in attach order
deriving Repr

def settingsOf (p : Package) (keys : List Str) (F : Str) : Bool :=
  keys.contains (F ++ sSettings) && p.settingsNonEmpty.contains (F ++ sSettings)
  && (zread p.members (F ++ sSettings)).isSome

def updSub (path : Str) (f : Sub → Sub) (subs : List Sub) : List Sub :=
  subs.map (fun s => if s.path == path then f s else s)

/-- `if objectpath + m.group(0) not in subdocs:` create the sub-document and attach it to its parent -/
def ensure (man : List (Str × Str)) (subs : List Sub) (parent comp : Str) : List Sub :=
  let path := parent ++ comp
  if subs.any (fun s => s.path == path) then subs
  else updSub parent (fun s => { s with kids := s.kids ++ [path] }) subs
        ++ [⟨path, (man.map (·.1)).idxOf path + 1, ((man.find? (fun e => e.1 == path)).map (·.2)).getD [], [], none, [], []⟩]

/-- the `while True:` loop: follows the chain of listed object folders at the head of `rest`; returns the
    `subdocs` and `objectpath` -/
def walk (man : List (Str × Str)) : Nat → List Sub → Str → Str → List Sub × Str
  | 0, subs, op, _ => (subs, op)
  | f+1, subs, op, rest => match objComp rest with
    | some c =>
      if (man.map (·.1)).contains (op ++ c) then walk man f (ensure man subs op c) (op ++ c) (rest.drop c.length)
      else (subs, op)
    | none => (subs, op)

/-- the dispatch on one manifest entry, after the walk; `none` = the KeyError that `load` lets escape -/
def loadEntry (p : Package) (subs : List Sub) (op : Str) (e : Str × Str) : Option (List Sub) :=
  let name := e.1.drop op.length
  if isPicturePath name then
    match zread p.members e.1 with
    | some b => some (updSub op (fun s => { s with pics := register s.pics ⟨name, .image b, e.2⟩ }) subs)
    | none => none
  else if e.1 == sThumb then
    match zread p.members e.1 with
    | some b => some (updSub [] (fun s => { s with thumb := some ⟨b, e.2⟩ }) subs)
    | none => none
  else if isParsedPart name || e.1 == sMeta then some subs
  else if isRegenerated e.1 then some subs
  else match name.getLast? with
    | none => some subs          -- unreachable: the empty name is a parsed part
    | some c =>
      if c == 47 then some (updSub op (fun s => { s with extras := s.extras ++ [⟨name, e.2, none⟩] }) subs)
      else match zread p.members e.1 with
        | some b => some (updSub op (fun s => { s with extras := s.extras ++ [⟨name, e.2, some b⟩] }) subs)
        | none => none

/-- `for mentry, mvalue in manifest.items():` -/
def loadLoop (p : Package) (man : List (Str × Str)) : List Sub → List (Str × Str) → Option (List Sub)
  | subs, [] => some subs
  | subs, e :: es =>
    let w := walk man e.1.length subs [] e.1
    match loadEntry p w.1 w.2 e with
    | some subs' => loadLoop p man subs' es
    | none => none

/-- the `folder` attribute `addObject(subdoc, "/" + name)` leaves on the sub-document stored in `path` -/
def folderOfPath (path : Str) : Str := if path.isEmpty then [] else 47 :: path.dropLast

/-- the tree of documents described by the `subdocs` dict (`none`: not reachable, kept total by fuel) -/
def buildDoc (p : Package) (keys : List Str) (subs : List Sub) : Nat → Str → Option Doc
  | 0, _ => none
  | f+1, path => match subs.find? (fun s => s.path == path) with
    | none => none
    | some s => match s.kids.mapM (buildDoc p keys subs f) with
      | some ks => some ⟨s.id, s.mimetype, settingsOf p keys path, s.pics, s.thumb, s.extras, folderOfPath path, ks⟩
      | none => none

/-- `load`: the top document gets id 0 -/
def load (p : Package) : Option Doc :=
  let man := manifestlist p.manifest
  match loadLoop p man [⟨[], 0, detectMimetype p, [], none, [], []⟩] man with
  | some subs => buildDoc p (man.map (·.1)) subs (subs.length + 1) []
  | none => none

end OdfModel.Pkg

/-
  OdfModel.Pkg — model of the package layer of odf/opendocument.py (properties C03, C16).

  Modelled, statement by statement (tree as of the `fix:` commits b8fd72d, 87ffca7, 31ca861, f4df084, 0372084):

  * `OpenDocument.__zipwrite`        → `save`
        mimetype member (ZIP_STORED, ZipInfo without extra) ; `_saveXmlObjects(self, "")` ;
        `_savePictures(self, "")` ; thumbnail ("Thumbnails/" + "Thumbnails/thumbnail.png") ;
        `_allExtras(self)` (the extras of the document and of every sub-document, each below its folder)
        except META-INF/documentsignatures.xml ; META-INF/manifest.xml last.
  * `OpenDocument._saveXmlObjects`   → `saveXml` / `saveXmlKids`
        manifest "/" (top) or the folder ; styles.xml ; content.xml ; settings.xml iff
        `settings.hasChildNodes()` ; meta.xml for the top only ; every child under
        `child.folder[len(self.folder)+1:] + "/"` (`stor`) — the `folder` attribute is the single truth.
  * `OpenDocument._savePictures`     → `savePics` / `savePicsKids` (same folders)
  * `OpenDocument._allExtras`        → `saveExtras` / `saveExtrasKids`
  * `addPicture` / `addPictureFromFile` / `addPictureFromString` → `register` (a dict store).  The href itself
        ("Pictures/" + uuid4 + extension, or the caller's name) is an input of the model.
  * `addThumbnail`                   → field `thumbnail` (bytes + the `_thumbnail_mediatype` attribute `load` sets)
  * `addObject`                      → `attachIn` / `step` (history model for C16): names in use =
        `f[len(self.folder)+1:]` for the folder `f` of every object below the holder, at any depth
        (`_foldersBelow` → `usedBelow`); default name = first free "Object n" from
        n = len(childobjects)+1; an explicit name loses its leading "/"s; a name in use raises ValueError
        (nothing attached), and so does a document that is already attached or is the parent itself (d51bb64);
        the child is appended and `_setFolder(parent.folder + "/" + name)` moves it
        and everything already attached to it (`setFolder`); returned reference "." + folder.
  * `load`                            → `load`, written as what the loop computes: `manifestlist` (dict); for every
        key the chain of listed "Object <digits>/" folders (`chainPairs`, `chainOf` = `objectpath`); the
        sub-documents in creation order (`allPairs`: a folder is created the first time a key walks
        through it) and `childobjects` (`kidsOf`); per sub-document the entries dispatched to it
        (`entriesAt`) give its `Pictures` (`picsAt`), `_extra` (`extrasAt`: everything that is not a
        picture, the thumbnail, a parsed part, or one of the regenerated entries), the top its thumbnail;
        `buildDoc` assembles the tree; a `z.read` of a missing member makes `load` raise (`needsRead`).
        `__detectmimetype` → `detectMimetype`.

  Abstractions: `zipfile` = "append entry (name, method, extra, content)"; member names are taken
  verbatim (true for names without NUL; `ZipFile.write` runs normpath over the name of a picture
  registered by file name — "Pictures/" + uuid + splitext extension, already normal).  The bodies of the
  XML parts are opaque tokens `Content.part kind objectId`; the body of a picture registered by file name
  is the token `Content.file name`.  `time` is ignored.  `str.encode('utf-8')` raises on a lone surrogate
  (no package is produced then); `utf8` is total.  The ghost `id` of a loaded sub-document is 1 + the
  position of its folder entry among the manifest keys.  Attaching the saved document itself below
  another one, or a parent into its own sub-tree, is outside the model.
-/
import OdfModel.Basic
namespace OdfModel.Pkg

abbrev Bytes := List Nat

/-! ### constants (code points) -/

/-- `mimetype` -/
def sMimetype : Str := [109, 105, 109, 101, 116, 121, 112, 101]
/-- `META-INF/manifest.xml` -/
def sManifestPath : Str := [77, 69, 84, 65, 45, 73, 78, 70, 47, 109, 97, 110, 105, 102, 101, 115, 116, 46, 120, 109, 108]
/-- `META-INF/documentsignatures.xml` -/
def sDocSig : Str := [77, 69, 84, 65, 45, 73, 78, 70, 47, 100, 111, 99, 117, 109, 101, 110, 116, 115, 105, 103, 110, 97, 116, 117, 114, 101, 115, 46, 120, 109, 108]
/-- `styles.xml` -/
def sStyles : Str := [115, 116, 121, 108, 101, 115, 46, 120, 109, 108]
/-- `content.xml` -/
def sContent : Str := [99, 111, 110, 116, 101, 110, 116, 46, 120, 109, 108]
/-- `settings.xml` -/
def sSettings : Str := [115, 101, 116, 116, 105, 110, 103, 115, 46, 120, 109, 108]
/-- `meta.xml` -/
def sMeta : Str := [109, 101, 116, 97, 46, 120, 109, 108]
/-- `text/xml` -/
def sTextXml : Str := [116, 101, 120, 116, 47, 120, 109, 108]
/-- `/` -/
def sSlash : Str := [47]
/-- `Object ` -/
def sObjectSp : Str := [79, 98, 106, 101, 99, 116, 32]
/-- `/Object ` -/
def sSlashObjectSp : Str := [47, 79, 98, 106, 101, 99, 116, 32]
/-- `Pictures/` -/
def sPictures : Str := [80, 105, 99, 116, 117, 114, 101, 115, 47]
/-- `Thumbnails/` -/
def sThumbDir : Str := [84, 104, 117, 109, 98, 110, 97, 105, 108, 115, 47]
/-- `Thumbnails/thumbnail.png` -/
def sThumb : Str := [84, 104, 117, 109, 98, 110, 97, 105, 108, 115, 47, 116, 104, 117, 109, 98, 110, 97, 105, 108, 46, 112, 110, 103]
/-- `application/vnd.oasis.opendocument.text` -/
def sOdt : Str := [97, 112, 112, 108, 105, 99, 97, 116, 105, 111, 110, 47, 118, 110, 100, 46, 111, 97, 115, 105, 115, 46, 111, 112, 101, 110, 100, 111, 99, 117, 109, 101, 110, 116, 46, 116, 101, 120, 116]

/-! ### `"%d" % n` and `str.encode("utf-8")` -/

def decAux : Nat → Nat → Str
  | 0, n => [48 + n % 10]
  | f+1, n => if n < 10 then [48 + n] else decAux f (n / 10) ++ [48 + n % 10]

/-- decimal digits of `n` (`"%d" % n`) -/
def dec (n : Nat) : Str := decAux n n

/-- `"Object %d/" % k` -/
def objPrefix (k : Nat) : Str := sObjectSp ++ dec k ++ sSlash

def utf8c (c : Nat) : Bytes :=
  if c < 0x80 then [c]
  else if c < 0x800 then [0xC0 + c / 64, 0x80 + c % 64]
  else if c < 0x10000 then [0xE0 + c / 4096, 0x80 + c / 64 % 64, 0x80 + c % 64]
  else [0xF0 + c / 262144, 0x80 + c / 4096 % 64, 0x80 + c / 64 % 64, 0x80 + c % 64]

def utf8 (s : Str) : Bytes := s.flatMap utf8c

/-! ### data -/

inductive Method where
  | stored
  | deflated
deriving DecidableEq, Repr

inductive PartKind where
  | styles
  | content
  | settings
  | metadata
deriving DecidableEq, Repr

/-- what the bytes of a zip member are -/
inductive Content where
  | bytes (b : Bytes)                    -- literal bytes
  | file (fname : Str)                   -- the bytes of that file at save time (`ZipFile.write`)
  | part (k : PartKind) (obj : Nat)      -- an XML part of the object with that id (opaque)
  | manifestXml                          -- the serialised manifest (its entry list is `Out.man`)
deriving DecidableEq, Repr

/-- one `writestr` / `write` on the ZipFile -/
structure ZE where
  name : Str
  method : Method
  extra : Bytes
  content : Content
deriving DecidableEq, Repr

/-- one `manifest.FileEntry`.  `isFolder` is a ghost tag set by the model at the four places where the
    code adds an entry without writing a member: the root "/", an object folder, "Thumbnails/" and an
    extra whose content is None. -/
structure ME where
  path : Str
  mediatype : Str
  isFolder : Bool
deriving DecidableEq, Repr

inductive PicSrc where
  | file (fname : Str)      -- IS_FILENAME
  | image (b : Bytes)       -- IS_IMAGE
deriving DecidableEq, Repr

/-- one item of the `Pictures` dict: href ↦ (kind, bytes/filename, mediatype) -/
structure Pic where
  href : Str
  src : PicSrc
  mediatype : Str
deriving DecidableEq, Repr

/-- `OpaqueObject` -/
structure Extra where
  filename : Str
  mediatype : Str
  content : Option Bytes
deriving DecidableEq, Repr

/-- `thumbnail` together with `getattr(self, '_thumbnail_mediatype', u'')` (only `load` sets the latter, and only
    together with the former) -/
structure Thumb where
  content : Bytes
  mediatype : Str
deriving DecidableEq, Repr

/-- `OpenDocument` as far as the package layer reads it.  `id` is a ghost identity (it names the
    document whose XML parts a member holds). -/
structure Doc where
  id : Nat
  mimetype : Str
  hasSettings : Bool          -- `settings.hasChildNodes()`
  pictures : List Pic         -- `Pictures.items()` in insertion order
  thumbnail : Option Thumb
  extras : List Extra         -- `_extra`
  folder : Str                -- the `folder` attribute (written by addObject, NOT read by save)
  children : List Doc         -- `childobjects`
deriving Repr

/-- the two effect lists of a save: `ZipFile` members and manifest entries, each in call order -/
structure Out where
  zip : List ZE
  man : List ME
deriving Repr

def Out.empty : Out := ⟨[], []⟩
def Out.app (a b : Out) : Out := ⟨a.zip ++ b.zip, a.man ++ b.man⟩
instance : Append Out := ⟨Out.app⟩

@[simp] theorem Out.zip_append (a b : Out) : (a ++ b).zip = a.zip ++ b.zip := rfl
@[simp] theorem Out.man_append (a b : Out) : (a ++ b).man = a.man ++ b.man := rfl
@[simp] theorem Out.zip_empty : Out.empty.zip = [] := rfl
@[simp] theorem Out.man_empty : Out.empty.man = [] := rfl

/-- `self._z.writestr(zi, …)` -/
def emZ (e : ZE) : Out := ⟨[e], []⟩
/-- `self.manifest.addElement(manifest.FileEntry(…))` -/
def emM (e : ME) : Out := ⟨[], [e]⟩
/-- a manifest entry together with the member it describes -/
def emFile (name : Str) (m : Method) (c : Content) (mediatype : Str) : Out :=
  emM ⟨name, mediatype, false⟩ ++ emZ ⟨name, m, [], c⟩

@[simp] theorem emZ_zip (e : ZE) : (emZ e).zip = [e] := rfl
@[simp] theorem emZ_man (e : ZE) : (emZ e).man = [] := rfl
@[simp] theorem emM_zip (e : ME) : (emM e).zip = [] := rfl
@[simp] theorem emM_man (e : ME) : (emM e).man = [e] := rfl
@[simp] theorem emFile_zip (n : Str) (m : Method) (c : Content) (t : Str) :
    (emFile n m c t).zip = [⟨n, m, [], c⟩] := rfl
@[simp] theorem emFile_man (n : Str) (m : Method) (c : Content) (t : Str) :
    (emFile n m c t).man = [⟨n, t, false⟩] := rfl

/-! ### the picture registry -/

/-- `self.Pictures[href] = (kind, data, mediatype)` -/
def register (ps : List Pic) (p : Pic) : List Pic :=
  if ps.any (fun q => q.href == p.href) then ps.map (fun q => if q.href == p.href then p else q)
  else ps ++ [p]

/-! ### save -/

def xmlPart (F : Str) (k : PartKind) (name : Str) (id : Nat) : Out :=
  emFile (F ++ name) .deflated (.part k id) sTextXml

/-- `subobject.folder[len(self.folder)+1:] + u'/'` — where `save` stores a sub-document (`L = len(self.folder)`
    of the document being saved) -/
def stor (L : Nat) (c : Doc) : Str := c.folder.drop (L+1) ++ sSlash

mutual
/-- `_saveXmlObjects(anObject, folder)`; `top` is the test `self == anObject` -/
def saveXml (L : Nat) (top : Bool) (F : Str) : Doc → Out
  | ⟨id, mt, hs, _, _, _, _, kids⟩ =>
    emM ⟨if top then sSlash else F, mt, true⟩
    ++ xmlPart F .styles sStyles id
    ++ xmlPart F .content sContent id
    ++ (if hs then xmlPart F .settings sSettings id else Out.empty)
    ++ (if top then emFile sMeta .deflated (.part .metadata id) sTextXml else Out.empty)
    ++ saveXmlKids L kids
/-- the loop over `childobjects` -/
def saveXmlKids (L : Nat) : List Doc → Out
  | [] => Out.empty
  | c :: cs => saveXml L false (stor L c) c ++ saveXmlKids L cs
end

def picContent : PicSrc → Content
  | .file f => .file f
  | .image b => .bytes b

def picOut (F : Str) (p : Pic) : Out := emFile (F ++ p.href) .stored (picContent p.src) p.mediatype

def picsOut (F : Str) : List Pic → Out
  | [] => Out.empty
  | p :: ps => picOut F p ++ picsOut F ps

mutual
/-- `_savePictures(anObject, folder)` -/
def savePics (L : Nat) (F : Str) : Doc → Out
  | ⟨_, _, _, pics, _, _, _, kids⟩ => picsOut F pics ++ savePicsKids L kids
def savePicsKids (L : Nat) : List Doc → Out
  | [] => Out.empty
  | c :: cs => savePics L (stor L c) c ++ savePicsKids L cs
end

def thumbOut : Option Thumb → Out
  | none => Out.empty
  | some t => emM ⟨sThumbDir, [], true⟩ ++ emFile sThumb .deflated (.bytes t.content) t.mediatype

/-- one iteration of the loop over `_allExtras` -/
def extraOut (F : Str) (e : Extra) : Out :=
  if e.filename = sDocSig then Out.empty
  else match e.content with
    | none => emM ⟨F ++ e.filename, e.mediatype, true⟩
    | some b => emFile (F ++ e.filename) .deflated (.bytes b) e.mediatype

def extrasOut (F : Str) : List Extra → Out
  | [] => Out.empty
  | e :: es => extraOut F e ++ extrasOut F es

mutual
/-- `_allExtras(anObject)` followed by the writing loop -/
def saveExtras (L : Nat) (F : Str) : Doc → Out
  | ⟨_, _, _, _, _, ex, _, kids⟩ => extrasOut F ex ++ saveExtrasKids L kids
def saveExtrasKids (L : Nat) : List Doc → Out
  | [] => Out.empty
  | c :: cs => saveExtras L (stor L c) c ++ saveExtrasKids L cs
end

/-- `__zipwrite` -/
def save (d : Doc) : Out :=
  emZ ⟨sMimetype, .stored, [], .bytes (utf8 d.mimetype)⟩
  ++ saveXml d.folder.length true [] d
  ++ savePics d.folder.length [] d
  ++ thumbOut d.thumbnail
  ++ saveExtras d.folder.length [] d
  ++ emZ ⟨sManifestPath, .deflated, [], .manifestXml⟩

/-! ### where each object of the tree is stored -/

mutual
/-- every document of the tree with the folder `save` stores it in: `F` for the document itself, `stor L c`
    for every (direct or indirect) sub-document `c` -/
def objects (L : Nat) (F : Str) : Doc → List (Str × Doc)
  | ⟨id, mt, hs, pics, th, ex, fo, kids⟩ => (F, ⟨id, mt, hs, pics, th, ex, fo, kids⟩) :: objectsK L kids
def objectsK (L : Nat) : List Doc → List (Str × Doc)
  | [] => []
  | c :: cs => objects L (stor L c) c ++ objectsK L cs
end

/-! ### addObject: attachment histories (C16) -/

mutual
/-- `_setFolder(folder)` -/
def setFolder (folder : Str) : Doc → Doc
  | ⟨id, mt, hs, pics, th, ex, fo, kids⟩ => ⟨id, mt, hs, pics, th, ex, folder, setFolderKids folder fo.length kids⟩
/-- `for c in self.childobjects: c._setFolder(folder + c.folder[len(self.folder):])` -/
def setFolderKids (folder : Str) (oldLen : Nat) : List Doc → List Doc
  | [] => []
  | c :: cs => setFolder (folder ++ c.folder.drop oldLen) c :: setFolderKids folder oldLen cs
end

/-- `while u"Object %d" % n in used: n += 1` (terminates within `len(used)+1` rounds) -/
def freeNum : Nat → Nat → List Str → Nat
  | 0, n, _ => n
  | f+1, n, used => if used.contains (sObjectSp ++ dec n) then freeNum f (n+1) used else n

/-- `objectname.lstrip(u"/")` -/
def lstripSlash (s : Str) : Str := s.dropWhile (· == 47)

/-- `[f[len(self.folder)+1:] for f in self._foldersBelow()]`: the folder, relative to the holder stored in `fo`, of every
    object below the holder at any depth (`_foldersBelow` walks `childobjects` in the order of `objectsK`) -/
def usedBelow (fo : Str) (kids : List Doc) : List Str := (objectsK 0 kids).map (fun q => q.2.folder.drop (fo.length + 1))

/-- the name `addObject` uses: `none` = ValueError -/
def objectName (fo : Str) (kids : List Doc) (name : Option Str) : Option Str :=
  let used := usedBelow fo kids
  let n := match name with
    | none => sObjectSp ++ dec (freeNum (used.length + 1) (kids.length + 1) used)
    | some x => lstripSlash x
  if used.contains n then none else some n

/-- outcome of looking a parent up in a tree and calling `addObject` on it -/
inductive Attach (α : Type) where
  | notFound
  | valueError
  | ok (t : α) (folder : Str)

mutual
/-- `p.addObject(c, name)` where `p` is looked up by id inside the tree -/
def attachIn (p : Nat) (c : Doc) (name : Option Str) : Doc → Attach Doc
  | ⟨id, mt, hs, pics, th, ex, fo, kids⟩ =>
    if id = p then
      match objectName fo kids name with
      | none => .valueError
      | some n =>
        let f := fo ++ sSlash ++ n
        .ok ⟨id, mt, hs, pics, th, ex, fo, kids ++ [setFolder f c]⟩ f
    else match attachInK p c name kids with
      | .ok kids' f => .ok ⟨id, mt, hs, pics, th, ex, fo, kids'⟩ f
      | .valueError => .valueError
      | .notFound => .notFound
def attachInK (p : Nat) (c : Doc) (name : Option Str) : List Doc → Attach (List Doc)
  | [] => .notFound
  | d :: ds => match attachIn p c name d with
    | .ok d' f => .ok (d' :: ds) f
    | .valueError => .valueError
    | .notFound => match attachInK p c name ds with
      | .ok ds' f => .ok (d :: ds') f
      | .valueError => .valueError
      | .notFound => .notFound
end

/-- `attach parent child name?` -/
structure Op where
  parent : Nat
  child : Nat
  name : Option Str
deriving Repr

/-- the document that is going to be saved (`root`), the documents not yet attached to anything (`pool`; each
    may already have objects of its own), and the references returned so far -/
structure Hist where
  root : Doc
  pool : List Doc
  refs : List (Nat × Str × Str)   -- (child id, child media type, returned reference)
deriving Repr

inductive StepRes where
  | ok (h : Hist)
  | valueError          -- the call raised ValueError; nothing changed
  | unsupported         -- outside the model (child unknown / already attached / is the root, parent unknown or inside the child)

mutual
def hasId (p : Nat) : Doc → Bool
  | ⟨id, _, _, _, _, _, _, kids⟩ => id == p || hasIdK p kids
def hasIdK (p : Nat) : List Doc → Bool
  | [] => false
  | d :: ds => hasId p d || hasIdK p ds
end

/-- `document.folder != u""`: the document hangs below some other document (of the root's tree or of a pool tree) -/
def attachedSomewhere (h : Hist) (c : Nat) : Bool :=
  hasIdK c h.root.children || h.pool.any (fun d => hasIdK c d.children)

/-- one `addObject` call -/
def step (h : Hist) (op : Op) : StepRes :=
  if op.child == op.parent || attachedSomewhere h op.child then .valueError   -- (d51bb64) `document is self` / already attached
  else match h.pool.find? (fun d => d.id == op.child) with
  | none => .unsupported
  | some c =>
    let pool := h.pool.filter (fun d => d.id != op.child)
    match attachIn op.parent c op.name h.root with
    | .ok root' f => .ok ⟨root', pool, h.refs ++ [(c.id, c.mimetype, 46 :: f)]⟩
    | .valueError => .valueError
    | .notFound => match attachInK op.parent c op.name pool with
      | .ok pool' f => .ok ⟨h.root, pool', h.refs ++ [(c.id, c.mimetype, 46 :: f)]⟩
      | .valueError => .valueError
      | .notFound => .unsupported

/-- a whole history; a call that raises ValueError is skipped (the caller catches it) -/
def run (h : Hist) : List Op → Option Hist
  | [] => some h
  | op :: ops => match step h op with
    | .ok h' => run h' ops
    | .valueError => run h ops
    | .unsupported => none

/-- **the decidable hypothesis of `ref_names_folder_partial`**: every parent hangs under the saved document at
    the time it gets a child (references are handed out top-down) -/
def parentsFirst (h : Hist) : List Op → Bool
  | [] => true
  | op :: ops => hasId op.parent h.root && (match step h op with
    | .ok h' => parentsFirst h' ops
    | .valueError => parentsFirst h ops
    | .unsupported => false)

/-- does reference `r` (as returned for the object with id `c` and media type `mt`) name a folder of
    `out` that holds `c`'s content.xml and styles.xml and that the manifest declares with `mt`?
    The folder named by "./X" is "X/". -/
def refResolves (out : Out) (r : Str) (c : Nat) (mt : Str) : Bool :=
  let F := r.drop 2 ++ sSlash
  r.take 2 == [46, 47] &&
  out.zip.any (fun (e : ZE) => e.name == F ++ sContent && e.content == Content.part .content c) &&
  out.zip.any (fun (e : ZE) => e.name == F ++ sStyles && e.content == Content.part .styles c) &&
  out.man.any (fun (e : ME) => e.path == F && e.mediatype == mt)

/-! ### load -/

/-- a package as `load` reads it -/
structure Package where
  mimetypeFile : Option Str             -- `z.read('mimetype').decode()`, none if that raises
  manifest : List (Str × Str)           -- the file-entry elements (full-path, media-type) in document order
  members : List (Str × Bytes)          -- zip members
  settingsNonEmpty : List Str           -- the settings.xml members whose office:settings has children
deriving Repr

/-- `manifest[p] = {...}` -/
def dictSet (d : List (Str × Str)) (k v : Str) : List (Str × Str) :=
  if d.any (fun e => e.1 == k) then d.map (fun e => if e.1 == k then (k, v) else e) else d ++ [(k, v)]

/-- `manifestlist` -/
def manifestlist (raw : List (Str × Str)) : List (Str × Str) :=
  raw.foldl (fun d e => dictSet d e.1 e.2) []

/-- `z.read(name)`: the last member of that name -/
def zread (ms : List (Str × Bytes)) (n : Str) : Option Bytes :=
  (ms.reverse.find? (fun m => m.1 == n)).map (·.2)

/-- `__detectmimetype` -/
def detectMimetype (p : Package) : Str :=
  match p.mimetypeFile with
  | some m => m
  | none => match (manifestlist p.manifest).find? (fun e => e.1 == sSlash) with
    | some e => e.2
    | none => sOdt

def isPicturePath (m : Str) : Bool := m.take 9 == sPictures && m.length > 9
/-- `name in (u'settings.xml', u'content.xml', u'styles.xml', u'')` -/
def isParsedPart (m : Str) : Bool := m == sSettings || m == sContent || m == sStyles || m == []
/-- `mentry in (u'/', u'Thumbnails/', u'mimetype', u'META-INF/manifest.xml')` -/
def isRegenerated (m : Str) : Bool := m == sSlash || m == sThumbDir || m == sMimetype || m == sManifestPath

def isDigit (c : Nat) : Bool := 48 ≤ c && c ≤ 57

/-- `re.match(u"Object [0-9]+/", s)`: the matched text -/
def objComp (s : Str) : Option Str :=
  if s.take 7 == sObjectSp then
    let ds := (s.drop 7).takeWhile isDigit
    if !ds.isEmpty && (s.drop (7 + ds.length)).head? == some 47 then some (sObjectSp ++ ds ++ sSlash) else none
  else none

def settingsOf (p : Package) (keys : List Str) (F : Str) : Bool :=
  keys.contains (F ++ sSettings) && p.settingsNonEmpty.contains (F ++ sSettings)
  && (zread p.members (F ++ sSettings)).isSome

/-- the `while True:` loop of `load` on the key `op ++ rest`, started at `objectpath = op`: the pairs
    (parent folder, folder) of the listed object folders it walks through -/
def chainPairs (keys : List Str) : Nat → Str → Str → List (Str × Str)
  | 0, _, _ => []
  | f+1, op, rest => match objComp rest with
    | some c =>
      if keys.contains (op ++ c) then (op, op ++ c) :: chainPairs keys f (op ++ c) (rest.drop c.length) else []
    | none => []

/-- all pairs a key walks through -/
def keyPairs (keys : List Str) (k : Str) : List (Str × Str) := chainPairs keys k.length [] k

/-- `objectpath` after the `while True:` loop on the key `op ++ rest`, started at `objectpath = op` -/
def chainEnd (keys : List Str) : Nat → Str → Str → Str
  | 0, op, _ => op
  | f+1, op, rest => match objComp rest with
    | some c => if keys.contains (op ++ c) then chainEnd keys f (op ++ c) (rest.drop c.length) else op
    | none => op

/-- the folder of the sub-document a key belongs to ("" = the top document) -/
def chainOf (keys : List Str) (k : Str) : Str := chainEnd keys k.length [] k

/-- `if objectpath + m.group(0) not in subdocs:` — a folder is created the first time it is walked through
    (a folder has one parent, so telling pairs apart is telling folders apart) -/
def addPair (acc : List (Str × Str)) (x : Str × Str) : List (Str × Str) :=
  if acc.contains x then acc else acc ++ [x]

/-- the `subdocs` dict without the top document: (parent folder, folder) of every sub-document, in creation order -/
def allPairs (keys : List Str) : List (Str × Str) := (keys.flatMap (keyPairs keys)).foldl addPair []

/-- `childobjects` of the document stored in `P`, as folders, in attach order -/
def kidsOf (keys : List Str) (P : Str) : List Str := ((allPairs keys).filter (fun x => x.1 == P)).map (·.2)

/-- the manifest entries that `load` dispatches to the document stored in `P` -/
def entriesAt (man : List (Str × Str)) (keys : List Str) (P : Str) : List (Str × Str) :=
  man.filter (fun e => chainOf keys e.1 == P)

/-- the last branch of the dispatch: the entry is kept as an opaque extra of its sub-document -/
def isKept (P : Str) (e : Str × Str) : Bool :=
  let name := e.1.drop P.length
  !isPicturePath name && !(e.1 == sThumb) && !(isParsedPart name || e.1 == sMeta) && !isRegenerated e.1

/-- the `OpaqueObject` for a kept entry (directory names carry no content) -/
def toExtra (p : Package) (P : Str) (e : Str × Str) : Extra :=
  let name := e.1.drop P.length
  ⟨name, e.2, if name.getLast? == some 47 then none else zread p.members e.1⟩

/-- does the dispatch of this entry call `z.read(mentry)`? -/
def needsRead (keys : List Str) (e : Str × Str) : Bool :=
  let P := chainOf keys e.1
  let name := e.1.drop P.length
  isPicturePath name || (!isPicturePath name && e.1 == sThumb) || (isKept P e && name.getLast? != some 47)

/-- `Pictures` of the document stored in `P` -/
def picsAt (p : Package) (man : List (Str × Str)) (keys : List Str) (P : Str) : List Pic :=
  (((entriesAt man keys P).filter (fun e => isPicturePath (e.1.drop P.length))).map
    (fun e => (⟨e.1.drop P.length, .image ((zread p.members e.1).getD []), e.2⟩ : Pic))).foldl register []

/-- `_extra` of the document stored in `P` -/
def extrasAt (p : Package) (man : List (Str × Str)) (keys : List Str) (P : Str) : List Extra :=
  ((entriesAt man keys P).filter (isKept P)).map (toExtra p P)

/-- thumbnail + `_thumbnail_mediatype` (top document only) -/
def thumbOf (p : Package) (man : List (Str × Str)) : Option Thumb :=
  (man.find? (fun e => e.1 == sThumb)).map (fun e => ⟨(zread p.members e.1).getD [], e.2⟩)

/-- the `folder` attribute `addObject(subdoc, "/" + name)` leaves on the sub-document stored in `path` -/
def folderOfPath (path : Str) : Str := if path.isEmpty then [] else 47 :: path.dropLast

/-- the document stored in `P` with everything below it (the fuel bounds the nesting depth) -/
def buildDoc (p : Package) (man : List (Str × Str)) (keys : List Str) : Nat → Str → Doc
  | 0, P => ⟨keys.idxOf P + 1, ((man.find? (fun e => e.1 == P)).map (·.2)).getD [], settingsOf p keys P,
             picsAt p man keys P, none, extrasAt p man keys P, folderOfPath P, []⟩
  | f+1, P => ⟨keys.idxOf P + 1, ((man.find? (fun e => e.1 == P)).map (·.2)).getD [], settingsOf p keys P,
             picsAt p man keys P, none, extrasAt p man keys P, folderOfPath P,
             (kidsOf keys P).map (buildDoc p man keys f)⟩

/-- enough fuel for any nesting that the keys can describe -/
def loadFuel (keys : List Str) : Nat := (keys.map (·.length)).sum + 1

/-- `load`.  The top document gets id 0 and the media type of `__detectmimetype`; `none` = some `z.read`
    raised KeyError -/
def load (p : Package) : Option Doc :=
  let man := manifestlist p.manifest
  let keys := man.map (·.1)
  if man.all (fun e => !needsRead keys e || (zread p.members e.1).isSome) then
    match buildDoc p man keys (loadFuel keys) [] with
    | ⟨_, _, hs, pics, _, ex, fo, kids⟩ => some ⟨0, detectMimetype p, hs, pics, thumbOf p man, ex, fo, kids⟩
  else none

end OdfModel.Pkg

/-
  OdfModel.Xhtml — model of the XHTML converter odf/odf2xhtml.py (class ODF2XHTML), property C18.

  The converter walks the loaded document (`_walknode`) and drives itself like a SAX handler:
    startElementNS : push (processelem, processcont) on `pstack`; if processelem: run the start handler found in
                     `self.elements` (generated table `Generated.Xhtml.elements`); push (tag, attrs) on `tagstack`
    characters     : append to `self.data` if processelem and processcont
    endElementNS   : pop `tagstack`; if processelem: run the end handler; pop `pstack` into (processelem, processcont)
  Because push and pop bracket the recursion over the children, `pstack`/`tagstack` are the *context* `Ctx` handed
  down the recursion (`walk`); a start handler's change of the two flags is seen by the children and by the test
  before the end handler, and is undone after it.  Everything else the handlers mutate is the threaded state `St`.

  Output is a token list; `render` turns it into the string the Python code builds:
    opentag   → `Tok.otag tag attrs block`   "<tag k=quoteattr(v) …>" (+ "\n" if block)      — attrs through `quoteattr`
    closetag  → `Tok.ctag tag block`         "</tag>" (+ "\n")
    emptytag  → `Tok.etag tag attrs`         "<tag k=quoteattr(v) …/>\n"
    writedata / writeout(escape(x)) → `Tok.text s`   rendered as `escape(s)`               — document strings
    every other writeout            → `Tok.raw r`    `Raw` enumerates the converter's own constants; the only
                                                      document-derived one is `Raw.css` (style sheet text, OPAQUE: the
                                                      style collection `s_style_*`, `StyleToCSS` and
                                                      `generate_stylesheet` are not modelled; their text is a parameter)
  `escape`/`quoteattr` are xml.sax.saxutils' (`sxEscape`, `sxQuoteattr`), not odfpy's own.

  Handlers transcribed statement by statement (`runH`): s_processcont, s_ignorexml, s_ignorecont, e_dc_title,
  e_dc_metatag, e_dc_contentlanguage, e_dc_creator, s/e_draw_frame, s_draw_image, s/e_draw_page, s/e_draw_textbox,
  html_body, generate_footnotes, s/e_office_document_content, s/e_office_text, s/e_office_spreadsheet,
  s/e_office_presentation, s/e_table_table, s/e_table_table_cell, s_table_table_column, s/e_table_table_row,
  s/e_text_a, s_text_bookmark, s_text_bookmark_ref, s/e_text_h, s_text_line_break, s/e_text_list,
  s/e_text_list_item, s/e_text_list_level_style_bullet, s/e_text_list_level_style_number (their effect on
  `listtypes`), s_text_note, s/e_text_note_body, e_text_note_citation, s/e_text_p, s_text_s, s/e_text_span,
  s_text_tab, s/e_text_x_source.  The style collecting handlers (s_style_*, s_office_styles, …) only feed the opaque
  style sheet: no token, no flag change (s_style_master_page: processelem := False).
  s/e_custom_shape (draw:custom-shape: the <div> of a frame), s_draw_shape (the other drawing shapes: the pending data
  is written, nothing else).
  NOT modelled (`Err.unmodelled` when reached): s_draw_fill_image, s_draw_object, s_draw_object_ole.
  Python exceptions are `Err` values (KeyError for `attrs[k]`, ValueError for `int()`, IndexError for `pop` on an empty
  `htmlstack` / `stackparent()`, AttributeError for `None.replace` and a missing `_orgwfunc`).
  `int(x)` is modelled on non-empty ASCII digit strings only (anything else: ValueError).
  Switching `self._wfunc` between `_wlines` and `collectnote` is modelled by swapping buffers: `St.out` is whatever
  `_wfunc` appends to, `St.saved` holds `self.lines` while a note body is collected.  A note inside a note body and a
  second note body in one note (where the Python code loses or corrupts `self.notebody`) give `Err.unmodelled`.
-/
import OdfModel.Xml.Escape
import OdfModel.Generated.XhtmlDispatch
namespace OdfModel.Xhtml
open OdfModel OdfModel.Xml OdfModel.Generated.Xhtml

abbrev Attrs := List (Str × Str)

/-- the loaded document as `_walknode` sees it: elements by prefixed name (odfpy's own prefix for the namespace),
    attributes by prefixed name, text nodes -/
inductive Node where
  | text (s : Str)
  | elem (q : Str) (attrs : Attrs) (kids : List Node)

/-! ### string constants (code points) -/
def kStyleName : Str := [116, 101, 120, 116, 58, 115, 116, 121, 108, 101, 45, 110, 97, 109, 101]  -- text:style-name
def kOutline : Str := [116, 101, 120, 116, 58, 111, 117, 116, 108, 105, 110, 101, 45, 108, 101, 118, 101, 108]  -- text:outline-level
def kHref : Str := [120, 108, 105, 110, 107, 58, 104, 114, 101, 102]  -- xlink:href
def kName : Str := [116, 101, 120, 116, 58, 110, 97, 109, 101]  -- text:name
def kRefName : Str := [116, 101, 120, 116, 58, 114, 101, 102, 45, 110, 97, 109, 101]  -- text:ref-name
def kC : Str := [116, 101, 120, 116, 58, 99]  -- text:c
def kAnchorType : Str := [116, 101, 120, 116, 58, 97, 110, 99, 104, 111, 114, 45, 116, 121, 112, 101]  -- text:anchor-type
def kDrawStyle : Str := [100, 114, 97, 119, 58, 115, 116, 121, 108, 101, 45, 110, 97, 109, 101]  -- draw:style-name
def kPresStyle : Str := [112, 114, 101, 115, 101, 110, 116, 97, 116, 105, 111, 110, 58, 115, 116, 121, 108, 101, 45, 110, 97, 109, 101]  -- presentation:style-name
def kSvgW : Str := [115, 118, 103, 58, 119, 105, 100, 116, 104]  -- svg:width
def kSvgH : Str := [115, 118, 103, 58, 104, 101, 105, 103, 104, 116]  -- svg:height
def kSvgX : Str := [115, 118, 103, 58, 120]  -- svg:x
def kSvgY : Str := [115, 118, 103, 58, 121]  -- svg:y
def kDrawName : Str := [100, 114, 97, 119, 58, 110, 97, 109, 101]  -- draw:name
def kMasterPage : Str := [100, 114, 97, 119, 58, 109, 97, 115, 116, 101, 114, 45, 112, 97, 103, 101, 45, 110, 97, 109, 101]  -- draw:master-page-name
def kTblStyle : Str := [116, 97, 98, 108, 101, 58, 115, 116, 121, 108, 101, 45, 110, 97, 109, 101]  -- table:style-name
def kRowsSpanned : Str := [116, 97, 98, 108, 101, 58, 110, 117, 109, 98, 101, 114, 45, 114, 111, 119, 115, 45, 115, 112, 97, 110, 110, 101, 100]  -- table:number-rows-spanned
def kColsSpanned : Str := [116, 97, 98, 108, 101, 58, 110, 117, 109, 98, 101, 114, 45, 99, 111, 108, 117, 109, 110, 115, 45, 115, 112, 97, 110, 110, 101, 100]  -- table:number-columns-spanned
def kColsRepeated : Str := [116, 97, 98, 108, 101, 58, 110, 117, 109, 98, 101, 114, 45, 99, 111, 108, 117, 109, 110, 115, 45, 114, 101, 112, 101, 97, 116, 101, 100]  -- table:number-columns-repeated
def kStyleNameAttr : Str := [115, 116, 121, 108, 101, 58, 110, 97, 109, 101]  -- style:name
def kLevel : Str := [116, 101, 120, 116, 58, 108, 101, 118, 101, 108]  -- text:level
def kTextList : Str := [116, 101, 120, 116, 58, 108, 105, 115, 116]  -- text:list
def nHtml : Str := [104, 116, 109, 108]  -- html
def nHead : Str := [104, 101, 97, 100]  -- head
def nBody : Str := [98, 111, 100, 121]  -- body
def nStyle : Str := [115, 116, 121, 108, 101]  -- style
def nTitle : Str := [116, 105, 116, 108, 101]  -- title
def nP : Str := [112]  -- p
def nSpan : Str := [115, 112, 97, 110]  -- span
def nA : Str := [97]  -- a
def nDiv : Str := [100, 105, 118]  -- div
def nTable : Str := [116, 97, 98, 108, 101]  -- table
def nTr : Str := [116, 114]  -- tr
def nTd : Str := [116, 100]  -- td
def nUl : Str := [117, 108]  -- ul
def nOl : Str := [111, 108]  -- ol
def nLi : Str := [108, 105]  -- li
def nSup : Str := [115, 117, 112]  -- sup
def nFieldset : Str := [102, 105, 101, 108, 100, 115, 101, 116]  -- fieldset
def nLegend : Str := [108, 101, 103, 101, 110, 100]  -- legend
def nMeta : Str := [109, 101, 116, 97]  -- meta
def nImg : Str := [105, 109, 103]  -- img
def nBr : Str := [98, 114]  -- br
def nCol : Str := [99, 111, 108]  -- col
def nH : Str := [104]  -- h
def aClass : Str := [99, 108, 97, 115, 115]  -- class
def aStyle : Str := [115, 116, 121, 108, 101]  -- style
def aHref : Str := [104, 114, 101, 102]  -- href
def aId : Str := [105, 100]  -- id
def aSrc : Str := [115, 114, 99]  -- src
def aAlt : Str := [97, 108, 116]  -- alt
def aRowspan : Str := [114, 111, 119, 115, 112, 97, 110]  -- rowspan
def aColspan : Str := [99, 111, 108, 115, 112, 97, 110]  -- colspan
def aType : Str := [116, 121, 112, 101]  -- type
def aXmlns : Str := [120, 109, 108, 110, 115]  -- xmlns
def aHttpEquiv : Str := [104, 116, 116, 112, 45, 101, 113, 117, 105, 118]  -- http-equiv
def aContent : Str := [99, 111, 110, 116, 101, 110, 116]  -- content
def aName : Str := [110, 97, 109, 101]  -- name
def sXhtmlNs : Str := [104, 116, 116, 112, 58, 47, 47, 119, 119, 119, 46, 119, 51, 46, 111, 114, 103, 47, 49, 57, 57, 57, 47, 120, 104, 116, 109, 108]  -- http://www.w3.org/1999/xhtml
def sContentType : Str := [67, 111, 110, 116, 101, 110, 116, 45, 84, 121, 112, 101]  -- Content-Type
def sTextHtml : Str := [116, 101, 120, 116, 47, 104, 116, 109, 108, 59, 99, 104, 97, 114, 115, 101, 116, 61, 85, 84, 70, 45, 56]  -- text/html;charset=UTF-8
def sTextCss : Str := [116, 101, 120, 116, 47, 99, 115, 115]  -- text/css
def sDoctype : Str := [60, 33, 68, 79, 67, 84, 89, 80, 69, 32, 104, 116, 109, 108, 32, 80, 85, 66, 76, 73, 67, 32, 34, 45, 47, 47, 87, 51, 67, 47, 47, 68, 84, 68, 32, 88, 72, 84, 77, 76, 32, 49, 46, 49, 47, 47, 69, 78, 34, 32, 34, 104, 116, 116, 112, 58, 47, 47, 119, 119, 119, 46, 119, 51, 46, 111, 114, 103, 47, 84, 82, 47, 120, 104, 116, 109, 108, 49, 49, 47, 68, 84, 68, 47, 120, 104, 116, 109, 108, 49, 49, 46, 100, 116, 100, 34, 62, 10]  -- <!DOCTYPE html PUBLIC "-//W3C//DTD XHTML 1.1//EN" "http://www.w3.org/TR/xhtml11/DTD/xhtml11.dtd">\n
def sCdataOpen : Str := [47, 42, 60, 33, 91, 67, 68, 65, 84, 65, 91, 42, 47, 10]  -- /*<![CDATA[*/\n
def sCdataClose : Str := [47, 42, 93, 93, 62, 42, 47, 10]  -- /*]]>*/\n
def sNbsp : Str := [38, 35, 49, 54, 48, 59]  -- &#160;
def sTitleOpen : Str := [60, 116, 105, 116, 108, 101, 62]  -- <title>
def sTitleClose : Str := [60, 47, 116, 105, 116, 108, 101, 62, 10]  -- </title>\n
def sContentLanguage : Str := [99, 111, 110, 116, 101, 110, 116, 45, 108, 97, 110, 103, 117, 97, 103, 101]  -- content-language
def sCreator : Str := [99, 114, 101, 97, 116, 111, 114]  -- creator
def sOlStyle : Str := [98, 111, 114, 100, 101, 114, 45, 116, 111, 112, 58, 32, 49, 112, 120, 32, 115, 111, 108, 105, 100, 32, 98, 108, 97, 99, 107]  -- border-top: 1px solid black
def sFootnote : Str := [102, 111, 111, 116, 110, 111, 116, 101, 45]  -- footnote-
def sHashFootnote : Str := [35, 102, 111, 111, 116, 110, 111, 116, 101, 45]  -- #footnote-
def sAnchor : Str := [97, 110, 99, 104, 111, 114]  -- anchor
def sNotfound : Str := [110, 111, 116, 102, 111, 117, 110, 100]  -- notfound
def sParagraph : Str := [112, 97, 114, 97, 103, 114, 97, 112, 104]  -- paragraph
def sChar : Str := [99, 104, 97, 114]  -- char
def sAsChar : Str := [97, 115, 45, 99, 104, 97, 114]  -- as-char
def sG : Str := [71, 45]  -- G-
def sPR : Str := [80, 82, 45]  -- PR-
def sPosRel : Str := [112, 111, 115, 105, 116, 105, 111, 110, 58, 114, 101, 108, 97, 116, 105, 118, 101, 59]  -- position:relative;
def sPosAbs : Str := [112, 111, 115, 105, 116, 105, 111, 110, 58, 97, 98, 115, 111, 108, 117, 116, 101, 59]  -- position:absolute;
def sPosAbsSp : Str := [112, 111, 115, 105, 116, 105, 111, 110, 58, 32, 97, 98, 115, 111, 108, 117, 116, 101, 59]  -- position: absolute;
def sWidth : Str := [119, 105, 100, 116, 104, 58]  -- width:
def sHeight : Str := [104, 101, 105, 103, 104, 116, 58]  -- height:
def sLeft : Str := [108, 101, 102, 116, 58]  -- left:
def sTop : Str := [116, 111, 112, 58]  -- top:
def sDisplayBlock : Str := [100, 105, 115, 112, 108, 97, 121, 58, 32, 98, 108, 111, 99, 107, 59]  -- display: block;
def sNoName : Str := [78, 111, 78, 97, 109, 101]  -- NoName
def sDP : Str := [68, 80, 45]  -- DP-
def sMP : Str := [32, 77, 80, 45]  --  MP-
def sPdash : Str := [80, 45]  -- P-
def sSdash : Str := [83, 45]  -- S-
def sTdash : Str := [84, 45]  -- T-
def sTDdash : Str := [84, 68, 45]  -- TD-
def sTCdash : Str := [84, 67, 45]  -- TC-
def sTRdash : Str := [84, 82, 45]  -- TR-
def sNone : Str := [78, 111, 110, 101]  -- None
def sOne : Str := [49]  -- 1

/-! ### tokens and rendering -/

/-- the converter's own constant strings (and the opaque style sheet) -/
inductive Raw where
  | doctype                 -- the two writeouts at the start of s_office_document_content
  | nbsp                    -- '&#160;'  (s_text_s)
  | sp                      -- ' '       (s_text_tab)
  | num (n : Nat)           -- str(self.currentnote)
  | titleOpen | titleClose  -- '<title>' … '</title>\n' around escape(self.title)
  | cdataOpen | cdataClose  -- '/*<![CDATA[*/\n'  '/*]]>*/\n'
  | defaultStyles           -- ODF2XHTML.default_styles
  | css (s : Str)           -- the rest of generate_stylesheet's output: OPAQUE
  deriving Repr, DecidableEq

inductive Tok where
  | otag (t : Str) (a : Attrs) (block : Bool)
  | ctag (t : Str) (block : Bool)
  | etag (t : Str) (a : Attrs)
  | text (s : Str)
  | raw (r : Raw)
  deriving Repr, DecidableEq

/-- xml.sax.saxutils.escape(data) -/
def sxEscape (s : Str) : Str := replace1 60 LT (replace1 62 GT (replace1 38 AMP s))

/-- xml.sax.saxutils.quoteattr(data) -/
def sxQuoteattr (s : Str) : Str :=
  let d := replace1 9 R9 (replace1 13 R13 (replace1 10 R10 (sxEscape s)))
  if d.contains 34 then
    if d.contains 39 then [34] ++ replace1 34 QUOT d ++ [34]
    else [39] ++ d ++ [39]
  else [34] ++ d ++ [34]

def natToStr (n : Nat) : Str := (Nat.toDigits 10 n).map Char.toNat

/-- '%s=%s' % (key, quoteattr(val)) -/
def renderAttr (kv : Str × Str) : Str := kv.1 ++ [61] ++ sxQuoteattr kv.2

/-- " ".join(a) -/
def renderAttrs (a : Attrs) : Str := List.intercalate [32] (a.map renderAttr)

def renderRaw : Raw → Str
  | .doctype => sDoctype
  | .nbsp => sNbsp
  | .sp => [32]
  | .num n => natToStr n
  | .titleOpen => sTitleOpen
  | .titleClose => sTitleClose
  | .cdataOpen => sCdataOpen
  | .cdataClose => sCdataClose
  | .defaultStyles => defaultStyles
  | .css s => s

def renderTok : Tok → Str
  | .otag t a b => [60] ++ t ++ (if a.isEmpty then [] else [32] ++ renderAttrs a) ++ [62] ++ (if b then [10] else [])
  | .ctag t b => [60, 47] ++ t ++ [62] ++ (if b then [10] else [])
  | .etag t a => [60] ++ t ++ [32] ++ renderAttrs a ++ [47, 62, 10]
  | .text s => sxEscape s
  | .raw r => renderRaw r

/-- ''.join(self.lines) -/
def render (ts : List Tok) : Str := ts.flatMap renderTok

/-! ### state -/

inductive Err where
  | keyError | indexError | valueError | attributeError | unmodelled
  deriving Repr, DecidableEq

abbrev M := Except Err

structure Cfg where
  css : Bool            -- generate_css
  cssText : Str         -- what generate_stylesheet writes after default_styles (opaque)

/-- what the recursion hands down: `tagstack` (top first) and the two flags saved on `pstack` -/
structure Ctx where
  stack : List (Str × Attrs)
  pe : Bool
  pc : Bool

structure St where
  out : List Tok                     -- what `self._wfunc` currently appends to: self.lines, or self.notebody inside a note body
  saved : Option (List Tok)          -- self.lines while a note body is being collected (`_wfunc` is `collectnote`)
  nbOpen : Bool                      -- self.notebody is a list (between s_text_note and e_text_note_body)
  data : Str                         -- ''.join(self.data)
  notes : List (Option (List Tok))   -- notedict[k]['body'] for k = 1.. (none: no body yet)
  cur : Nat                          -- self.currentnote
  anchors : List Str                 -- keys of self.anchors in insertion order (value = position)
  hl : List Nat                      -- self.headinglevels (11 counters)
  title : Str
  metatags : List Tok
  depth : Nat                        -- len(self.htmlstack)
  listtypes : List (Str × Str)       -- self.listtypes (latest binding first)

def St.init : St :=
  { out := [], saved := none, nbOpen := false, data := [], notes := [], cur := 0, anchors := [],
    hl := List.replicate 11 0, title := [], metatags := [], depth := 0, listtypes := [] }

/-- `self._wfunc(s)` for a non-empty s.  Switching `_wfunc` between `_wlines` and `collectnote` is modelled by swapping the
    buffer `out` (s_text_note_body / e_text_note_body), so writing is a plain append. -/
def emit (t : Tok) (st : St) : St := { st with out := st.out ++ [t] }

/-- writeout(escape(s)) -/
def emitText (s : Str) (st : St) : St := if s.isEmpty then st else emit (.text s) st

def opentag (t : Str) (a : Attrs) (b : Bool) (st : St) : St := emit (.otag t a b) { st with depth := st.depth + 1 }

/-- closetag after the `htmlstack.pop()` succeeded -/
def closePure (t : Str) (b : Bool) (st : St) : St := emit (.ctag t b) { st with depth := st.depth - 1 }

def closetag (t : Str) (b : Bool) (st : St) : M St :=
  if st.depth = 0 then .error .indexError else .ok (closePure t b st)

def emptytag (t : Str) (a : Attrs) (st : St) : St := emit (.etag t a) st

def writedata (st : St) : St := emitText st.data st

def purgedata (st : St) : St := { st with data := [] }

/-- n times the same write -/
def emitN (t : Tok) : Nat → St → St
  | 0, st => st
  | n + 1, st => emitN t n (emit t st)

def emitAll (ts : List Tok) (st : St) : St := { st with out := st.out ++ ts }

/-! ### small Python helpers -/

def isDigit (c : Cp) : Bool := 48 ≤ c && c ≤ 57

/-- `int(s)` on ASCII digit strings -/
def pyInt (s : Str) : Option Nat :=
  if s.isEmpty || !(s.all isDigit) then none else some (s.foldl (fun a c => a * 10 + (c - 48)) 0)

/-- s.replace(".", "_") -/
def replaceDot (s : Str) : Str := replace1 46 [95] s

/-- "%s" % x for x a string or None -/
def strOrNone : Option Str → Str
  | some s => s
  | none => sNone

/-- "anchor%03d" % n -/
def anchorId (n : Nat) : Str :=
  let d := natToStr n
  sAnchor ++ List.replicate (3 - d.length) 48 ++ d

/-- get_anchor(name) -/
def getAnchor (name : Str) (st : St) : Str × St :=
  let i := st.anchors.idxOf name
  if i < st.anchors.length then (anchorId (i + 1), st)
  else (anchorId (st.anchors.length + 1), { st with anchors := st.anchors ++ [name] })

/-- s.split("|")[0] -/
def beforeBar (s : Str) : Str := s.takeWhile (· != 124)

/-- TagStack.rfindattr: first entry FROM THE BOTTOM that has the attribute -/
def rfindattr (stack : List (Str × Attrs)) (k : Str) : Option Str := stack.reverse.findSome? (fun e => e.2.lookup k)

/-- TagStack.count_tags -/
def countTags (stack : List (Str × Attrs)) (q : Str) : Nat := (stack.filter (fun e => e.1 == q)).length

def special (k : Str) : Option Str := specialStyles.lookup k

/-- the part of a prefixed name after the colon (`tag[1]`) -/
def localName (q : Str) : Str := (q.dropWhile (· != 58)).drop 1

/-- set headinglevels[i] -/
def setAt (l : List Nat) (i v : Nat) : List Nat := l.set i v

/-- `for x in range(level+1, 10): headinglevels[x] = 0` -/
def zeroFrom (l : List Nat) (lo : Nat) : List Nat := l.zipIdx.map (fun (v, i) => if lo ≤ i && i < 10 then 0 else v)

/-- '.'.join(map(str, headinglevels[1:level+1])) -/
def outlineStr (hl : List Nat) (level : Nat) : Str :=
  List.intercalate [46] (((hl.take (level + 1)).drop 1).map natToStr)

/-- the heading level both heading handlers compute: int(attrs.get(outline-level, 1)) clipped to 1..6 -/
def headingLevel (attrs : Attrs) : M Nat :=
  match attrs.lookup kOutline with
  | none => .ok 1
  | some v => match pyInt v with
    | none => .error .valueError
    | some n => .ok (if n > 6 then 6 else if n < 1 then 1 else n)

/-- the list class both list handlers compute (s_text_list / e_text_list) -/
def listClass (ctx : Ctx) (q : Str) (attrs : Attrs) : Str :=
  let level := countTags ctx.stack q + 1
  let name : Option Str :=
    match attrs.lookup kStyleName with
    | some n => if n.isEmpty then rfindattr ctx.stack kStyleName else some (replaceDot n)
    | none => rfindattr ctx.stack kStyleName
  strOrNone name ++ [95] ++ natToStr level

def listTag (st : St) (cls : Str) : Str := (st.listtypes.lookup cls).getD nUl

/-- the tag both paragraph handlers compute -/
def paraTag (attrs : Attrs) : Str :=
  match attrs.lookup kStyleName with
  | none => nP
  | some c => if c.isEmpty then nP else (special (sPdash ++ replaceDot c)).getD nP

/-- style string of s_draw_frame -/
def frameStyle (attrs : Attrs) : Str :=
  let at_ := (attrs.lookup kAnchorType).getD sNotfound
  let s0 : Str := if at_ = sParagraph then sPosRel else if at_ = sChar then sPosRel else if at_ = sAsChar then [] else sPosAbs
  let s1 := match attrs.lookup kSvgW with | some v => s0 ++ sWidth ++ v ++ [59] | none => s0
  let s2 := match attrs.lookup kSvgH with | some v => s1 ++ sHeight ++ v ++ [59] | none => s1
  let s3 := match attrs.lookup kSvgX with | some v => s2 ++ sLeft ++ v ++ [59] | none => s2
  match attrs.lookup kSvgY with | some v => s3 ++ sTop ++ v ++ [59] | none => s3

/-- style string of s_custom_shape: like s_draw_frame, but absolute for paragraph / char anchors and `position: absolute;`
    (with a blank) for every other anchor type -/
def shapeStyle (attrs : Attrs) : Str :=
  let at_ := (attrs.lookup kAnchorType).getD sNotfound
  let s0 : Str := if at_ = sParagraph then sPosAbs else if at_ = sChar then sPosAbs else if at_ = sAsChar then [] else sPosAbsSp
  let s1 := match attrs.lookup kSvgW with | some v => s0 ++ sWidth ++ v ++ [59] | none => s0
  let s2 := match attrs.lookup kSvgH with | some v => s1 ++ sHeight ++ v ++ [59] | none => s1
  let s3 := match attrs.lookup kSvgX with | some v => s2 ++ sLeft ++ v ++ [59] | none => s2
  match attrs.lookup kSvgY with | some v => s3 ++ sTop ++ v ++ [59] | none => s3

def frameClass (attrs : Attrs) : Str :=
  let n := sG ++ (attrs.lookup kDrawStyle).getD []
  let n := if n = sG then sPR ++ (attrs.lookup kPresStyle).getD [] else n
  replaceDot n

/-- the (opaque) rest of the style sheet; `writeout` drops an empty string -/
def emitCss (s : Str) (st : St) : St := if s.isEmpty then st else emit (.raw (.css s)) st

/-- `if self.title == '': self.title = heading` (heading = the pending data) -/
def titleFromHeading (st : St) : St := if st.title.isEmpty then { st with title := st.data } else st

/-! ### the helpers html_body / generate_footnotes -/

def htmlBody (cfg : Cfg) (st : St) : M St := do
  let st := writedata st
  let st ← (if cfg.css then
      let st := opentag nStyle [(aType, sTextCss)] true st
      let st := emit (.raw .cdataOpen) st
      let st := emit (.raw .defaultStyles) st
      let st := emitCss cfg.cssText st
      let st := emit (.raw .cdataClose) st
      closetag nStyle true st
    else pure st)
  let st := purgedata st
  let st ← closetag nHead true st
  pure (opentag nBody [] true st)

/-- the `for key in range(1, currentnote+1)` loop; `k` is the key of the first element of `ns` -/
def footnoteItems : List (Option (List Tok)) → Nat → St → M St
  | [], _, st => .ok st
  | n :: ns, k, st =>
    match n with
    | none => .error .keyError          -- note['body'] of a note without body
    | some body =>
      match closetag nLi true (emitAll body (opentag nLi [(aId, sFootnote ++ natToStr k)] false st)) with
      | .error e => .error e
      | .ok st1 => footnoteItems ns (k + 1) st1

def generateFootnotes (cfg : Cfg) (st : St) : M St :=
  if st.cur = 0 then .ok st else do
    let st := if cfg.css then opentag nOl [(aStyle, sOlStyle)] true st else opentag nOl [] false st
    let st ← footnoteItems st.notes 1 st
    closetag nOl true st

/-! ### the handlers -/

def classAttr (pre : Str) (v : Option Str) : Attrs :=
  match v with
  | some c => if c.isEmpty then [] else [(aClass, pre ++ replaceDot c)]
  | none => []

/-- class attribute of s_text_p / s_text_span: only for a non-special style and with generate_css -/
def styleClassAttr (cfg : Cfg) (pre : Str) (v : Option Str) : Attrs :=
  match v with
  | some c => if !c.isEmpty && (special (pre ++ replaceDot c)).isNone && cfg.css then [(aClass, pre ++ replaceDot c)] else []
  | none => []

def spanAttr (k : Str) (v : Option Str) : Attrs :=
  match v with
  | some x => if x.isEmpty then [] else [(k, x)]
  | none => []

/-- one handler method run on (tag = q, attrs); returns the new state and the new (processelem, processcont) -/
def runH (cfg : Cfg) (ctx : Ctx) (h : HName) (q : Str) (attrs : Attrs) (pe pc : Bool) (st : St) : M (St × Bool × Bool) :=
  let keep (s : St) : M (St × Bool × Bool) := .ok (s, pe, pc)
  let keepM (r : M St) : M (St × Bool × Bool) := r.map (fun s => (s, pe, pc))
  match h with
  | .s_processcont => .ok (st, pe, true)
  | .s_ignorexml => .ok (st, false, pc)
  | .s_ignorecont => .ok (st, pe, false)
  -- meta data
  | .e_dc_title => keep { st with title := st.data, data := [] }
  | .e_dc_metatag =>
    keep { st with metatags := st.metatags ++ [.etag nMeta [(aName, localName q), (aContent, st.data)]], data := [] }
  | .e_dc_contentlanguage =>
    keep { st with metatags := st.metatags ++ [.etag nMeta [(aHttpEquiv, sContentLanguage), (aContent, st.data)]], data := [] }
  | .e_dc_creator =>
    keep { st with metatags := st.metatags ++ [.etag nMeta [(aHttpEquiv, sCreator), (aContent, st.data)]], data := [] }
  -- frames, images, pages
  | .s_draw_frame =>
    let st := purgedata (writedata st)
    keep (if cfg.css then opentag nDiv [(aClass, frameClass attrs), (aStyle, frameStyle attrs)] false st else opentag nDiv [] false st)
  | .e_draw_frame => keepM (closetag nDiv true st)
  -- draw:custom-shape: a <div> like the frame's (e7e9e0f: the pending character data is written first, as for the frame)
  | .s_custom_shape =>
    let st := purgedata (writedata st)
    keep (if cfg.css then opentag nDiv [(aClass, frameClass attrs), (aStyle, shapeStyle attrs)] false st else opentag nDiv [] false st)
  | .e_custom_shape => keepM (closetag nDiv true st)
  -- s_draw_shape (draw:rect, draw:ellipse, … - shapes that may hold paragraphs): writedata(); purgedata()
  | .s_draw_shape => keep (purgedata (writedata st))
  | .s_draw_image =>
    match ctx.stack with
    | [] => .error .indexError
    | parent :: _ =>
      match attrs.lookup kHref with
      | none => .error .keyError
      | some href =>
        let base : Attrs := [(aAlt, []), (aSrc, href)]
        let a := if cfg.css && (parent.2.lookup kAnchorType != some sChar) then base ++ [(aStyle, sDisplayBlock)] else base
        keep (emptytag nImg a st)
  | .s_draw_page =>
      let name := (attrs.lookup kDrawName).getD sNoName
      let stylename := replaceDot ((attrs.lookup kDrawStyle).getD [])
      let masterpage := replaceDot ((attrs.lookup kMasterPage).getD [])
      let st := if cfg.css then opentag nFieldset [(aClass, sDP ++ stylename ++ sMP ++ masterpage)] false st
                else opentag nFieldset [] false st
      let st := opentag nLegend [] false st
      let st := emitText name st
      keepM (closetag nLegend true st)
  | .e_draw_page => keepM (closetag nFieldset true st)
  | .s_draw_textbox => keep (opentag nDiv [] false st)
  | .e_draw_textbox => keepM (closetag nDiv true st)
  -- document skeleton
  | .s_office_document_content =>
      let st := emit (.raw .doctype) st
      let st := opentag nHtml [(aXmlns, sXhtmlNs)] true st
      let st := opentag nHead [] true st
      let st := emptytag nMeta [(aHttpEquiv, sContentType), (aContent, sTextHtml)] st
      let st := emitAll st.metatags st
      let st := emit (.raw .titleOpen) st
      let st := emitText st.title st
      keep (emit (.raw .titleClose) st)
  | .e_office_document_content => keepM (closetag nHtml true st)
  | .s_office_text | .s_office_spreadsheet | .s_office_presentation => keepM (htmlBody cfg st)
  | .e_office_text | .e_office_spreadsheet | .e_office_presentation => keepM (do
      let st ← generateFootnotes cfg st
      closetag nBody true st)
  -- style collection: feeds the opaque style sheet only
  | .s_office_automatic_styles | .s_office_master_styles | .s_office_styles
  | .s_style_default_style | .e_style_default_style | .s_style_font_face | .s_style_handle_properties
  | .s_style_page_layout | .e_style_page_layout | .s_style_style | .e_style_style
  | .e_text_list_level_style_bullet | .e_text_list_level_style_number => keep st
  | .s_style_master_page => .ok (st, false, pc)
  | .s_text_list_level_style_bullet =>
    match attrs.lookup kLevel with
    | none => .error .keyError
    | some lv =>
      match rfindattr ctx.stack kStyleNameAttr with
      | none => .error .attributeError
      | some name =>
        match pyInt lv with
        | none => .error .valueError
        | some _ => keep { st with listtypes := (name ++ [95] ++ lv, nUl) :: st.listtypes }
  | .s_text_list_level_style_number =>
    match ctx.stack with
    | [] => .error .indexError
    | parent :: _ =>
      match parent.2.lookup kStyleNameAttr with
      | none => .error .keyError
      | some name =>
        match attrs.lookup kLevel with
        | none => .error .keyError
        | some lv => keep { st with listtypes := (name ++ [95] ++ lv, nOl) :: st.listtypes }
  -- tables
  | .s_table_table =>
      let a : Attrs := if cfg.css then classAttr sTdash (attrs.lookup kTblStyle) else []
      keep (purgedata (opentag nTable a false st))
  | .e_table_table => keepM ((closetag nTable true (writedata st)).map purgedata)
  | .s_table_table_cell =>
      let a := spanAttr aRowspan (attrs.lookup kRowsSpanned) ++ spanAttr aColspan (attrs.lookup kColsSpanned) ++
               classAttr sTDdash (attrs.lookup kTblStyle)
      keep (purgedata (opentag nTd a false st))
  | .e_table_table_cell => keepM ((closetag nTd true (writedata st)).map purgedata)
  | .s_table_table_column =>
    match pyInt ((attrs.lookup kColsRepeated).getD sOne) with
    | none => .error .valueError
    | some n => keep (purgedata (emitN (.etag nCol (classAttr sTCdash (attrs.lookup kTblStyle))) n st))
  | .s_table_table_row => keep (purgedata (opentag nTr (classAttr sTRdash (attrs.lookup kTblStyle)) false st))
  | .e_table_table_row => keepM ((closetag nTr true (writedata st)).map purgedata)
  -- links and bookmarks
  | .s_text_a =>
      let st := writedata st
      match attrs.lookup kHref with
      | none => .error .keyError
      | some v =>
        let href := beforeBar v
        let r : Str × St := match href with
          | 35 :: r => let p := getAnchor r st; ([35] ++ p.1, p.2)
          | _ => (href, st)
        keep (purgedata (opentag nA [(aHref, r.1)] false r.2))
  | .e_text_a => keepM ((closetag nA false (writedata st)).map purgedata)
  | .s_text_bookmark =>
    match attrs.lookup kName with
    | none => .error .keyError
    | some name =>
      let p := getAnchor name st
      keepM ((closetag nSpan false (opentag nSpan [(aId, p.1)] false (writedata p.2))).map purgedata)
  | .s_text_bookmark_ref =>
    match attrs.lookup kRefName with
    | none => .error .keyError
    | some name =>
      let p := getAnchor name st
      keep (purgedata (opentag nA [(aHref, [35] ++ p.1)] false (writedata p.2)))
  -- headings
  | .s_text_h =>
    match headingLevel attrs with
    | .error e => .error e
    | .ok level =>
      let st := { st with hl := zeroFrom (setAt st.hl level (st.hl.getD level 0 + 1)) (level + 1) }
      let name := replaceDot ((attrs.lookup kStyleName).getD [])
      let a : Attrs := if (special (sPdash ++ name)).isSome || !cfg.css then [] else [(aClass, sPdash ++ name)]
      keep (purgedata (opentag (nH ++ natToStr level) a false st))
  | .e_text_h =>
      let st := writedata st
      match headingLevel attrs with
      | .error e => .error e
      | .ok level =>
        let st := titleFromHeading st
        let p := getAnchor (outlineStr st.hl level ++ [46] ++ st.data) st
        let st := opentag nA [(aId, p.1)] false p.2
        keepM (do
          let st ← closetag nA false st
          let st ← closetag (nH ++ natToStr level) true st
          pure (purgedata st))
  | .s_text_line_break => keep (purgedata (emptytag nBr [] (writedata st)))
  -- lists
  | .s_text_list =>
      let cls := listClass ctx q attrs
      keep (purgedata (opentag (listTag st cls) (if cfg.css then [(aClass, cls)] else []) false st))
  | .e_text_list => keepM ((closetag (listTag st (listClass ctx q attrs)) true (writedata st)).map purgedata)
  | .s_text_list_item => keep (purgedata (opentag nLi [] false st))
  | .e_text_list_item => keepM ((closetag nLi true (writedata st)).map purgedata)
  -- notes
  | .s_text_note =>
    if st.saved.isSome then .error .unmodelled          -- a note inside a note body: not modelled
    else
      let st := purgedata (writedata st)
      keep { st with cur := st.cur + 1, notes := st.notes ++ [none], nbOpen := true }
  | .s_text_note_body =>
    if st.saved.isSome || !st.nbOpen then .error .unmodelled   -- nested / repeated note body: not modelled
    else keep { st with saved := some st.out, out := [] }
  | .e_text_note_body =>
    match st.saved with
    | none => .error .attributeError                     -- self._orgwfunc does not exist
    | some lines =>
      if st.cur = 0 || st.cur > st.notes.length then .error .keyError
      else keep { st with out := lines, saved := none, notes := st.notes.set (st.cur - 1) (some st.out), nbOpen := false }
  | .e_text_note_citation =>
    if st.cur = 0 || st.cur > st.notes.length then .error .keyError
    else
      let st := opentag nA [(aHref, sHashFootnote ++ natToStr st.cur)] false st
      let st := opentag nSup [] false st
      let st := emit (.raw (.num st.cur)) st
      keepM (do
        let st ← closetag nSup true st
        closetag nA true st)
  -- paragraphs, spans, white space
  | .s_text_p => keep (purgedata (opentag (paraTag attrs) (styleClassAttr cfg sPdash (attrs.lookup kStyleName)) false st))
  | .e_text_p => keepM ((closetag (paraTag attrs) true (writedata st)).map purgedata)
  | .s_text_s =>
    match pyInt ((attrs.lookup kC).getD sOne) with
    | none => .error .valueError
    | some n => keep (purgedata (emitN (.raw .nbsp) n (writedata st)))
  | .s_text_span => keep (purgedata (opentag nSpan (styleClassAttr cfg sSdash (attrs.lookup kStyleName)) false (writedata st)))
  | .e_text_span => keepM ((closetag nSpan false (writedata st)).map purgedata)
  | .s_text_tab => keep (purgedata (emit (.raw .sp) (writedata st)))
  | .s_text_x_source => .ok (purgedata (writedata st), false, pc)
  | .e_text_x_source => keep (purgedata (writedata st))
  -- not modelled
  | .s_draw_fill_image | .s_draw_object | .s_draw_object_ole => .error .unmodelled
  | .html_body | .generate_footnotes | .writedata => .error .unmodelled   -- helpers, never in the dispatch table

/-- `self.elements.get(tag, (None, None))` -/
def dispatch (q : Str) : Option HName × Option HName := (elements.lookup q).getD (none, none)

/-- the start half of startElementNS (processelem is known to be true) -/
def startEl (cfg : Cfg) (ctx : Ctx) (q : Str) (attrs : Attrs) (st : St) : M (St × Bool × Bool) :=
  match (dispatch q).1 with
  | some h => runH cfg ctx h q attrs ctx.pe ctx.pc st
  | none => .ok (st, ctx.pe, ctx.pc)

/-- the handler half of endElementNS (processelem is known to be true) -/
def endEl (cfg : Cfg) (ctx : Ctx) (q : Str) (attrs : Attrs) (pe pc : Bool) (st : St) : M St :=
  match (dispatch q).2 with
  | some h => (runH cfg ctx h q attrs pe pc st).map (·.1)
  | none => .ok st

mutual
/-- `_walknode` -/
def walk (cfg : Cfg) (ctx : Ctx) (st : St) : Node → M St
  | .text s => .ok (if ctx.pe && ctx.pc then { st with data := st.data ++ s } else st)
  | .elem q attrs kids =>
    if ctx.pe then
      match startEl cfg ctx q attrs st with
      | .error e => .error e
      | .ok (st1, pe1, pc1) =>
        match walkList cfg { stack := (q, attrs) :: ctx.stack, pe := pe1, pc := pc1 } st1 kids with
        | .error e => .error e
        | .ok st2 => if pe1 then endEl cfg ctx q attrs pe1 pc1 st2 else .ok st2
    else .ok st      -- processelem False: no handler runs and no character is collected anywhere below
def walkList (cfg : Cfg) (ctx : Ctx) (st : St) : List Node → M St
  | [] => .ok st
  | n :: ns =>
    match walk cfg ctx st n with
    | .error e => .error e
    | .ok st1 => walkList cfg ctx st1 ns
end

/-- `ODF2XHTML(generate_css).odf2xhtml(file)` on the loaded tree: the token list of `self.lines` -/
def convert (cfg : Cfg) (doc : Node) : M (List Tok) :=
  (walk cfg { stack := [], pe := true, pc := true } St.init doc).map (·.out)

end OdfModel.Xhtml

/-
  OdfModel.UserField — model of odf/userfield.py (property C19), as the code is after the `fix:` commit
  "user fields of type date, time and boolean use their own value attribute".

  `UserFields.update(data)`:
        self.loaddoc()
        all_fields = self.document.getElementsByType(UserFieldDecl)
        for f in all_fields:
            field_name = f.getAttribute(u'name')                      -- `Field.name`
            if field_name in data:                                     -- `lookup n data`
                value_type = f.getAttribute(u'valuetype')             -- `Field.vtype`
                value = data.get(field_name)
                ns, local = VALUE_TYPES.get(value_type, (OFFICENS, u'value'))   -- `updAttrFor`
                f.setAttrNS(ns, local, value)                          -- `convert` (AttrConverters) + `setAttr`
        self.savedoc()                                                 -- only reached when no converter raised
  `UserFields.list_fields_and_values()`:
        self.loaddoc(); for f in all_fields: (name, value_type, f.getAttrNS(*VALUE_TYPES.get(value_type, default)))
        -- no savedoc(): `listOp` leaves the state as it was

  A declaration is its attribute dictionary (insertion ordered, like `Element.attributes`); attribute names are
  interned as Nat (legend in Generated/ValueTypes.lean: 0 = text:name, 1 = office:value-type, 2.. value attributes,
  everything else ≥ 7).  The document is a list of items in document order: declarations and "everything else"
  (opaque payloads standing for any other node, style, picture or package member).

  The value-type → attribute tables (one for update, one for listing: they are measured separately on the
  real code) and the class of the converter `setAttrNS` applies to each value attribute are regenerated on every
  run by harness/translate_userfield.py.
-/
import OdfModel.Basic
import OdfModel.Generated.ValueTypes
namespace OdfModel.UserField
open OdfModel

abbrev AttrKey := Nat
def nameKey : AttrKey := 0
def typeKey : AttrKey := 1

structure Field where
  attrs : List (AttrKey × Str)
deriving DecidableEq, Repr

def lookup {α} [BEq α] (k : α) : List (α × Str) → Option Str
  | [] => none
  | (k', v) :: r => if k' == k then some v else lookup k r

/-- `dict[k] = v`: overwrite in place, or append -/
def setAttr (k : AttrKey) (v : Str) : List (AttrKey × Str) → List (AttrKey × Str)
  | [] => [(k, v)]
  | (k', v') :: r => if k' == k then (k', v) :: r else (k', v') :: setAttr k v r

def Field.name (f : Field) : Option Str := lookup nameKey f.attrs
def Field.vtype (f : Field) : Option Str := lookup typeKey f.attrs

/-- `TABLE.get(value_type, default)`; `none_` = what was measured for a declaration without value-type
    attribute (`None` as key) -/
def attrIn (table : List (Str × AttrKey)) (dflt none_ : AttrKey) (vt : Option Str) : AttrKey :=
  match vt with
  | none => none_
  | some t => match table.find? (fun r => r.1 == t) with
    | some r => r.2
    | none => dflt

/-- attribute `update` writes for a declaration of value type `vt` -/
def updAttrFor (vt : Option Str) : AttrKey :=
  attrIn Generated.ValueTypes.updTable Generated.ValueTypes.updDefault Generated.ValueTypes.updNone vt
/-- attribute `list_fields_and_values` reads -/
def listAttrFor (vt : Option Str) : AttrKey :=
  attrIn Generated.ValueTypes.listTable Generated.ValueTypes.listDefault Generated.ValueTypes.listNone vt

inductive Err where
  | valueError          -- a converter refused the value (cnv_boolean)
  | unknownConverter    -- converter class the model does not know
deriving DecidableEq, Repr

def asciiLower (c : Cp) : Cp := if 65 ≤ c ∧ c ≤ 90 then c + 32 else c

/-- `cnv_boolean`: `str(arg).lower()` in ("0","false","no") / ("1","true","yes") -/
def cnvBoolean (v : Str) : Except Err Str :=
  let l := v.map asciiLower
  if l == [48] || l == [102, 97, 108, 115, 101] || l == [110, 111] then .ok [102, 97, 108, 115, 101]
  else if l == [49] || l == [116, 114, 117, 101] || l == [121, 101, 115] then .ok [116, 114, 117, 101]
  else .error .valueError

/-- converter class of an attribute: 0 = `str(arg)` (identity on strings), 1 = `cnv_boolean`, else unknown;
    an attribute without entry goes through `AttrConverters.convert`'s fall-back `str(value)` -/
def convClass (k : AttrKey) : Nat :=
  match Generated.ValueTypes.convClasses.find? (fun r => r.1 == k) with
  | some r => r.2
  | none => 0

def convert (k : AttrKey) (v : Str) : Except Err Str :=
  if convClass k = 0 then .ok v else if convClass k = 1 then cnvBoolean v else .error .unknownConverter

abbrev Data := List (Str × Str)

/-- one iteration of the loop in `update` -/
def updField (data : Data) (f : Field) : Except Err Field :=
  match f.name with
  | none => .ok f
  | some n =>
    match lookup n data with
    | none => .ok f
    | some v =>
      match convert (updAttrFor f.vtype) v with
      | .error e => .error e
      | .ok v' => .ok ⟨setAttr (updAttrFor f.vtype) v' f.attrs⟩

def update (data : Data) : List Field → Except Err (List Field)
  | [] => .ok []
  | f :: fs =>
    match updField data f with
    | .error e => .error e
    | .ok f' => match update data fs with
      | .error e => .error e
      | .ok fs' => .ok (f' :: fs')

/-- one row of `list_fields_and_values` -/
def view (f : Field) : Option Str × Option Str × Option Str :=
  (f.name, f.vtype, lookup (listAttrFor f.vtype) f.attrs)

def listFields (fs : List Field) : List (Option Str × Option Str × Option Str) := fs.map view

/-! ### the document around the declarations -/

inductive Item where
  | field (f : Field)
  | other (payload : Nat)       -- any other node / style / picture / package member
deriving DecidableEq, Repr

abbrev Doc := List Item

def fieldsOf : Doc → List Field
  | [] => []
  | .field f :: r => f :: fieldsOf r
  | .other _ :: r => fieldsOf r

def updateDoc (data : Data) : Doc → Except Err Doc
  | [] => .ok []
  | .other x :: r => match updateDoc data r with
    | .error e => .error e
    | .ok r' => .ok (.other x :: r')
  | .field f :: r => match updField data f with
    | .error e => .error e
    | .ok f' => match updateDoc data r with
      | .error e => .error e
      | .ok r' => .ok (.field f' :: r')

/-- the tool's state: the source document and what has been written to the destination -/
structure State where
  src : Doc
  dest : Option Doc
deriving DecidableEq, Repr

/-- `list_fields_and_values()`: loaddoc, iterate, return — no `savedoc()` -/
def listOp (s : State) : List (Option Str × Option Str × Option Str) × State :=
  (listFields (fieldsOf s.src), s)

/-- `update(data)`: loaddoc, loop, `savedoc()`; a converter exception leaves the destination unwritten -/
def updateOp (data : Data) (s : State) : Except Err State :=
  match updateDoc data s.src with
  | .error e => .error e
  | .ok d => .ok { s with dest := some d }

/-! ### histories: several calls on one `UserFields` object

  Every public method starts with `self.loaddoc()`, which re-reads `self.src_file`; nothing of a previous call
  survives in the object except `src_file` / `dest_file`.  So a call is a function of the source as it is when the
  call is made.  `inPlace` = the destination is the source (same path / same buffer): the update rewrites it. -/

inductive Op where
  | list
  | update (data : Data) (inPlace : Bool)
deriving Repr

inductive Res where
  | rows (r : List (Option Str × Option Str × Option Str))
  | updated (d : Doc)
  | failed (e : Err)
deriving Repr

def step (s : State) : Op → State × Res
  | .list => (s, .rows (listFields (fieldsOf s.src)))
  | .update data inPlace =>
    match updateDoc data s.src with
    | .error e => (s, .failed e)
    | .ok d => ({ src := if inPlace then d else s.src, dest := some d }, .updated d)

def run (s : State) : List Op → State
  | [] => s
  | op :: ops => run (step s op).1 ops

def Op.keepsSource : Op → Bool
  | .list => true
  | .update _ inPlace => !inPlace

end OdfModel.UserField

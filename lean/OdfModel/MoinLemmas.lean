/-
  OdfModel.MoinLemmas — the MoinMoin converter on its simplest fragment (property C18): top-level paragraphs and
  headings whose content is inline (text, spans, links and the other `inline_markup` elements, text:s / tab /
  line-break, ignored empty elements, images).  On that fragment the model `Moin.toString` never fails and the visible
  text is a subsequence of the output once white space is dropped on both sides (`str.strip()` and the "no style on
  white space" rule only remove white space).
-/
import OdfModel.Moin
namespace OdfModel.Moin
open OdfModel OdfModel.Generated.Xhtml
open OdfModel.Xhtml (Node Attrs Err M pyInt)

/-- drop Python white space -/
def nonWs (s : Str) : Str := s.filter (fun c => !isSpace c)

theorem nonWs_append (a b : Str) : nonWs (a ++ b) = nonWs a ++ nonWs b := by simp [nonWs]

theorem filter_dropWhile (p : Cp → Bool) (l : Str) : (l.dropWhile p).filter (fun c => !p c) = l.filter (fun c => !p c) := by
  induction l with
  | nil => rfl
  | cons c r ih =>
    by_cases h : p c = true
    · simp [List.dropWhile, h, ih]
    · simp [List.dropWhile, h]

theorem nonWs_strip (t : Str) : nonWs (pyStrip t) = nonWs t := by
  unfold nonWs pyStrip
  rw [List.filter_reverse, filter_dropWhile, List.filter_reverse, List.reverse_reverse, filter_dropWhile]

theorem nonWs_of_strip_empty (t : Str) (h : (pyStrip t).isEmpty = true) : nonWs t = [] := by
  have h1 : pyStrip t = [] := by simpa using h
  rw [← nonWs_strip, h1]; rfl

theorem sublist_nonWs {a b : Str} (h : a.Sublist b) : (nonWs a).Sublist (nonWs b) := h.filter _

/-- inline_markup only adds characters around the text, or drops a text that is white space -/
theorem nonWs_inlineMarkup (sty : Styles) (a : Attrs) (t : Str) : (nonWs t).Sublist (nonWs (inlineMarkup sty a t)) := by
  unfold inlineMarkup
  split
  · exact List.Sublist.refl _
  · simp only []
    split
    · exact sublist_nonWs ((List.sublist_append_right [96] t).trans (List.sublist_append_left _ _))
    · exact sublist_nonWs ((List.sublist_append_right _ t).trans (List.sublist_append_left _ _))

/-- methods that return a string without looking at the children's text -/
def leafMethod (m : MName) : Bool :=
  m == .text_s || m == .text_tab || m == .text_line_break || m == .do_nothing || m == .draw_image

/-! **tie to the source** (`CONTAINER_TAGS`, regenerated on every run): frames, text boxes and sections are containers;
    paragraphs, headings, lists, tables, pages and notes are not -/
theorem isContainer_frame : isContainer tFrame = true := by decide +kernel
theorem isContainer_textBox : isContainer tTextBox = true := by decide +kernel
theorem isContainer_section : isContainer tSection = true := by decide +kernel
theorem isContainer_p : isContainer tP = false := by decide +kernel
theorem isContainer_h : isContainer tH = false := by decide +kernel
theorem isContainer_list : isContainer tList = false := by decide +kernel
theorem isContainer_table : isContainer tTable = false := by decide +kernel
theorem isContainer_page : isContainer tPage = false := by decide +kernel
theorem isContainer_note : isContainer tNote = false := by decide +kernel

/-- not a container (`CONTAINER_TAGS`: frames, text boxes, shapes, sections, numbered paragraphs, indexes) and none of the
    block elements textToString has a case for -/
def notBlock (q : Str) : Prop := isContainer q = false ∧ q ≠ tP ∧ q ≠ tH ∧ q ≠ tList ∧ q ≠ tTable ∧ q ≠ tSection

mutual
/-- inline content: text, elements converted by `inline_markup`, and leaf methods -/
inductive MIn : Node → Prop
  | text (s) : MIn (.text s)
  | markup (q a kids) : notBlock q → moinMethod q = some .inline_markup → MInL kids → MIn (.elem q a kids)
  | leaf (q a kids m) : notBlock q → moinMethod q = some m → leafMethod m = true → MIn (.elem q a kids)
inductive MInL : List Node → Prop
  | nil : MInL []
  | cons (n ns) : MIn n → MInL ns → MInL (n :: ns)
end

mutual
/-- visible text of inline content -/
def mvis : Node → Str
  | .text s => s
  | .elem q _ kids => if moinMethod q == some .inline_markup then mvisL kids else []
def mvisL : List Node → Str
  | [] => []
  | n :: ns => mvis n ++ mvisL ns
end

theorem nodeStr_markup (sty : Styles) (st : MSt) (q : Str) (a : Attrs) (kids : List Node) (h : notBlock q)
    (hm : moinMethod q = some .inline_markup) :
    nodeStr sty st (.elem q a kids) =
      match kidsStr sty st kids with
      | .error e => .error e
      | .ok (t, st1) => .ok (inlineMarkup sty a t, st1) := by
  obtain ⟨h1, h3, h4, h5, h6, h7⟩ := h
  rw [nodeStr.eq_def]
  simp [h1, h3, h4, h5, h6, h7, hm]
  cases kidsStr sty st kids with
  | error e => rfl
  | ok v => rfl

theorem nodeStr_leaf (sty : Styles) (st : MSt) (q : Str) (a : Attrs) (kids : List Node) (m : MName) (h : notBlock q)
    (hm : moinMethod q = some m) (hl : leafMethod m = true) : ∃ t, nodeStr sty st (.elem q a kids) = .ok (t, st) := by
  obtain ⟨h1, h3, h4, h5, h6, h7⟩ := h
  rw [nodeStr.eq_def]
  simp only [h1, h3, h4, h5, h6, h7, hm]
  cases m <;> simp [leafMethod] at hl <;> simp

mutual
theorem nodeStr_inline (sty : Styles) (st : MSt) (n : Node) (h : MIn n) :
    ∃ t, nodeStr sty st n = .ok (t, st) ∧ (nonWs (mvis n)).Sublist (nonWs t) := by
  cases h with
  | text s => exact ⟨s, by simp [nodeStr], by simp [mvis]⟩
  | markup q a kids hb hm hk =>
    obtain ⟨t, ht, hs⟩ := kidsStr_inline sty st kids hk
    refine ⟨inlineMarkup sty a t, ?_, ?_⟩
    · rw [nodeStr_markup sty st q a kids hb hm]; simp only [ht]
    · simp only [mvis, hm, beq_self_eq_true, if_true]
      exact hs.trans (nonWs_inlineMarkup sty a t)
  | leaf q a kids m hb hm hl =>
    have hv : mvis (.elem q a kids) = [] := by
      simp only [mvis, hm]
      cases m <;> simp_all [leafMethod]
    obtain ⟨t, ht⟩ := nodeStr_leaf sty st q a kids m hb hm hl
    rw [hv]; exact ⟨t, ht, List.nil_sublist _⟩
termination_by sizeOf n
theorem kidsStr_inline (sty : Styles) (st : MSt) (l : List Node) (h : MInL l) :
    ∃ t, kidsStr sty st l = .ok (t, st) ∧ (nonWs (mvisL l)).Sublist (nonWs t) := by
  cases h with
  | nil => exact ⟨[], by simp [kidsStr], by simp [mvisL]⟩
  | cons n ns hn hns =>
    obtain ⟨t, ht, hs⟩ := nodeStr_inline sty st n hn
    obtain ⟨u, hu, hs2⟩ := kidsStr_inline sty st ns hns
    refine ⟨t ++ u, by simp [kidsStr, ht, hu], ?_⟩
    simp only [mvisL, nonWs_append]
    exact List.Sublist.append hs hs2
termination_by sizeOf l
end

/-! ### paragraphs and the whole document -/

/-- paragraph attributes the model converts without error: no outline level, or a decimal one -/
def ParaOK (a : Attrs) : Prop := getAttr a kOutline = [] ∨ ∃ n, pyInt (getAttr a kOutline) = some n

theorem nonWs_nl (x : Str) : nonWs ([10] ++ x) = nonWs x := by simp [nonWs, isSpace]

theorem sub_mid (pre x post : Str) : x.Sublist (pre ++ x ++ post) :=
  (List.sublist_append_right pre x).trans (List.sublist_append_left _ post)

theorem nonWs_paraText (pp : ParaProps) (q : Str) (st : MSt) (markup : Str) : nonWs (paraText pp q st markup) = nonWs markup := by
  unfold paraText
  have h1 : nonWs (if (!pp.code) = true then pyStrip markup else markup) = nonWs markup := by
    split
    · exact nonWs_strip markup
    · rfl
  simp only []
  split
  · rw [nonWs_nl, h1]
  · exact h1

theorem paraPost_ok (sty : Styles) (q : Str) (a : Attrs) (markup : Str) (st : MSt) (h : ParaOK a) :
    ∃ r st', paraPost sty q a markup st = .ok (r, st') ∧ st'.foot = st.foot ∧ (nonWs markup).Sublist (nonWs r) := by
  unfold paraPost
  simp only []
  generalize hpp : (sty.para.lookup (getAttr a kStyleName)).getD {} = pp
  have h2 := nonWs_paraText pp q st markup
  generalize paraText pp q st markup = t2 at h2
  have key : ∀ pre post : Str, (nonWs markup).Sublist (nonWs (pre ++ t2 ++ post)) := by
    intro pre post; rw [← h2]; exact sublist_nonWs (sub_mid pre t2 post)
  have key0 : (nonWs markup).Sublist (nonWs t2) := by rw [h2]; exact List.Sublist.refl _
  have keyp : ∀ pre : Str, (nonWs markup).Sublist (nonWs (pre ++ t2)) := by
    intro pre; have := key pre []; simpa using this
  have keyi : (nonWs markup).Sublist (nonWs (if pp.indented = true then [32, 32] ++ t2 else t2)) := by
    split
    · exact keyp _
    · exact key0
  split
  · exact ⟨_, _, rfl, rfl, key _ _⟩
  · split
    · rename_i hol
      rcases h with h | ⟨n, hn⟩
      · simp [h] at hol
      · simp only [hn]
        generalize (if st.hasTitle = true then n + 1 else n) = level
        split
        · refine ⟨_, _, rfl, rfl, ?_⟩
          have := key (List.replicate level 61 ++ [32]) ([32] ++ List.replicate level 61 ++ [10])
          simpa [List.append_assoc] using this
        · exact ⟨_, _, rfl, rfl, keyi⟩
    · split
      · exact ⟨_, _, rfl, rfl, key _ _⟩
      · exact ⟨_, _, rfl, rfl, keyi⟩

/-- a top-level paragraph or heading with inline content -/
inductive MPara : Node → Prop
  | mk (q a kids) : (q = tP ∨ q = tH) → ParaOK a → MInL kids → MPara (.elem q a kids)

/-- visible text of such a paragraph -/
def pvis : Node → Str
  | .elem _ _ kids => mvisL kids
  | .text _ => []

def pvisL (l : List Node) : Str := l.flatMap pvis

theorem flatten_sublist_intercalate (sep : Str) (l : List Str) : l.flatten.Sublist (List.intercalate sep l) := by
  induction l with
  | nil => simp
  | cons t r ih =>
    cases r with
    | nil => simp [List.intercalate]
    | cons u r' =>
      rw [List.intercalate_cons_cons, List.flatten_cons, List.append_assoc]
      exact List.Sublist.append (List.Sublist.refl t) (ih.trans (List.sublist_append_right _ _))

theorem topStr_paras (sty : Styles) (st : MSt) (l : List Node) (h : ∀ n ∈ l, MPara n) :
    ∃ ts st', topStr sty st l = .ok (ts, st') ∧ st'.foot = st.foot ∧ (nonWs (pvisL l)).Sublist (nonWs ts.flatten) := by
  induction l generalizing st with
  | nil => exact ⟨[], st, rfl, rfl, by simp [pvisL, nonWs]⟩
  | cons n ns ih =>
    obtain ⟨q, a, kids, hq, hp, hk⟩ := h n (by simp)
    obtain ⟨t, ht, hs⟩ := kidsStr_inline sty st kids hk
    obtain ⟨r, st1, hr, hf1, hs1⟩ := paraPost_ok sty q a (inlineMarkup sty a t) st hp
    obtain ⟨ts, st2, h2, hf2, hs2⟩ := ih st1 (fun m hm => h m (by simp [hm]))
    have hsub : (nonWs (mvisL kids)).Sublist (nonWs r) := (hs.trans (nonWs_inlineMarkup sty a t)).trans hs1
    have hne : q ≠ tList ∧ isContainer q = false ∧ q ≠ tTable := by
      rcases hq with rfl | rfl
      · exact ⟨by decide, isContainer_p, by decide⟩
      · exact ⟨by decide, isContainer_h, by decide⟩
    have hsel : ((q = tPage ∨ q = tP) ∨ q = tH) := by rcases hq with h | h <;> simp [h]
    refine ⟨if r.isEmpty then ts else r :: ts, st2, ?_, by rw [hf2, hf1], ?_⟩
    · simp only [topStr, hne.1, hne.2.1, hne.2.2, if_false, ht, hr]
      simp only [Bool.or_eq_true, decide_eq_true_eq, hsel, if_true, Bool.false_eq_true, if_false, h2]
    · simp only [pvisL, List.flatMap_cons, pvis, nonWs_append]
      split
      · rename_i he
        have : r = [] := by simpa using he
        subst this
        have : nonWs (mvisL kids) = [] := by simpa [nonWs] using hsub
        rw [this]; simpa [pvisL] using hs2
      · rw [List.flatten_cons, nonWs_append]
        exact List.Sublist.append hsub (by simpa [pvisL] using hs2)

/-! ### white space between block-level elements is not content (repair 2b96491: `_elements`) -/

theorem elems_text (s : Str) (l : List Node) : elems (.text s :: l) = elems l := by simp [elems, tagOf]
theorem elems_elem (q : Str) (a : Attrs) (k l : List Node) : elems (.elem q a k :: l) = .elem q a k :: elems l := by
  simp [elems, tagOf]

/-- the loop of `toString` only sees the element children: text nodes between the paragraphs, lists and tables of
    office:text (the indentation of a pretty-printed file) change nothing -/
theorem topStr_elems (sty : Styles) (st : MSt) (l : List Node) : topStr sty st l = topStr sty st (elems l) := by
  induction l generalizing st with
  | nil => rfl
  | cons n ns ih =>
    cases n with
    | text s => rw [elems_text, topStr]; exact ih st
    | elem q a k =>
      rw [elems_elem, topStr, topStr]
      split
      · exact ih st
      · rfl
      · rename_i t st1 _; rw [ih st1]

/-- the same for the items of a list … -/
theorem itemsStr_elems (sty : Styles) (o : Bool) (i : Nat) (st : MSt) (l : List Node) :
    itemsStr sty o i st l = itemsStr sty o i st (elems l) := by
  induction l generalizing st with
  | nil => rfl
  | cons n ns ih =>
    cases n with
    | text s => rw [elems_text, itemsStr]; exact ih st
    | elem q a k =>
      rw [elems_elem, itemsStr, itemsStr]
      split
      · rfl
      · rename_i t st1 _; rw [ih]

/-- … the children of a list item … -/
theorem subitemsStr_elems (sty : Styles) (i : Nat) (st : MSt) (l : List Node) :
    subitemsStr sty i st l = subitemsStr sty i st (elems l) := by
  induction l generalizing st with
  | nil => rfl
  | cons n ns ih =>
    cases n with
    | text s => rw [elems_text, subitemsStr]; exact ih st
    | elem q a k =>
      rw [elems_elem, subitemsStr, subitemsStr]
      split
      · split
        · rfl
        · rename_i t st1 _; rw [ih]
      · split
        · split
          · rfl
          · rename_i t st1 _
            split
            · rfl
            · rename_i t2 st2 _; rw [ih]
        · exact ih st

/-- … the children of a table (rows, header rows, columns) … -/
theorem rowsStr_elems (sty : Styles) (st : MSt) (l : List Node) : rowsStr sty st l = rowsStr sty st (elems l) := by
  induction l generalizing st with
  | nil => rfl
  | cons n ns ih =>
    cases n with
    | text s =>
      rw [elems_text, rowsStr, rowStr]
      simp only [List.nil_append]
      rw [ih st]
      cases rowsStr sty st (elems ns) with
      | error e => rfl
      | ok v => rfl
    | elem q a k =>
      rw [elems_elem, rowsStr, rowsStr]
      split
      · rfl
      · rename_i t st1 _; rw [ih]

/-- … and the cells of a row -/
theorem cellsStr_elems (sty : Styles) (st : MSt) (l : List Node) : cellsStr sty st l = cellsStr sty st (elems l) := by
  induction l generalizing st with
  | nil => rfl
  | cons n ns ih =>
    cases n with
    | text s => rw [elems_text, cellsStr]; exact ih st
    | elem q a k =>
      rw [elems_elem, cellsStr, cellsStr]
      split
      · rfl
      · rename_i t st1 _; rw [ih]

/-- **C18 (MoinMoin: total and complete) — partial**: for a text document whose body consists of paragraphs and headings
    with inline content (text, spans, links, bookmark references and the other `inline_markup` elements, text:s / tab /
    line-break, bookmarks and the other ignored empty elements, images; headings with a decimal outline level), and
    whose styles the model can read (`loadStyles` succeeds) — text nodes BETWEEN these paragraphs (indentation) are allowed —,
    `toString` returns a string and the visible text is a
    subsequence of it, white space dropped on both sides.  Outside: lists, tables, sections, frames, notes
    (their conversion is tied to the code by the exact-string correspondence only). -/
theorem moin_total_complete_partial (stylesDoc contentDoc : Node) (sty : Styles) (body : Node) (bs : List Node)
    (textEl : Node) (more paras : List Node) (h1 : loadStyles stylesDoc contentDoc = .ok sty)
    (h2 : byTag contentDoc tBody = body :: bs) (h3 : elems (kidsOf body) = textEl :: more) (h4 : elems (kidsOf textEl) = paras)
    (h5 : ∀ n ∈ paras, MPara n) :
    ∃ out, toString stylesDoc contentDoc = .ok out ∧ (nonWs (pvisL paras)).Sublist (nonWs out) := by
  obtain ⟨ts, st', ht, hf, hs⟩ := topStr_paras sty {} paras h5
  have hfoot : st'.foot = [] := by rw [hf]
  refine ⟨List.intercalate [10] (ts ++ [[]]), ?_, ?_⟩
  · unfold toString
    simp [h1, h2, h3, topStr_elems sty {} (kidsOf textEl), h4, ht, hfoot, bind, Except.bind, pure, Except.pure]
  · have := flatten_sublist_intercalate [10] (ts ++ [[]])
    have h' : (ts ++ [[]]).flatten = ts.flatten := by simp
    rw [h'] at this
    exact hs.trans (sublist_nonWs this)

end OdfModel.Moin

/-
  OdfModel.Regex — regular expressions over code points with a Brzozowski-derivative
  matcher (specification side of property C15; also used by C20).

  `RE` is the syntax the translator `harness/translate_attr.py` produces from
    * every `pattern_* = re.compile(...)` of odf/attrconverters.py, and
    * every `<param name="pattern">` of the shipped RELAX-NG schema.
  `accepts r s` is *full match* (`s ∈ L(r)`): it consumes the string one code point at a
  time by derivatives, so it is total and structural on the string.  (The name `matches`
  is a reserved word of Lean 4, hence `accepts`.)

  How Python's `re` is used by the code is a separate `Mode`:
    `pattern.match(s)` with a pattern ending in `\Z`, or `fullmatch`  -> `Mode.full`
    `pattern.match(s)` without end anchor                             -> `Mode.pref`  (some prefix)
    `pattern.match(s)` with a pattern ending in `$`                   -> `Mode.dollar` (full, or full before a final LF)
    `pattern.search(s)`                                               -> `Mode.search` (some infix)
  Python's matcher backtracks over every alternative, so for this operator subset
  "`match` succeeds with `\Z` at the end" is exactly "`s ∈ L(r)`".

  Second half: a *checked* language-inclusion test `inclB a b` (simulation closed under
  derivatives for one representative code point per cell of the partition induced by all
  class bounds), with `inclB_sound : inclB a b = true → ∀ s, accepts a s → accepts b s`.
-/
import OdfModel.Basic
namespace OdfModel.Regex
open OdfModel

inductive RE where
  | nothing                                   -- ∅
  | eps                                       -- ""
  | cls (neg : Bool) (rs : List (Nat × Nat))  -- [a-bc-d] / [^a-bc-d]; a single char is cls false [(c,c)]
  | seq (a b : RE)
  | alt (a b : RE)
  | star (a : RE)
deriving DecidableEq, Repr

namespace RE
/-- a single code point -/
def chr (c : Nat) : RE := cls false [(c, c)]
/-- `a+` -/
def plus (a : RE) : RE := seq a (star a)
/-- `a?` -/
def opt (a : RE) : RE := alt eps a
/-- `a{0,n}` -/
def repOpt : Nat → RE → RE
  | 0, _ => eps
  | n+1, a => opt (seq a (repOpt n a))
/-- `a{m,n}` (for `m ≤ n`) -/
def rep : Nat → Nat → RE → RE
  | 0, n, a => repOpt n a
  | m+1, n, a => seq a (rep m (n-1) a)
/-- `a{m,}` -/
def repMin (m : Nat) (a : RE) : RE := seq (rep m m a) (star a)
/-- `.` of XSD regular expressions and of Python without DOTALL restricted to LF (`dotNoNL`) -/
def anyChar : RE := cls true []
end RE

def inRanges (c : Nat) : List (Nat × Nat) → Bool
  | [] => false
  | (lo, hi) :: r => (decide (lo ≤ c) && decide (c ≤ hi)) || inRanges c r

def nullable : RE → Bool
  | .nothing => false
  | .eps => true
  | .cls _ _ => false
  | .seq a b => nullable a && nullable b
  | .alt a b => nullable a || nullable b
  | .star _ => true

def deriv (c : Nat) : RE → RE
  | .nothing => .nothing
  | .eps => .nothing
  | .cls neg rs => if (inRanges c rs != neg) then .eps else .nothing
  | .seq a b => if nullable a then .alt (.seq (deriv c a) b) (deriv c b) else .seq (deriv c a) b
  | .alt a b => .alt (deriv c a) (deriv c b)
  | .star a => .seq (deriv c a) (.star a)

/-- full match: `s ∈ L(r)` -/
def accepts : RE → Str → Bool
  | r, [] => nullable r
  | r, c :: s => accepts (deriv c r) s

/-- `re.match` without end anchor: some prefix of `s` is in `L(r)` -/
def acceptsPrefix : RE → Str → Bool
  | r, [] => nullable r
  | r, c :: s => nullable r || acceptsPrefix (deriv c r) s

/-- `re.search`: some infix of `s` is in `L(r)` -/
def acceptsSearch : RE → Str → Bool
  | r, [] => nullable r
  | r, c :: s => acceptsPrefix r (c :: s) || acceptsSearch r s

inductive Mode where
  | full | pref | dollar | search
deriving DecidableEq, Repr

def dropLastLF (s : Str) : Option Str :=
  match s.reverse with
  | 10 :: r => some r.reverse
  | _ => none

def matchMode (m : Mode) (r : RE) (s : Str) : Bool :=
  match m with
  | .full => accepts r s
  | .pref => acceptsPrefix r s
  | .dollar => accepts r s || (match dropLastLF s with | some t => accepts r t | none => false)
  | .search => acceptsSearch r s

/-! ### Semantics of the matcher, constructor by constructor -/

@[simp] theorem accepts_nil (r : RE) : accepts r [] = nullable r := by simp [accepts]
@[simp] theorem accepts_cons (r : RE) (c : Nat) (s : Str) :
    accepts r (c :: s) = accepts (deriv c r) s := by simp [accepts]

theorem accepts_nothing (s : Str) : accepts .nothing s = false := by
  induction s with
  | nil => simp [nullable]
  | cons c t ih => simpa [deriv] using ih

theorem accepts_eps (s : Str) : accepts .eps s = s.isEmpty := by
  cases s with
  | nil => simp [nullable]
  | cons c t => simp [deriv, accepts_nothing]

theorem accepts_cls (neg : Bool) (rs : List (Nat × Nat)) (s : Str) :
    accepts (.cls neg rs) s = true ↔ ∃ c, s = [c] ∧ (inRanges c rs != neg) = true := by
  cases s with
  | nil => simp [nullable]
  | cons c t =>
    simp only [accepts_cons, deriv]
    by_cases h : (inRanges c rs != neg) = true
    · simp only [h, if_true, accepts_eps]
      cases t with
      | nil => simp only [List.isEmpty_nil, true_iff]; exact ⟨c, rfl, h⟩
      | cons d u =>
        simp only [List.isEmpty_cons, Bool.false_eq_true, false_iff]
        rintro ⟨x, hx, _⟩; simp at hx
    · simp only [h, if_false, accepts_nothing, Bool.false_eq_true, false_iff]
      rintro ⟨x, hx, hx2⟩
      simp only [List.cons.injEq] at hx
      rw [← hx.1] at hx2; exact h hx2

theorem accepts_alt (a b : RE) (s : Str) :
    accepts (.alt a b) s = (accepts a s || accepts b s) := by
  induction s generalizing a b with
  | nil => simp [nullable]
  | cons c t ih => simp [deriv, ih]

theorem accepts_seq (a b : RE) (s : Str) :
    accepts (.seq a b) s = true ↔ ∃ s1 s2, s = s1 ++ s2 ∧ accepts a s1 = true ∧ accepts b s2 = true := by
  induction s generalizing a with
  | nil =>
    simp only [accepts_nil, nullable, Bool.and_eq_true]
    constructor
    · intro h; exact ⟨[], [], by simp, by simpa using h.1, by simpa using h.2⟩
    · rintro ⟨s1, s2, h, h1, h2⟩
      have h' := List.append_eq_nil_iff.mp h.symm
      rw [h'.1] at h1; rw [h'.2] at h2
      exact ⟨by simpa using h1, by simpa using h2⟩
  | cons c t ih =>
    simp only [accepts_cons, deriv]
    by_cases hn : nullable a = true
    · simp only [hn, if_true, accepts_alt, Bool.or_eq_true, ih]
      constructor
      · rintro (⟨t1, t2, h, h1, h2⟩ | h)
        · exact ⟨c :: t1, t2, by simp [h], by simpa using h1, h2⟩
        · exact ⟨[], c :: t, by simp, by simpa using hn, by simpa using h⟩
      · rintro ⟨s1, s2, h, h1, h2⟩
        cases s1 with
        | nil =>
          right
          simp at h; subst h; simpa using h2
        | cons d t1 =>
          left
          simp at h
          obtain ⟨rfl, rfl⟩ := h
          exact ⟨t1, s2, rfl, by simpa using h1, h2⟩
    · simp only [hn]
      simp only [Bool.false_eq_true, if_false, ih]
      constructor
      · rintro ⟨t1, t2, h, h1, h2⟩
        exact ⟨c :: t1, t2, by simp [h], by simpa using h1, h2⟩
      · rintro ⟨s1, s2, h, h1, h2⟩
        cases s1 with
        | nil => simp at h1; exact absurd h1 hn
        | cons d t1 =>
          simp at h
          obtain ⟨rfl, rfl⟩ := h
          exact ⟨t1, s2, rfl, by simpa using h1, h2⟩

/-- `matches (seq a b) (s ++ t)` from its parts -/
theorem accepts_seq_append {a b : RE} {s t : Str} (h1 : accepts a s = true) (h2 : accepts b t = true) :
    accepts (.seq a b) (s ++ t) = true :=
  (accepts_seq a b (s ++ t)).mpr ⟨s, t, rfl, h1, h2⟩

theorem accepts_star (a : RE) (s : Str) :
    accepts (.star a) s = true ↔
      s = [] ∨ ∃ s1 s2, s1 ≠ [] ∧ s = s1 ++ s2 ∧ accepts a s1 = true ∧ accepts (.star a) s2 = true := by
  cases s with
  | nil => simp [nullable]
  | cons c t =>
    simp only [accepts_cons, deriv, accepts_seq]
    constructor
    · rintro ⟨t1, t2, h, h1, h2⟩
      exact Or.inr ⟨c :: t1, t2, by simp, by simp [h], by simpa using h1, h2⟩
    · rintro (h | ⟨s1, s2, hne, h, h1, h2⟩)
      · simp at h
      · cases s1 with
        | nil => exact absurd rfl hne
        | cons d t1 =>
          simp at h
          obtain ⟨rfl, rfl⟩ := h
          exact ⟨t1, s2, rfl, by simpa using h1, h2⟩

theorem acceptsPrefix_iff (r : RE) (s : Str) :
    acceptsPrefix r s = true ↔ ∃ p t, s = p ++ t ∧ accepts r p = true := by
  induction s generalizing r with
  | nil =>
    simp only [acceptsPrefix]
    constructor
    · intro h; exact ⟨[], [], rfl, by simpa using h⟩
    · rintro ⟨p, t, h, hp⟩
      have h' := List.append_eq_nil_iff.mp h.symm
      rw [h'.1] at hp; simpa using hp
  | cons c u ih =>
    simp only [acceptsPrefix, Bool.or_eq_true, ih]
    constructor
    · rintro (h | ⟨p, t, h, hp⟩)
      · exact ⟨[], c :: u, rfl, by simpa using h⟩
      · exact ⟨c :: p, t, by simp [h], by simpa using hp⟩
    · rintro ⟨p, t, h, hp⟩
      cases p with
      | nil => left; simpa using hp
      | cons d p' =>
        right
        simp at h
        obtain ⟨rfl, rfl⟩ := h
        exact ⟨p', t, rfl, by simpa using hp⟩

/-- a full match is in particular a prefix match and a search hit -/
theorem accepts_imp_prefix {r : RE} {s : Str} (h : accepts r s = true) : acceptsPrefix r s = true :=
  (acceptsPrefix_iff r s).mpr ⟨s, [], by simp, h⟩

/-! ### Language equivalence and a light normaliser (keeps derivative sets finite) -/

def Equiv (a b : RE) : Prop := ∀ s, accepts a s = accepts b s

theorem seq_congr_left {a a' : RE} (b : RE) (h : Equiv a a') : Equiv (.seq a b) (.seq a' b) := by
  intro s
  apply Bool.eq_iff_iff.mpr
  simp only [accepts_seq, h _]

def mkSeq : RE → RE → RE
  | .nothing, _ => .nothing
  | .eps, b => b
  | a, b => .seq a b

theorem mkSeq_equiv (a b : RE) : Equiv (mkSeq a b) (.seq a b) := by
  intro s
  cases a with
  | nothing =>
    simp only [mkSeq, accepts_nothing]
    apply Eq.symm
    apply Bool.eq_false_iff.mpr
    intro h
    obtain ⟨s1, s2, _, h1, _⟩ := (accepts_seq _ _ _).mp h
    simp [accepts_nothing] at h1
  | eps =>
    simp only [mkSeq]
    apply Bool.eq_iff_iff.mpr
    rw [accepts_seq]
    constructor
    · intro h; exact ⟨[], s, rfl, by simp [nullable], h⟩
    · rintro ⟨s1, s2, h, h1, h2⟩
      rw [accepts_eps] at h1
      have : s1 = [] := by simpa using h1
      subst this; simpa [h] using h2
  | cls n r => simp [mkSeq]
  | seq x y => simp [mkSeq]
  | alt x y => simp [mkSeq]
  | star x => simp [mkSeq]

/-- the alternatives of a regex, `nothing` dropped -/
def flat : RE → List RE
  | .alt a b => flat a ++ flat b
  | .nothing => []
  | r => [r]

theorem accepts_flat (r : RE) (s : Str) : accepts r s = (flat r).any (fun x => accepts x s) := by
  induction r with
  | alt a b iha ihb => simp [flat, accepts_alt, iha, ihb, List.any_append]
  | nothing => simp [flat, accepts_nothing]
  | eps => simp [flat]
  | cls n r => simp [flat]
  | seq a b _ _ => simp [flat]
  | star a _ => simp [flat]

def mkAlts : List RE → RE
  | [] => .nothing
  | [x] => x
  | x :: y :: r => .alt x (mkAlts (y :: r))

theorem accepts_mkAlts (l : List RE) (s : Str) : accepts (mkAlts l) s = l.any (fun x => accepts x s) := by
  induction l with
  | nil => simp [mkAlts, accepts_nothing]
  | cons x xs ih =>
    cases xs with
    | nil => simp [mkAlts]
    | cons y r => simp only [mkAlts, accepts_alt, ih, List.any_cons]

def dedup : List RE → List RE
  | [] => []
  | x :: xs => if xs.contains x then dedup xs else x :: dedup xs

theorem mem_dedup (l : List RE) (x : RE) : x ∈ dedup l ↔ x ∈ l := by
  induction l with
  | nil => simp [dedup]
  | cons y ys ih =>
    simp only [dedup]
    by_cases h : ys.contains y = true
    · simp only [h, if_true, ih, List.mem_cons]
      have hy : y ∈ ys := by simpa using h
      constructor
      · intro h'; exact Or.inr h'
      · rintro (rfl | h')
        · exact hy
        · exact h'
    · simp only [h, Bool.false_eq_true, if_false, List.mem_cons, ih]

theorem any_dedup (l : List RE) (p : RE → Bool) : (dedup l).any p = l.any p := by
  apply Bool.eq_iff_iff.mpr
  simp only [List.any_eq_true, mem_dedup]

/-- simplify along the spine that derivatives rebuild (left of `seq`, both sides of `alt`) -/
def norm : RE → RE
  | .seq a b => mkSeq (norm a) b
  | .alt a b => mkAlts (dedup (flat (norm a) ++ flat (norm b)))
  | r => r

theorem norm_equiv (r : RE) : Equiv (norm r) r := by
  induction r with
  | seq a b iha _ =>
    intro s
    simp only [norm]
    rw [mkSeq_equiv, seq_congr_left b iha]
  | alt a b iha ihb =>
    intro s
    simp only [norm, accepts_mkAlts, any_dedup, List.any_append, accepts_alt]
    rw [← accepts_flat, ← accepts_flat, iha s, ihb s]
  | nothing => intro s; simp [norm]
  | eps => intro s; simp [norm]
  | cls n r => intro s; simp [norm]
  | star a _ => intro s; simp [norm]

/-- matcher that simplifies after every step (what the compiled driver runs) -/
def acceptsN : RE → Str → Bool
  | r, [] => nullable r
  | r, c :: s => acceptsN (norm (deriv c r)) s

theorem acceptsN_eq (r : RE) (s : Str) : acceptsN r s = accepts r s := by
  induction s generalizing r with
  | nil => simp [acceptsN]
  | cons c t ih => simp only [acceptsN, accepts_cons, ih, norm_equiv _ t]

/-- compiled code runs the simplifying matcher (same function, proved above) -/
@[csimp] theorem accepts_eq_acceptsN : @accepts = @acceptsN := by
  funext r s; exact (acceptsN_eq r s).symm

/-! ### Checked language inclusion -/

def ranges : RE → List (Nat × Nat)
  | .cls _ rs => rs
  | .seq a b => ranges a ++ ranges b
  | .alt a b => ranges a ++ ranges b
  | .star a => ranges a
  | _ => []

def inR (c : Nat) (rg : Nat × Nat) : Bool := decide (rg.1 ≤ c) && decide (c ≤ rg.2)

theorem inRanges_congr {c c' : Nat} {rs : List (Nat × Nat)}
    (h : ∀ rg ∈ rs, inR c rg = inR c' rg) : inRanges c rs = inRanges c' rs := by
  induction rs with
  | nil => rfl
  | cons x xs ih =>
    obtain ⟨lo, hi⟩ := x
    have h0 := h (lo, hi) (by simp)
    simp only [inR] at h0
    simp only [inRanges, h0]
    rw [ih (fun rg hrg => h rg (by simp [hrg]))]

theorem deriv_congr {c c' : Nat} (r : RE) (h : ∀ rg ∈ ranges r, inR c rg = inR c' rg) :
    deriv c r = deriv c' r := by
  induction r with
  | nothing => rfl
  | eps => rfl
  | cls n rs => simp only [deriv, inRanges_congr (rs := rs) (by simpa [ranges] using h)]
  | seq a b iha ihb =>
    have ha := iha (fun rg hrg => h rg (by simp [ranges, hrg]))
    have hb := ihb (fun rg hrg => h rg (by simp [ranges, hrg]))
    simp only [deriv, ha, hb]
  | alt a b iha ihb =>
    have ha := iha (fun rg hrg => h rg (by simp [ranges, hrg]))
    have hb := ihb (fun rg hrg => h rg (by simp [ranges, hrg]))
    simp only [deriv, ha, hb]
  | star a iha =>
    have ha := iha (fun rg hrg => h rg (by simp [ranges, hrg]))
    simp only [deriv, ha]

/-- the greatest element of `0 :: l` that is `≤ c` -/
def best (c : Nat) : List Nat → Nat
  | [] => 0
  | x :: xs => if x ≤ c ∧ best c xs ≤ x then x else best c xs

theorem best_le (c : Nat) (l : List Nat) : best c l ≤ c := by
  induction l with
  | nil => simp [best]
  | cons x xs ih =>
    simp only [best]; split
    · rename_i h; exact h.1
    · exact ih

theorem best_mem (c : Nat) (l : List Nat) : best c l ∈ 0 :: l := by
  induction l with
  | nil => simp [best]
  | cons x xs ih =>
    simp only [best]; split
    · simp
    · simp only [List.mem_cons] at ih ⊢
      rcases ih with h | h
      · exact Or.inl h
      · exact Or.inr (Or.inr h)

theorem best_ge (c : Nat) (l : List Nat) : ∀ x ∈ l, x ≤ c → x ≤ best c l := by
  induction l with
  | nil => simp
  | cons y ys ih =>
    intro x hx hxc
    simp only [best]
    simp only [List.mem_cons] at hx
    split
    · rename_i h
      rcases hx with rfl | hx
      · exact Nat.le_refl _
      · exact Nat.le_trans (ih x hx hxc) h.2
    · rename_i h
      rcases hx with rfl | hx
      · have : ¬ best c ys ≤ x := fun h' => h ⟨hxc, h'⟩
        omega
      · exact ih x hx hxc

/-- cell bounds of the partition of the code points induced by a list of ranges -/
def bounds (rg : List (Nat × Nat)) : List Nat :=
  0 :: rg.flatMap (fun p => [p.1, p.2 + 1])

theorem rep_exists (rg : List (Nat × Nat)) (c : Nat) :
    ∃ r ∈ bounds rg, ∀ x ∈ rg, inR c x = inR r x := by
  refine ⟨best c (rg.flatMap (fun p => [p.1, p.2 + 1])), best_mem _ _, ?_⟩
  intro x hx
  have hle := best_le c (rg.flatMap (fun p => [p.1, p.2 + 1]))
  have h1 := best_ge c (rg.flatMap (fun p => [p.1, p.2 + 1])) x.1
    (by simp only [List.mem_flatMap]; exact ⟨x, hx, by simp⟩)
  have h2 := best_ge c (rg.flatMap (fun p => [p.1, p.2 + 1])) (x.2 + 1)
    (by simp only [List.mem_flatMap]; exact ⟨x, hx, by simp⟩)
  simp only [inR]
  apply Bool.eq_iff_iff.mpr
  simp only [Bool.and_eq_true, decide_eq_true_eq]
  constructor
  · rintro ⟨a, b⟩
    exact ⟨h1 a, by omega⟩
  · rintro ⟨a, b⟩
    refine ⟨by omega, ?_⟩
    by_cases hc : x.2 + 1 ≤ c
    · have := h2 hc; omega
    · omega

def subR (a b : List (Nat × Nat)) : Bool := a.all (fun x => b.contains x)

theorem subR_mem {a b : List (Nat × Nat)} (h : subR a b = true) : ∀ x ∈ a, x ∈ b := by
  intro x hx
  simp only [subR, List.all_eq_true] at h
  simpa using h x hx

/-- `R` is a simulation: closed under (normalised) derivatives by every cell representative,
    and `nullable` is preserved left to right -/
def closedB (rg : List (Nat × Nat)) (R : List (RE × RE)) : Bool :=
  R.all fun p =>
    (!nullable p.1 || nullable p.2) && subR (ranges p.1) rg && subR (ranges p.2) rg &&
    (bounds rg).all fun c => R.contains (norm (deriv c p.1), norm (deriv c p.2))

theorem closed_sound {rg : List (Nat × Nat)} {R : List (RE × RE)} (hc : closedB rg R = true) :
    ∀ (s : Str) (a b : RE), (a, b) ∈ R → accepts a s = true → accepts b s = true := by
  intro s
  induction s with
  | nil =>
    intro a b hab h
    simp only [closedB, List.all_eq_true] at hc
    have := hc (a, b) hab
    simp only [Bool.and_eq_true, Bool.or_eq_true, Bool.not_eq_true'] at this
    rcases this.1.1.1 with h' | h'
    · simp [h'] at h
    · simpa using h'
  | cons c t ih =>
    intro a b hab h
    have hc' := hc
    simp only [closedB, List.all_eq_true] at hc'
    have hp := hc' (a, b) hab
    simp only [Bool.and_eq_true] at hp
    obtain ⟨⟨⟨_, hra⟩, hrb⟩, hstep⟩ := hp
    obtain ⟨r, hr, hagree⟩ := rep_exists rg c
    have hda : deriv c a = deriv r a := deriv_congr a (fun x hx => hagree x (subR_mem hra x hx))
    have hdb : deriv c b = deriv r b := deriv_congr b (fun x hx => hagree x (subR_mem hrb x hx))
    simp only [List.all_eq_true] at hstep
    have hmem : (norm (deriv r a), norm (deriv r b)) ∈ R := by simpa using hstep r hr
    simp only [accepts_cons] at h ⊢
    rw [hda, ← norm_equiv] at h
    rw [hdb, ← norm_equiv]
    exact ih _ _ hmem h

/-- worklist exploration of the derivative pairs reachable from the work list -/
def explore (rg : List (Nat × Nat)) : Nat → List (RE × RE) → List (RE × RE) → Option (List (RE × RE))
  | _, [], seen => some seen
  | 0, _ :: _, _ => none
  | fuel + 1, p :: work, seen =>
    if seen.contains p then explore rg fuel work seen
    else
      let next := (bounds rg).map fun c => (norm (deriv c p.1), norm (deriv c p.2))
      explore rg fuel (next ++ work) (p :: seen)

/-- decision attempt for `L(a) ⊆ L(b)`; `true` is a proof (see `inclB_sound`), `false` is not a refutation
    of inclusion only when the fuel ran out -/
def inclB (a b : RE) : Bool :=
  let rg := ranges a ++ ranges b
  let p := (norm a, norm b)
  match explore rg 4000 [p] [] with
  | some R => closedB rg R && R.contains p
  | none => false

theorem inclB_sound {a b : RE} (h : inclB a b = true) : ∀ s, accepts a s = true → accepts b s = true := by
  intro s hs
  simp only [inclB] at h
  split at h
  · rename_i R _
    simp only [Bool.and_eq_true] at h
    have hmem : (norm a, norm b) ∈ R := by simpa using h.2
    have := closed_sound h.1 s _ _ hmem (by rw [norm_equiv]; exact hs)
    rw [norm_equiv] at this; exact this
  · simp at h

/-- syntactically equal expressions have the same language (used for `pattern_same`) -/
theorem same_language {a b : RE} (h : a = b) : ∀ s, accepts a s = accepts b s := by
  subst h; intro s; rfl

end OdfModel.Regex

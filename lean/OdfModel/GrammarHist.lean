/-
  OdfModel.GrammarHist — histories of calls on ONE parent element (layer L9, implementation side of C06).

  OdfModel.GrammarApi models the decision of a single call.  Here the parent keeps its child list and
  a sequence of calls is run on it, so that "the decision of a checked addElement does not depend on
  what the parent already holds" becomes a statement (Props/C06/History.lean) and the driver can be
  asked for the outcome of a whole history (`hist`, `histrow`).

  Modelled statement by statement (odf/element.py):

  Element.addElement(element, check_grammar)
        if check_grammar and self.allowed_children is not None:
            if element.qname not in self.allowed_children: raise IllegalChild      → GrammarApi.addElement
        self.appendChild(element)                                                  → kids ++ [elem c]
  Node.appendChild(newChild)      (a fresh Element: nodeType 1 is in _child_node_types, parentNode is None)
        _append_child(self, newChild)                                              → kids ++ [elem c]
  Node.insertBefore(newChild, refChild)   refChild = self.childNodes[i]  (None when there is no such child)
        if refChild is None: self.appendChild(newChild)
        else: index = self.childNodes.index(refChild); self.childNodes.insert(index, newChild)   → insertAt
  Element.addText(text, check_grammar=False)
        (no check) self.appendChild(Text(text))                                    → kids ++ [text]
  Node.removeChild(oldChild)      oldChild = self.childNodes[i]
        self.childNodes.remove(oldChild)                                           → eraseIdx'
  A refused call raises before anything is attached: the parent is unchanged.
-/
import OdfModel.GrammarApi
namespace OdfModel.GrammarHist
open OdfModel OdfModel.GrammarApi

/-- a child node: an element (its qname id) or a text node -/
inductive Kid where
  | elem (q : Nat)
  | text
  deriving DecidableEq, Repr

/-- the parent element: its qname id and `childNodes` -/
structure Parent where
  qname : Nat
  kids : List Kid
  deriving DecidableEq, Repr

/-- one call on the parent; every child handed in is a freshly made element -/
inductive Op where
  | add (check : Bool) (c : Nat)      -- parent.addElement(Element(c), check_grammar=check)
  | append (c : Nat)                  -- parent.appendChild(Element(c))
  | insert (i : Nat) (c : Nat)        -- parent.insertBefore(Element(c), childNodes[i] if i < len(childNodes) else None)
  | text                              -- parent.addText('x', check_grammar=False)
  | remove (i : Nat)                  -- parent.removeChild(childNodes[i])   (nothing when there is no such child)
  deriving DecidableEq, Repr

/-- `list.insert(index, x)` for `index ≤ len`; past the end: `appendChild` -/
def insertAt : List Kid → Nat → Kid → List Kid
  | [], _, k => [k]
  | x :: xs, 0, k => k :: x :: xs
  | x :: xs, i + 1, k => x :: insertAt xs i k

def eraseAt : List Kid → Nat → List Kid
  | [], _ => []
  | _ :: xs, 0 => xs
  | x :: xs, i + 1 => x :: eraseAt xs i

/-- what a call raised (`none` = it returned normally) -/
def raised : Except Err Unit → Option Err
  | .ok _ => none
  | .error e => some e

section
variable (T : Tables)

/-- one call: what it raised (`none` = returned normally) and the parent afterwards -/
def step (P : Parent) : Op → Option Err × Parent
  | .add check c =>
    let r := addElement T check P.qname c
    (raised r, if r.isOk then { P with kids := P.kids ++ [.elem c] } else P)
  | .append c => (none, { P with kids := P.kids ++ [.elem c] })
  | .insert i c => (none, { P with kids := insertAt P.kids i (.elem c) })
  | .text => (none, { P with kids := P.kids ++ [.text] })
  | .remove i => (none, { P with kids := eraseAt P.kids i })

/-- a history: the outcome of every call, and the parent at the end (a refusal is caught by the
    caller and the history goes on) -/
def run (P : Parent) : List Op → List (Option Err) × Parent
  | [] => ([], P)
  | op :: rest =>
    let r := step T P op
    let rr := run r.2 rest
    (r.1 :: rr.1, rr.2)

/-- what the same call does on a parent of that qname, whatever it holds: the decision of the
    single-call model -/
def verdict (p : Nat) : Op → Option Err
  | .add check c => raised (addElement T check p c)
  | _ => none

end
end OdfModel.GrammarHist

/-
  OdfModel.Teletype — model of odf/teletype.py (property C17).

  `enc` is `WhitespaceText.addTextToElement` (the while loop with its text buffer; the
  inner `while` that counts further blanks is `takeWhile`/`dropWhile`), producing the list
  of child nodes appended to the element.  `extract`/`extractL` is `extractText`.
  The tree type has exactly the node kinds `extractText` distinguishes.
-/
import OdfModel.Basic
namespace OdfModel.Teletype

/-- the children an element can have, as `extractText` sees them -/
inductive TNode where
  | text (s : Str)            -- Text node
  | cdata (s : Str)           -- CDATASection (nodeType 4: ignored by extractText)
  | sp (n : Nat)              -- <text:s text:c="n"/>
  | spNoC                     -- <text:s/> without text:c (counts as one blank)
  | tab                       -- <text:tab/>
  | lb                        -- <text:line-break/>
  | elem (kids : List TNode)  -- any other element: recursed into
deriving Repr

def SP : Cp := 32
def TAB : Cp := 9
def LF : Cp := 10

/-- `_emitTextBuffer`: `addText` is only called for a non-empty buffer -/
def flush (buf : Str) : List TNode :=
  if buf.isEmpty then [] else [TNode.text buf]

/-- `addTextToElement(e, s)` run with text buffer `buf`; result = nodes appended to `e` -/
def enc (buf : Str) (s : Str) : List TNode :=
  match s with
  | [] => flush buf
  | c :: r =>
    if c = TAB then flush buf ++ [TNode.tab] ++ enc [] r
    else if c = LF then flush buf ++ [TNode.lb] ++ enc [] r
    else if c = SP then
      let n := (r.takeWhile (· = SP)).length
      if n > 0 then flush (buf ++ [SP]) ++ [TNode.sp n] ++ enc [] (r.dropWhile (· = SP))
      else enc (buf ++ [SP]) r
    else enc (buf ++ [c]) r
termination_by s.length
decreasing_by
  all_goals simp_wf
  all_goals try omega
  have := (List.dropWhile_suffix (fun x => decide (x = SP)) (l := r)).length_le
  omega

mutual
/-- `extractText` contribution of one child -/
def extract : TNode → Str
  | .text s => s
  | .cdata _ => []
  | .sp n => List.replicate n SP
  | .spNoC => [SP]
  | .tab => [TAB]
  | .lb => [LF]
  | .elem ks => extractL ks
/-- `extractText(element)` over the child list -/
def extractL : List TNode → Str
  | [] => []
  | k :: ks => extract k ++ extractL ks
end

/-- what a save/load cycle does to a child list as far as `extractText` can tell: adjacent
    text nodes are merged (the SAX builder accumulates character data) -/
def mergeText : List TNode → List TNode
  | .text a :: .text b :: r => mergeText (.text (a ++ b) :: r)
  | .elem ks :: r => .elem ks :: mergeText r
  | x :: r => x :: mergeText r
  | [] => []
termination_by l => l.length

end OdfModel.Teletype

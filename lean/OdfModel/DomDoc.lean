/-
  OdfModel.DomDoc — the node tree of OdfModel.Dom together with ONE document: `ownerDocument` of
  every element and the document's two indexes (property C09; `__replaceGenerator` for C12).

  Modelled, in source order (odf/element.py, odf/opendocument.py as of commits 0015fcf, 437b145, b44089a):

    Node.removeChild            -> `removeChild`   (`unlink`, `dropFromIndexes` = remove_from_caches + _set_owner(old, None),
                                   then parentNode = None)
    Node.appendChild            -> `appendChild`   (… _child_attached last)
    Node.insertBefore           -> `insertBefore`  (… _child_attached last)
    Node._child_attached        -> `childAttached` (_set_owner(new, doc); if doc and element: doc.rebuild_caches(new))
    _set_owner                  -> `setOwnerRec`
    OpenDocument.rebuild_caches -> `rebuildCaches` (node given) / `rebuildAll` (node None: starts from empty indexes)
    OpenDocument.build_caches   -> `buildCaches`   (`edAppend`, `registerIfStyle`, `fixStyleRef`)
    __register_stylename        -> `registerStyle` (`registeredStyle`; rename to 'M'+name on a clash with a valid entry) — EXACT
    __registered_style          -> `registeredStyle` (validates an entry: owner, current name, parent; deletes a stale one)
    remove_from_caches          -> `removeFromCaches` (`edDrop`, `dropStyleEntry` per element)
    getElementsByType (document)-> `docByType`     (rebuilds when element_dict == {})
    getStyleByName              -> `styleByName`   (rebuild when _styles_dict == {}; `registeredStyle`; else `scanStyles` over the
                                   style:style index list and register the hit; the caller passes make_NCName(name))
    Element.getElementsByType   -> `elByType` = `getByObj` (the accumulator recursion of _getElementsByObj)
    OpenDocument.__init__ (part)-> `mkDoc`         (topnode.ownerDocument = self; clear_caches())
    __replaceGenerator          -> `replaceGenerator`
    Element.addElement/addText/addCDATA -> wrappers as in Dom
    (`clear_caches()` as a public call is not part of the histories of C09 and not modelled.)

  The three Python recursions (`_set_owner`, `rebuild_caches(node)`, `remove_from_caches`) walk the
  subtree in pre-order and never change a child list, so each is modelled as: compute the pre-order
  list of the element nodes of the subtree (`elems`, with a depth budget `FUEL`), then run the
  per-node statement over that list.  (remove_from_caches drops the style entry of a node after its children instead of
  before; the entries are removed by identity, so the order is immaterial.)  A subtree deeper than
  the budget makes the model raise `RecursionError` before the traversal's own assignments — Python
  raises it too (later, half-way); the theorems of C09 speak about calls that do not raise it.

  Names, qnames and attribute keys are tokens.  Fixed tokens: qname 1 = style:style, 2 = office:styles,
  3 = office:automatic-styles, 4 = meta:generator; attribute key 1 = style:name, 2 = text:style-name;
  `mName n = n + 1000` is the token of 'M' + (name of token n).
-/
import OdfModel.Dom
namespace OdfModel.DomDoc
open OdfModel.Dom

abbrev DocId := Nat

def QN_STYLE : Nat := 1
def QN_STYLES : Nat := 2
def QN_AUTOSTYLES : Nat := 3
def QN_GENERATOR : Nat := 4
def KEY_STYLE_NAME : Nat := 1
def KEY_TEXT_STYLE_NAME : Nat := 2
/-- token of `u'M' + name` -/
def mName (n : Nat) : Nat := n + 1000
/-- depth budget of the recursive traversals (CPython's default recursion limit is 1000 frames) -/
def FUEL : Nat := 400

/-- `owned x` = "x.ownerDocument is the document" (false = None); only elements carry it -/
structure DState where
  heap : Heap
  ownedL : List (Id × Bool)              -- ownerDocument assignments, latest first
  top : Id                               -- doc.topnode
  edict : List (Nat × List Id)           -- element_dict: qname ↦ elements, in dict order
  sdict : List (Nat × Id)                -- _styles_dict: name ↦ style element
  fix : List (Nat × Nat)                 -- _styles_ooo_fix: old name ↦ new name

/-- "x.ownerDocument is the document" -/
def DState.owned (s : DState) (x : Id) : Bool :=
  match s.ownedL.lookup x with
  | some b => b
  | none => false

/-- `ownerDocument` as the property speaks of it -/
def DState.owner (s : DState) (x : Id) : Option DocId := if s.owned x then some 0 else none

def DState.init : DState :=
  { heap := Heap.empty, ownedL := [], top := 0, edict := [], sdict := [], fix := [] }

/-! ### dictionaries as association lists -/

/-- `element_dict.get(q, [])` -/
def edGet : List (Nat × List Id) → Nat → List Id
  | [], _ => []
  | (k, v) :: r, q => if k = q then v else edGet r q

/-- `element_dict[q] = v` -/
def edSet : List (Nat × List Id) → Nat → List Id → List (Nat × List Id)
  | [], q, v => [(q, v)]
  | (k, w) :: r, q, v => if k = q then (k, v) :: r else (k, w) :: edSet r q v

/-- `_styles_dict.get(n)` -/
def sdGet : List (Nat × Id) → Nat → Option Id
  | [], _ => none
  | (k, v) :: r, n => if k = n then some v else sdGet r n

def sdSet : List (Nat × Id) → Nat → Id → List (Nat × Id)
  | [], n, v => [(n, v)]
  | (k, w) :: r, n, v => if k = n then (k, v) :: r else (k, w) :: sdSet r n v

/-- `del _styles_dict[n]` -/
def sdDel : List (Nat × Id) → Nat → List (Nat × Id)
  | [], _ => []
  | (k, w) :: r, n => if k = n then r else (k, w) :: sdDel r n

/-! ### the recursions over a subtree, with a depth budget -/

/-- the visits of a list of siblings, one after the other (`for child in node.childNodes: …`) -/
def elemsStep (rec : Id → Option (List Id)) : List Id → Option (List Id)
  | [] => some []
  | k :: r =>
    match rec k, elemsStep rec r with
    | some a, some b => some (a ++ b)
    | _, _ => none

/-- the ELEMENT nodes below and including `n`, in document order, as all three recursions
    (`_set_owner`, `rebuild_caches`, `remove_from_caches`) visit them: a non-element node is not
    entered; `none` when the subtree is deeper than the budget (RecursionError) -/
def elems (h : Heap) : Nat → Id → Option (List Id)
  | 0, n => if (h n).kind = .elem then none else some []
  | f + 1, n =>
    if (h n).kind = .elem then (elemsStep (fun k => elems h f k) (h n).kids).map (fun l => n :: l) else some []

/-- the element nodes below a list of siblings -/
def elemsL (h : Heap) (f : Nat) (ks : List Id) : Option (List Id) := elemsStep (fun k => elems h f k) ks

def elemsUnder (h : Heap) (n : Id) : Option (List Id) := elems h FUEL n

mutual
/-- `Element._getElementsByObj(obj, accumulator)`: `q` is `obj.qname` -/
def getByObj (h : Heap) (q : Nat) : Nat → Id → List Id → Option (List Id)
  | 0, _, _ => none
  | f + 1, n, acc =>
    getByObjL h q f (h n).kids (if (h n).qn = q then acc ++ [n] else acc)   -- if self.qname == obj.qname: accumulator.append(self)
def getByObjL (h : Heap) (q : Nat) : Nat → List Id → List Id → Option (List Id)
  | _, [], acc => some acc
  | f, k :: r, acc =>                                                       -- for e in self.childNodes:
    if (h k).kind = .elem then                                              --   if e.nodeType == ELEMENT_NODE:
      match getByObj h q f k acc with                                       --     accumulator = e._getElementsByObj(obj, accumulator)
      | some acc' => getByObjL h q f r acc'
      | none => none
    else getByObjL h q f r acc
end

/-- `Element.getElementsByType(factory)` -/
def elByType (h : Heap) (n : Id) (q : Nat) : Option (List Id) := getByObj h q FUEL n []

/-! ### the monad over document states -/

def DM (α : Type) : Type := DState → DState × Except Err α

namespace DM
protected def pure {α} (a : α) : DM α := fun s => (s, .ok a)
protected def bind {α β} (x : DM α) (f : α → DM β) : DM β := fun s =>
  match x s with
  | (s', .ok a) => f a s'
  | (s', .error e) => (s', .error e)
instance : Monad DM where
  pure := DM.pure
  bind := DM.bind
def run {α} (x : DM α) (s : DState) : DState × Except Err α := x s
end DM

def raiseD {α} (e : Err) : DM α := fun s => (s, .error e)
def rdD {α} (f : DState → α) : DM α := fun s => (s, .ok (f s))
def updD (f : DState → DState) : DM Unit := fun s => (f s, .ok ())
/-- a statement sequence of the tree layer, run on the heap of the document state -/
def liftH {α} (m : M α) : DM α := fun s =>
  match m.run s.heap with
  | (h', r) => ({ s with heap := h' }, r)

@[simp] theorem run_pure {α} (a : α) (s : DState) : (pure a : DM α).run s = (s, .ok a) := rfl
@[simp] theorem run_raise {α} (e : Err) (s : DState) : (raiseD e : DM α).run s = (s, .error e) := rfl
@[simp] theorem run_rd {α} (f : DState → α) (s : DState) : (rdD f).run s = (s, .ok (f s)) := rfl
@[simp] theorem run_upd (f : DState → DState) (s : DState) : (updD f).run s = (f s, .ok ()) := rfl
theorem run_bind {α β} (x : DM α) (f : α → DM β) (s : DState) :
    (x >>= f).run s = match x.run s with
      | (s', .ok a) => (f a).run s'
      | (s', .error e) => (s', .error e) := rfl
@[simp] theorem run_bind_pure {α β} (a : α) (f : α → DM β) (s : DState) :
    ((pure a : DM α) >>= f).run s = (f a).run s := rfl
@[simp] theorem run_bind_raise {α β} (e : Err) (f : α → DM β) (s : DState) :
    ((raiseD e : DM α) >>= f).run s = (s, .error e) := rfl
@[simp] theorem run_bind_rd {α β} (g : DState → α) (f : α → DM β) (s : DState) :
    (rdD g >>= f).run s = (f (g s)).run s := rfl
@[simp] theorem run_bind_upd {β} (g : DState → DState) (f : Unit → DM β) (s : DState) :
    (updD g >>= f).run s = (f ()).run (g s) := rfl
@[simp] theorem run_ite {α} (c : Prop) [Decidable c] (x y : DM α) (s : DState) :
    (if c then x else y).run s = if c then x.run s else y.run s := by split <;> rfl
@[simp] theorem run_bind_ite {α β} (c : Prop) [Decidable c] (x y : DM α) (f : α → DM β) (s : DState) :
    ((if c then x else y) >>= f).run s = if c then (x >>= f).run s else (y >>= f).run s := by
  split <;> rfl
theorem run_liftH {α} (m : M α) (s : DState) :
    (liftH m).run s = ({ s with heap := (m.run s.heap).1 }, (m.run s.heap).2) := rfl

/-- run a per-node statement over a list of nodes -/
def forEach (f : Id → DM Unit) : List Id → DM Unit
  | [] => pure ()
  | x :: r => do f x; forEach f r

/-- the element nodes of the subtree of `n`, or RecursionError -/
def walkResult (s : DState) (n : Id) : DState × Except Err (List Id) :=
  match elemsUnder s.heap n with
  | some l => (s, .ok l)
  | none => (s, .error .RecursionError)

def walk (n : Id) : DM (List Id) := fun s => walkResult s n

/-! ### _set_owner -/

def setOwned (s : DState) (x : Id) (v : Bool) : DState :=
  { s with ownedL := (x, v) :: s.ownedL }

theorem owned_setOwned (s : DState) (x y : Id) (v : Bool) :
    (setOwned s x v).owned y = if y = x then v else s.owned y := by
  simp only [setOwned, DState.owned, List.lookup]
  by_cases h : y = x
  · subst h; simp
  · have : (y == x) = false := by simp [h]
    simp [this, h]

/-- `_set_owner(n, doc)`: `if node.nodeType == ELEMENT_NODE: node.ownerDocument = doc; for child …` -/
def setOwnerRec (n : Id) (v : Bool) : DM Unit := do
  let l ← walk n
  forEach (fun x => updD fun s => setOwned s x v) l

/-! ### build_caches / __register_stylename -/

/-- the parent is office:styles or office:automatic-styles -/
def underStyles (s : DState) (e : Id) : Bool :=
  match (s.heap e).parent with
  | some pp => decide ((s.heap pp).qn = QN_STYLES ∨ (s.heap pp).qn = QN_AUTOSTYLES)
  | none => false

/-- `__registered_style(name)`: the style registered under `name`, provided it is still in the
    document, still bears that name and still hangs under office:styles / office:automatic-styles;
    a stale entry is deleted -/
def registeredStyle (name : Nat) : DM (Option Id) := fun s =>
  match sdGet s.sdict name with                                             -- s = self._styles_dict.get(name)
  | none => (s, .ok none)
  | some x =>
    if s.owned x && (lookupAttr KEY_STYLE_NAME (s.heap x).attrs == some name) && underStyles s x then
      (s, .ok (some x))
    else                                                                    -- not owned / other name / parent not a style section:
      ({ s with sdict := sdDel s.sdict name }, .ok none)                    --   del self._styles_dict[name]; s = None

/-- `__register_stylename(elt)`.  (`elt.parentNode.qname` of a parentless node would be an
    AttributeError in Python; build_caches is only ever called on nodes below an attached parent, or
    on the top node, which is not a style:style — the model simply does nothing there.) -/
def registerStyle (x : Id) : DM Unit := do
  match (← rdD fun s => lookupAttr KEY_STYLE_NAME (s.heap x).attrs) with   -- name = elt.getAttrNS(STYLENS, 'name')
  | none => pure ()                                                         -- if name is None: return
  | some name =>
    match (← rdD fun s => (s.heap x).parent) with
    | none => pure ()
    | some pp =>
      let pq ← rdD fun s => (s.heap pp).qn
      if pq = QN_STYLES ∨ pq = QN_AUTOSTYLES then                           -- parent is office:styles / automatic-styles
        let cur ← registeredStyle name
        if cur ≠ none ∧ cur ≠ some x then                                   -- if self.__registered_style(name) not in (None, elt):
          updD fun s => { s with fix := storeAttr name (mName name) s.fix } --   _styles_ooo_fix[name] = 'M'+name
          updD fun s => { s with heap := setAttrs s.heap x (storeAttr KEY_STYLE_NAME (mName name) (s.heap x).attrs) }
                                                                            --   elt.setAttrNS(STYLENS, 'name', newname)
          updD fun s => { s with sdict := sdSet s.sdict (mName name) x }    --   _styles_dict[newname] = elt  (may replace an entry)
        else
          updD fun s => { s with sdict := sdSet s.sdict name x }            -- _styles_dict[name] = elt

/-- `element_dict[qname].append(elt)` (creating the list when the qname is new) -/
def edAppend (x : Id) (s : DState) : DState :=
  { s with edict := edSet s.edict (s.heap x).qn (edGet s.edict (s.heap x).qn ++ [x]) }

/-- `styleref = elt.getAttrNS(TEXTNS, 'style-name'); if styleref in _styles_ooo_fix: elt.setAttrNS(…)` -/
def fixStyleRef (x : Id) : DM Unit := do
  match (← rdD fun s => lookupAttr KEY_TEXT_STYLE_NAME (s.heap x).attrs) with
  | none => pure ()
  | some r =>
    match (← rdD fun s => lookupAttr r s.fix) with
    | none => pure ()
    | some nw => updD fun s => { s with heap := setAttrs s.heap x (storeAttr KEY_TEXT_STYLE_NAME nw (s.heap x).attrs) }

/-- `if elt.qname == (STYLENS, 'style'): self.__register_stylename(elt)` -/
def registerIfStyle (x : Id) : DM Unit := do
  if (← rdD fun s => (s.heap x).qn) = QN_STYLE then registerStyle x

/-- `build_caches(elt)` -/
def buildCaches (x : Id) : DM Unit := do
  updD (edAppend x)                                                          -- element_dict[qname].append(elt)
  registerIfStyle x
  fixStyleRef x

/-- `rebuild_caches(node)` for a given node -/
def rebuildCaches (n : Id) : DM Unit := do
  let l ← walk n
  forEach buildCaches l

/-- `rebuild_caches()` from the top: empty indexes first (b44089a) -/
def rebuildAll : DM Unit := do
  updD fun s => { s with edict := [], sdict := [] }
  rebuildCaches (← rdD fun s => s.top)

/-! ### remove_from_caches -/

/-- `if elt in element_dict.get(qname, ()): element_dict[qname].remove(elt)` -/
def edDrop (x : Id) (s : DState) : DState :=
  if x ∈ edGet s.edict (s.heap x).qn then
    { s with edict := edSet s.edict (s.heap x).qn ((edGet s.edict (s.heap x).qn).erase x) }
  else s

/-- `if elt.qname == style:style: name = …; if _styles_dict.get(name) is elt: del _styles_dict[name]` -/
def dropStyleEntry (x : Id) : DM Unit := do
  if (← rdD fun s => (s.heap x).qn) = QN_STYLE then
    match (← rdD fun s => lookupAttr KEY_STYLE_NAME (s.heap x).attrs) with
    | none => pure ()                                                        -- _styles_dict.get(None) is elt: never
    | some name =>
      if (← rdD fun s => sdGet s.sdict name) = some x then
        updD fun s => { s with sdict := sdDel s.sdict name }

def removeOne (x : Id) : DM Unit := do
  updD (edDrop x)
  dropStyleEntry x

def removeFromCaches (n : Id) : DM Unit := do
  let l ← walk n
  forEach removeOne l

/-! ### the three mutators -/

/-- the five link assignments of removeChild (child list, the two neighbours, the node's own sibling links) -/
def unlink (p c : Id) : M Unit := do
  upd fun h => setKids h p ((h p).kids.erase c)
  upd fun h => setPrevOpt h (h c).next (h c).prev
  upd fun h => setNextOpt h (h c).prev (h c).next
  upd fun h => setNext h c none
  upd fun h => setPrev h c none

/-- `if self.ownerDocument and oldChild is an element: ….remove_from_caches(oldChild)`, then
    `_set_owner(oldChild, None)` -/
def dropFromIndexes (p c : Id) : DM Unit := do
  if (← rdD fun s => s.owned p && decide ((s.heap c).kind = .elem)) then
    removeFromCaches c
  setOwnerRec c false

/-- `p.removeChild(c)` -/
def removeChild (p c : Id) : DM Unit := do
  if (← rdD fun s => (s.heap p).kind) ≠ .elem then
    raiseD .NotFound                                                         -- Childless.removeChild
  if !(← rdD fun s => decide (c ∈ (s.heap p).kids)) then
    raiseD .NotFound
  liftH (unlink p c)
  dropFromIndexes p c
  liftH (upd fun h => setParent h c none)                                    -- oldChild.parentNode = None

/-- `if c.parentNode is not None: c.parentNode.removeChild(c)` -/
def detachIfAttached (c : Id) : DM Unit := do
  match (← rdD fun s => (s.heap c).parent) with
  | some q => removeChild q c
  | none => pure ()

/-- `p._child_attached(c)` -/
def childAttached (p c : Id) : DM Unit := do
  let doc ← rdD fun s => s.owned p                                           -- doc = getattr(self, 'ownerDocument', None)
  setOwnerRec c doc                                                          -- _set_owner(newChild, doc)
  if doc && (← rdD fun s => decide ((s.heap c).kind = .elem)) then           -- if doc and newChild is an element:
    rebuildCaches c                                                          --   doc.rebuild_caches(newChild)

/-- `p.appendChild(c)` -/
def appendChild (p c : Id) : DM Unit := do
  if (← rdD fun s => (s.heap p).kind) ≠ .elem then
    raiseD .Hierarchy
  detachIfAttached c
  liftH (appendRaw p c)
  liftH (upd fun h => setNext h c none)
  childAttached p c

/-- `p.insertBefore(n, ref)` -/
def insertBefore (p n : Id) (ref : Option Id) : DM Unit := do
  if (← rdD fun s => (s.heap p).kind) ≠ .elem then
    raiseD .Hierarchy
  liftH (checkRef p ref)
  if ref = some n then
    pure ()
  else
    detachIfAttached n
    match ref with
    | none => appendChild p n
    | some r => do
      liftH (insertAtRef p n r)
      childAttached p n

def addElement (p c : Id) (allowed : Bool) : DM Unit := do
  if !allowed then raiseD .IllegalChild
  appendChild p c

def addText (p t : Id) (allowsText nonempty : Bool) : DM Unit := do
  if !allowsText then raiseD .IllegalText
  if nonempty then
    liftH (initNode t .text 0)
    appendChild p t

def addCDATA (p t : Id) (allowsText : Bool) : DM Unit := do
  if !allowsText then raiseD .IllegalText
  liftH (initNode t .cdata 0)
  appendChild p t

/-! ### the document -/

/-- `OpenDocument.__init__` up to `clear_caches()`: `t` is the (already created) topnode -/
def mkDoc (t : Id) : DM Unit :=
  updD fun s => { setOwned s t true with top := t, edict := [], sdict := [], fix := [] }

/-- `doc.getElementsByType(factory)` -/
def docByType (q : Nat) : DM (List Id) := do
  if (← rdD fun s => s.edict.isEmpty) then rebuildAll                        -- if self.element_dict == {}: self.rebuild_caches()
  rdD fun s => edGet s.edict q

/-- the `for e in self.element_dict.get(style:style, [])` loop of getStyleByName: the first element of
    that name whose parent is office:styles / office:automatic-styles -/
def scanStyles (s : DState) (n : Nat) : List Id → Option Id
  | [] => none
  | e :: r =>
    if decide (lookupAttr KEY_STYLE_NAME (s.heap e).attrs = some n) && underStyles s e then some e
    else scanStyles s n r

/-- `doc.getStyleByName(name)`; `n` is the token of `make_NCName(name)` -/
def styleByName (n : Nat) : DM (Option Id) := do
  if (← rdD fun s => s.sdict.isEmpty) then rebuildAll                        -- if self._styles_dict == {}: self.rebuild_caches()
  match (← registeredStyle n) with                                           -- result = self.__registered_style(ncname)
  | some e => pure (some e)
  | none =>                                                                  -- if result is None: for e in element_dict.get(style, []): …
    match (← rdD fun s => scanStyles s n (edGet s.edict QN_STYLE)) with
    | some e => do
      updD fun s => { s with sdict := sdSet s.sdict n e }                    --   self._styles_dict[ncname] = result = e; break
      pure (some e)
    | none => pure none

/-- `__replaceGenerator()`: `g`, `t` are the ids of the new generator element and its Text node -/
def replaceGenerator (mt g t : Id) : DM Unit := do
  let ms ← rdD fun s => (s.heap mt).kids                                   -- for m in self.meta.childNodes[:]:
  forEach (fun m => do
    if (← rdD fun s => decide ((s.heap m).kind = .elem) && decide ((s.heap m).qn = QN_GENERATOR)) then
      removeChild mt m) ms
  liftH (initNode g .elem QN_GENERATOR)                                      -- meta.Generator(text=TOOLSVERSION)
  addText g t true true
  addElement mt g true                                                     -- self.meta.addElement(…)

/-! ### histories -/

inductive DOp where
  | tree (op : Op)                         -- creation, the three mutators, the add* wrappers, attribute calls
  | mkDoc (t : Id)
  | byType (q : Nat)
  | styleByName (n : Nat)
  | replaceGenerator (mt g t : Id)

def stepD : DOp → DM Unit
  | .tree (.newNode i k qn) => liftH (step (.newNode i k qn))
  | .tree (.append p c) => appendChild p c
  | .tree (.insertBefore p n ref) => insertBefore p n ref
  | .tree (.remove p c) => removeChild p c
  | .tree (.addElement p c a) => addElement p c a
  | .tree (.addText p t a ne) => do liftH (fresh t); addText p t a ne
  | .tree (.addCDATA p t a) => do liftH (fresh t); addCDATA p t a
  | .tree (.setAttribute e k t a key conv) => liftH (setAttribute e k t a key conv)
  | .tree (.setAttrNS e key conv) => liftH (setAttrNS e key conv)
  | .tree (.removeAttribute e k t a key) => liftH (removeAttribute e k t a key)
  | .mkDoc t => mkDoc t
  | .byType q => do let _ ← docByType q; pure ()
  | .styleByName n => do let _ ← styleByName n; pure ()
  | .replaceGenerator m g t => do liftH (fresh g); liftH (fresh t); replaceGenerator m g t

def runD (s : DState) : List DOp → DState
  | [] => s
  | op :: r => runD ((stepD op).run s).1 r

end OdfModel.DomDoc

/-
  OdfModel.GrammarApi — the grammar decisions of odf/element.py (layer L9, implementation side of C06).

  Element and attribute names are `Nat` ids (tables in Generated/GrammarNames.lean); a keyword (the
  `str` handed to setAttribute) is the numeral of its bytes (OdfModel.GrammarNamesCodec), so that
  comparing keywords is one `Nat.beq`.
  The four tables of odf/grammar.py are association lists in the order of the Python dict / tuple
  (Generated/GrammarTables.lean); `lookup` is `dict.get` (`none` = key missing = Python `None`).

  Modelled statement by statement:

  Element.__init__            self.allowed_children = grammar.allowed_children.get(self.qname)
                              …
                              if check_grammar:
                                  required = grammar.required_attributes.get(self.qname)
                                  if required:
                                      for r in required:
                                          if self.getAttrNS(r[0],r[1]) is None: raise AttributeError   → `construct`
  Element.addElement          if check_grammar and self.allowed_children is not None:
                                  if element.qname not in self.allowed_children: raise IllegalChild    → `addElement`
  Element.addText / addCDATA  if check_grammar and not self._allows_text():
                                  raise IllegalText                                                     → `addText`, `addCDATA`, `allowsTextOf`
  Element.setAttribute        allowed_attrs = self.allowed_attributes()        # grammar.allowed_attributes.get(qname)
                              if allowed_attrs is None:
                                  if type(attr) == type(()): … setAttrNS …
                                  else: raise AttributeError
                              else:
                                  allowed_args = [ a[1].lower().replace('-','') for a in allowed_attrs]
                                  if check_grammar and attr not in allowed_args: raise AttributeError
                                  i = allowed_args.index(attr)                 # ValueError when unchecked and absent
                                  self.setAttrNS(allowed_attrs[i][0], allowed_attrs[i][1], value)     → `setAttribute`
  Element.__init__ (**args)   for arg in args.keys(): self.setAttribute(arg, args[arg])                   → `loadKeywords`, `constructKw`
  (the value conversion done by setAttrNS belongs to C15 and is not modelled here; the
  `attr == 'parent'` shortcut of setAttribute is addElement on the other element.)
-/
import OdfModel.Basic
namespace OdfModel.GrammarApi
open OdfModel

inductive Err where
  | IllegalChild | IllegalText | AttributeError | ValueError
  deriving DecidableEq, Repr

/-- the content of odf/grammar.py, plus the keyword of every attribute id (`attrKw[a]`, theorem `kw_table_ok`) -/
structure Tables where
  allowedChildren : List (Nat × Option (List Nat))
  allowsText : List Nat
  requiredAttributes : List (Nat × List Nat)
  allowedAttributes : List (Nat × Option (List Nat))
  attrKw : List Nat

/-- `dict.get(key)`; a Python dict display with a repeated key keeps the last value, but the
    translator dumps the imported dict, whose keys are unique -/
def lookup {α : Type} : List (Nat × α) → Nat → Option α
  | [], _ => none
  | (k, v) :: rest, x => if k == x then some v else lookup rest x

/-- `a[1].lower().replace('-','')` on code points (attribute local names are ASCII; for other code
    points Python's `lower` is not modelled and `kw_table_ok` would not hold) -/
def kwChars : Str → Str
  | [] => []
  | c :: cs => if c == 45 then kwChars cs
               else (if 65 ≤ c ∧ c ≤ 90 then c + 32 else c) :: kwChars cs

section
variable (T : Tables)

def kwOf (a : Nat) : Nat := T.attrKw[a]?.getD 0

/-- `self.allowed_children` of an element with this qname (`none` = Python `None` = anything goes) -/
def allowedChildrenOf (e : Nat) : Option (List Nat) := (lookup T.allowedChildren e).join

/-- `self.allowed_attributes()` -/
def allowedAttrsOf (e : Nat) : Option (List Nat) := (lookup T.allowedAttributes e).join

def requiredOf (e : Nat) : List Nat := (lookup T.requiredAttributes e).getD []

def addElement (check : Bool) (parent child : Nat) : Except Err Unit :=
  match check, allowedChildrenOf T parent with
  | true, some l => if l.contains child then .ok () else .error .IllegalChild
  | _, _ => .ok ()

/-- `Element._allows_text` (since /repo 9407dde):
        return self.qname in grammar.allows_text or self.qname not in grammar.allowed_children
    — an element without any allowed_children row (key missing, not an explicit `None`) is unknown to
    the grammar and its text is let through, as its children are -/
def allowsTextOf (e : Nat) : Bool := T.allowsText.contains e || (lookup T.allowedChildren e).isNone

def addText (check : Bool) (e : Nat) : Except Err Unit :=
  if check && !(allowsTextOf T e) then .error .IllegalText else .ok ()

def addCDATA (check : Bool) (e : Nat) : Except Err Unit := addText T check e

/-- `allowed_args.index(attr)` followed by `allowed_attrs[i]`: the first attribute with that keyword -/
def firstWithKw (kw : Nat) : List Nat → Option Nat
  | [] => none
  | a :: rest => if kwOf T a == kw then some a else firstWithKw kw rest

/-- setAttribute with a keyword (a `str`); returns the attribute id handed to setAttrNS -/
def setAttribute (check : Bool) (e kw : Nat) : Except Err Nat :=
  match allowedAttrsOf T e with
  | none => .error .AttributeError
  | some l =>
    match firstWithKw T kw l with
    | some a => .ok a
    | none => if check then .error .AttributeError else .error .ValueError

/-- first required attribute that is missing -/
def firstMissing (given : List Nat) : List Nat → Option Nat
  | [] => none
  | r :: rest => if given.contains r then firstMissing given rest else some r

/-- the constructor's required-attribute loop; `given` = attributes present after the keyword /
    qattributes arguments were stored; the error carries the attribute named in the message -/
def construct (check : Bool) (e : Nat) (given : List Nat) : Except (Err × Nat) Unit :=
  if check then
    match firstMissing given (requiredOf T e) with
    | some r => .error (.AttributeError, r)
    | none => .ok ()
  else .ok ()

/-- how the constructor can fail: both are Python `AttributeError`s -/
inductive CtorErr where
  | refusedKeyword (kw : Nat)      -- raised by setAttribute: "Attribute … is not allowed in" / "Unable to add simple attribute"
  | missingRequired (a : Nat)      -- "Required attribute missing: …"
  deriving DecidableEq, Repr

/-- the `**args` loop of the constructor.  Since /repo 36c2235 both branches read
        for arg in args.keys(): self.setAttribute(arg, args[arg])
    — with or without an allowed_attributes row, and with setAttribute's *default*
    `check_grammar=True` whatever flag the constructor got.  The first refused keyword raises;
    accepted keywords add their attribute to what the required loop sees. -/
def loadKeywords (e : Nat) : List Nat → List Nat → Except CtorErr (List Nat)
  | [], given => .ok given
  | kw :: rest, given =>
    match setAttribute T true e kw with
    | .ok a => loadKeywords e rest (given ++ [a])
    | .error _ => .error (.refusedKeyword kw)

/-- the constructor called with qualified attributes `given` and keyword arguments `kws` -/
def constructKw (check : Bool) (e : Nat) (given kws : List Nat) : Except CtorErr Unit :=
  match loadKeywords T e kws given with
  | .error err => .error err
  | .ok given' =>
    match construct T check e given' with
    | .ok _ => .ok ()
    | .error (_, r) => .error (.missingRequired r)

/-! decisions as Booleans (what the C06 theorems compare with the schema) -/

def allowsChild (p c : Nat) : Bool := (addElement T true p c).isOk
def allowsText' (e : Nat) : Bool := (addText T true e).isOk
/-- attribute `a` can be set on `e` through its keyword, and the keyword resolves to `a` itself -/
def setsAttr (e a : Nat) : Bool :=
  match setAttribute T true e (kwOf T a) with
  | .ok b => b == a
  | .error _ => false
def requiresAttr (e a : Nat) : Bool := (requiredOf T e).contains a

end
end OdfModel.GrammarApi

/-
  OdfModel.GrammarData — the generated schema and tables bound to the hand-written semantics.
-/
import OdfModel.Grammar
import OdfModel.GrammarApi
import OdfModel.GrammarNamesCodec
import OdfModel.Generated.GrammarSchema
import OdfModel.Generated.GrammarTables
import OdfModel.Generated.GrammarNames
import OdfModel.Generated.GrammarFactories
namespace OdfModel.GrammarData
open OdfModel.Grammar OdfModel.GrammarApi OdfModel.Generated

/-- the two shipped schemas -/
abbrev schema : Schema := GrammarSchema.schema
/-- odf/grammar.py -/
abbrev T : Tables := GrammarTables.tables

def elemName (e : Nat) : Nat := GrammarNames.elemName[e]?.getD 0
def attrName (a : Nat) : Nat := GrammarNames.attrName[a]?.getD 0
def kwName (k : Nat) : Nat := GrammarNames.kwName[k]?.getD 0

end OdfModel.GrammarData

/-
  OdfModel.Render — model of the seven output calls of odf/opendocument.py (property C12).

  Python (after the `fix:` commits: meta/settings are rendered in place)     model
  ------------------------------------------------------------------------  -----------------------------
  OpenDocument: topnode(office:document; attributes), meta, scripts,         `Doc` (`Part` = the seven
    fontfacedecls, settings, styles, automaticstyles, masterstyles, body,      non-meta containers)
    Pictures, childobjects, thumbnail, _extra
  __replaceGenerator():                                                      `normGen`
      for m in self.metaEl.childNodes[:]:
          if hasattr(m,'qname') and m.qname == (METANS,'generator'):           `isGen`
              self.metaEl.removeChild(m)
      self.metaEl.addElement(meta.Generator(text=TOOLSVERSION))                  `genNode tv` appended
  xml():        __replaceGenerator(); topnode.toXml(0)                       `step`/`out` `.xml`, `flatTree`
  contentxml(): DocumentContent open tag; scripts / fontfacedecls if they    `contentTree`
                have children; automatic-styles = _used_auto_styles([styles,
                body]); body                                  (pure)
  stylesxml():  DocumentStyles; fontfacedecls if children; styles;           `stylesTree`   (pure)
                automatic-styles = _used_auto_styles([masterstyles]);
                masterstyles if children
  metaxml():    __replaceGenerator(); DocumentMeta open tag; meta.toXml(1)   `metaTree`
  settingsxml():DocumentSettings open tag; settings.toXml(1)                 `settingsTree` (pure)
  save()/write() -> __zipwrite(): mimetype; _saveXmlObjects (manifest         `pkg`
      entries + styles.xml, content.xml, settings.xml if settings has
      children, meta.xml for the top document only, then the child objects
      in their own folder, d51bb64); _savePictures (own, then child objects);
      thumbnail; extra members of the document and its objects (not
      documentsignatures.xml); manifest
      (__manifestxml).  Only the metaxml() inside it changes the document.

  Outputs are infosets (`Node` trees; a package is a list of named members), i.e. what an XML parser
  reports about the bytes; the serialisation itself is the subject of C01/C02/C14.
  Child objects are modelled one level deep (their own child objects are not written here).
-/
import OdfModel.Styles
namespace OdfModel.Render
open OdfModel OdfModel.Styles

def str (s : String) : Str := s.toList.map Char.toNat

/-! reserved element / attribute codes (the harness uses the same numbers) -/
def eDocument : Nat := 1
def eDocContent : Nat := 2
def eDocStyles : Nat := 3
def eDocMeta : Nat := 4
def eDocSettings : Nat := 5
def eAutoStyles : Nat := 6
def eGenerator : Nat := 7
def eManifest : Nat := 8
def eFileEntry : Nat := 9
def aVersion : Attr := 900
def aFullPath : Attr := 902
def aMediaType : Attr := 903

/-- the containers of a (sub)document other than `office:meta` -/
structure Part where
  scripts : Node
  ffd : Node
  settings : Node
  styles : Node
  auto : Node
  master : Node
  body : Node
deriving Repr, Inhabited

/-- `Pictures`: (archive name, media type, opaque content id), in insertion order -/
abbrev Pics := List (Str × Str × Nat)

abbrev Extras := List (Str × Str × Option Nat)

structure SubDoc where
  folder : Str             -- its folder relative to the parent, with the trailing "/" ("Object 1/")
  mimetype : Str
  metaEl : Node
  part : Part
  pictures : Pics
  extras : Extras
deriving Repr, Inhabited

structure Doc where
  mimetype : Str
  topAttrs : Attrs
  metaEl : Node
  part : Part
  pictures : Pics
  objects : List SubDoc
  thumbnail : Option Nat
  thumbType : Str          -- `_thumbnail_mediatype` (u'' unless loaded)
  extras : Extras
deriving Repr, Inhabited

structure Cfg where
  followed : Styles.Cfg    -- `_STYLE_REF_ATTRS`, `_STYLE_REF_LIST_ATTRS`, separators of `str.split`
  tv : Str                 -- TOOLSVERSION

/-! ### generator normalisation -/

def isGen : Node → Bool
  | .elem n _ _ => n == eGenerator
  | .text _ => false

/-- `meta.Generator(text=TOOLSVERSION)` (`addText` adds nothing for an empty string) -/
def genNode (tv : Str) : Node :=
  .elem eGenerator [] (if tv = [] then [] else [.text tv])

def normMeta (tv : Str) : Node → Node
  | .elem n a ks => .elem n a (ks.filter (fun k => !isGen k) ++ [genNode tv])
  | .text s => .text s

/-- `__replaceGenerator` -/
def normGen (tv : Str) (d : Doc) : Doc := { d with metaEl := normMeta tv d.metaEl }

/-! ### the XML outputs -/

def hasKids (n : Node) : Bool := !(kidsOf n).isEmpty

def ifKids (n : Node) : List Node := if hasKids n then [n] else []

def ver : Attrs := [(aVersion, str "1.2")]

def toStyleDoc (p : Part) : StyleDoc := { styles := p.styles, auto := p.auto, master := p.master, body := p.body }

def contentTree (F : Styles.Cfg) (p : Part) : Node :=
  .elem eDocContent ver
    (ifKids p.scripts ++ ifKids p.ffd ++ [.elem eAutoStyles [] (contentKept F (toStyleDoc p))] ++ [p.body])

def stylesTree (F : Styles.Cfg) (p : Part) : Node :=
  .elem eDocStyles ver
    (ifKids p.ffd ++ [p.styles] ++ [.elem eAutoStyles [] (stylesKept F (toStyleDoc p))] ++ ifKids p.master)

def metaTree (m : Node) : Node := .elem eDocMeta ver [m]

def settingsTree (p : Part) : Node := .elem eDocSettings ver [p.settings]

def flatTree (d : Doc) : Node :=
  .elem eDocument d.topAttrs
    [d.metaEl, d.part.scripts, d.part.ffd, d.part.settings, d.part.styles, d.part.auto, d.part.master, d.part.body]

/-! ### the package -/

inductive Member where
  | xml (root : Node)
  | raw (id : Nat)        -- opaque bytes (picture, thumbnail, extra member)
  | bytes (s : Str)       -- the mimetype member
deriving Repr, Inhabited

inductive Out where
  | xml (root : Node)
  | pkg (members : List (Str × Member))
deriving Repr, Inhabited

def textXml : Str := str "text/xml"

/-- `_saveXmlObjects` for one (sub)document: (zip members, manifest entries) -/
def xmlMembers (F : Styles.Cfg) (folder : Str) (entry : Str) (mimetype : Str) (p : Part) (metaEl : Option Node) :
    List (Str × Member) × List (Str × Str) :=
  let ms := [(folder ++ str "styles.xml", Member.xml (stylesTree F p)),
             (folder ++ str "content.xml", Member.xml (contentTree F p))]
            ++ (if hasKids p.settings then [(folder ++ str "settings.xml", Member.xml (settingsTree p))] else [])
            ++ (match metaEl with | some m => [(str "meta.xml", Member.xml (metaTree m))] | none => [])
  let es := [(entry, mimetype), (folder ++ str "styles.xml", textXml), (folder ++ str "content.xml", textXml)]
            ++ (if hasKids p.settings then [(folder ++ str "settings.xml", textXml)] else [])
            ++ (match metaEl with | some _ => [(str "meta.xml", textXml)] | none => [])
  (ms, es)


def picMembers (folder : Str) (ps : Pics) : List (Str × Member) × List (Str × Str) :=
  (ps.map (fun (n, _, c) => (folder ++ n, Member.raw c)), ps.map (fun (n, mt, _) => (folder ++ n, mt)))

def enumFrom {α} : Nat → List α → List (Nat × α)
  | _, [] => []
  | i, x :: r => (i, x) :: enumFrom (i + 1) r

def manifestTree (es : List (Str × Str)) : Node :=
  .elem eManifest [] (es.map (fun (p, m) => .elem eFileEntry [(aFullPath, p), (aMediaType, m)] []))

/-- `__zipwrite` on a document whose generator has just been normalised by the `metaxml()` inside -/
def pkg (F : Styles.Cfg) (d : Doc) : List (Str × Member) :=
  let top := xmlMembers F [] (str "/") d.mimetype d.part (some d.metaEl)
  let subs := d.objects.map (fun o => xmlMembers F o.folder o.folder o.mimetype o.part none)
  let pics := picMembers [] d.pictures
  let subpics := d.objects.map (fun o => picMembers o.folder o.pictures)
  let thumb : List (Str × Member) × List (Str × Str) :=
    match d.thumbnail with
    | some c => ([(str "Thumbnails/thumbnail.png", Member.raw c)],
                 [(str "Thumbnails/", []), (str "Thumbnails/thumbnail.png", d.thumbType)])
    | none => ([], [])
  -- `_allExtras`: the document's own extra members, then those of the child objects below their folders
  let all : List (Str × Str × Str × Option Nat) :=
    d.extras.map (fun (n, mt, c) => ([], n, mt, c)) ++ d.objects.flatMap (fun o => o.extras.map (fun (n, mt, c) => (o.folder, n, mt, c)))
  let ex := all.filter (fun (_, n, _, _) => n != str "META-INF/documentsignatures.xml")
  let exm : List (Str × Member) := ex.filterMap (fun (f, n, _, c) => c.map (fun c => (f ++ n, Member.raw c)))
  let exe : List (Str × Str) := ex.map (fun (f, n, mt, _) => (f ++ n, mt))
  let members := top.1 ++ subs.flatMap (·.1) ++ pics.1 ++ subpics.flatMap (·.1) ++ thumb.1 ++ exm
  let entries := top.2 ++ subs.flatMap (·.2) ++ pics.2 ++ subpics.flatMap (·.2) ++ thumb.2 ++ exe
  [(str "mimetype", Member.bytes d.mimetype)] ++ members ++ [(str "META-INF/manifest.xml", Member.xml (manifestTree entries))]

/-! ### the seven calls as state transformers with an output -/

inductive Op where
  | save | write | xml | contentxml | stylesxml | metaxml | settingsxml
deriving DecidableEq, Repr, Inhabited

/-- does the call run `__replaceGenerator`? -/
def Op.normalises : Op → Bool
  | .save | .write | .xml | .metaxml => true
  | .contentxml | .stylesxml | .settingsxml => false

/-- the document after the call -/
def step (c : Cfg) (op : Op) (d : Doc) : Doc :=
  if op.normalises then normGen c.tv d else d

/-- what the call returns / writes when made on document `d` -/
def out (c : Cfg) (op : Op) (d : Doc) : Out :=
  match op with
  | .xml => .xml (flatTree (normGen c.tv d))
  | .contentxml => .xml (contentTree c.followed d.part)
  | .stylesxml => .xml (stylesTree c.followed d.part)
  | .metaxml => .xml (metaTree (normGen c.tv d).metaEl)
  | .settingsxml => .xml (settingsTree d.part)
  | .save => .pkg (pkg c.followed (normGen c.tv d))
  | .write => .pkg (pkg c.followed (normGen c.tv d))

def run (c : Cfg) : List Op → Doc → Doc
  | [], d => d
  | op :: r, d => run c r (step c op d)

/-- the outputs of a sequence of calls, in order -/
def outs (c : Cfg) : List Op → Doc → List Out
  | [], _ => []
  | op :: r, d => out c op d :: outs c r (step c op d)

/-! ### several live documents in one process

  Each `OpenDocument` owns its tree; `__replaceGenerator` builds a *fresh* generator element for the
  document it is called on (`meta.Generator(text=TOOLSVERSION)` inside the method), so a call on one
  document is a step on that document's state and on no other. -/

def modifyAt (f : Doc → Doc) : Nat → List Doc → List Doc
  | _, [] => []
  | 0, d :: r => f d :: r
  | i + 1, d :: r => d :: modifyAt f i r

/-- a history over a set of documents: (index of the document, call) -/
def runW (c : Cfg) : List (Nat × Op) → List Doc → List Doc
  | [], w => w
  | (i, op) :: r, w => runW c r (modifyAt (step c op) i w)

/-! ### package calls that raise part-way

  `save()` / `write()` can raise in the middle of `__zipwrite` (the caller's stream refuses a write, a picture
  registered by file name is not readable).  `__zipwrite` keeps no state between calls: `self._z`, `self._now`
  and `self.manifest` are assigned afresh at its start, so a call that did not get through leaves nothing that a
  later call reads.  The only effect on the document is the one of the `metaxml()` inside `_saveXmlObjects`:
  if the failure came before the top document's `meta.xml` member was begun the document is untouched, otherwise
  its generator has been normalised.  A failed call has no output. -/

inductive Call where
  | ok (op : Op)
  | failedEarly      -- save()/write() raised before `metaxml()` ran
  | failedLate       -- save()/write() raised after `metaxml()` ran
deriving DecidableEq, Repr, Inhabited

def Call.op? : Call → Option Op
  | .ok op => some op
  | _ => none

def stepC (c : Cfg) : Call → Doc → Doc
  | .ok op, d => step c op d
  | .failedEarly, d => d
  | .failedLate, d => normGen c.tv d

def outC (c : Cfg) : Call → Doc → Option Out
  | .ok op, d => some (out c op d)
  | .failedEarly, _ => none
  | .failedLate, _ => none

def runC (c : Cfg) : List Call → Doc → Doc
  | [], d => d
  | k :: r, d => runC c r (stepC c k d)

/-- the outputs of a history of calls, `none` for the calls that raised -/
def outsC (c : Cfg) : List Call → Doc → List (Option Out)
  | [], _ => []
  | k :: r, d => outC c k d :: outsC c r (stepC c k d)

end OdfModel.Render

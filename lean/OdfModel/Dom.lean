/-
  OdfModel.Dom — model of the node tree of odf/element.py (properties C08, C07).

  What is modelled, statement by statement, in the order the Python mutates:

    Node.removeChild            -> `removeChild`     (Childless.removeChild -> first guard)
    Node.appendChild            -> `appendChild`     (Childless.appendChild -> first guard)
    _append_child               -> `appendRaw`
    Node.insertBefore           -> `insertBefore`    (Childless.insertBefore -> first guard); its statement
                                   groups are named `checkRef`, `detachIfAttached`, `insertAtRef`, `linkPrev`
    Element.addElement          -> `addElement`
    Element.addText / addCDATA  -> `addText` / `addCDATA`
    Element.setAttrNS           -> `setAttrNS`
    Element.setAttribute        -> `setAttribute`
    Element.removeAttribute     -> `removeAttribute`
    draw.StyleRefElement        -> `styleRefConstruct` (argument checks, then Element.__init__)
    Element.__init__            -> `construct`  (`ctorText`, `ctorCData`, attribute loops `applyAttrs`,
                                   `checkRequired`, and `ctorAttach`: parent= last)

  A node is a small natural number chosen by the harness; the heap maps every id to a
  record (ids never used hold the blank record, which behaves like a fresh detached
  element).  Every Python assignment is one field setter.  The operations live in the
  monad `M α = Heap → Heap × Except Err α`: an exception is returned TOGETHER WITH THE
  HEAP AS MUTATED SO FAR (nothing is rolled back), so "a refused call leaves the document
  untouched" is a theorem about the order of checks and assignments (Props/C07.lean), not a
  modelling choice.

  Not modelled here: `ownerDocument` and the document indexes (`_child_attached`,
  `_set_owner`, `remove_from_caches` — layer Doc.Cache, property C09; none of them raises),
  DocumentFragment arguments of appendChild, and the `nodeType in _child_node_types` test
  (every modelled kind — element, text, CDATA — is an allowed child type of an element).
  Grammar and attribute-conversion verdicts are abstract parameters (`allowed`,
  `allowsText`, `conv : Except Err Nat`) supplied by the caller: what matters for C07/C08
  is where in the statement order they are consulted.
-/
namespace OdfModel.Dom

abbrev Id := Nat

inductive Kind where
  | elem | text | cdata
deriving DecidableEq, Repr

/-- exception classes; `RecursionError` is raised only by the document layer (DomDoc: subtree deeper
    than the traversal budget); `KeyError` (removeAttribute of an absent attribute) and `Other`
    (protocol misuse: an id that is already in use; IndexError) complete the enum -/
inductive Err where
  | IllegalChild | IllegalText | AttributeError | ValueError | NotFound | Hierarchy | KeyError | Other
  | RecursionError
deriving DecidableEq, Repr

structure NodeRec where
  kind : Kind := .elem
  parent : Option Id := none          -- parentNode
  prev : Option Id := none            -- previousSibling
  next : Option Id := none            -- nextSibling
  kids : List Id := []                -- childNodes
  attrs : List (Nat × Nat) := []      -- attributes: (key token, value token) in dict order
  qn : Nat := 0                       -- qname token (opaque)

/-- the heap: a finite map from ids to records, kept as the list of assignments made so far (latest
    first); an id that was never assigned holds the blank record.  (Data, not a closure: the compiled
    drivers would otherwise re-run whole operations on every lookup.) -/
structure Heap where
  recs : List (Id × NodeRec)

/-- the record of node `i` -/
def Heap.get (h : Heap) (i : Id) : NodeRec :=
  match h.recs.lookup i with
  | some r => r
  | none => {}

instance : CoeFun Heap (fun _ => Id → NodeRec) := ⟨Heap.get⟩

def Heap.empty : Heap := ⟨[]⟩

def Heap.set (h : Heap) (i : Id) (r : NodeRec) : Heap := ⟨(i, r) :: h.recs⟩

theorem Heap.set_apply (h : Heap) (i j r) : (h.set i r) j = if j = i then r else h j := by
  simp only [Heap.set, Heap.get, List.lookup]
  by_cases hji : j = i
  · subst hji; simp
  · have : (j == i) = false := by simp [hji]
    simp [this, hji]
@[simp] theorem Heap.set_same (h : Heap) (i r) : (h.set i r) i = r := by simp [Heap.set_apply]
theorem Heap.set_other (h : Heap) (i j r) (hne : j ≠ i) : (h.set i r) j = h j := by simp [Heap.set_apply, hne]
@[simp] theorem Heap.empty_apply (i : Id) : Heap.empty i = {} := rfl

/-! ### one setter per Python assignment -/
def setKids (h : Heap) (i : Id) (v : List Id) : Heap := h.set i { h i with kids := v }
def setPrev (h : Heap) (i : Id) (v : Option Id) : Heap := h.set i { h i with prev := v }
def setNext (h : Heap) (i : Id) (v : Option Id) : Heap := h.set i { h i with next := v }
def setParent (h : Heap) (i : Id) (v : Option Id) : Heap := h.set i { h i with parent := v }
def setAttrs (h : Heap) (i : Id) (v : List (Nat × Nat)) : Heap := h.set i { h i with attrs := v }
/-- `if o is not None: o.previousSibling = v` -/
def setPrevOpt (h : Heap) (o : Option Id) (v : Option Id) : Heap :=
  match o with | some n => setPrev h n v | none => h
/-- `if o is not None: o.nextSibling = v` -/
def setNextOpt (h : Heap) (o : Option Id) (v : Option Id) : Heap :=
  match o with | some n => setNext h n v | none => h

section fields
variable (h : Heap) (i q : Id)
@[simp] theorem setKids_kind (v) : (setKids h i v q).kind = (h q).kind := by
  simp only [setKids, Heap.set_apply]; split <;> simp_all
@[simp] theorem setKids_parent (v) : (setKids h i v q).parent = (h q).parent := by
  simp only [setKids, Heap.set_apply]; split <;> simp_all
@[simp] theorem setKids_prev (v) : (setKids h i v q).prev = (h q).prev := by
  simp only [setKids, Heap.set_apply]; split <;> simp_all
@[simp] theorem setKids_next (v) : (setKids h i v q).next = (h q).next := by
  simp only [setKids, Heap.set_apply]; split <;> simp_all
@[simp] theorem setKids_kids (v) : (setKids h i v q).kids = if q = i then v else (h q).kids := by
  simp only [setKids, Heap.set_apply]; split <;> simp_all
@[simp] theorem setKids_attrs (v) : (setKids h i v q).attrs = (h q).attrs := by
  simp only [setKids, Heap.set_apply]; split <;> simp_all
@[simp] theorem setKids_qn (v) : (setKids h i v q).qn = (h q).qn := by
  simp only [setKids, Heap.set_apply]; split <;> simp_all
@[simp] theorem setPrev_kind (v) : (setPrev h i v q).kind = (h q).kind := by
  simp only [setPrev, Heap.set_apply]; split <;> simp_all
@[simp] theorem setPrev_parent (v) : (setPrev h i v q).parent = (h q).parent := by
  simp only [setPrev, Heap.set_apply]; split <;> simp_all
@[simp] theorem setPrev_prev (v) : (setPrev h i v q).prev = if q = i then v else (h q).prev := by
  simp only [setPrev, Heap.set_apply]; split <;> simp_all
@[simp] theorem setPrev_next (v) : (setPrev h i v q).next = (h q).next := by
  simp only [setPrev, Heap.set_apply]; split <;> simp_all
@[simp] theorem setPrev_kids (v) : (setPrev h i v q).kids = (h q).kids := by
  simp only [setPrev, Heap.set_apply]; split <;> simp_all
@[simp] theorem setPrev_attrs (v) : (setPrev h i v q).attrs = (h q).attrs := by
  simp only [setPrev, Heap.set_apply]; split <;> simp_all
@[simp] theorem setPrev_qn (v) : (setPrev h i v q).qn = (h q).qn := by
  simp only [setPrev, Heap.set_apply]; split <;> simp_all
@[simp] theorem setNext_kind (v) : (setNext h i v q).kind = (h q).kind := by
  simp only [setNext, Heap.set_apply]; split <;> simp_all
@[simp] theorem setNext_parent (v) : (setNext h i v q).parent = (h q).parent := by
  simp only [setNext, Heap.set_apply]; split <;> simp_all
@[simp] theorem setNext_prev (v) : (setNext h i v q).prev = (h q).prev := by
  simp only [setNext, Heap.set_apply]; split <;> simp_all
@[simp] theorem setNext_next (v) : (setNext h i v q).next = if q = i then v else (h q).next := by
  simp only [setNext, Heap.set_apply]; split <;> simp_all
@[simp] theorem setNext_kids (v) : (setNext h i v q).kids = (h q).kids := by
  simp only [setNext, Heap.set_apply]; split <;> simp_all
@[simp] theorem setNext_attrs (v) : (setNext h i v q).attrs = (h q).attrs := by
  simp only [setNext, Heap.set_apply]; split <;> simp_all
@[simp] theorem setNext_qn (v) : (setNext h i v q).qn = (h q).qn := by
  simp only [setNext, Heap.set_apply]; split <;> simp_all
@[simp] theorem setParent_kind (v) : (setParent h i v q).kind = (h q).kind := by
  simp only [setParent, Heap.set_apply]; split <;> simp_all
@[simp] theorem setParent_parent (v) : (setParent h i v q).parent = if q = i then v else (h q).parent := by
  simp only [setParent, Heap.set_apply]; split <;> simp_all
@[simp] theorem setParent_prev (v) : (setParent h i v q).prev = (h q).prev := by
  simp only [setParent, Heap.set_apply]; split <;> simp_all
@[simp] theorem setParent_next (v) : (setParent h i v q).next = (h q).next := by
  simp only [setParent, Heap.set_apply]; split <;> simp_all
@[simp] theorem setParent_kids (v) : (setParent h i v q).kids = (h q).kids := by
  simp only [setParent, Heap.set_apply]; split <;> simp_all
@[simp] theorem setParent_attrs (v) : (setParent h i v q).attrs = (h q).attrs := by
  simp only [setParent, Heap.set_apply]; split <;> simp_all
@[simp] theorem setParent_qn (v) : (setParent h i v q).qn = (h q).qn := by
  simp only [setParent, Heap.set_apply]; split <;> simp_all
@[simp] theorem setAttrs_kind (v) : (setAttrs h i v q).kind = (h q).kind := by
  simp only [setAttrs, Heap.set_apply]; split <;> simp_all
@[simp] theorem setAttrs_parent (v) : (setAttrs h i v q).parent = (h q).parent := by
  simp only [setAttrs, Heap.set_apply]; split <;> simp_all
@[simp] theorem setAttrs_prev (v) : (setAttrs h i v q).prev = (h q).prev := by
  simp only [setAttrs, Heap.set_apply]; split <;> simp_all
@[simp] theorem setAttrs_next (v) : (setAttrs h i v q).next = (h q).next := by
  simp only [setAttrs, Heap.set_apply]; split <;> simp_all
@[simp] theorem setAttrs_kids (v) : (setAttrs h i v q).kids = (h q).kids := by
  simp only [setAttrs, Heap.set_apply]; split <;> simp_all
@[simp] theorem setAttrs_attrs (v) : (setAttrs h i v q).attrs = if q = i then v else (h q).attrs := by
  simp only [setAttrs, Heap.set_apply]; split <;> simp_all
@[simp] theorem setAttrs_qn (v) : (setAttrs h i v q).qn = (h q).qn := by
  simp only [setAttrs, Heap.set_apply]; split <;> simp_all
variable (o : Option Id)
@[simp] theorem setPrevOpt_kind (v) : (setPrevOpt h o v q).kind = (h q).kind := by
  unfold setPrevOpt; split <;> simp
@[simp] theorem setPrevOpt_parent (v) : (setPrevOpt h o v q).parent = (h q).parent := by
  unfold setPrevOpt; split <;> simp
@[simp] theorem setPrevOpt_prev (v) : (setPrevOpt h o v q).prev = if some q = o then v else (h q).prev := by
  unfold setPrevOpt; split <;> simp
@[simp] theorem setPrevOpt_next (v) : (setPrevOpt h o v q).next = (h q).next := by
  unfold setPrevOpt; split <;> simp
@[simp] theorem setPrevOpt_kids (v) : (setPrevOpt h o v q).kids = (h q).kids := by
  unfold setPrevOpt; split <;> simp
@[simp] theorem setPrevOpt_attrs (v) : (setPrevOpt h o v q).attrs = (h q).attrs := by
  unfold setPrevOpt; split <;> simp
@[simp] theorem setPrevOpt_qn (v) : (setPrevOpt h o v q).qn = (h q).qn := by
  unfold setPrevOpt; split <;> simp
@[simp] theorem setNextOpt_kind (v) : (setNextOpt h o v q).kind = (h q).kind := by
  unfold setNextOpt; split <;> simp
@[simp] theorem setNextOpt_parent (v) : (setNextOpt h o v q).parent = (h q).parent := by
  unfold setNextOpt; split <;> simp
@[simp] theorem setNextOpt_prev (v) : (setNextOpt h o v q).prev = (h q).prev := by
  unfold setNextOpt; split <;> simp
@[simp] theorem setNextOpt_next (v) : (setNextOpt h o v q).next = if some q = o then v else (h q).next := by
  unfold setNextOpt; split <;> simp
@[simp] theorem setNextOpt_kids (v) : (setNextOpt h o v q).kids = (h q).kids := by
  unfold setNextOpt; split <;> simp
@[simp] theorem setNextOpt_attrs (v) : (setNextOpt h o v q).attrs = (h q).attrs := by
  unfold setNextOpt; split <;> simp
@[simp] theorem setNextOpt_qn (v) : (setNextOpt h o v q).qn = (h q).qn := by
  unfold setNextOpt; split <;> simp
end fields

/-! ### the exception-carrying state monad -/

/-- a Python statement sequence: runs on a heap, returns the heap as mutated so far and
    either a value or the exception that stopped it -/
def M (α : Type) : Type := Heap → Heap × Except Err α

namespace M
protected def pure {α} (a : α) : M α := fun h => (h, .ok a)
protected def bind {α β} (x : M α) (f : α → M β) : M β := fun h =>
  match x h with
  | (h', .ok a) => f a h'
  | (h', .error e) => (h', .error e)      -- the exception propagates; h' is NOT rolled back
instance : Monad M where
  pure := M.pure
  bind := M.bind
/-- run a statement sequence on a heap -/
def run {α} (x : M α) (h : Heap) : Heap × Except Err α := x h
end M

/-- `raise e` -/
def raise {α} (e : Err) : M α := fun h => (h, .error e)
/-- read something off the current heap -/
def rd {α} (f : Heap → α) : M α := fun h => (h, .ok (f h))
/-- one assignment -/
def upd (f : Heap → Heap) : M Unit := fun h => (f h, .ok ())

@[simp] theorem run_pure {α} (a : α) (h : Heap) : (pure a : M α).run h = (h, .ok a) := rfl
@[simp] theorem run_raise {α} (e : Err) (h : Heap) : (raise e : M α).run h = (h, .error e) := rfl
@[simp] theorem run_rd {α} (f : Heap → α) (h : Heap) : (rd f).run h = (h, .ok (f h)) := rfl
@[simp] theorem run_upd (f : Heap → Heap) (h : Heap) : (upd f).run h = (f h, .ok ()) := rfl
theorem run_bind {α β} (x : M α) (f : α → M β) (h : Heap) :
    (x >>= f).run h = match x.run h with
      | (h', .ok a) => (f a).run h'
      | (h', .error e) => (h', .error e) := rfl
@[simp] theorem run_bind_pure {α β} (a : α) (f : α → M β) (h : Heap) :
    ((pure a : M α) >>= f).run h = (f a).run h := rfl
@[simp] theorem run_bind_raise {α β} (e : Err) (f : α → M β) (h : Heap) :
    ((raise e : M α) >>= f).run h = (h, .error e) := rfl
@[simp] theorem run_bind_rd {α β} (g : Heap → α) (f : α → M β) (h : Heap) :
    (rd g >>= f).run h = (f (g h)).run h := rfl
@[simp] theorem run_bind_upd {β} (g : Heap → Heap) (f : Unit → M β) (h : Heap) :
    (upd g >>= f).run h = (f ()).run (g h) := rfl
@[simp] theorem run_ite {α} (c : Prop) [Decidable c] (x y : M α) (h : Heap) :
    (if c then x else y).run h = if c then x.run h else y.run h := by split <;> rfl

/-! ### Node.removeChild / Childless.removeChild -/

/-- `p.removeChild(c)` -/
def removeChild (p c : Id) : M Unit := do
  if (← rd fun h => (h p).kind) ≠ .elem then
    raise .NotFound                                   -- Childless.removeChild
  if !(← rd fun h => decide (c ∈ (h p).kids)) then
    raise .NotFound                                   -- self.childNodes.remove(oldChild) -> ValueError -> NotFoundErr
  upd fun h => setKids h p ((h p).kids.erase c)       -- self.childNodes.remove(oldChild)
  upd fun h => setPrevOpt h (h c).next (h c).prev     -- if oldChild.nextSibling is not None: ….previousSibling = oldChild.previousSibling
  upd fun h => setNextOpt h (h c).prev (h c).next     -- if oldChild.previousSibling is not None: ….nextSibling = oldChild.nextSibling
  upd fun h => setNext h c none                       -- oldChild.nextSibling = oldChild.previousSibling = None
  upd fun h => setPrev h c none                       --   (targets are assigned left to right)
  upd fun h => setParent h c none                     -- oldChild.parentNode = None

/-! ### _append_child, Node.appendChild / Childless.appendChild -/

/-- `_append_child(p, c)` -/
def appendRaw (p c : Id) : M Unit := do
  match (← rd fun h => (h p).kids.getLast?) with      -- if childNodes:
  | some last =>
    upd fun h => setPrev h c (some last)              --   node.previousSibling = last
    upd fun h => setNext h last (some c)              --   last.nextSibling = node
  | none => pure ()
  upd fun h => setKids h p ((h p).kids ++ [c])        -- childNodes.append(node)
  upd fun h => setParent h c (some p)                 -- node.parentNode = self

/-- `if c.parentNode is not None: c.parentNode.removeChild(c)` -/
def detachIfAttached (c : Id) : M Unit := do
  match (← rd fun h => (h c).parent) with
  | some q => removeChild q c
  | none => pure ()

/-- `p.appendChild(c)` -/
def appendChild (p c : Id) : M Unit := do
  if (← rd fun h => (h p).kind) ≠ .elem then
    raise .Hierarchy                                  -- Childless.appendChild
  detachIfAttached c                                  -- if newChild.parentNode is not None: newChild.parentNode.removeChild(newChild)
  appendRaw p c                                       -- _append_child(self, newChild)
  upd fun h => setNext h c none                       -- newChild.nextSibling = None

/-! ### Node.insertBefore / Childless.insertBefore -/

/-- `if refChild is not None and refChild not in self.childNodes: raise NotFoundErr` -/
def checkRef (p : Id) (ref : Option Id) : M Unit := do
  match ref with
  | some r => if !(← rd fun h => decide (r ∈ (h p).kids)) then raise .NotFound
  | none => pure ()

/-- the `if index: … else: …` statement of insertBefore -/
def linkPrev (p n : Id) (index : Nat) : M Unit := do
  if index ≠ 0 then
    match (← rd fun h => (h p).kids[index - 1]?) with   -- node = self.childNodes[index-1]
    | none => raise .Other                            --   (IndexError; shown unreachable)
    | some node =>
      upd fun h => setNext h node (some n)            -- node.nextSibling = newChild
      upd fun h => setPrev h n (some node)            -- newChild.previousSibling = node
  else
    upd fun h => setPrev h n none                     -- newChild.previousSibling = None

/-- the `else:` branch of insertBefore (refChild given) -/
def insertAtRef (p n r : Id) : M Unit := do
  if !(← rd fun h => decide (r ∈ (h p).kids)) then
    raise .NotFound                                   -- index = self.childNodes.index(refChild) -> ValueError -> NotFoundErr
  let index ← rd fun h => (h p).kids.idxOf r
  upd fun h => setKids h p ((h p).kids.insertIdx index n)   -- self.childNodes.insert(index, newChild)
  upd fun h => setNext h n (some r)                   -- newChild.nextSibling = refChild
  upd fun h => setPrev h r (some n)                   -- refChild.previousSibling = newChild
  linkPrev p n index                                  -- if index: … else: …
  upd fun h => setParent h n (some p)                 -- newChild.parentNode = self

/-- `p.insertBefore(n, ref)` -/
def insertBefore (p n : Id) (ref : Option Id) : M Unit := do
  if (← rd fun h => (h p).kind) ≠ .elem then
    raise .Hierarchy                                  -- Childless.insertBefore
  checkRef p ref                                      -- refChild given but not a child: NotFoundErr
  if ref = some n then                                -- if newChild is refChild: return newChild
    pure ()
  else
    detachIfAttached n                                -- if newChild.parentNode is not None: newChild.parentNode.removeChild(newChild)
    match ref with
    | none => appendChild p n                         -- if refChild is None: self.appendChild(newChild)
    | some r => insertAtRef p n r                     -- else: …

/-! ### Element.addElement / addText / addCDATA -/

/-- object creation (`Text(data)`, `CDATASection(data)`, `Element.__init__` prologue): the
    id now holds a fresh record of the given kind -/
def initNode (i : Id) (k : Kind) (qn : Nat) : M Unit :=
  upd fun h => h.set i { kind := k, qn := qn }

/-- `p.addElement(c)`; `allowed` = `allowed_children is None or c.qname in allowed_children` -/
def addElement (p c : Id) (allowed : Bool) : M Unit := do
  if !allowed then raise .IllegalChild
  appendChild p c

/-- `p.addText(text)`; `t` is the id the new Text node gets; `allowsText` = `qname in
    grammar.allows_text`; `nonempty` = `text != ''` -/
def addText (p t : Id) (allowsText nonempty : Bool) : M Unit := do
  if !allowsText then raise .IllegalText
  if nonempty then
    initNode t .text 0                                -- Text(text)
    appendChild p t

/-- `p.addCDATA(cdata)` -/
def addCDATA (p t : Id) (allowsText : Bool) : M Unit := do
  if !allowsText then raise .IllegalText
  initNode t .cdata 0                                 -- CDATASection(cdata)
  appendChild p t

/-! ### attributes -/

/-- `attributes.get(key)` -/
def lookupAttr (k : Nat) : List (Nat × Nat) → Option Nat
  | [] => none
  | (k', v) :: r => if k' = k then some v else lookupAttr k r

/-- `attributes[key] = v` (an existing key keeps its place, a new one goes last) -/
def storeAttr (k v : Nat) : List (Nat × Nat) → List (Nat × Nat)
  | [] => [(k, v)]
  | (k', v') :: r => if k' = k then (k, v) :: r else (k', v') :: storeAttr k v r

/-- `del attributes[key]` (the key is known to be present) -/
def dropAttr (k : Nat) : List (Nat × Nat) → List (Nat × Nat)
  | [] => []
  | (k', v') :: r => if k' = k then r else (k', v') :: dropAttr k r

/-- `e.setAttrNS(ns, local, value)`; `conv` = what `AttrConverters().convert` does with the
    value: returns the converted value or raises -/
def setAttrNS (e : Id) (key : Nat) (conv : Except Err Nat) : M Unit := do
  match conv with                                     -- the right-hand side is evaluated first
  | .error x => raise x
  | .ok v => upd fun h => setAttrs h e (storeAttr key v (h e).attrs)   -- self.attributes[(ns, local)] = …

/-- `e.setAttribute(attr, value)` (check_grammar=True, attr ≠ 'parent');
    `known` = `allowed_attributes() is not None`, `isTuple` = attr is a (ns, local) pair,
    `allowed` = `attr in allowed_args` -/
def setAttribute (e : Id) (known isTuple allowed : Bool) (key : Nat) (conv : Except Err Nat) : M Unit := do
  if !known then
    if isTuple then setAttrNS e key conv
    else raise .AttributeError
  else
    if !allowed then raise .AttributeError
    setAttrNS e key conv

/-- `e.removeAttribute(attr)` (check_grammar=True) -/
def removeAttribute (e : Id) (known isTuple allowed : Bool) (key : Nat) : M Unit := do
  if !known && !isTuple then raise .AttributeError
  if known && !allowed then raise .AttributeError
  if (← rd fun h => lookupAttr key (h e).attrs) = none then
    raise .KeyError                                   -- del self.attributes[...]
  upd fun h => setAttrs h e (dropAttr key (h e).attrs)

/-- one entry of the constructor's attribute loops -/
inductive AttrArg where
  | viaSet (known isTuple allowed : Bool) (key : Nat) (conv : Except Err Nat)  -- attributes= / keyword: setAttribute
  | viaNS (key : Nat) (conv : Except Err Nat)                                   -- qattributes=: setAttrNS
  | raw (key val : Nat)                                                         -- allowed_attrs is None: attributes[arg] = value

def applyAttr (e : Id) : AttrArg → M Unit
  | .viaSet k t a key conv => setAttribute e k t a key conv
  | .viaNS key conv => setAttrNS e key conv
  | .raw key val => upd fun h => setAttrs h e (storeAttr key val (h e).attrs)

def applyAttrs (e : Id) : List AttrArg → M Unit
  | [] => pure ()
  | a :: r => do applyAttr e a; applyAttrs e r

/-- the required-attribute loop of `Element.__init__` -/
def checkRequired (e : Id) : List Nat → M Unit
  | [] => pure ()
  | r :: rs => do
    if (← rd fun h => lookupAttr r (h e).attrs) = none then raise .AttributeError
    checkRequired e rs

/-- `if text is not None: self.addText(text)`; the pair is (id of the Text node, `text != ''`) -/
def ctorText (self : Id) (allowsText : Bool) : Option (Id × Bool) → M Unit
  | some (t, nonempty) => addText self t allowsText nonempty
  | none => pure ()

/-- `if cdata is not None: self.addCDATA(cdata)` -/
def ctorCData (self : Id) (allowsText : Bool) : Option Id → M Unit
  | some c => addCDATA self c allowsText
  | none => pure ()

/-- `if parent is not None: parent.addElement(self)`; the pair is (parent, grammar verdict) -/
def ctorAttach (self : Id) : Option (Id × Bool) → M Unit
  | some (p, allowed) => addElement p self allowed
  | none => pure ()

/-- `Element.__init__` as called by a factory (`P(text=…, stylename=…, parent=…)`) -/
def construct (self : Id) (qn : Nat) (allowsText : Bool)
    (text : Option (Id × Bool)) (cdata : Option Id)
    (attrs : List AttrArg) (required : List Nat) (parent : Option (Id × Bool)) : M Unit := do
  initNode self .elem qn                              -- childNodes = [], attributes = {}, no parent
  ctorText self allowsText text                       -- if text is not None: self.addText(text)
  ctorCData self allowsText cdata                     -- if cdata is not None: self.addCDATA(cdata)
  applyAttrs self attrs                               -- the three attribute loops
  checkRequired self required                         -- "Required attribute missing"
  ctorAttach self parent                              -- the parent is attached last

/-- `draw.StyleRefElement(stylename=…, classnames=…, **args)` — the wrapper behind the draw / dr3d /
    office:annotation factories: the family of `stylename` and of `classnames[0]` is checked FIRST
    (`pre` = the verdict: ValueError for a wrong family, IndexError/AttributeError → `Other` for an empty
    list or a non-style), only then `Element(qattributes=…, **args)` runs -/
def styleRefConstruct (pre : Except Err Unit) (self : Id) (qn : Nat) (allowsText : Bool)
    (text : Option (Id × Bool)) (cdata : Option Id)
    (attrs : List AttrArg) (required : List Nat) (parent : Option (Id × Bool)) : M Unit := do
  match pre with
  | .error e => raise e                                -- raise ValueError("Style's family must be …")
  | .ok _ => pure ()
  construct self qn allowsText text cdata attrs required parent   -- return Element(qattributes=qattrs, **args)

/-! ### the operations of an edit history -/

inductive Op where
  | newNode (i : Id) (k : Kind) (qn : Nat)
  | append (p c : Id)
  | insertBefore (p n : Id) (ref : Option Id)
  | remove (p c : Id)
  | addElement (p c : Id) (allowed : Bool)
  | addText (p t : Id) (allowsText nonempty : Bool)
  | addCDATA (p t : Id) (allowsText : Bool)
  | setAttribute (e : Id) (known isTuple allowed : Bool) (key : Nat) (conv : Except Err Nat)
  | setAttrNS (e : Id) (key : Nat) (conv : Except Err Nat)
  | removeAttribute (e : Id) (known isTuple allowed : Bool) (key : Nat)

/-- an id that can stand for a newly created Python object: nothing refers to it -/
def Blank (h : Heap) (i : Id) : Prop := (h i).parent = none ∧ (h i).kids = []
instance (h : Heap) (i : Id) : Decidable (Blank h i) := by unfold Blank; exact inferInstance

/-- allocation discipline of the protocol: a creating operation must name an unused id
    (a new Python object is never an existing one); otherwise `Other`, nothing done -/
def fresh (i : Id) : M Unit := do
  if !(← rd fun h => decide (Blank h i)) then raise .Other

def step : Op → M Unit
  | .newNode i k qn => do fresh i; initNode i k qn
  | .append p c => appendChild p c
  | .insertBefore p n ref => insertBefore p n ref
  | .remove p c => removeChild p c
  | .addElement p c a => addElement p c a
  | .addText p t a ne => do fresh t; addText p t a ne
  | .addCDATA p t a => do fresh t; addCDATA p t a
  | .setAttribute e k t a key conv => setAttribute e k t a key conv
  | .setAttrNS e key conv => setAttrNS e key conv
  | .removeAttribute e k t a key => removeAttribute e k t a key

/-- an edit history: every operation runs on the heap its predecessor left, whether that
    one succeeded or raised (the caller catches the exception and goes on) -/
def runOps (h : Heap) : List Op → Heap
  | [] => h
  | op :: r => runOps ((step op).run h).1 r

end OdfModel.Dom

/-
  OdfModel.StyleClash — model of what `load()` and `save()` of odf/opendocument.py do to style definitions
  and style references when content.xml and styles.xml use one style name for two definitions (property C11).
  Code as of /repo after 8f9573d (complete reference list + closure on save), 0015fcf (indexes kept by the
  DOM mutators) and ff5b530 (content.xml seeded from common styles and body only).

  A package is seen in document order, flattened: per part the style definitions and the reference sites.
  Tree shape plays no role in the code modelled here (the index is filled element by element in document order,
  the selection on save only collects names), and the harness flattens real packages the same way.

  Python (odf/opendocument.py, odf/load.py)                   model
  ----------------------------------------------------------  -------------------------------------------------
  `__loadxmlparts`: for xmlfile in (settings.xml, meta.xml,    `load`: cAuto, body (content.xml: automatic-styles
     content.xml, styles.xml): one SAX pass each                 precede the body), then common, sAuto, master
  LoadParser.startElementNS: Element(qattributes=..) then      every definition / reference site is indexed at its
     parent.addElement(e) -> _child_attached ->                   start tag, i.e. in document order, the element
     doc.rebuild_caches(e) (e has no children yet)                itself before what it contains (`indexDef`)
  `office:automatic-styles` of BOTH parts is replaced by        `Doc.auto = cAuto' ++ sAuto'`: one container
     `doc.automaticstyles`
  build_caches(elt):
     if elt.qname == (STYLENS,'style'):                          `Def.isStyle`
         self.__register_stylename(elt)                          `register`
     styleref = elt.getAttrNS(TEXTNS,'style-name')               `rewriteRef`: only `text:style-name`, only through
     if styleref is not None and styleref in _styles_ooo_fix:      the map as it is at that moment
         elt.setAttrNS(TEXTNS,'style-name', fix[styleref])
  __register_stylename(elt):
     name = elt.getAttrNS(STYLENS,'name')
     if elt.parentNode.qname in (office:styles,                  every `Def` of the model sits in one of the two
                                 office:automatic-styles):         containers
         if name in self._styles_dict:                            `d.name ∈ st.dict` (one dictionary keyed by the
             newname = 'M'+name                                      bare name: no family, no part, common and
             self._styles_ooo_fix[name] = newname                   automatic styles alike)
             name = newname; elt.setAttrNS(STYLENS,'name',name)   `mName`
         self._styles_dict[name] = elt
  contentxml(): _used_auto_styles([styles, body])               `save`: C10's `usedAuto` (OdfModel.Styles) on the
     (since ff5b530 the automatic styles are no seed)               flattened containers, with the generated tables
  stylesxml():  _used_auto_styles([masterstyles])                  of followed attributes

  Resolution (`resolve`, the specification side; ODF 1.2 part 1, 16.1/16.2, 19.498 style:name): a reference
  sits in a part; the automatic styles of that part come first, then the common styles (which live in
  styles.xml and serve both parts); a name identifies a style only together with its class — the family of a
  `style:style`, or "data style" / "list style" / "page layout" — which the referring attribute and its
  element fix; within a container the first definition of that class and name.  Automatic styles of the other
  part are never visible.  `style:parent-style-name` / `style:next-style-name` name common styles only.
-/
import OdfModel.Styles
import OdfModel.Generated.StyleRefs
namespace OdfModel.StyleClash
open OdfModel OdfModel.Styles OdfModel.Generated.StyleRefs

/-- a reference site: attribute code (Generated/StyleRefs), the name it holds, the class of style the
    (attribute, host element) pair asks for -/
structure Ref where
  attr : Nat
  name : Str
  cls : Nat
deriving DecidableEq, Repr, Inhabited

/-- a style definition: `isStyle` = the element is `style:style`; `cls` = resolution class (family code, or the
    code of data style / list style / page layout); `marker` tells two definitions of one name apart;
    `refs` = the reference sites on the element and below it, in document order -/
structure Def where
  isStyle : Bool
  cls : Nat
  name : Str
  marker : Nat
  refs : List Ref
deriving DecidableEq, Repr, Inhabited

/-- content.xml = (automatic styles, body);  styles.xml = (common styles, automatic styles, master styles) -/
structure Pkg where
  cAuto : List Def
  body : List Ref
  common : List Def
  sAuto : List Def
  master : List Ref
deriving DecidableEq, Repr, Inhabited

/-- the loaded document -/
structure Doc where
  common : List Def
  auto : List Def
  body : List Ref
  master : List Ref
  fix : List (Str × Str)          -- `_styles_ooo_fix` (latest binding first)
deriving Repr, Inhabited

/-- `_styles_dict` (its keys) and `_styles_ooo_fix` -/
structure LState where
  dict : List Str
  fix : List (Str × Str)
deriving Repr, Inhabited

/-- `u'M'+name` -/
def mName (n : Str) : Str := 77 :: n

/-- the tail of `build_caches` -/
def rewriteRef (fix : List (Str × Str)) (r : Ref) : Ref :=
  if r.attr = a_text_style_name then
    match fix.lookup r.name with
    | some n => { r with name := n }
    | none => r
  else r

/-- `__register_stylename` (called for `style:style` only).  Since fe6d0ae / 29f2068 the collision test is
    `self.__registered_style(name) not in (None, elt)`: the entry of `_styles_dict` counts only while its style is
    attached to this document, still bears the name and sits in office:styles / office:automatic-styles.  During
    `load` every entry satisfies this (nothing is renamed or moved after it was registered) and `elt` is new, so
    the test is `name in _styles_dict`.  The new name is the single 'M'+name (the search for a free name,
    a298761, was withdrawn: it broke two families under one name in styles.xml). -/
def register (st : LState) (d : Def) : LState × Def :=
  if d.isStyle then
    if d.name ∈ st.dict then
      ({ dict := mName d.name :: st.dict, fix := (d.name, mName d.name) :: st.fix }, { d with name := mName d.name })
    else ({ st with dict := d.name :: st.dict }, d)
  else (st, d)

/-- a definition is indexed, then (same call / later calls, nothing registered in between) its references -/
def indexDef (st : LState) (d : Def) : LState × Def :=
  let r := register st d
  (r.1, { r.2 with refs := r.2.refs.map (rewriteRef r.1.fix) })

def indexDefs : LState → List Def → LState × List Def
  | st, [] => (st, [])
  | st, d :: ds =>
    let r := indexDef st d
    let rs := indexDefs r.1 ds
    (rs.1, r.2 :: rs.2)

def afterContentAuto (p : Pkg) : LState × List Def := indexDefs ⟨[], []⟩ p.cAuto
def afterCommon (p : Pkg) : LState × List Def := indexDefs (afterContentAuto p).1 p.common
def afterStylesAuto (p : Pkg) : LState × List Def := indexDefs (afterCommon p).1 p.sAuto

/-- `load`: content.xml, then styles.xml -/
def load (p : Pkg) : Doc :=
  { common := (afterCommon p).2
    auto := (afterContentAuto p).2 ++ (afterStylesAuto p).2
    body := p.body.map (rewriteRef (afterContentAuto p).1.fix)
    master := p.master.map (rewriteRef (afterStylesAuto p).1.fix)
    fix := (afterStylesAuto p).1.fix }

/-! ### several documents in one process, embedded objects -/

/-- `load` of the XML parts of one (sub)document with the index and the rename table as they are in `st`;
    returns the document and the state it leaves behind -/
def loadFrom (st : LState) (p : Pkg) : Doc × LState :=
  let a := indexDefs st p.cAuto
  let c := indexDefs a.1 p.common
  let s := indexDefs c.1 p.sAuto
  ({ common := c.2
     auto := a.2 ++ s.2
     body := p.body.map (rewriteRef a.1.fix)
     master := p.master.map (rewriteRef s.1.fix)
     fix := s.1.fix }, s.1)

/-- a session: the (sub)documents whose XML parts a process reads, in that order — the top-level document of a
    package, then each `Object <n>/` of its manifest (`load()`: `subdoc = OpenDocument(...)`, `__loadxmlparts(z,
    manifest, subdoc, folder)`), then the next package, including a package whose `load()` raises after its parts were
    read (a listed member is missing).  Every one of them is a new `OpenDocument`, and `OpenDocument.__init__` runs
    `clear_caches()`: `_styles_dict` and `_styles_ooo_fix` are attributes of the instance and start empty, whatever
    the documents before it left behind. -/
def loadSession : List Pkg → List Doc
  | [] => []
  | p :: ps => (loadFrom ⟨[], []⟩ p).1 :: loadSession ps

/-- NOT the code: the variant in which the rename table belongs to the process (one table for all documents; the
    index still starts empty).  `Props.C11.finding_shared_rename_table` shows that the property fails for it. -/
def loadSessionSharedFix : List (Str × Str) → List Pkg → List Doc
  | _, [] => []
  | f, p :: ps => (loadFrom ⟨[], f⟩ p).1 :: loadSessionSharedFix (loadFrom ⟨[], f⟩ p).2.fix ps

/-! ### save: C10's selection on the flattened containers -/

def clsAttr : Nat := 1001
def markAttr : Nat := 1002

def refNode (r : Ref) : Node := .elem 1 [(r.attr, r.name), (clsAttr, [r.cls])] []

def defNode (d : Def) : Node :=
  .elem (if d.isStyle then 0 else 2) [(styleNameAttr, d.name), (clsAttr, [d.cls]), (markAttr, [d.marker])]
    (d.refs.map refNode)

def nodeRef : Node → Option Ref
  | .elem _ [(a, n), (_, [c])] [] => some ⟨a, n, c⟩
  | _ => none

def nodeDef : Node → Option Def
  | .elem k [(_, n), (_, [c]), (_, [m])] kids => some ⟨k == 0, c, n, m, kids.filterMap nodeRef⟩
  | _ => none

def defsNode (ds : List Def) : Node := .elem 3 [] (ds.map defNode)
def sitesNode (rs : List Ref) : Node := .elem 4 [] (rs.map refNode)

/-- the configuration of the real `_used_auto_styles`, from the regenerated tables -/
def cfg : Cfg := { single := followedAttrs, list := followedListAttrs, sp := fun c => pySpaceTable.contains c }

/-- the automatic styles `_used_auto_styles(segments)` returns -/
def keptFor (segs : List Node) (auto : List Def) : List Def :=
  (usedAuto cfg segs (defsNode auto)).filterMap nodeDef

/-- `save`: `contentxml()` and `stylesxml()` -/
def save (d : Doc) : Pkg :=
  { cAuto := keptFor [defsNode d.common, sitesNode d.body] d.auto
    body := d.body
    common := d.common
    sAuto := keptFor [sitesNode d.master] d.auto
    master := d.master }

def saveLoad (p : Pkg) : Pkg := save (load p)

/-- the loaded document looked at as a package: ONE automatic-styles container serves body and master pages -/
def memPkg (d : Doc) : Pkg :=
  { cAuto := d.auto, body := d.body, common := d.common, sAuto := d.auto, master := d.master }

/-! ### Resolution (specification side) -/

/-- what resolution looks at: name, class, marker -/
def key (d : Def) : Str × Nat × Nat := (d.name, d.cls, d.marker)

def findKey : List (Str × Nat × Nat) → Str → Nat → Option Nat
  | [], _, _ => none
  | k :: ks, n, c => if k.1 = n ∧ k.2.1 = c then some k.2.2 else findKey ks n c

/-- first definition of class `c` named `n` -/
def findDef (ds : List Def) (n : Str) (c : Nat) : Option Nat := findKey (ds.map key) n c

def commonOnly (a : Nat) : Bool := a == a_style_parent_style_name || a == a_style_next_style_name

/-- automatic styles of the own part first, then the common styles -/
def resolve (autos common : List Def) (r : Ref) : Option Nat :=
  if commonOnly r.attr then findDef common r.name r.cls
  else match findDef autos r.name r.cls with
    | some m => some m
    | none => findDef common r.name r.cls

/-- a reference site of a package -/
inductive Site where
  | body (i : Nat)                       -- i-th reference site of the body
  | master (i : Nat)                     -- i-th reference site of the master styles
  | inContent (owner j : Nat)            -- j-th reference inside the automatic style marked `owner` of content.xml
  | inStyles (owner j : Nat)             -- ... of styles.xml
  | inCommon (owner j : Nat)             -- ... inside a common style
deriving DecidableEq, Repr, Inhabited

def ownerRef : List Def → Nat → Nat → Option Ref
  | [], _, _ => none
  | d :: ds, m, j => if d.marker = m then d.refs[j]? else ownerRef ds m j

def siteRef (p : Pkg) : Site → Option Ref
  | .body i => p.body[i]?
  | .master i => p.master[i]?
  | .inContent m j => ownerRef p.cAuto m j
  | .inStyles m j => ownerRef p.sAuto m j
  | .inCommon m j => ownerRef p.common m j

def autosFor (p : Pkg) : Site → List Def
  | .body _ => p.cAuto
  | .inContent _ _ => p.cAuto
  | .master _ => p.sAuto
  | .inStyles _ _ => p.sAuto
  | .inCommon _ _ => []

/-- the marker of the definition the site resolves to (`none`: no such site, or the reference dangles) -/
def resolveAt (p : Pkg) (s : Site) : Option Nat :=
  match siteRef p s with
  | some r => resolve (autosFor p s) p.common r
  | none => none

def resolveBefore (p : Pkg) (s : Site) : Option Nat := resolveAt p s
def resolveMem (p : Pkg) (s : Site) : Option Nat := resolveAt (memPkg (load p)) s
def resolveAfter (p : Pkg) (s : Site) : Option Nat := resolveAt (saveLoad p) s

/-- every site of a package, in the order the driver reports them -/
def ownerSites (mk : Nat → Nat → Site) (ds : List Def) : List Site :=
  ds.flatMap (fun d => (List.range d.refs.length).map (mk d.marker))

def allSites (p : Pkg) : List Site :=
  (List.range p.body.length).map .body ++ (List.range p.master.length).map .master
    ++ ownerSites .inContent p.cAuto ++ ownerSites .inStyles p.sAuto ++ ownerSites .inCommon p.common

/-! ### The decidable classes of the partial theorem (Props/C11.lean) -/

def names (ds : List Def) : List Str := ds.map (·.name)

/-- **the handled class of packages** (decidable): every definition is a `style:style`; inside each container a
    name occurs once (the index is keyed by the bare name, see `finding_same_part_other_family`); the names of
    common styles are not used by automatic styles (`finding_common_style_renamed`); for a name used by the
    automatic styles of both parts 'M'+name is used nowhere (`finding_mname_taken`) -/
def Handled (p : Pkg) : Prop :=
  (∀ d ∈ p.cAuto ++ p.common ++ p.sAuto, d.isStyle = true) ∧
  (names p.cAuto).Nodup ∧ (names p.common).Nodup ∧ (names p.sAuto).Nodup ∧
  (∀ n ∈ names p.common, n ∉ names p.cAuto ∧ n ∉ names p.sAuto) ∧
  (∀ n ∈ names p.sAuto, n ∈ names p.cAuto →
      mName n ∉ names p.cAuto ∧ mName n ∉ names p.common ∧ mName n ∉ names p.sAuto)

instance (p : Pkg) : Decidable (Handled p) := by unfold Handled; infer_instance

/-- the reference can be seen by `_used_auto_styles` at all: a followed attribute, a non-empty name -/
def Seen (r : Ref) : Prop := r.attr ∈ followedAttrs ∧ r.name ≠ []

instance (r : Ref) : Decidable (Seen r) := by unfold Seen; infer_instance

/-- **the handled sites** (decidable): any reference of the body; a reference of a master page that is
    `text:style-name` or whose name is not used by the automatic styles of both parts -/
def HandledSite (p : Pkg) : Site → Prop
  | .body i => ∀ r, p.body[i]? = some r → Seen r
  | .master i => ∀ r, p.master[i]? = some r →
      Seen r ∧ (r.attr = a_text_style_name ∨ ¬ (r.name ∈ names p.sAuto ∧ r.name ∈ names p.cAuto))
  | _ => False

instance (p : Pkg) (s : Site) : Decidable (HandledSite p s) := by
  cases s <;> simp only [HandledSite] <;> infer_instance

end OdfModel.StyleClash

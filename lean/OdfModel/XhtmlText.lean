/-
  OdfModel.XhtmlText — where the document's character data goes in the XHTML transducer (property C18, completeness).

  `textOf`     the document-derived text of a token list (the `Tok.text` tokens, in order)
  `visMain`    the visible text of running text in document order, note bodies and ignored elements left out
  `visNotes`   the text of the note bodies in document order (the converter moves them to the end)
  `Txt c c' n` node `n` can be converted without losing visible text when the pending data is "clean" (`c = true`: all
               visible text so far is already written) or not, and leaves it clean (`c'`) or not.  It fails exactly where a
               handler purges `self.data` without writing it while visible text is pending: character data directly in an
               element-only container (list item, cell, text box, …) — the ODF content model rules that out (`Props.C18.Block`).
-/
import OdfModel.XhtmlLemmas
namespace OdfModel.Xhtml
open OdfModel OdfModel.Xml OdfModel.Generated.Xhtml

def tokText : Tok → Str
  | .text s => s
  | _ => []

/-- concatenation of the document-derived text tokens -/
def textOf (ts : List Tok) : Str := ts.flatMap tokText

@[simp] theorem textOf_nil : textOf [] = [] := rfl
@[simp] theorem textOf_append (a b : List Tok) : textOf (a ++ b) = textOf a ++ textOf b := by simp [textOf]
@[simp] theorem textOf_cons (t : Tok) (ts : List Tok) : textOf (t :: ts) = tokText t ++ textOf ts := by simp [textOf]
@[simp] theorem textOf_dataToks (d : Str) : textOf (dataToks d) = d := by
  unfold dataToks; split
  · rename_i h; simp at h; simp [h]
  · simp [tokText]
@[simp] theorem textOf_replicate_raw (n : Nat) (r : Raw) : textOf (List.replicate n (.raw r)) = [] := by
  induction n with
  | zero => rfl
  | succ n ih => simp [List.replicate_succ, tokText, ih]
@[simp] theorem textOf_replicate_etag (n : Nat) (t : Str) (a : Attrs) : textOf (List.replicate n (.etag t a)) = [] := by
  induction n with
  | zero => rfl
  | succ n ih => simp [List.replicate_succ, tokText, ih]

/-- text of the collected note bodies, in the order they will be written by generate_footnotes -/
def notesText (ns : List (Option (List Tok))) : Str :=
  ns.flatMap (fun n => match n with | some b => textOf b | none => [])

@[simp] theorem notesText_append (a b : List (Option (List Tok))) : notesText (a ++ b) = notesText a ++ notesText b := by
  simp [notesText]

def isNoteQ (q : Str) : Bool := (dispatch q).1 == some .s_text_note
def isIgnQ (q : Str) : Bool := (dispatch q).1 == some .s_ignorexml

mutual
/-- visible text of running text, in document order; note bodies (moved to the end), note labels (replaced by numbers) and
    the content of ignored elements are not part of it -/
def visMain : Node → Str
  | .text s => s
  | .elem q _ kids => if isNoteQ q || isIgnQ q then [] else visMainL kids
def visMainL : List Node → Str
  | [] => []
  | n :: ns => visMain n ++ visMainL ns
end

mutual
/-- text of the note bodies, in document order -/
def visNotes : Node → Str
  | .text _ => []
  | .elem q _ kids =>
    if isIgnQ q then []
    else if isNoteQ q then
      match kids with
      | [_, .elem _ _ bk] => visMainL bk
      | _ => []
    else visNotesL kids
def visNotesL : List Node → Str
  | [] => []
  | n :: ns => visNotes n ++ visNotesL ns
end

/-- what a handler does with the pending character data -/
inductive TKind where
  | keep    -- leaves `self.data` alone
  | flush   -- writedata() … purgedata()
  | purge   -- purgedata() without writedata()
  deriving DecidableEq, Repr

def hkind : HName → Option TKind
  | .s_text_p | .s_text_h | .s_text_list | .s_text_list_item | .s_table_table | .s_table_table_row
  | .s_table_table_cell | .s_table_table_column => some .purge
  | .s_text_span | .s_text_a | .s_text_bookmark_ref | .s_text_bookmark | .s_text_tab | .s_text_line_break
  | .s_draw_frame | .s_text_s | .s_custom_shape | .s_draw_shape
  | .e_text_p | .e_text_span | .e_text_a | .e_text_h | .e_text_list | .e_text_list_item | .e_table_table
  | .e_table_table_row | .e_table_table_cell => some .flush
  | .e_draw_frame | .e_custom_shape | .s_draw_textbox | .e_draw_textbox | .s_draw_page | .e_draw_page | .s_draw_image => some .keep
  | _ => none

/-- effect of a handler of kind `k` on (written text, pending data); `X` = text the handler itself adds (page names) -/
def TE (k : TKind) (st st1 : St) : Prop :=
  match k with
  | .keep => ∃ X, textOf st1.out = textOf st.out ++ X ∧ st1.data = st.data
  | .flush => ∃ X, textOf st1.out = textOf st.out ++ st.data ++ X ∧ st1.data = []
  | .purge => ∃ X, textOf st1.out = textOf st.out ++ X ∧ st1.data = []

theorem ok3 {α β γ : Type} {a a' : α} {b b' : β} {c c' : γ} (h : (Except.ok (a, b, c) : Except Err (α × β × γ)) = .ok (a', b', c')) :
    a' = a ∧ b' = b ∧ c' = c := by
  injection h with h; injection h with h1 h; injection h with h2 h3
  exact ⟨h1.symm, h2.symm, h3.symm⟩

theorem closetag_inv {t : Str} {b : Bool} {st st1 : St} (h : closetag t b st = .ok st1) : st1 = closePure t b st := by
  unfold closetag at h
  split at h
  · cases h
  · injection h with h; exact h.symm

theorem wcp_inv {t : Str} {b pe pc pe1 pc1 : Bool} {st st1 : St}
    (h : ((closetag t b (writedata st)).map purgedata).map (fun s => (s, pe, pc)) = .ok (st1, pe1, pc1)) :
    st1 = purgedata (closePure t b (writedata st)) ∧ pe1 = pe ∧ pc1 = pc := by
  unfold closetag at h
  split at h
  · cases h
  · exact ok3 h

theorem c_inv {t : Str} {b pe pc pe1 pc1 : Bool} {st st1 : St}
    (h : (closetag t b st).map (fun s => (s, pe, pc)) = .ok (st1, pe1, pc1)) :
    st1 = closePure t b st ∧ pe1 = pe ∧ pc1 = pc := by
  unfold closetag at h
  split at h
  · cases h
  · exact ok3 h

syntax "te_done" : tactic
macro_rules
  | `(tactic| te_done) => `(tactic| (exact ⟨rfl, rfl, ⟨[], by simp [tokText, emitN_out], by simp⟩, by simp, by simp⟩))

/-- **what every handler of running text does with the pending data** (kinds: see `hkind`), and that it keeps the flags -/
theorem runH_te (cfg : Cfg) (ctx : Ctx) (h : HName) (q : Str) (a : Attrs) (pe pc : Bool) (st st1 : St) (pe1 pc1 : Bool)
    (k : TKind) (hk : hkind h = some k) (hr : runH cfg ctx h q a pe pc st = .ok (st1, pe1, pc1)) :
    pe1 = pe ∧ pc1 = pc ∧ TE k st st1 ∧ st1.notes = st.notes ∧ st1.saved = st.saved := by
  cases h <;> simp only [hkind] at hk <;> (try cases hk) <;> (try (cases hk; done))
  case e_draw_frame => obtain ⟨rfl, rfl, rfl⟩ := c_inv hr; te_done
  case e_custom_shape => obtain ⟨rfl, rfl, rfl⟩ := c_inv hr; te_done
  case e_draw_page => obtain ⟨rfl, rfl, rfl⟩ := c_inv hr; te_done
  case e_draw_textbox => obtain ⟨rfl, rfl, rfl⟩ := c_inv hr; te_done
  case e_table_table => obtain ⟨rfl, rfl, rfl⟩ := wcp_inv hr; te_done
  case e_table_table_cell => obtain ⟨rfl, rfl, rfl⟩ := wcp_inv hr; te_done
  case e_table_table_row => obtain ⟨rfl, rfl, rfl⟩ := wcp_inv hr; te_done
  case e_text_a => obtain ⟨rfl, rfl, rfl⟩ := wcp_inv hr; te_done
  case e_text_list => obtain ⟨rfl, rfl, rfl⟩ := wcp_inv hr; te_done
  case e_text_list_item => obtain ⟨rfl, rfl, rfl⟩ := wcp_inv hr; te_done
  case e_text_p => obtain ⟨rfl, rfl, rfl⟩ := wcp_inv hr; te_done
  case e_text_span => obtain ⟨rfl, rfl, rfl⟩ := wcp_inv hr; te_done
  case e_text_h =>
    simp only [runH] at hr
    split at hr
    · cases hr
    · rename_i level _
      simp only [bind, Except.bind, pure, Except.pure] at hr
      rw [closetag_ok _ _ _ (by simp)] at hr
      simp only [] at hr
      unfold closetag at hr
      split at hr
      · cases hr
      · rename_i v hv
        split at hv
        · cases hv
        · injection hv with hv; subst hv
          obtain ⟨rfl, rfl, rfl⟩ := ok3 hr
          te_done
  case s_draw_frame =>
    simp only [runH] at hr
    split at hr <;> (obtain ⟨rfl, rfl, rfl⟩ := ok3 hr; te_done)
  case s_custom_shape =>
    simp only [runH] at hr
    split at hr <;> (obtain ⟨rfl, rfl, rfl⟩ := ok3 hr; te_done)
  case s_draw_shape => obtain ⟨rfl, rfl, rfl⟩ := ok3 hr; te_done
  case s_draw_image =>
    simp only [runH] at hr
    split at hr
    · cases hr
    · split at hr
      · cases hr
      · obtain ⟨rfl, rfl, rfl⟩ := ok3 hr; te_done
  case s_draw_page =>
    simp only [runH] at hr
    by_cases hc : cfg.css = true
    · rw [if_pos hc] at hr
      obtain ⟨rfl, rfl, rfl⟩ := c_inv hr
      exact ⟨rfl, rfl, ⟨(a.lookup kDrawName).getD sNoName, by simp [tokText], by simp⟩, by simp, by simp⟩
    · rw [if_neg hc] at hr
      obtain ⟨rfl, rfl, rfl⟩ := c_inv hr
      exact ⟨rfl, rfl, ⟨(a.lookup kDrawName).getD sNoName, by simp [tokText], by simp⟩, by simp, by simp⟩
  case s_draw_textbox => obtain ⟨rfl, rfl, rfl⟩ := ok3 hr; te_done
  case s_table_table => obtain ⟨rfl, rfl, rfl⟩ := ok3 hr; te_done
  case s_table_table_cell => obtain ⟨rfl, rfl, rfl⟩ := ok3 hr; te_done
  case s_table_table_column =>
    simp only [runH] at hr
    split at hr
    · cases hr
    · obtain ⟨rfl, rfl, rfl⟩ := ok3 hr; te_done
  case s_table_table_row => obtain ⟨rfl, rfl, rfl⟩ := ok3 hr; te_done
  case s_text_a =>
    simp only [runH] at hr
    split at hr
    · cases hr
    · obtain ⟨rfl, rfl, rfl⟩ := ok3 hr
      refine ⟨rfl, rfl, ⟨[], ?_, by simp⟩, ?_, ?_⟩ <;> (split <;> simp [tokText])
  case s_text_bookmark =>
    simp only [runH] at hr
    split at hr
    · cases hr
    · rw [closetag_ok _ _ _ (by simp)] at hr
      obtain ⟨rfl, rfl, rfl⟩ := ok3 hr; te_done
  case s_text_bookmark_ref =>
    simp only [runH] at hr
    split at hr
    · cases hr
    · obtain ⟨rfl, rfl, rfl⟩ := ok3 hr; te_done
  case s_text_h =>
    simp only [runH] at hr
    split at hr
    · cases hr
    · obtain ⟨rfl, rfl, rfl⟩ := ok3 hr; te_done
  case s_text_line_break => obtain ⟨rfl, rfl, rfl⟩ := ok3 hr; te_done
  case s_text_list => obtain ⟨rfl, rfl, rfl⟩ := ok3 hr; te_done
  case s_text_list_item => obtain ⟨rfl, rfl, rfl⟩ := ok3 hr; te_done
  case s_text_p => obtain ⟨rfl, rfl, rfl⟩ := ok3 hr; te_done
  case s_text_s =>
    simp only [runH] at hr
    split at hr
    · cases hr
    · obtain ⟨rfl, rfl, rfl⟩ := ok3 hr; te_done
  case s_text_span => obtain ⟨rfl, rfl, rfl⟩ := ok3 hr; te_done
  case s_text_tab => obtain ⟨rfl, rfl, rfl⟩ := ok3 hr; te_done

/-! ### the cleanliness judgement and the induction -/

/-- how a handler of kind `k` changes "clean" (all visible text so far is written): purge needs a clean start -/
def step : TKind → Bool → Bool → Prop
  | .keep, c, c' => c' = c
  | .flush, _, c' => c' = true
  | .purge, c, c' => c = true ∧ c' = true

/-- the visible text so far `V` is in the written text (clean) / in the written text followed by the pending data -/
def Pre (c : Bool) (V : Str) (st : St) : Prop :=
  if c = true then V.Sublist (textOf st.out) else V.Sublist (textOf st.out ++ st.data)

theorem Pre.dirty {c : Bool} {V : Str} {st : St} (h : Pre c V st) : V.Sublist (textOf st.out ++ st.data) := by
  unfold Pre at h
  split at h
  · exact h.trans (List.sublist_append_left _ _)
  · exact h

theorem pre_step {k : TKind} {st st1 : St} {c c1 : Bool} {V : Str} (hte : TE k st st1) (hs : step k c c1) (hp : Pre c V st) :
    Pre c1 V st1 := by
  cases k with
  | keep =>
    obtain ⟨X, hT, hD⟩ := hte
    simp only [step] at hs; subst hs
    unfold Pre at hp ⊢
    split
    · rename_i hc; rw [if_pos hc] at hp; rw [hT]; exact hp.trans (List.sublist_append_left _ _)
    · rename_i hc; rw [if_neg hc] at hp; rw [hT, hD, List.append_assoc]
      exact hp.trans (List.Sublist.append (List.Sublist.refl _) (List.sublist_append_right _ _))
  | flush =>
    obtain ⟨X, hT, _⟩ := hte
    simp only [step] at hs; subst hs
    unfold Pre; rw [if_pos rfl, hT]
    exact hp.dirty.trans (List.sublist_append_left _ _)
  | purge =>
    obtain ⟨X, hT, _⟩ := hte
    obtain ⟨h1, h2⟩ := hs; subst h1; subst h2
    unfold Pre at hp ⊢; rw [if_pos rfl] at hp ⊢; rw [hT]
    exact hp.trans (List.sublist_append_left _ _)

mutual
/-- `Txt b c c' n`: `Flow b n`, and no handler purges the pending data while visible text is pending, when the data is
    clean (`c`) on entry; it is clean (`c'`) on exit -/
inductive Txt : Bool → Bool → Bool → Node → Prop
  | text (b c s) : Txt b c false (.text s)
  | transparent (b c c' q a kids) : dispatch q = (none, none) → TxtL b c c' kids → Txt b c c' (.elem q a kids)
  | ignored (b c q a kids he) : dispatch q = (some .s_ignorexml, he) → Txt b c c (.elem q a kids)
  | bracket (b c c1 c2 c' q a kids hs he ks ke) : dispatch q = (some hs, some he) → BracketH hs he a →
      hkind hs = some ks → hkind he = some ke → step ks c c1 → TxtL b c1 c2 kids → step ke c2 c' →
      Txt b c c' (.elem q a kids)
  | leaf (b c c1 c' q a kids hs k) : dispatch q = (some hs, none) → LeafH hs a → hkind hs = some k → step k c c1 →
      TxtL b c1 c' kids → Txt b c c' (.elem q a kids)
  | note (c q a qc ac) (cite : List Str) (qb ab kids) : dispatch q = (some .s_text_note, none) →
      dispatch qc = (none, some .e_text_note_citation) →
      dispatch qb = (some .s_text_note_body, some .e_text_note_body) → TxtL true true true kids →
      Txt false c true (.elem q a [.elem qc ac (cite.map Node.text), .elem qb ab kids])
inductive TxtL : Bool → Bool → Bool → List Node → Prop
  | nil (b c) : TxtL b c c []
  | cons (b c c1 c2 n ns) : Txt b c c1 n → TxtL b c1 c2 ns → TxtL b c c2 (n :: ns)
end

mutual
theorem Txt.flow {b c c' : Bool} {n : Node} (h : Txt b c c' n) : Flow b n := by
  cases h with
  | text => exact .text _ _
  | transparent _ _ _ q a kids hd hk => exact .transparent _ q a kids hd hk.flow
  | ignored _ _ q a kids he hd => exact .ignored _ q a kids he hd
  | bracket _ _ c1 c2 _ q a kids hs he ks ke hd hb _ _ _ hk _ => exact .bracket _ q a kids hs he hd hb hk.flow
  | leaf _ _ c1 _ q a kids hs k hd hl _ _ hk => exact .leaf _ q a kids hs hd hl hk.flow
  | note _ q a qc ac cite qb ab kids hd hdc hdb hk => exact .note q a qc ac cite qb ab kids hd hdc hdb hk.flow
termination_by sizeOf n
theorem TxtL.flow {b c c' : Bool} {l : List Node} (h : TxtL b c c' l) : FlowL b l := by
  cases h with
  | nil => exact .nil _
  | cons _ _ c1 _ n ns hn hns => exact .cons _ n ns hn.flow hns.flow
termination_by sizeOf l
end

/-- where the visible text of a piece of running text (`vm` in the main flow, `vn` in note bodies) has gone -/
structure TxtFacts (c c' : Bool) (vm vn : Str) (st st' : St) : Prop where
  main : ∀ V, Pre c V st → Pre c' (V ++ vm) st'
  notes : ∀ W : Str, W.Sublist (notesText st.notes) → (W ++ vn).Sublist (notesText st'.notes)

theorem TxtFacts.refl (c : Bool) (st : St) : TxtFacts c c [] [] st st :=
  ⟨fun V h => by simpa using h, fun W h => by simpa using h⟩

theorem TxtFacts.trans {c c1 c2 : Bool} {vm1 vm2 vn1 vn2 : Str} {s1 s2 s3 : St} (h1 : TxtFacts c c1 vm1 vn1 s1 s2)
    (h2 : TxtFacts c1 c2 vm2 vn2 s2 s3) : TxtFacts c c2 (vm1 ++ vm2) (vn1 ++ vn2) s1 s3 :=
  ⟨fun V h => by rw [← List.append_assoc]; exact h2.main _ (h1.main V h),
   fun W h => by rw [← List.append_assoc]; exact h2.notes _ (h1.notes W h)⟩

/-- a handler step -/
theorem TxtFacts.of_te {k : TKind} {st st1 : St} {c c1 : Bool} (hte : TE k st st1) (hs : step k c c1)
    (hn : st1.notes = st.notes) : TxtFacts c c1 [] [] st st1 :=
  ⟨fun V h => by simpa using pre_step hte hs h, fun W h => by simpa [hn] using h⟩

theorem hkind_not_special {h : HName} {k : TKind} (hk : hkind h = some k) : h ≠ .s_text_note ∧ h ≠ .s_ignorexml := by
  cases h <;> simp [hkind] at hk <;> simp

theorem vis_plain {q : Str} (a : Attrs) (kids : List Node) (h1 : isNoteQ q = false) (h2 : isIgnQ q = false) :
    visMain (.elem q a kids) = visMainL kids ∧ visNotes (.elem q a kids) = visNotesL kids := by
  simp [visMain, visNotes, h1, h2]

theorem vis_of_start {q : Str} {hs : HName} {he : Option HName} {k : TKind} (a : Attrs) (kids : List Node)
    (hd : dispatch q = (some hs, he)) (hk : hkind hs = some k) :
    visMain (.elem q a kids) = visMainL kids ∧ visNotes (.elem q a kids) = visNotesL kids := by
  obtain ⟨h1, h2⟩ := hkind_not_special hk
  apply vis_plain
  · simp [isNoteQ, hd, h1]
  · simp [isIgnQ, hd, h2]

theorem Pre_text {c : Bool} {V s : Str} {st : St} (h : Pre c V st) : Pre false (V ++ s) { st with data := st.data ++ s } := by
  unfold Pre
  simp only [Bool.false_eq_true, if_false]
  rw [← List.append_assoc]
  exact List.Sublist.append h.dirty (List.Sublist.refl _)

mutual
/-- **where the text goes**: running text that is `Txt` is converted without error, with the effect `Eff` of `walk_flow`,
    and its visible text is in the written text (or still pending, if `c' = false`) behind everything that was there
    before, in document order; the text of its note bodies is in the collected notes, in order -/
theorem walk_txt (cfg : Cfg) (n : Node) (b c c' : Bool) (ctx : Ctx) (st : St) (ht : Txt b c c' n) (hpe : ctx.pe = true)
    (hpc : ctx.pc = true) (hst : ctx.stack ≠ []) (hi : Inv b st) :
    ∃ st', walk cfg ctx st n = .ok st' ∧ Eff b st st' ∧ TxtFacts c c' (visMain n) (visNotes n) st st' := by
  cases ht with
  | text _ _ s =>
    refine ⟨{ st with data := st.data ++ s }, by simp [walk, hpe, hpc], Eff.of_data hi _, ?_, ?_⟩
    · intro V h; simpa [visMain] using Pre_text h
    · intro W h; simpa [visNotes] using h
  | transparent _ _ _ q a kids hd hk =>
    obtain ⟨st2, h2, e2, t2⟩ := walkList_txt cfg kids b c c' ⟨(q, a) :: ctx.stack, ctx.pe, ctx.pc⟩ st hk hpe hpc (by simp) hi
    obtain ⟨v1, v2⟩ := vis_plain (q := q) a kids (by simp [isNoteQ, hd]) (by simp [isIgnQ, hd])
    refine ⟨st2, ?_, e2, by rw [v1, v2]; exact t2⟩
    rw [walk_elem _ _ _ _ _ _ hpe]
    simp only [hpe] at h2
    simp [startEl, endEl, hd, h2, hpe]
  | ignored _ _ q a kids he hd =>
    have v1 : visMain (.elem q a kids) = [] := by simp [visMain, isIgnQ, hd]
    have v2 : visNotes (.elem q a kids) = [] := by simp [visNotes, isIgnQ, hd]
    refine ⟨st, ?_, Eff.refl hi, by rw [v1, v2]; exact TxtFacts.refl c st⟩
    rw [walk_elem _ _ _ _ _ _ hpe]
    simp [startEl, hd, runH, walkList_dead]
  | bracket _ _ c1 c2 _ q a kids hs he ks ke hd hb hks hke hs1' hk hs2' =>
    obtain ⟨t, ho, hc⟩ := bracket_spec hb cfg ctx q ctx.pe ctx.pc st
    obtain ⟨st1, hr1, hd1, hs1, hb1⟩ := ho
    have hi1 : Inv b st1 := ⟨by rw [hs1.saved]; exact hi.1, by rw [hs1.nbOpen]; exact hi.2.1, by rw [hs1.cur, hs1.notes]; exact hi.2.2⟩
    obtain ⟨st2, h2, e2, t2⟩ := walkList_txt cfg kids b c1 c2 ⟨(q, a) :: ctx.stack, ctx.pe, ctx.pc⟩ st1 hk hpe hpc (by simp) hi1
    obtain ⟨st3, pe3, pc3, hr3, hd3, hs3, hb3⟩ := hc st2 ctx.pe ctx.pc (by rw [e2.listtypes, hs1.listtypes]) (by rw [e2.depth, hd1]; omega)
    obtain ⟨_, _, te1, hn1, _⟩ := runH_te cfg ctx hs q a ctx.pe ctx.pc st st1 _ _ ks hks hr1
    obtain ⟨_, _, te3, hn3, _⟩ := runH_te cfg ctx he q a ctx.pe ctx.pc st2 st3 _ _ ke hke hr3
    obtain ⟨v1, v2⟩ := vis_of_start a kids hd hks
    refine ⟨st3, ?_, ?_, ?_⟩
    · rw [walk_elem _ _ _ _ _ _ hpe]
      simp only [hpe] at h2 hr1 hr3
      simp [startEl, endEl, hd, hr1, h2, hpe, hr3, Except.map]
    · obtain ⟨N, hN, okN, nN⟩ := e2.notes
      have hdd := e2.depth
      refine ⟨by omega, ?_, ?_, ?_, ?_, ⟨N, ?_, okN, nN⟩, ?_⟩
      · rw [hs3.saved, e2.saved, hs1.saved]
      · rw [hs3.nbOpen, e2.nbOpen, hs1.nbOpen]
      · rw [hs3.listtypes, e2.listtypes, hs1.listtypes]
      · rw [hs3.cur, hs3.notes]; exact e2.cur
      · rw [hs3.notes, hN, hs1.notes]
      · intro s S h; exact hb3 s S (e2.stack s _ (hb1 s S h))
    · rw [v1, v2]
      have := ((TxtFacts.of_te te1 hs1' hn1).trans t2).trans (TxtFacts.of_te te3 hs2' hn3)
      simpa using this
  | leaf _ _ c1 _ q a kids hs k hd hl hk' hs1' hk =>
    obtain ⟨st1, hr1, hd1, hs1, hb1⟩ := leaf_spec hl cfg ctx hst q ctx.pe ctx.pc st
    have e1 : Eff b st st1 := Eff.of_same hi hd1 hs1 hb1
    obtain ⟨st2, h2, e2, t2⟩ := walkList_txt cfg kids b c1 c' ⟨(q, a) :: ctx.stack, ctx.pe, ctx.pc⟩ st1 hk hpe hpc (by simp) (e1.inv hi)
    obtain ⟨_, _, te1, hn1, _⟩ := runH_te cfg ctx hs q a ctx.pe ctx.pc st st1 _ _ k hk' hr1
    obtain ⟨v1, v2⟩ := vis_of_start a kids hd hk'
    refine ⟨st2, ?_, e1.trans e2, ?_⟩
    · rw [walk_elem _ _ _ _ _ _ hpe]
      simp only [hpe] at h2 hr1
      simp [startEl, endEl, hd, hr1, h2, hpe]
    · rw [v1, v2]
      have := (TxtFacts.of_te te1 hs1' hn1).trans t2
      simpa using this
  | note _ q a qc ac cite qb ab kids hd hdc hdb hk =>
    have hsv : st.saved = none := by
      have h1 := hi.1
      cases h : st.saved with
      | none => rfl
      | some x => rw [h] at h1; simp at h1
    have hnb : st.nbOpen = false := hi.2.1
    have hcur : st.cur = st.notes.length := hi.2.2
    let st1 : St := { purgedata (writedata st) with cur := st.cur + 1, notes := st.notes ++ [none], nbOpen := true }
    have hr1 : runH cfg ctx .s_text_note q a true ctx.pc st = .ok (st1, true, ctx.pc) := by simp [runH, hsv, st1]
    obtain ⟨d, hcit⟩ := walkList_texts cfg ⟨(qc, ac) :: (q, a) :: ctx.stack, true, ctx.pc⟩ st1 cite
    let st1d : St := { st1 with data := d }
    let st2 : St := closePure nA true (closePure nSup true (emit (.raw (.num st1d.cur))
      (opentag nSup [] false (opentag nA [(aHref, sHashFootnote ++ natToStr st1d.cur)] false st1d))))
    have hr2 : runH cfg ⟨(q, a) :: ctx.stack, true, ctx.pc⟩ .e_text_note_citation qc ac true ctx.pc st1d = .ok (st2, true, ctx.pc) := by
      rw [citation_spec _ _ _ _ _ _ _ (by simp [st1d, st1]) (by simp [st1d, st1, hcur])]
    let st3 : St := { st2 with saved := some st2.out, out := [] }
    have hr3 : runH cfg ⟨(q, a) :: ctx.stack, true, ctx.pc⟩ .s_text_note_body qb ab true ctx.pc st2 = .ok (st3, true, ctx.pc) := by
      simp [runH, st3, st2, st1d, st1, hsv]
    have hi3 : Inv true st3 := ⟨rfl, rfl, by simp [st3, st2, st1d, st1, hcur]⟩
    obtain ⟨st4, h4, e4, t4⟩ := walkList_txt cfg kids true true true ⟨(qb, ab) :: (q, a) :: ctx.stack, true, ctx.pc⟩ st3 hk rfl hpc (by simp) hi3
    obtain ⟨N4, hN4, _, nN4⟩ := e4.notes
    have hN4' : st4.notes = st.notes ++ [none] := by rw [hN4, nN4 rfl]; simp [st3, st2, st1d, st1]
    have hcur4 : st4.cur = st.notes.length + 1 := by rw [e4.cur, hN4']; simp
    have hsv4 : st4.saved = some st2.out := by rw [e4.saved]
    let st5 : St := { st4 with out := st2.out, saved := none, notes := st.notes ++ [some st4.out], nbOpen := false }
    have hr5 : runH cfg ⟨(q, a) :: ctx.stack, true, ctx.pc⟩ .e_text_note_body qb ab true ctx.pc st4 = .ok (st5, true, ctx.pc) := by
      simp [runH, hsv4, hcur4, hN4', st5, set_last]
    have hbody : Balanced st4.out := fun s => e4.stack s s rfl
    have v1 : visMain (.elem q a [.elem qc ac (cite.map Node.text), .elem qb ab kids]) = [] := by simp [visMain, isNoteQ, hd]
    have v2 : visNotes (.elem q a [.elem qc ac (cite.map Node.text), .elem qb ab kids]) = visMainL kids := by
      simp [visNotes, isNoteQ, isIgnQ, hd]
    refine ⟨st5, ?_, ?_, ?_⟩
    · rw [walk_elem _ _ _ _ _ _ hpe]
      simp only [startEl, hd, hpe, hr1]
      simp only [walkList]
      rw [walk_elem _ _ _ _ _ _ rfl]
      simp only [startEl, endEl, hdc, hcit]
      simp only [st1d] at hr2
      simp only [hr2, Except.map, if_true]
      rw [walk_elem _ _ _ _ _ _ rfl]
      simp only [startEl, endEl, hdb, hr3, h4, hr5, Except.map, if_true, hd]
    · refine ⟨?_, ?_, ?_, ?_, ?_, ⟨[some st4.out], rfl, ?_, fun h => nomatch h⟩, ?_⟩
      · have := e4.depth; simp [st5, this, st3, st2, st1d, st1]
      · simp [st5, hsv]
      · simp [st5, hnb]
      · have := e4.listtypes; simp [st5, this, st3, st2, st1d, st1]
      · simp [st5, hcur4]
      · intro x hx; simp at hx; exact ⟨st4.out, hx, hbody⟩
      · intro s S h
        simp [st5, st2, st1d, st1, bal_append, h, bal, br]
    · rw [v1, v2]
      constructor
      · intro V h
        have hT : textOf st5.out = textOf st.out ++ st.data := by simp [st5, st2, st1d, st1, tokText]
        unfold Pre; rw [if_pos rfl, hT]; simpa using h.dirty
      · intro W h
        have hb : (visMainL kids).Sublist (textOf st4.out) := by
          have := t4.main [] (by unfold Pre; simp)
          unfold Pre at this; simpa using this
        have hN : notesText st5.notes = notesText st.notes ++ textOf st4.out := by simp [st5, notesText]
        rw [hN]; exact List.Sublist.append h hb
termination_by sizeOf n

theorem walkList_txt (cfg : Cfg) (l : List Node) (b c c' : Bool) (ctx : Ctx) (st : St) (ht : TxtL b c c' l) (hpe : ctx.pe = true)
    (hpc : ctx.pc = true) (hst : ctx.stack ≠ []) (hi : Inv b st) :
    ∃ st', walkList cfg ctx st l = .ok st' ∧ Eff b st st' ∧ TxtFacts c c' (visMainL l) (visNotesL l) st st' := by
  cases ht with
  | nil => exact ⟨st, by simp [walkList], Eff.refl hi, by simpa [visMainL, visNotesL] using TxtFacts.refl c st⟩
  | cons _ _ c1 _ n ns hn hns =>
    obtain ⟨st1, h1, e1, t1⟩ := walk_txt cfg n b c c1 ctx st hn hpe hpc hst hi
    obtain ⟨st2, h2, e2, t2⟩ := walkList_txt cfg ns b c1 c' ctx st1 hns hpe hpc hst (e1.inv hi)
    exact ⟨st2, by simp [walkList, h1, h2], e1.trans e2, by simpa [visMainL, visNotesL] using t1.trans t2⟩
termination_by sizeOf l
end

/-! ### text of the skeleton -/

@[simp] theorem textOf_cssToks (c : Str) : textOf (cssToks c) = [] := by
  unfold cssToks; split <;> simp [tokText]

theorem htmlBody_text (cfg : Cfg) (st st' : St) (h : htmlBody cfg st = .ok st') :
    textOf st'.out = textOf st.out ++ st.data := by
  unfold htmlBody at h
  by_cases hc : cfg.css = true
  · simp only [hc, if_true, bind, Except.bind, pure, Except.pure] at h
    rw [closetag_ok _ _ _ (by simp)] at h
    simp only [] at h
    generalize hX : purgedata (closePure nStyle true (emit (Tok.raw Raw.cdataClose) (emitCss cfg.cssText
      (emit (Tok.raw Raw.defaultStyles) (emit (Tok.raw Raw.cdataOpen) (opentag nStyle [(aType, sTextCss)] true (writedata st))))))) = X at h
    cases hct : closetag nHead true X with
    | error e => rw [hct] at h; cases h
    | ok v =>
      rw [hct] at h
      have e := closetag_inv hct
      injection h with h
      subst h; subst e; subst hX
      simp [tokText]
  · have hc' : cfg.css = false := by cases h : cfg.css <;> simp_all
    simp only [hc', bind, Except.bind, pure, Except.pure] at h
    rw [if_neg (by simp)] at h
    simp only [] at h
    cases hct : closetag nHead true (purgedata (writedata st)) with
    | error e => rw [hct] at h; cases h
    | ok v =>
      rw [hct] at h
      have e := closetag_inv hct
      injection h with h
      subst h; subst e
      simp [tokText]

theorem footnoteItems_text (ns : List (Option (List Tok))) (k : Nat) (st st' : St) (h : footnoteItems ns k st = .ok st') :
    textOf st'.out = textOf st.out ++ notesText ns := by
  induction ns generalizing k st with
  | nil => simp [footnoteItems] at h; subst h; simp [notesText]
  | cons n ns ih =>
    cases n with
    | none => simp [footnoteItems] at h
    | some body =>
      simp only [footnoteItems] at h
      rw [closetag_ok _ _ _ (by simp)] at h
      have := ih (k + 1) _ h
      rw [this]
      simp [notesText, tokText]

theorem generateFootnotes_text (cfg : Cfg) (st st' : St) (hcur : st.cur = st.notes.length)
    (h : generateFootnotes cfg st = .ok st') : textOf st'.out = textOf st.out ++ notesText st.notes := by
  unfold generateFootnotes at h
  by_cases hc : st.cur = 0
  · simp only [hc, if_true] at h
    injection h with h; subst h
    have : st.notes = [] := by rw [hc] at hcur; exact List.eq_nil_of_length_eq_zero hcur.symm
    simp [this, notesText]
  · simp only [hc, if_false, bind, Except.bind] at h
    split at h
    · cases h
    · rename_i st1 h1
      have e := closetag_inv h
      subst e
      have t1 := footnoteItems_text _ _ _ _ h1
      by_cases hcss : cfg.css = true
      · simp only [hcss, if_true] at t1
        simp [t1, tokText]
      · have hcss' : cfg.css = false := by cases h : cfg.css <;> simp_all
        simp only [hcss'] at t1
        rw [if_neg (by simp)] at t1
        simp [t1, tokText]

end OdfModel.Xhtml

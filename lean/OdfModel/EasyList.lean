/-
  OdfModel.EasyList — model of odf/easyliststyle.py (property C20).

  `styleFromList(styleName, specArray, spacing, showAllLevels)`, statement by statement:
    * `cssLengthPattern.search(spacing)` with `(G1)\s*([U]+)?` = `cssSplit`: the leftmost position at which the number
      regex G1 matches; group 1 is the LONGEST match of G1 there (for the regex in the source — all quantifiers greedy, the
      two alternatives start with different characters, everything after the digits optional — Python's first match is
      the longest one; this identification is tied by correspondence); then white space is skipped and group 2 /
      `cssLengthUnits` is the run of unit characters, lower-cased (`m.group(2).lower()`; "" when absent).
    * `cssLengthNum = float(m.group(1))`, `_lengthNumber(cssLengthNum, text, i+1)` and `_lengthNumber(cssLengthNum, text, 1)`
      (since /repo fe67379: `str(num * factor)`, written out positionally from the decimal text where Python would use an
      exponent or `inf`) are NOT modelled: Python's float parsing, multiplication, repr and `Decimal` are a PARAMETER
      (`FloatOracle`) — checked by correspondence only.
    * the `while` loop = `levelsFrom`; per specification `mkLevel`:
        `numFormatPattern.search(specification)` with `([1IiAa])` = `findFmt` (first format character);
        prefix = text before it, suffix = text after it, displayLevels = i+1 | 1;
        otherwise a bullet level with `bullet[0]` (IndexError for an empty specification).
    * `ListStyle(name=styleName)` = `StyleElement`: style:name goes through cnv_NCName/make_NCName (`makeNCName`),
      style:display-name is set to the name as given.
  `styleFromString` = `specifiers.split(delim)` (non-empty delimiter; `split`) then `styleFromList`.

  The two character classes are regenerated from the source on every run (Generated/EasyListRe.lean).
-/
import OdfModel.Regex
import OdfModel.AttrConv
import OdfModel.Generated.EasyListRe
namespace OdfModel.EasyList
open OdfModel OdfModel.Regex

inductive Err where
  | valueError    -- float() of the spacing number failed / empty delimiter
  | indexError    -- `bullet[0]` of an empty specification
deriving DecidableEq, Repr

/-- one of the numbering format characters (`1IiAa` in the pinned tree) -/
def isFmt (c : Cp) : Bool := inRanges c Generated.EasyListRe.fmtRanges
/-- a unit character (`a-zA-Z`) -/
def isUnit (c : Cp) : Bool := inRanges c Generated.EasyListRe.unitRanges

/-- `numFormatPattern.search(spec)`: (text before, format character, text after) of the first format character -/
def findFmt (spec : Str) : Option (Str × Cp × Str) :=
  match spec.dropWhile (fun c => !isFmt c) with
  | [] => none
  | c :: suf => some (spec.takeWhile (fun c => !isFmt c), c, suf)

def isSpace (c : Cp) : Bool := inRanges c Generated.EasyListRe.spaceRanges

/-- length of the longest prefix of `s` that is in `L(r)` -/
def longestPrefix : RE → Str → Option Nat
  | r, [] => if nullable r then some 0 else none
  | r, c :: t =>
    match longestPrefix (deriv c r) t with
    | some n => some (n + 1)
    | none => if nullable r then some 0 else none

/-- `re.search` for a regex after which everything is optional: leftmost start, longest match there;
    result = (text before, the match, text after) -/
def searchLongest (r : RE) : Str → Option (Str × Str × Str)
  | [] => if nullable r then some ([], [], []) else none
  | c :: t =>
    match longestPrefix r (c :: t) with
    | some n => some ([], (c :: t).take n, (c :: t).drop n)
    | none =>
      match searchLongest r t with
      | some (pre, g, post) => some (c :: pre, g, post)
      | none => none

/-- `m.group(2).lower()` / `m.group(2)` -/
def unitCase (u : Str) : Str := if Generated.EasyListRe.lowerUnit then Attr.lower u else u

/-- `cssLengthPattern.search(spacing)`: (group 1, cssLengthUnits) -/
def cssSplit (spacing : Str) : Option (Str × Str) :=
  match searchLongest Generated.EasyListRe.numRE spacing with
  | none => none
  | some (_, g, post) => some (g, unitCase ((post.dropWhile isSpace).takeWhile isUnit))

/-- what Python's `float`, `*` and `str` do with group 1: `none` = ValueError, else
    (`str(cssLengthNum)`, `k ↦ str(cssLengthNum * k)`); group 1 `none` = the pattern did not match (`cssLengthNum = 0`) -/
structure FloatOracle where
  parse : Option Str → Option (Str × (Nat → Str))

inductive LevelKind where
  | number (fmt : Cp) (pre suf : Str) (display : Nat)
  | bullet (ch : Cp)
deriving DecidableEq, Repr

structure Level where
  level : Nat
  kind : LevelKind
  spaceBefore : Str
  minLabelWidth : Str
deriving DecidableEq, Repr

structure ListStyle where
  name : Str          -- style:name: the given name through make_NCName
  displayName : Str   -- style:display-name: `StyleElement` stores the given name as it is
  levels : List Level
deriving Repr

/-- decimal digits of a natural number (`str(i)`) -/
def natStr (n : Nat) : Str := (toString n).toList.map Char.toNat

/-- body of the loop for index `i` -/
def mkLevel (showAll : Bool) (units base : Str) (mul : Nat → Str) (i : Nat) (spec : Str) : Except Err Level :=
  match findFmt spec with
  | some (pre, c, suf) =>
    .ok { level := i + 1, kind := .number c pre suf (if showAll then i + 1 else 1),
          spaceBefore := mul (i + 1) ++ units, minLabelWidth := base ++ units }
  | none =>
    match spec with
    | [] => .error .indexError
    | b :: _ =>
      .ok { level := i + 1, kind := .bullet b,
            spaceBefore := mul (i + 1) ++ units, minLabelWidth := base ++ units }

/-- the `while i < len(specArray)` loop started at index `i` -/
def levelsFrom (showAll : Bool) (units base : Str) (mul : Nat → Str) : Nat → List Str → Except Err (List Level)
  | _, [] => .ok []
  | i, s :: r =>
    match mkLevel showAll units base mul i s with
    | .error e => .error e
    | .ok l =>
      match levelsFrom showAll units base mul (i + 1) r with
      | .error e => .error e
      | .ok ls => .ok (l :: ls)

/-- `make_NCName` (the converter bound to style:name) -/
def makeNCName (s : Str) : Str := Attr.replaceCp 32 (Attr.replaceCp 58 s)

/-- `cssLengthUnits`: group 2 when the pattern matched and the group took part, else "" -/
def unitsOf : Option (Str × Str) → Str
  | some p => p.2
  | none => []

def styleFromList (F : FloatOracle) (name : Str) (specs : List Str) (spacing : Str) (showAll : Bool) :
    Except Err ListStyle :=
  let m := cssSplit spacing
  match F.parse (m.map fun p => p.1) with
  | none => .error .valueError
  | some (base, mul) =>
    match levelsFrom showAll (unitsOf m) base mul 0 specs with
    | .error e => .error e
    | .ok ls => .ok { name := makeNCName name, displayName := name, levels := ls }

/-- `s.split(d)` for a non-empty `d`: `cur` is the piece being collected -/
def splitAux (d : Str) : Nat → Str → Str → List Str
  | 0, cur, s => [cur ++ s]
  | _ + 1, cur, [] => [cur]
  | fuel + 1, cur, c :: r =>
    if d.isPrefixOf (c :: r) then cur :: splitAux d fuel [] ((c :: r).drop d.length)
    else splitAux d fuel (cur ++ [c]) r

def split (d s : Str) : List Str := splitAux d (s.length + 1) [] s

/-- `d.join(parts)` -/
def join (d : Str) : List Str → Str
  | [] => []
  | [x] => x
  | x :: y :: r => x ++ d ++ join d (y :: r)

def styleFromString (F : FloatOracle) (name specifiers delim spacing : Str) (showAll : Bool) :
    Except Err ListStyle :=
  if delim.isEmpty then .error .valueError
  else styleFromList F name (split delim specifiers) spacing showAll

/-! ### the element the real function returns: attributes of each level (names as `prefix:local`, sorted) -/

def levelAttrs (l : Level) : String × List (String × Str) :=
  match l.kind with
  | .number c pre suf d =>
    ("text:list-level-style-number",
      [("style:num-format", [c])] ++ (if pre.isEmpty then [] else [("style:num-prefix", pre)]) ++
      (if suf.isEmpty then [] else [("style:num-suffix", suf)]) ++
      [("text:display-levels", natStr d), ("text:level", natStr l.level)])
  | .bullet b =>
    ("text:list-level-style-bullet", [("text:bullet-char", [b]), ("text:level", natStr l.level)])

def propAttrs (l : Level) : List (String × Str) :=
  [("text:min-label-width", l.minLabelWidth), ("text:space-before", l.spaceBefore)]

end OdfModel.EasyList

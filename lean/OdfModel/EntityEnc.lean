/-
  OdfModel.EntityEnc — the CHARACTER ENCODING of a member as a dimension of the C13 model (extension of
  OdfModel.Entity; nothing there is changed).

  Modelled Python:

  * `odf/opendocument.py: __loadxmlparts`
        xmlpart = z.read(xmlfile).decode("utf-8")            -- `decodesFirst`: UnicodeDecodeError for bytes that are
        …; xmlpart = __fixXmlPart(xmlpart); …                   not valid UTF-8 (UTF-16 with a byte order mark, an 8-bit
        inpsrc.setByteStream(BytesIO(xmlpart.encode("utf-8")))   encoding with a non-ASCII byte); nothing catches it
    so a member that is not UTF-8 never reaches a parser through `load` (and everything built on `load`): the call
    fails with `UnicodeDecodeError`, an explicit refusal.  A member that IS valid UTF-8 (with or without a byte order
    mark, whatever its XML declaration says) goes on to the defused SAX reader as in `OdfModel.Entity`.
  * `odf/odfmanifest.py: manifestlist(manifestxml)`
        if not isinstance(manifestxml, str): manifestxml = manifestxml.decode("utf-8")      -- the same, for the manifest
    (`load` and `odfmanifest` pass the bytes of `META-INF/manifest.xml`).
  * `odf/odf2moinmoin.py: _parse(data)`: the BYTES go to `defusedxml.minidom.parseString`; expat detects the
    encoding itself and the first entity declaration is refused in whatever encoding it is written
    (`ParserBehaviour` is stated on what the DOCTYPE declares, not on bytes).

  Hand-written from the source (like `EP.shape`), tied to the code by the encoding fault matrix of harness/c13.py.
-/
import OdfModel.Entity
namespace OdfModel.Entity

/-- failure of an encoding-aware read -/
inductive ErrE where
  /-- `UnicodeDecodeError` of `z.read(xmlfile).decode("utf-8")` -/
  | undecodable
  /-- a failure of `OdfModel.Entity.read` -/
  | refused (e : Err)
deriving DecidableEq, Repr

/-- the member's bytes are decoded as UTF-8 before anything else happens to them (`__loadxmlparts`, `manifestlist`):
    every reader but the MoinMoin converter -/
def decodesFirst (ep : EP) (_m : Member) : Bool := ep.shape != .moin

/-- a package whose members may be stored in any character encoding; all that matters of the encoding of a
    member is whether its bytes are valid UTF-8 -/
structure PkgE where
  pkg : Pkg
  /-- paths of the members whose bytes are NOT valid UTF-8 -/
  notUtf8 : List Str

def PkgE.undecodable (p : PkgE) (ep : EP) (m : Member) : Bool := decodesFirst ep m && p.notUtf8.contains m.path

def liftErr : Except Err Outcome → Except ErrE Outcome
  | .error e => .error (.refused e)
  | .ok o => .ok o

/-- one member: decoded first where the code does so, then `readMember` -/
def readMemberE (B : ParserBehaviour) (P : Prep) (ep : EP) (p : PkgE) (m : Member) (x : XmlMember) : Except ErrE Outcome :=
  if p.undecodable ep m then .error .undecodable else liftErr (readMember B P ep m x)

/-- `readList` with the decoding step -/
def readListE (B : ParserBehaviour) (P : Prep) (ep : EP) (p : PkgE) : List Member → Except ErrE (List Outcome)
  | [] => .ok []
  | m :: ms =>
    match p.pkg.lookup m.path with
    | none => if skipsMissing ep m then readListE B P ep p ms else .error (.refused .missing)
    | some x =>
      match readMemberE B P ep p m x with
      | .error e => .error e
      | .ok o => match readListE B P ep p ms with
        | .error e => .error e
        | .ok os => .ok (o :: os)

def readE (B : ParserBehaviour) (P : Prep) (ep : EP) (p : PkgE) : Except ErrE (List Outcome) :=
  readListE B P ep p (readOrder ep p.pkg)

end OdfModel.Entity

/-
  OdfModel.GrammarValues — the VALUE handed to setAttribute and the TEXT handed to addText / addCDATA
  as arguments of the model (property C06: the decision is made from the element and the keyword /
  from the element alone; what is handed over does not enter it).

  Modelled statement by statement (odf/element.py):

  Element.addText(text, check_grammar)
        if check_grammar and not self._allows_text(): raise IllegalText
        else:
            if text != '': self.appendChild(Text(text))                  → `addTextS` (the data of the nodes appended)
  Element.addCDATA(cdata, check_grammar)
        if check_grammar and not self._allows_text(): raise IllegalText
        else: self.appendChild(CDATASection(cdata))                      → `addCDATAS`
  Element.setAttribute(attr, value, check_grammar)     (attr a keyword other than 'parent')
        the keyword is looked up first (OdfModel.GrammarApi.setAttribute); only an accepted keyword
        hands `value` on to setAttrNS                                    → `setAttributeV` (attribute id, value handed on)
  Strings are code point lists; a value is None, a string, or something else (number, bool, bytes, list, element).
-/
import OdfModel.GrammarApi
namespace OdfModel.GrammarValues
open OdfModel OdfModel.GrammarApi

/-- what a caller may hand to setAttribute -/
inductive Val where
  | none
  | str (s : Str)
  | other (tag : Nat)
  deriving DecidableEq, Repr

section
variable (T : Tables)

def addTextS (check : Bool) (e : Nat) (s : Str) : Except Err (List Str) :=
  if check && !(allowsTextOf T e) then .error .IllegalText
  else if s != [] then .ok [s] else .ok []

def addCDATAS (check : Bool) (e : Nat) (s : Str) : Except Err (List Str) :=
  if check && !(allowsTextOf T e) then .error .IllegalText else .ok [s]

def setAttributeV (check : Bool) (e kw : Nat) (v : Val) : Except Err (Nat × Val) :=
  match allowedAttrsOf T e with
  | none => .error .AttributeError
  | some l =>
    match firstWithKw T kw l with
    | some a => .ok (a, v)
    | none => if check then .error .AttributeError else .error .ValueError

end
end OdfModel.GrammarValues

/-
  OdfModel.GrammarNamesCodec — names as numerals.

  In the generated tables and in the hand-written exception lists a name such as `office:body` is
  ONE natural number: its UTF-8 bytes read as a big-endian base-256 numeral.  Kernel evaluation
  compares such names with a single (GMP) `Nat.beq` instead of a character-by-character walk.
  `n!"office:body"` is that numeral, computed at elaboration time (a macro producing a numeric
  literal; no axioms, nothing trusted beyond the elaborator).
-/
import OdfModel.Basic
namespace OdfModel.GrammarNamesCodec
open Lean

def encodeBytes (bs : List UInt8) : Nat := bs.foldl (fun acc b => acc * 256 + b.toNat) 0

/-- the numeral of a string -/
def encode (s : String) : Nat := encodeBytes s.toUTF8.toList

/-- bytes of a numeral, most significant first (fuel = an upper bound on the length) -/
def bytesAux : Nat → Nat → List Nat → List Nat
  | 0, _, acc => acc
  | f+1, n, acc => if n == 0 then acc else bytesAux f (n / 256) (n % 256 :: acc)

def bytes (n : Nat) : List Nat := bytesAux 256 n []

def ofBytes (l : List Nat) : Nat := l.foldl (fun acc b => acc * 256 + b) 0

/-- display (driver only; names are ASCII) -/
def decode (n : Nat) : String := String.ofList ((bytes n).map Char.ofNat)

/-- `n!"text:p"` — the numeral of a name -/
macro "n!" s:str : term => pure (Syntax.mkNumLit (toString (encode s.getString)))

/-- the local name of a display name: after the first ':' of `prefix:local`, after the '}' of
    `{namespace URI}local` (the form used for namespaces the schemas do not declare) -/
def localPart (l : List Nat) : List Nat :=
  match l with
  | 123 :: _ =>
    (match l.dropWhile (· != 125) with
     | [] => l
     | _ :: rest => rest)
  | _ =>
    (match l.dropWhile (· != 58) with
     | [] => l
     | _ :: rest => rest)

example : n!"a" = 97 := by decide
example : bytes (n!"text:p") = [116, 101, 120, 116, 58, 112] := by decide
example : localPart (bytes (n!"text:p")) = [112] := by decide
example : localPart (bytes (n!"{urn:x:y}p")) = [112] := by decide

end OdfModel.GrammarNamesCodec

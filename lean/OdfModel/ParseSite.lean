/-
  OdfModel.ParseSite — row type of the generated parser-site inventory (property C13).
  One row = one construction of an XML parser found in the source by harness/translate_entity.py.
-/
namespace OdfModel.ParseSite

structure Site where
  /-- running number -/
  id : Nat
  /-- interned source file (legend in the generated file's header) -/
  file : Nat
  /-- interned enclosing function -/
  func : Nat
  /-- interned resolved callee, e.g. `defusedxml.sax.make_parser` -/
  callee : Nat
  /-- import origin of the callee: 0 = `defusedxml.*`, 1 = plain (`xml.*`, pyexpat, lxml), 2 = unknown -/
  origin : Nat
  /-- API family: 0 = SAX, 1 = DOM (minidom / pulldom / expatbuilder), 2 = ElementTree, 3 = raw expat -/
  api : Nat
  /-- package members whose bytes flow into the parser: 0 manifest, 1 settings, 2 meta, 3 content, 4 styles,
      9 = unknown (treated as "any member") -/
  members : List Nat
  /-- the member name is `<parameter> ++ literal` (the `objectpath` of `__loadxmlparts`) -/
  objParam : Bool
  /-- the enclosing function tests the parsed document's doctype (`.systemId` / `.publicId`) and raises:
      the explicit external-subset refusal of `ODF2MoinMoin._parse` -/
  doctypeGuard : Bool
  /-- number of TEXT transformers the enclosing function applies to the member between reading it from the zip
      and handing it to the parser (`xmlpart = __fixXmlPart(xmlpart)` in `__loadxmlparts`); decode / encode excluded -/
  prep : Nat
  /-- number of conditions on a MEDIA TYPE (in the enclosing function or a caller) that decide whether this site is
      reached; the property holds for every kind of embedded object, so the model's dispatch has no media type and
      this must be 0 (`dispatch_media_independent`) -/
  mediaCond : Nat
deriving DecidableEq, Repr

end OdfModel.ParseSite

/-
  OdfModel.Spec.XmlParse — a reference XML 1.0 + Namespaces parser, written independently of odfpy.

  It recognises a SUB-language of XML 1.0 (every document it accepts is well-formed and namespace-well-formed, and
  the tree it returns is the document's infoset: elements by expanded name in order, attributes by expanded name with
  normalised values, character data merged):

    document  := the exact prologue `<?xml version='1.0' encoding='UTF-8'?>` LF, one root element, nothing after it
    element   := '<' Name (' ' Name '=' AttValue)* ('/>' | '>' content '</' Name '>')    -- one blank before each attribute
    Name      := [A-Za-z_:][A-Za-z0-9_:.-]*                                               -- ASCII subset of XML Name
    AttValue  := '"' … '"' | "'" … "'"  with references; no '<', no literal TAB/LF/CR (they would be normalised)
    content   := (element | CDATA section | reference | Char except '<' '&' '>' CR)*     -- literal '>' and CR are refused
    reference := &amp; &lt; &gt; &quot; &apos; &#9; &#10; &#13;
    CDATA     := '<![CDATA[' (Char except CR)* ']]>'   ending at the first ']]>'
    every Char must be an XML 1.0 `Char`; attribute names unique per element (raw and expanded);
    `xmlns:p="ns"` declares prefix p (ns non-empty); no default namespace; every used prefix must be in scope.

  That it is a sub-language of XML (accepts ⇒ a conforming parser accepts, with this infoset) is validated against
  expat by the correspondence harness on every run; it is part of the trusted specification, kept short on purpose.
-/
import OdfModel.Xml.Tree
namespace OdfModel.Spec
open OdfModel OdfModel.Xml

/-- XML 1.0 production [2] Char -/
def isXmlChar (c : Cp) : Bool :=
  c == 9 || c == 10 || c == 13 || (32 ≤ c && c ≤ 0xD7FF) || (0xE000 ≤ c && c ≤ 0xFFFD) || (0x10000 ≤ c && c ≤ 0x10FFFF)

def isNameStart (c : Cp) : Bool := (65 ≤ c && c ≤ 90) || (97 ≤ c && c ≤ 122) || c == 95 || c == 58
def isNameChar (c : Cp) : Bool := isNameStart c || (48 ≤ c && c ≤ 57) || c == 45 || c == 46

def NameOK (n : Str) : Bool :=
  match n with
  | [] => false
  | c :: r => isNameStart c && r.all isNameChar

def takeName (l : Str) : Str × Str := (l.takeWhile isNameChar, l.dropWhile isNameChar)

/-- strip a literal prefix -/
def dropPrefix? : Str → Str → Option Str
  | [], l => some l
  | _ :: _, [] => none
  | p :: ps, c :: l => if p = c then dropPrefix? ps l else none

/-- the reference after `&` -/
def parseRef (l : Str) : Option (Cp × Str) :=
  if let some r := dropPrefix? [97, 109, 112, 59] l then some (38, r)             -- amp;
  else if let some r := dropPrefix? [108, 116, 59] l then some (60, r)            -- lt;
  else if let some r := dropPrefix? [103, 116, 59] l then some (62, r)            -- gt;
  else if let some r := dropPrefix? [113, 117, 111, 116, 59] l then some (34, r)  -- quot;
  else if let some r := dropPrefix? [97, 112, 111, 115, 59] l then some (39, r)   -- apos;
  else if let some r := dropPrefix? [35, 49, 48, 59] l then some (10, r)          -- #10;
  else if let some r := dropPrefix? [35, 49, 51, 59] l then some (13, r)          -- #13;
  else if let some r := dropPrefix? [35, 57, 59] l then some (9, r)               -- #9;
  else none

/-- attribute value after the opening quote `q`, up to and including the closing quote -/
def parseAttVal : Nat → Cp → Str → Option (Str × Str)
  | 0, _, _ => none
  | _+1, _, [] => none
  | fuel+1, q, c :: r =>
    if c = q then some ([], r)
    else if c = 60 then none
    else if c = 38 then
      match parseRef r with
      | none => none
      | some (d, r1) => match parseAttVal fuel q r1 with
        | none => none
        | some (v, r2) => some (d :: v, r2)
    else if c = 9 || c = 10 || c = 13 then none
    else if isXmlChar c then
      match parseAttVal fuel q r with
      | none => none
      | some (v, r2) => some (c :: v, r2)
    else none

/-- the rest of a start tag after the name: attributes, then `>` (false) or `/>` (true) -/
def parseAttrs : Nat → Str → Option (List (Str × Str) × Bool × Str)
  | 0, _ => none
  | _+1, 62 :: r => some ([], false, r)
  | _+1, 47 :: 62 :: r => some ([], true, r)
  | fuel+1, 32 :: r =>
    let n := (takeName r).1
    if !NameOK n then none else
    match (takeName r).2 with
    | 61 :: q :: r1 =>
      if q = 34 || q = 39 then
        match parseAttVal (r1.length + 1) q r1 with
        | none => none
        | some (v, r2) => match parseAttrs fuel r2 with
          | none => none
          | some (as, e, r3) => some ((n, v) :: as, e, r3)
      else none
    | _ => none
  | _+1, _ => none

def nodupNames : List (Str × Str) → Bool
  | [] => true
  | (n, _) :: r => !(r.any (fun a => a.1 == n)) && nodupNames r

/-- `</name>` -/
def parseClose (n : Str) (l : Str) : Option Str :=
  match dropPrefix? ([60, 47] ++ n ++ [62]) l with
  | some r => some r
  | none => none

/-- pending character data becomes one text node -/
def flush (acc : Str) (f : RForest) : RForest := if acc.isEmpty then f else .cons (.text acc) f

mutual
def parseElem : Nat → Str → Option (RNode × Str)
  | 0, _ => none
  | _+1, [] => none
  | fuel+1, c :: r =>
    if c ≠ 60 then none else
    let n := (takeName r).1
    if !NameOK n then none else
    match parseAttrs ((takeName r).2.length + 1) (takeName r).2 with
    | none => none
    | some (attrs, isEmpty, r2) =>
      if !nodupNames attrs then none
      else if isEmpty then some (.elem n attrs .nil, r2)
      else match parseForest fuel false [] r2 with
        | none => none
        | some (ks, r3) => match parseClose n r3 with
          | none => none
          | some r4 => some (.elem n attrs ks, r4)
/-- content of an element up to (not including) its end tag; `cd` = inside a CDATA section;
    `acc` = character data seen since the last element -/
def parseForest : Nat → Bool → Str → Str → Option (RForest × Str)
  | 0, _, _, _ => none
  | fuel+1, true, acc, input =>
    match dropPrefix? CDC input with
    | some r => parseForest fuel false acc r
    | none => match input with
      | [] => none
      | c :: r => if isXmlChar c && c != 13 then parseForest fuel true (acc ++ [c]) r else none
  | fuel+1, false, acc, input =>
    match dropPrefix? [60, 47] input with
    | some _ => some (flush acc .nil, input)
    | none => match dropPrefix? CDO input with
      | some r => parseForest fuel true acc r
      | none => match input with
        | [] => none
        | c :: r =>
          if c = 60 then
            match parseElem fuel input with
            | none => none
            | some (e, r1) => match parseForest fuel false [] r1 with
              | none => none
              | some (f, r2) => some (flush acc (.cons e f), r2)
          else if c = 38 then
            match parseRef r with
            | none => none
            | some (d, r1) => parseForest fuel false (acc ++ [d]) r1
          else if isXmlChar c && c != 13 && c != 62 then parseForest fuel false (acc ++ [c]) r
          else none
end

/-- lexical parse of a whole document -/
def parseRawDoc (input : Str) : Option RNode :=
  match dropPrefix? PROLOGUE input with
  | none => none
  | some r => match parseElem (r.length + 1) r with
    | some (e, []) => some e
    | _ => none

/-! ### Namespace resolution -/

/-- split `prefix:local` at the first colon -/
def splitQName (n : Str) : Str × Str :=
  if n.contains 58 then (n.takeWhile (· != 58), (n.dropWhile (· != 58)).drop 1) else ([], n)

def isNCName (n : Str) : Bool := NameOK n && !n.contains 58

/-- environment: (prefix, namespace), innermost first -/
abbrev NsEnv := List (Str × Str)

def lookupPrefix (env : NsEnv) (p : Str) : Option Str :=
  match env with
  | [] => none
  | (p', n) :: r => if p' = p then some n else lookupPrefix r p

/-- the namespace declarations among the attributes of one start tag -/
def declsOf : List (Str × Str) → Option NsEnv
  | [] => some []
  | (n, v) :: r =>
    match dropPrefix? XMLNS_COLON n with
    | some p =>
      if isNCName p && !v.isEmpty then (declsOf r).map (fun e => (p, v) :: e) else none
    | none => declsOf r

def resolveName (env : NsEnv) (n : Str) : Option QName :=
  let (p, l) := splitQName n
  if p.isEmpty then (if isNCName l then some ⟨[], l⟩ else none)
  else if !isNCName l then none
  else match lookupPrefix env p with
    | some ns => some ⟨ns, l⟩
    | none => none

def resolveAttrs (env : NsEnv) : List (Str × Str) → Option (List (QName × Str))
  | [] => some []
  | (n, v) :: r =>
    match dropPrefix? XMLNS_COLON n with
    | some _ => resolveAttrs env r
    | none =>
      if n = [120, 109, 108, 110, 115] then none     -- default namespace declarations are outside the sub-language
      else match resolveName env n, resolveAttrs env r with
        | some q, some as => some ((q, v) :: as)
        | _, _ => none

def nodupQ : List (QName × Str) → Bool
  | [] => true
  | (q, _) :: r => !(r.any (fun a => a.1 == q)) && nodupQ r

mutual
def resolve (env : NsEnv) : RNode → Option Node
  | .text s => some (.text s)
  | .cdata s => some (.cdata s)
  | .elem tag attrs kids =>
    match declsOf attrs with
    | none => none
    | some ds =>
      let env' := ds ++ env
      match resolveName env' tag, resolveAttrs env' attrs, resolveF env' kids with
      | some q, some as, some ks => if nodupQ as then some (.elem q as ks) else none
      | _, _, _ => none
def resolveF (env : NsEnv) : RForest → Option Forest
  | .nil => some .nil
  | .cons h t => match resolve env h, resolveF env t with
    | some h', some t' => some (.cons h' t')
    | _, _ => none
end

/-- **the reference parser**: a namespace-well-formed document of the sub-language ↦ its tree -/
def parseDoc (input : Str) : Option Node :=
  match parseRawDoc input with
  | none => none
  | some r => resolve [] r

end OdfModel.Spec

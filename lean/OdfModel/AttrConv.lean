/-
  OdfModel.AttrConv — model of odf/attrconverters.py (property C15) for `str` arguments.

  * `cnvK k s`     — what a `cnv_*` function of shape `k` (see `AttrTypes.Kind`; the shape and its
                     literals are re-read from the AST on every run) returns for the string `s`:
                     `.ok r` (the stored value) or `.error .valueError`.
                       identity   : `return str(arg)`
                       enum       : `if str(arg) not in (…): raise ValueError` / `return str(arg)`
                       ciMap      : `cnv_boolean` — first tuple containing `str(arg).lower()`
                       pattern    : `if not pattern.match(arg): raise ValueError` / `return arg`, with the
                                    anchoring mode of the call (`Regex.matchMode`)
                       hexEscape  : `make_NCName` — `arg.replace(c, "_%x_" % ord(c))` for each c in turn
                       joinChars  : `' '.join(arg)` — on a `str` this puts the separator between its characters
                       firstOf    : `cnv_lengthorpercent` — first of two converters that does not raise
  * `cnv i s`      — converter number `i` of the generated table `converters`.
  * `convertIdx`   — `AttrConverters.convert`: look up `(attribute, element.qname)`, then
                     `(attribute, None)`, else `str` — on the generated `AttrTable.bindings` (the dumped dict;
                     an attribute the dict does not mention has an empty entry list, which is the same thing).
  * `setAttr`      — `Element.setAttrNS` followed by `getAttrNS`: the stored value.
-/
import OdfModel.AttrTypes
import OdfModel.Generated.AttrConv
namespace OdfModel.Attr
open OdfModel OdfModel.Regex

/-- `str.lower()` restricted to what matters for comparing with ASCII literals: the generated
    `lowerPairs` lists *every* code point whose lower-case form is a single ASCII character. -/
def lowerCp (c : Nat) : Nat :=
  match Generated.AttrConv.lowerPairs.find? (fun p => p.1 == c) with
  | some p => p.2
  | none => c

def lower (s : Str) : Str := s.map lowerCp

def hexDigits : Nat → Nat → List Nat → List Nat
  | 0, _, acc => acc
  | fuel+1, n, acc =>
    let d := n % 16
    let ch := if d < 10 then 48 + d else 87 + d
    if n < 16 then ch :: acc else hexDigits fuel (n / 16) (ch :: acc)

/-- `"_%x_" % c` -/
def hexEsc (c : Nat) : Str := [95] ++ hexDigits 8 c [] ++ [95]

/-- `s.replace(chr(c), "_%x_" % c)` -/
def replaceCp (c : Nat) : Str → Str
  | [] => []
  | x :: r => if x = c then hexEsc c ++ replaceCp c r else x :: replaceCp c r

/-- `sep.join(s)` for a `str` `s`: the separator between consecutive characters -/
def joinChars (sep : Str) : Str → Str
  | [] => []
  | [c] => [c]
  | c :: d :: r => c :: (sep ++ joinChars sep (d :: r))

def cnvK : Kind → Str → Except Err Str
  | .identity, s => .ok s
  | .enum vals, s => if vals.contains s then .ok s else .error .valueError
  | .ciMap cases, s =>
    match cases.find? (fun c => c.1.contains (lower s)) with
    | some c => .ok c.2
    | none => .error .valueError
  | .pattern m r, s => if matchMode m r s then .ok s else .error .valueError
  | .hexEscape cs, s => .ok (cs.foldl (fun acc c => replaceCp c acc) s)
  | .joinChars sep, s => .ok (joinChars sep s)
  | .firstOf a b, s =>
    match cnvK a s with
    | .ok r => .ok r
    | .error _ =>
      match cnvK b s with
      | .ok r => .ok r
      | .error _ => .error .valueError
  | .unknown, _ => .error .other

/-- kind of converter number `i` (`unknown` for an index outside the table) -/
def kindOf (i : Nat) : Kind :=
  match Generated.AttrConv.converters[i]? with
  | some p => p.2
  | none => .unknown

def cnv (i : Nat) (s : Str) : Except Err Str := cnvK (kindOf i) s

/-- index of the pseudo converter `str` (the default of `AttrConverters.convert`) -/
def strIdx : Nat := Generated.AttrConv.c_str

/-- lookup inside the entries of one attribute: `(attr, element.qname)` first, then `(attr, None)` -/
def lookupIn (ents : List (Option Nat × Nat)) (el : Nat) : Nat :=
  match ents.find? (fun e => e.1 == some el) with
  | some e => e.2
  | none =>
    match ents.find? (fun e => e.1 == none) with
    | some e => e.2
    | none => strIdx

/-- `AttrConverters.convert`: which converter handles attribute `at` on element `el` -/
def convertIdx (tbl : List (Nat × List (Option Nat × Nat))) (att el : Nat) : Nat :=
  match tbl.find? (fun g => g.1 == att) with
  | some g => lookupIn g.2 el
  | none => strIdx

/-- `Element.setAttrNS(ns, local, s)` then `getAttrNS`: the stored value, or the exception
    (`tbl` is the dumped `attrconverters` dict, `Generated.AttrTable.bindings`) -/
def setAttr (tbl : List (Nat × List (Option Nat × Nat))) (att el : Nat) (s : Str) : Except Err Str :=
  cnv (convertIdx tbl att el) s

end OdfModel.Attr

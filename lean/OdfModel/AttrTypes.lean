/-
  OdfModel.AttrTypes — vocabulary shared by the generated tables (Generated/AttrConv.lean,
  written by harness/translate_attr.py) and the hand-written converter model (AttrConv.lean).

  * `Kind`  — the *shape* of a `cnv_*` function of odf/attrconverters.py as recognised from its
              AST by the translator (restricted to `str` arguments, which is what `load()` and
              string-valued API calls pass).  An unrecognised body becomes `Kind.unknown`, which
              breaks `Props.C15.no_opaque_kind`.
  * `Atom`/`DT` — normal form of an attribute's datatype in the RELAX-NG schema: a choice
              (list) of atoms; `ref`s resolved, `choice` flattened.
-/
import OdfModel.Regex
namespace OdfModel.Attr
open OdfModel OdfModel.Regex

inductive Err where
  | valueError     -- `raise ValueError`
  | other          -- anything else (unmodelled shape)
deriving DecidableEq, Repr

instance : DecidableEq (Except Err Str) := fun a b =>
  match a, b with
  | .ok x, .ok y => if h : x = y then isTrue (by rw [h]) else isFalse (fun e => h (by cases e; rfl))
  | .error x, .error y => if h : x = y then isTrue (by rw [h]) else isFalse (fun e => h (by cases e; rfl))
  | .ok _, .error _ => isFalse (fun e => by cases e)
  | .error _, .ok _ => isFalse (fun e => by cases e)

inductive Kind where
  /-- `return str(arg)` / `return arg` (also `__save_prefix`, `cnv_StyleNameRef` on a `str`) -/
  | identity
  /-- `if str(arg) not in (…): raise ValueError; return str(arg)` -/
  | enum (vals : List Str)
  /-- `cnv_boolean`: `if str(arg).lower() in T1: return c1 …; raise ValueError` -/
  | ciMap (cases : List (List Str × Str))
  /-- `if not pattern.match(arg): raise ValueError; return arg` with the anchoring mode of the call -/
  | pattern (m : Mode) (r : RE)
  /-- `make_NCName`: for c in chars: arg = arg.replace(c, "_%x_" % ord(c)) -/
  | hexEscape (chars : List Nat)
  /-- `sep.join(arg)` applied to a `str` (iterates its characters) -/
  | joinChars (sep : Str)
  /-- `try: return A(arg) except: …; try: return B(arg) except: …; raise ValueError` -/
  | firstOf (a b : Kind)
  /-- body not recognised by the translator -/
  | unknown
deriving DecidableEq, Repr

/-- XSD built-in types that occur in `<data type="…">` of the schema -/
inductive XsdTy where
  | string | token | NCName | ID | IDREF | IDREFS | QName | anyURI | date | dateTime | time
  | duration | decimal | double | integer | nonNegativeInteger | positiveInteger | language | other
deriving DecidableEq, Repr

inductive Atom where
  | val (v : Str)                        -- <value>v</value>
  | data (ty : XsdTy) (pat : Option Nat) -- <data type=ty> with optional pattern facet (index into the schema pattern table)
  | list                                 -- <list>…</list> (white-space separated items; content not refined)
  | listN (ty : XsdTy) (n : Nat)         -- <list> of exactly n items of one XSD built-in type (svg:viewBox: four integers)
  | text                                 -- <text/> or no content
  | empty                                -- <empty/>
deriving DecidableEq, Repr

abbrev DT := List Atom

/-- string literal as code points (ASCII names and enumeration members) -/
def lit (s : String) : Str := s.toList.map Char.toNat

end OdfModel.Attr

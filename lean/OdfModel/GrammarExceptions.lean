/-
  OdfModel.GrammarExceptions — where the API is *allowed* to differ from the shipped schema (C06).

  Hand-written and committed.  A row names one decision of the API by the names involved:

      children  parent > child          addElement
      text      element                 addText / addCDATA
      attrs     element @ attribute     setAttribute by keyword
      required  element @ attribute     the constructor's required-attribute loop
      factory   element                 an element factory producing this qname exists

  Names are written `n!"prefix:local"` (one numeral per name, see GrammarNamesCodec); the item `*`
  stands for every child / attribute of the row (used where a whole table row is missing).

  * `Exceptions`      deliberate extensions / omissions that the repository itself documents.
                      Each entry carries the place where it is documented.
  * `KnownFindings`   rows where odf/grammar.py (or a factory) differs from the shipped schema and
                      nothing in the repository justifies it: real findings, reported by the check
                      as KNOWN-FINDING lines.  Exactly the `sig=` lines of known-findings/C06.txt
                      (the harness compares the two lists on every run).

  Any differing row that is in neither list makes theorem C06 fail to check and the sweep report
  a VIOLATION naming the row.
-/
import OdfModel.GrammarNamesCodec
namespace OdfModel.GrammarExceptions
open OdfModel.GrammarNamesCodec

inductive Kind where
  | children | text | attrs | required | factory
  deriving DecidableEq, Repr

def Kind.toNat : Kind → Nat
  | .children => 0 | .text => 1 | .attrs => 2 | .required => 3 | .factory => 4

structure Row where
  kind : Kind
  elem : Nat
  item : Nat

/-- the wildcard item -/
def STAR : Nat := n!"*"
/-- the item of `text` and `factory` rows -/
def NOITEM : Nat := 0

def Row.covers (r : Row) (k : Kind) (e x : Nat) : Bool :=
  r.kind.toNat == k.toNat && r.elem == e && (r.item == x || r.item == STAR)

def inRows (rows : List Row) (k : Kind) (e x : Nat) : Bool := rows.any (·.covers k e x)

def isPrefixOf : List Nat → List Nat → Bool
  | [], _ => true
  | _ :: _, [] => false
  | a :: as, b :: bs => a == b && isPrefixOf as bs

/-- Namespaces left out of the tables on purpose: every row of an element whose name starts with
    one of these prefixes is excepted.

    `db:` — the generator scripts of the tables skip the database namespace:
    grammar/gen_allowed_children.py `if ns == DBNS: continue`, and the same line in
    gen_allows_text.py, gen_required_attrs.py (`if e.ns == DBNS: continue`), gen_allowed_attrs.py;
    there is no odf/db.py. -/
def ExceptedPrefixes : List Nat := [n!"db:"]

def prefixExcepted (e : Nat) : Bool := ExceptedPrefixes.any fun p => isPrefixOf (bytes p) (bytes e)

def Exceptions : List Row := [
  -- LibreOffice extension attributes, added to the tables by hand.  odf/namespaces.py declares
  -- LOEXTNS ("urn:org:documentfoundation:names:experimental:office:xmlns:loext:1.0"),
  -- odf/attrconverters.py registers converters for exactly these three attributes, and
  -- tests/testcontextualspacing.py pins loext:contextual-spacing on style:paragraph-properties.
  ⟨.attrs, n!"style:paragraph-properties", n!"loext:contextual-spacing"⟩,
  ⟨.attrs, n!"style:page-layout-properties", n!"loext:scale-to-X"⟩,
  ⟨.attrs, n!"style:page-layout-properties", n!"loext:scale-to-Y"⟩,
  -- Elements whose attributes are `<anyName/>` in the schema get `None` in allowed_attributes
  -- (grammar/gen_allowed_attrs.py: `__ANYNAME__` → `None`), and Element.setAttribute then asks for
  -- (namespace, localpart) pairs instead of keywords ("Unable to add simple attribute - use
  -- (namespace, localpart)", odf/element.py): a keyword cannot name an arbitrary attribute.
  ⟨.attrs, n!"math:math", STAR⟩,
  ⟨.attrs, n!"xforms:model", STAR⟩,
  -- XForms elements that are not declared by the ODF schema (the content of xforms:model is
  -- `<anyName/>`), but for which odf/xforms.py ships factories (Bind, Instance).  They have no
  -- table rows, so nothing is checked below them.
  ⟨.children, n!"xforms:bind", STAR⟩,
  ⟨.children, n!"xforms:instance", STAR⟩
]

def KnownFindings : List Row := [
  -- database documents are not supported (no rows, no factory); only the db: namespace is documented as skipped
  ⟨.children, n!"office:body", n!"office:database"⟩,
  ⟨.children, n!"office:database", STAR⟩,
  ⟨.factory, n!"office:database", NOITEM⟩,
  -- schema version skew: tables follow ODF 1.2 OS, the shipped schema is cd04 (table:table-template)
  ⟨.children, n!"office:styles", n!"table:table-template"⟩,
  ⟨.children, n!"office:master-styles", n!"table:table-template"⟩,
  ⟨.required, n!"table:table-template", n!"table:first-row-start-column"⟩,
  ⟨.required, n!"table:table-template", n!"table:first-row-end-column"⟩,
  ⟨.required, n!"table:table-template", n!"table:last-row-start-column"⟩,
  ⟨.required, n!"table:table-template", n!"table:last-row-end-column"⟩,
  -- manifest tables were generated from the 1.0 manifest schema (grammar/Makefile); the shipped 1.2-cd1 manifest schema adds this
  ⟨.children, n!"manifest:encryption-data", n!"manifest:start-key-generation"⟩,
  ⟨.children, n!"manifest:start-key-generation", STAR⟩,
  ⟨.attrs, n!"manifest:key-derivation", n!"manifest:key-size"⟩,
  ⟨.attrs, n!"manifest:start-key-generation", n!"manifest:key-size"⟩,
  ⟨.attrs, n!"manifest:start-key-generation", n!"manifest:start-key-generation-name"⟩,
  ⟨.required, n!"manifest:start-key-generation", n!"manifest:start-key-generation-name"⟩,
  ⟨.factory, n!"manifest:start-key-generation", NOITEM⟩,
  -- no allowed_attributes row: the generator loses elements declared with a <choice> of names
  ⟨.attrs, n!"text:page-count", n!"style:num-format"⟩,
  ⟨.attrs, n!"text:page-count", n!"style:num-letter-sync"⟩,
  ⟨.attrs, n!"text:paragraph-count", n!"style:num-format"⟩,
  ⟨.attrs, n!"text:paragraph-count", n!"style:num-letter-sync"⟩,
  ⟨.attrs, n!"text:word-count", n!"style:num-format"⟩,
  ⟨.attrs, n!"text:word-count", n!"style:num-letter-sync"⟩,
  ⟨.attrs, n!"text:character-count", n!"style:num-format"⟩,
  ⟨.attrs, n!"text:character-count", n!"style:num-letter-sync"⟩,
  ⟨.attrs, n!"text:table-count", n!"style:num-format"⟩,
  ⟨.attrs, n!"text:table-count", n!"style:num-letter-sync"⟩,
  ⟨.attrs, n!"text:image-count", n!"style:num-format"⟩,
  ⟨.attrs, n!"text:image-count", n!"style:num-letter-sync"⟩,
  ⟨.attrs, n!"text:reference-ref", n!"text:ref-name"⟩,
  ⟨.attrs, n!"text:reference-ref", n!"text:reference-format"⟩,
  -- schema version skew: chart:error-lower/upper-range sit on chart:error-indicator in the shipped cd04 schema, on style:chart-properties in the tables
  ⟨.attrs, n!"chart:error-indicator", n!"chart:error-lower-range"⟩,
  ⟨.attrs, n!"chart:error-indicator", n!"chart:error-upper-range"⟩,
  ⟨.attrs, n!"style:chart-properties", n!"chart:error-lower-range"⟩,
  ⟨.attrs, n!"style:chart-properties", n!"chart:error-upper-range"⟩,
  -- form:list-value is declared once per value type; the generator kept one declaration
  ⟨.attrs, n!"form:list-value", n!"office:value"⟩,
  ⟨.attrs, n!"form:list-value", n!"office:date-value"⟩,
  ⟨.attrs, n!"form:list-value", n!"office:time-value"⟩,
  ⟨.attrs, n!"form:list-value", n!"office:boolean-value"⟩,
  ⟨.attrs, n!"form:list-value", n!"office:currency"⟩,
  ⟨.required, n!"form:list-value", n!"office:string-value"⟩,
  -- schema version skew: style:display-name on number styles (written by odf.number via StyleElement) is not in the shipped cd04 schema
  ⟨.attrs, n!"number:number-style", n!"style:display-name"⟩,
  ⟨.attrs, n!"number:currency-style", n!"style:display-name"⟩,
  ⟨.attrs, n!"number:percentage-style", n!"style:display-name"⟩,
  ⟨.attrs, n!"number:date-style", n!"style:display-name"⟩,
  ⟨.attrs, n!"number:time-style", n!"style:display-name"⟩,
  ⟨.attrs, n!"number:boolean-style", n!"style:display-name"⟩,
  ⟨.attrs, n!"number:text-style", n!"style:display-name"⟩,
  -- table requires xml:id, the shipped cd04 schema makes it optional (schema version skew)
  ⟨.required, n!"text:changed-region", n!"xml:id"⟩,
  ⟨.required, n!"form:text", n!"xml:id"⟩,
  ⟨.required, n!"form:textarea", n!"xml:id"⟩,
  ⟨.required, n!"form:password", n!"xml:id"⟩,
  ⟨.required, n!"form:file", n!"xml:id"⟩,
  ⟨.required, n!"form:formatted-text", n!"xml:id"⟩,
  ⟨.required, n!"form:number", n!"xml:id"⟩,
  ⟨.required, n!"form:date", n!"xml:id"⟩,
  ⟨.required, n!"form:time", n!"xml:id"⟩,
  ⟨.required, n!"form:fixed-text", n!"xml:id"⟩,
  ⟨.required, n!"form:combobox", n!"xml:id"⟩,
  ⟨.required, n!"form:listbox", n!"xml:id"⟩,
  ⟨.required, n!"form:button", n!"xml:id"⟩,
  ⟨.required, n!"form:image", n!"xml:id"⟩,
  ⟨.required, n!"form:checkbox", n!"xml:id"⟩,
  ⟨.required, n!"form:radio", n!"xml:id"⟩,
  ⟨.required, n!"form:frame", n!"xml:id"⟩,
  ⟨.required, n!"form:image-frame", n!"xml:id"⟩,
  ⟨.required, n!"form:hidden", n!"xml:id"⟩,
  ⟨.required, n!"form:grid", n!"xml:id"⟩,
  ⟨.required, n!"form:value-range", n!"xml:id"⟩,
  ⟨.required, n!"form:generic-control", n!"xml:id"⟩,
  -- not enforced: the generator (grammar/gen_required_attrs.py) ignores attributes under <choice>
  ⟨.required, n!"text:variable-set", n!"office:value-type"⟩,
  ⟨.required, n!"text:user-field-decl", n!"office:value-type"⟩,
  ⟨.required, n!"text:index-entry-tab-stop", n!"style:type"⟩,
  ⟨.required, n!"table:data-pilot-field", n!"table:orientation"⟩,
  ⟨.required, n!"table:data-pilot-sort-info", n!"table:sort-mode"⟩,
  ⟨.required, n!"table:data-pilot-field-reference", n!"table:member-type"⟩,
  ⟨.required, n!"draw:regular-polygon", n!"draw:concave"⟩,
  ⟨.required, n!"form:property", n!"office:value-type"⟩,
  ⟨.required, n!"form:list-property", n!"office:value-type"⟩,
  ⟨.required, n!"style:style", n!"style:family"⟩,
  ⟨.required, n!"style:default-style", n!"style:family"⟩
  -- (the nine `factory:` rows for draw:fill-image … dr3d:light were repaired in /repo by 9cb26c9 and
  --  3268ede and are gone from this list)
]

def inExceptions (k : Kind) (e x : Nat) : Bool := prefixExcepted e || inRows Exceptions k e x
def inKnownFindings (k : Kind) (e x : Nat) : Bool := inRows KnownFindings k e x

/-- the row is excused: documented exception or listed finding -/
def excused (k : Kind) (e x : Nat) : Bool := inExceptions k e x || inKnownFindings k e x

end OdfModel.GrammarExceptions

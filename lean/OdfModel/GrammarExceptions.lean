/-
  OdfModel.GrammarExceptions — where the API is *allowed* to differ from the shipped schema (C06).

  Hand-written and committed.  A row names one decision of the API by the names involved:

      children  parent > child          addElement
      text      element                 addText / addCDATA
      attrs     element @ attribute     setAttribute by keyword
      required  element @ attribute     the constructor's required-attribute loop
      factory   element                 an element factory producing this qname exists

  Names are written `n!"prefix:local"` with the prefix the SCHEMA files declare for the namespace,
  and `n!"{namespace URI}local"` for a namespace they do not declare (one numeral per name, see
  GrammarNamesCodec; identity in the tables is always the (namespace URI, local name) pair, the
  names are for these lists and for messages only); the item `*`
  stands for every child / attribute of the row (used where a whole table row is missing).

  * `Exceptions`      deliberate extensions / omissions that the repository itself documents.
                      Each entry carries the place where it is documented.
  * `KnownFindings`   rows where odf/grammar.py (or a factory) differs from the shipped schema and
                      nothing in the repository justifies it: real findings, reported by the check
                      as KNOWN-FINDING lines.  Exactly the `sig=` lines of known-findings/C06.txt
                      (the harness compares the two lists on every run).

  Any differing row that is in neither list makes theorem C06 fail to check and the sweep report
  a VIOLATION naming the row.
-/
import OdfModel.GrammarNamesCodec
namespace OdfModel.GrammarExceptions
open OdfModel.GrammarNamesCodec

inductive Kind where
  | children | text | attrs | required | factory
  deriving DecidableEq, Repr

def Kind.toNat : Kind → Nat
  | .children => 0 | .text => 1 | .attrs => 2 | .required => 3 | .factory => 4

structure Row where
  kind : Kind
  elem : Nat
  item : Nat

/-- the wildcard item -/
def STAR : Nat := n!"*"
/-- the item of `text` and `factory` rows -/
def NOITEM : Nat := 0

def Row.covers (r : Row) (k : Kind) (e x : Nat) : Bool :=
  r.kind.toNat == k.toNat && r.elem == e && (r.item == x || r.item == STAR)

def inRows (rows : List Row) (k : Kind) (e x : Nat) : Bool := rows.any (·.covers k e x)

def isPrefixOf : List Nat → List Nat → Bool
  | [], _ => true
  | _ :: _, [] => false
  | a :: as, b :: bs => a == b && isPrefixOf as bs

/-- Namespaces left out of the tables on purpose: every row of an element whose name starts with
    one of these prefixes is excepted.

    `db:` — the generator scripts of the tables skip the database namespace:
    grammar/gen_allowed_children.py `if ns == DBNS: continue`, and the same line in
    gen_allows_text.py, gen_required_attrs.py (`if e.ns == DBNS: continue`), gen_allowed_attrs.py;
    there is no odf/db.py.  (Since /repo d71800a `office:database` — an `office:` element — has its
    rows and a factory; its six children are `db:` elements, which can be attached to it but have
    no rows and no factories of their own: that is this exception.) -/
def ExceptedPrefixes : List Nat := [n!"db:"]

def prefixExcepted (e : Nat) : Bool := ExceptedPrefixes.any fun p => isPrefixOf (bytes p) (bytes e)

def Exceptions : List Row := [
  -- LibreOffice extension attributes, added to the tables by hand.  odf/namespaces.py declares
  -- LOEXTNS ("urn:org:documentfoundation:names:experimental:office:xmlns:loext:1.0"),
  -- odf/attrconverters.py registers converters for exactly these three attributes, and
  -- tests/testcontextualspacing.py pins loext:contextual-spacing on style:paragraph-properties.
  ⟨.attrs, n!"style:paragraph-properties", n!"{urn:org:documentfoundation:names:experimental:office:xmlns:loext:1.0}contextual-spacing"⟩,
  ⟨.attrs, n!"style:page-layout-properties", n!"{urn:org:documentfoundation:names:experimental:office:xmlns:loext:1.0}scale-to-X"⟩,
  ⟨.attrs, n!"style:page-layout-properties", n!"{urn:org:documentfoundation:names:experimental:office:xmlns:loext:1.0}scale-to-Y"⟩,
  -- Elements whose attributes are `<anyName/>` in the schema get `None` in allowed_attributes
  -- (grammar/gen_allowed_attrs.py: `__ANYNAME__` → `None`), and Element.setAttribute then asks for
  -- (namespace, localpart) pairs instead of keywords ("Unable to add simple attribute - use
  -- (namespace, localpart)", odf/element.py): a keyword cannot name an arbitrary attribute.
  ⟨.attrs, n!"math:math", STAR⟩,
  ⟨.attrs, n!"xforms:model", STAR⟩,
  -- XForms elements that no declaration of the ODF schema names (they live in the `<anyName/>` island below
  -- xforms:model, so any attribute is permitted on them), for which odf/xforms.py ships factories (Bind, Instance).
  -- They have no allowed_attributes row; as for math:math / xforms:model above, attributes go by (namespace, localpart).
  ⟨.attrs, n!"xforms:bind", STAR⟩,
  ⟨.attrs, n!"xforms:instance", STAR⟩
]

def KnownFindings : List Row := [
  -- draw:concave is required in both alternatives of the schema's <choice>; the table does not list it, and
  -- tests/testlengths.py::test_calls / tests/teststyleref.py::testCalls pin the bare call draw.RegularPolygon().
  ⟨.required, n!"draw:regular-polygon", n!"draw:concave"⟩
  -- (repaired in /repo and removed from this list: nine factory rows by 9cb26c9 / 3268ede, 72 table rows by
  --  d71800a, the seven manifest-1.2 rows — manifest:start-key-generation, manifest:key-size — by 2923f81,
  --  the three text-in-island rows (text:*, text:xforms:bind, text:xforms:instance) by 9407dde.)
]

def inExceptions (k : Kind) (e x : Nat) : Bool := prefixExcepted e || inRows Exceptions k e x
def inKnownFindings (k : Kind) (e x : Nat) : Bool := inRows KnownFindings k e x

/-- the row is excused: documented exception or listed finding -/
def excused (k : Kind) (e x : Nat) : Bool := inExceptions k e x || inKnownFindings k e x

end OdfModel.GrammarExceptions

/-
  OdfModel.EasyListCalls — the grammar-relevant API calls `styleFromList` makes (property C20, cross-layer with
  GrammarApi / AttrConv).

  odf/easyliststyle.py, statement by statement, for a result `st : EasyList.ListStyle` of the model:

    listStyle = ListStyle(name=styleName)                     construct text:list-style {name=…}
        (odf/style.py: StyleElement)  e.setAttrNS(STYLENS,'display-name', args.get('name'))
                                                               setAttrNS  style:display-name   (no grammar check in the code)
    per level, numbered:
      lls = ListLevelStyleNumber(level=(i+1), numformat=numberFormat)
                                                               construct text:list-level-style-number {level=…, numformat=…}
      if numPrefix != '': lls.setAttribute('numprefix', numPrefix)       setAttribute numprefix
      if numSuffix != '': lls.setAttribute('numsuffix', numSuffix)       setAttribute numsuffix
      lls.setAttribute('displaylevels', displayLevels)                   setAttribute displaylevels
    per level, bullet:
      lls = ListLevelStyleBullet(level=(i+1), bulletchar=bullet[0])
                                                               construct text:list-level-style-bullet {level=…, bulletchar=…}
    llp = ListLevelProperties()                                construct style:list-level-properties {}
    llp.setAttribute('spacebefore', …)                         setAttribute spacebefore
    llp.setAttribute('minlabelwidth', …)                       setAttribute minlabelwidth
    lls.addElement(llp)                                        addElement level ← properties
    listStyle.addElement(lls)                                  addElement list-style ← level

  Element / attribute ids are those of Generated/GrammarNames.lean, looked up by the harness on every run
  (Generated/EasyListIds.lean; Props/C20Grammar proves that each id names what its identifier says).  A keyword is the
  numeral of its bytes (`n!"numformat"`), as everywhere in GrammarApi; the keywords are the literals of the source
  (the harness compares them, and the whole call sequence, with a trace of the real function).
  Values: `level=(i+1)` and `displayLevels` are Python ints, every converter starts with `str(arg)`; the value
  recorded here is that string (`natStr`).
-/
import OdfModel.EasyList
import OdfModel.GrammarNamesCodec
import OdfModel.Generated.EasyListIds
namespace OdfModel.EasyList
open OdfModel OdfModel.GrammarNamesCodec OdfModel.Generated.EasyListIds

/-- one keyword argument / setAttribute: (keyword numeral, the attribute id the code means, the value) -/
structure KwArg where
  kw : Nat
  attr : Nat
  value : Str
deriving DecidableEq, Repr

inductive Call where
  /-- `Element(qname=e, **kws)` with grammar checking on -/
  | construct (e : Nat) (kws : List KwArg)
  /-- `x.setAttribute(kw, value)` on an element `e` -/
  | setAttribute (e : Nat) (arg : KwArg)
  /-- `x.setAttrNS(ns, local, value)` on an element `e` (StyleElement's display-name) -/
  | setAttrNS (e : Nat) (attr : Nat) (value : Str)
  /-- `parent.addElement(child)` -/
  | addElement (parent child : Nat)
deriving DecidableEq, Repr

def kwName : Nat := n!"name"
def kwLevel : Nat := n!"level"
def kwNumFormat : Nat := n!"numformat"
def kwNumPrefix : Nat := n!"numprefix"
def kwNumSuffix : Nat := n!"numsuffix"
def kwDisplayLevels : Nat := n!"displaylevels"
def kwBulletChar : Nat := n!"bulletchar"
def kwSpaceBefore : Nat := n!"spacebefore"
def kwMinLabelWidth : Nat := n!"minlabelwidth"

/-- element id of the level element -/
def levelElem (l : Level) : Nat :=
  match l.kind with
  | .number .. => eNumber
  | .bullet .. => eBullet

/-- construction of the level element and the setAttribute calls on it -/
def levelHeadCalls (l : Level) : List Call :=
  match l.kind with
  | .number c pre suf d =>
    [.construct eNumber [⟨kwLevel, aLevel, natStr l.level⟩, ⟨kwNumFormat, aNumFormat, [c]⟩]] ++
    (if pre.isEmpty then [] else [.setAttribute eNumber ⟨kwNumPrefix, aNumPrefix, pre⟩]) ++
    (if suf.isEmpty then [] else [.setAttribute eNumber ⟨kwNumSuffix, aNumSuffix, suf⟩]) ++
    [.setAttribute eNumber ⟨kwDisplayLevels, aDisplayLevels, natStr d⟩]
  | .bullet b =>
    [.construct eBullet [⟨kwLevel, aLevel, natStr l.level⟩, ⟨kwBulletChar, aBulletChar, [b]⟩]]

/-- the body of the `while` loop for one level, in program order -/
def callsOfLevel (l : Level) : List Call :=
  levelHeadCalls l ++
  [ .construct eProps [],
    .setAttribute eProps ⟨kwSpaceBefore, aSpaceBefore, l.spaceBefore⟩,
    .setAttribute eProps ⟨kwMinLabelWidth, aMinLabelWidth, l.minLabelWidth⟩,
    .addElement (levelElem l) eProps,
    .addElement eListStyle (levelElem l) ]

def levelsCalls : List Level → List Call
  | [] => []
  | l :: r => callsOfLevel l ++ levelsCalls r

/-- every grammar-relevant call of `styleFromList`, in program order; `st.displayName` is the name as given -/
def callsOf (st : ListStyle) : List Call :=
  [ .construct eListStyle [⟨kwName, aStyleName, st.displayName⟩],
    .setAttrNS eListStyle aDisplayName st.displayName ] ++ levelsCalls st.levels

end OdfModel.EasyList

/-
  OdfModel.Basic — shared vocabulary of the model.

  A Python `str` is modelled as a list of code points `Cp := Nat` (so that lone
  surrogates, which Lean's `Char` cannot hold, are representable).  This file also
  holds the codec of the line protocol spoken between the Python harness and the
  compiled Lean drivers: a string travels as its code points in lower-case hex joined
  by '.', the empty string as "-".
-/
namespace OdfModel

abbrev Cp := Nat
abbrev Str := List Cp

def isCp (c : Cp) : Bool := c < 0x110000

namespace Wire

def hexDigit (n : Nat) : Char :=
  if n < 10 then Char.ofNat (48 + n) else Char.ofNat (87 + n)

def toHexAux : Nat → Nat → List Char → List Char
  | 0, _, acc => acc
  | fuel+1, n, acc =>
    if n < 16 then hexDigit n :: acc else toHexAux fuel (n / 16) (hexDigit (n % 16) :: acc)

def toHex (n : Nat) : String := String.ofList (toHexAux 8 n [])

def hexVal (c : Char) : Option Nat :=
  if '0' ≤ c ∧ c ≤ '9' then some (c.toNat - 48)
  else if 'a' ≤ c ∧ c ≤ 'f' then some (c.toNat - 87)
  else if 'A' ≤ c ∧ c ≤ 'F' then some (c.toNat - 55)
  else none

def ofHex (s : String) : Option Nat :=
  if s.isEmpty then none else
  s.toList.foldl (fun acc c => do let a ← acc; let v ← hexVal c; pure (a * 16 + v)) (some 0)

/-- encode a model string for the wire -/
def enc (s : Str) : String :=
  if s.isEmpty then "-" else String.intercalate "." (s.map toHex)

/-- decode a wire string; `none` on malformed input -/
def dec (w : String) : Option Str :=
  if w == "-" then some [] else (w.splitOn ".").mapM ofHex

end Wire
end OdfModel

/-
  Property C09 — document-wide lookups always agree with the current tree.  (under construction)
-/
import OdfModel.DomDoc
import OdfModel.Props.C08
namespace OdfModel.Props.C09
open OdfModel.Dom OdfModel.DomDoc OdfModel.Props.C07 OdfModel.Props.C08

theorem edGet_edSet (d : List (Nat × List Id)) (q q' : Nat) (v : List Id) :
    edGet (edSet d q v) q' = if q' = q then v else edGet d q' := by
  induction d with
  | nil =>
    by_cases h : q' = q
    · subst h; simp [edSet, edGet]
    · simp [edSet, edGet, h, Ne.symm h]
  | cons a r ih =>
    obtain ⟨k, w⟩ := a
    simp only [edSet]
    by_cases hk : k = q
    · subst hk
      by_cases h : q' = k
      · subst h; simp [edGet]
      · simp [edGet, h, Ne.symm h]
    · simp only [hk, if_false, edGet, ih]
      by_cases h2 : k = q'
      · subst h2; simp [hk]
      · simp [h2]

/-! ### the traversal `elems` visits exactly the element nodes of the subtree, each once -/

theorem elems_zero (h : Heap) (n : Id) :
    elems h 0 n = if (h n).kind = .elem then none else some [] := by simp [elems]
theorem elems_succ (h : Heap) (f : Nat) (n : Id) :
    elems h (f + 1) n = if (h n).kind = .elem then (elemsL h f (h n).kids).map (fun l => n :: l) else some [] := by
  simp [elems]
theorem elemsL_nil (h : Heap) (f : Nat) : elemsL h f [] = some [] := by simp [elemsL]
theorem elemsL_cons (h : Heap) (f : Nat) (k : Id) (r : List Id) :
    elemsL h f (k :: r) = match elems h f k, elemsL h f r with
      | some a, some b => some (a ++ b)
      | _, _ => none := by
  rw [elemsL]; cases elems h f k <;> cases elemsL h f r <;> rfl

theorem elems_of_not_elem {h : Heap} {n : Id} (hk : (h n).kind ≠ .elem) (f : Nat) : elems h f n = some [] := by
  cases f <;> simp [elems, hk]

theorem elemsL_cons_some {h : Heap} {f : Nat} {k : Id} {r l : List Id} (hl : elemsL h f (k :: r) = some l) :
    ∃ a b, elems h f k = some a ∧ elemsL h f r = some b ∧ l = a ++ b := by
  rw [elemsL_cons] at hl
  cases ha : elems h f k with
  | none => simp [ha] at hl
  | some a =>
    cases hb : elemsL h f r with
    | none => simp [ha, hb] at hl
    | some b => simp [ha, hb] at hl; exact ⟨a, b, rfl, rfl, hl.symm⟩

/-- membership in the traversal of a list of siblings -/
theorem elemsL_mem {h : Heap} {f : Nat} : ∀ {ks l : List Id}, elemsL h f ks = some l →
    ∀ x, x ∈ l ↔ ∃ k ∈ ks, ∃ lk, elems h f k = some lk ∧ x ∈ lk := by
  intro ks
  induction ks with
  | nil => intro l hl x; rw [elemsL_nil] at hl; cases hl; simp
  | cons k r ih =>
    intro l hl x
    obtain ⟨a, b, ha, hb, rfl⟩ := elemsL_cons_some hl
    rw [List.mem_append, ih hb x]
    constructor
    · rintro (hx | ⟨k', hk', lk, hlk, hx⟩)
      · exact ⟨k, by simp, a, ha, hx⟩
      · exact ⟨k', by simp [hk'], lk, hlk, hx⟩
    · rintro ⟨k', hk', lk, hlk, hx⟩
      rcases List.mem_cons.mp hk' with e | hk'
      · subst e; rw [ha] at hlk; cases hlk; exact Or.inl hx
      · exact Or.inr ⟨k', hk', lk, hlk, hx⟩

theorem elemsL_all {h : Heap} {f : Nat} : ∀ {ks l : List Id}, elemsL h f ks = some l →
    ∀ k ∈ ks, ∃ lk, elems h f k = some lk := by
  intro ks
  induction ks with
  | nil => intro l _ k hk; cases hk
  | cons k r ih =>
    intro l hl k' hk'
    obtain ⟨a, b, ha, hb, _⟩ := elemsL_cons_some hl
    rcases List.mem_cons.mp hk' with e | hk'
    · subst e; exact ⟨a, ha⟩
    · exact ih hb k' hk'

theorem elems_elem_some {h : Heap} {f : Nat} {n : Id} {l : List Id} (hk : (h n).kind = .elem)
    (hl : elems h f n = some l) : ∃ f' l', f = f' + 1 ∧ elemsL h f' (h n).kids = some l' ∧ l = n :: l' := by
  cases f with
  | zero => simp [elems_zero, hk] at hl
  | succ f' =>
    rw [elems_succ] at hl
    simp only [hk, if_true] at hl
    cases hl' : elemsL h f' (h n).kids with
    | none => simp [hl'] at hl
    | some l' => simp [hl'] at hl; exact ⟨f', l', rfl, hl', hl.symm⟩

theorem elems_head {h : Heap} {f : Nat} {n : Id} {l : List Id} (hk : (h n).kind = .elem)
    (hl : elems h f n = some l) : n ∈ l := by
  obtain ⟨_, l', _, _, rfl⟩ := elems_elem_some hk hl; simp

theorem AncOrSelf.below {h : Heap} {n k x : Id} (hp : (h k).parent = some n) (ha : AncOrSelf h k x) :
    AncOrSelf h n x := by
  induction ha with
  | refl => exact AncOrSelf.step hp AncOrSelf.refl
  | step hpx _ ih => exact AncOrSelf.step hpx ih

/-- soundness: whatever the traversal of `n` lists is an element at or below `n` -/
theorem elems_sound {h : Heap} (hI : Inv h) : ∀ (f : Nat) (n : Id) (l : List Id), elems h f n = some l →
    ∀ x ∈ l, AncOrSelf h n x ∧ (h x).kind = .elem := by
  intro f
  induction f with
  | zero =>
    intro n l hl x hx
    by_cases hk : (h n).kind = .elem
    · simp [elems_zero, hk] at hl
    · rw [elems_of_not_elem hk] at hl; cases hl; cases hx
  | succ f ih =>
    intro n l hl x hx
    by_cases hk : (h n).kind = .elem
    · obtain ⟨f', l', hf, hl', rfl⟩ := elems_elem_some hk hl
      cases hf
      rcases List.mem_cons.mp hx with e | hx
      · subst e; exact ⟨AncOrSelf.refl, hk⟩
      · obtain ⟨k, hkm, lk, hlk, hxk⟩ := (elemsL_mem hl' x).mp hx
        obtain ⟨ha, hke⟩ := ih k lk hlk x hxk
        exact ⟨AncOrSelf.below ((hI.parent_iff n k).mp hkm) ha, hke⟩
    · rw [elems_of_not_elem hk] at hl; cases hl; cases hx

/-- the traversal is closed under "element child of a listed node" -/
theorem elems_closed {h : Heap} : ∀ (f : Nat) (n : Id) (l : List Id), elems h f n = some l →
    ∀ p ∈ l, ∀ x ∈ (h p).kids, (h x).kind = .elem → x ∈ l := by
  intro f
  induction f with
  | zero =>
    intro n l hl p hp
    by_cases hk : (h n).kind = .elem
    · simp [elems_zero, hk] at hl
    · rw [elems_of_not_elem hk] at hl; cases hl; cases hp
  | succ f ih =>
    intro n l hl p hp x hx hxe
    by_cases hk : (h n).kind = .elem
    · obtain ⟨f', l', hf, hl', rfl⟩ := elems_elem_some hk hl
      cases hf
      rcases List.mem_cons.mp hp with e | hp
      · subst e
        obtain ⟨lx, hlx⟩ := elemsL_all hl' x hx
        exact List.mem_cons_of_mem _ ((elemsL_mem hl' x).mpr ⟨x, hx, lx, hlx, elems_head hxe hlx⟩)
      · obtain ⟨k, hkm, lk, hlk, hpk⟩ := (elemsL_mem hl' p).mp hp
        have := ih k lk hlk p hpk x hx hxe
        exact List.mem_cons_of_mem _ ((elemsL_mem hl' x).mpr ⟨k, hkm, lk, hlk, this⟩)
    · rw [elems_of_not_elem hk] at hl; cases hl; cases hp

/-- completeness: a successful traversal of `n` lists every element at or below `n` -/
theorem elems_complete {h : Heap} (hI : Inv h) {f : Nat} {n : Id} {l : List Id} (hl : elems h f n = some l)
    {x : Id} (ha : AncOrSelf h n x) (hx : (h x).kind = .elem) : x ∈ l := by
  induction ha with
  | refl => exact elems_head hx hl
  | @step x p hpx _ ih =>
    have hpe : (h p).kind = .elem := hI.parent_elem hpx
    exact elems_closed f n l hl p (ih hpe) x ((hI.parent_iff p x).mpr hpx) hx

/-- **what the three recursions visit**: exactly the element nodes at or below `n` -/
theorem elems_spec {h : Heap} (hI : Inv h) {f : Nat} {n : Id} {l : List Id} (hl : elems h f n = some l) (x : Id) :
    x ∈ l ↔ AncOrSelf h n x ∧ (h x).kind = .elem :=
  ⟨fun hx => elems_sound hI f n l hl x hx, fun ⟨ha, hk⟩ => elems_complete hI hl ha hk⟩

theorem anc_depth {h : Heap} {d : Id → Nat} (hd : ∀ c p, (h c).parent = some p → d p < d c) {a x : Id}
    (ha : AncOrSelf h a x) : d a ≤ d x := by
  induction ha with
  | refl => exact Nat.le_refl _
  | step hpx _ ih => exact Nat.le_trans ih (Nat.le_of_lt (hd _ _ hpx))

/-- the ancestors of a node form a chain -/
theorem anc_chain {h : Heap} {a b x : Id} (ha : AncOrSelf h a x) (hb : AncOrSelf h b x) :
    AncOrSelf h a b ∨ AncOrSelf h b a := by
  induction ha with
  | refl => exact Or.inr hb
  | @step x p hpx hap ih =>
    cases hb with
    | refl => exact Or.inl (AncOrSelf.step hpx hap)
    | step hpx' hbp => rw [hpx] at hpx'; cases hpx'; exact ih hbp

theorem anc_of_no_parent {h : Heap} {a x : Id} (hp : (h x).parent = none) (ha : AncOrSelf h a x) : x = a := by
  cases ha with
  | refl => rfl
  | step hpx _ => rw [hp] at hpx; cases hpx

theorem elemsL_nodup {h : Heap} {f : Nat} : ∀ {ks l : List Id}, ks.Nodup →
    (∀ k ∈ ks, ∀ lk, elems h f k = some lk → lk.Nodup) →
    (∀ k1 ∈ ks, ∀ k2 ∈ ks, k1 ≠ k2 → ∀ l1 l2, elems h f k1 = some l1 → elems h f k2 = some l2 → ∀ x ∈ l1, x ∉ l2) →
    elemsL h f ks = some l → l.Nodup := by
  intro ks
  induction ks with
  | nil => intro l _ _ _ hl; rw [elemsL_nil] at hl; cases hl; exact List.nodup_nil
  | cons k r ih =>
    intro l hnd hk hdis hl
    obtain ⟨a, b, ha, hb, rfl⟩ := elemsL_cons_some hl
    have hnd' := List.nodup_cons.mp hnd
    rw [List.nodup_append]
    refine ⟨hk k (by simp) a ha, ih hnd'.2 (fun k' hk' => hk k' (by simp [hk']))
      (fun k1 h1 k2 h2 => hdis k1 (by simp [h1]) k2 (by simp [h2])) hb, ?_⟩
    intro x hxa y hyb e
    subst e
    obtain ⟨k', hk', lk, hlk, hxk⟩ := (elemsL_mem hb x).mp hyb
    have hne : k ≠ k' := fun e => hnd'.1 (e ▸ hk')
    exact hdis k (by simp) k' (by simp [hk']) hne a lk ha hlk x hxa hxk

/-- in a consistent forest the traversal lists every node once -/
theorem elems_nodup {h : Heap} (hI : Inv h) (hA : Acyclic h) : ∀ (f : Nat) (n : Id) (l : List Id),
    elems h f n = some l → l.Nodup := by
  obtain ⟨d, hd⟩ := hA
  intro f
  induction f with
  | zero =>
    intro n l hl
    by_cases hk : (h n).kind = .elem
    · simp [elems_zero, hk] at hl
    · rw [elems_of_not_elem hk] at hl; cases hl; exact List.nodup_nil
  | succ f ih =>
    intro n l hl
    by_cases hk : (h n).kind = .elem
    · obtain ⟨f', l', hf, hl', rfl⟩ := elems_elem_some hk hl
      cases hf
      have hbelow : ∀ k ∈ (h n).kids, ∀ lk, elems h f k = some lk → ∀ x ∈ lk, d n < d x := by
        intro k hkm lk hlk x hx
        have hpk := (hI.parent_iff n k).mp hkm
        have := anc_depth hd (elems_sound hI f k lk hlk x hx).1
        have := hd k n hpk
        omega
      rw [List.nodup_cons]
      constructor
      · intro hn
        obtain ⟨k, hkm, lk, hlk, hxk⟩ := (elemsL_mem hl' n).mp hn
        have := hbelow k hkm lk hlk n hxk
        omega
      · apply elemsL_nodup (hI.nodup n) (fun k _ lk hlk => ih k lk hlk) _ hl'
        intro k1 h1 k2 h2 hne l1 l2 hl1 hl2 x hx1 hx2
        have a1 := (elems_sound hI f k1 l1 hl1 x hx1).1
        have a2 := (elems_sound hI f k2 l2 hl2 x hx2).1
        have hp1 := (hI.parent_iff n k1).mp h1
        have hp2 := (hI.parent_iff n k2).mp h2
        rcases anc_chain a1 a2 with hc | hc
        · cases hc with
          | refl => exact hne rfl
          | step hpx hrest =>
            rw [hp2] at hpx; cases hpx
            have := anc_depth hd hrest
            have := hd k1 n hp1
            omega
        · cases hc with
          | refl => exact hne rfl
          | step hpx hrest =>
            rw [hp1] at hpx; cases hpx
            have := anc_depth hd hrest
            have := hd k2 n hp2
            omega
    · rw [elems_of_not_elem hk] at hl; cases hl; exact List.nodup_nil

/-! ### the element-level query is the filter over the subtree, in document order -/

theorem getByObj_spec (h : Heap) (q : Nat) : ∀ (f : Nat),
    (∀ n acc, (h n).kind = .elem →
      getByObj h q f n acc = (elems h f n).map (fun l => acc ++ l.filter (fun x => (h x).qn = q))) ∧
    (∀ ks acc, getByObjL h q f ks acc = (elemsL h f ks).map (fun l => acc ++ l.filter (fun x => (h x).qn = q))) := by
  intro f
  induction f with
  | zero =>
    have h1 : ∀ n acc, (h n).kind = .elem →
        getByObj h q 0 n acc = (elems h 0 n).map (fun l => acc ++ l.filter (fun x => (h x).qn = q)) := by
      intro n acc hk; simp [getByObj, elems_zero, hk]
    refine ⟨h1, ?_⟩
    intro ks
    induction ks with
    | nil => intro acc; simp [getByObjL, elemsL_nil]
    | cons k r ih =>
      intro acc
      rw [getByObjL, elemsL_cons]
      by_cases hk : (h k).kind = .elem
      · simp only [hk, if_true, h1 k acc hk, elems_zero]; simp
      · simp only [hk, if_false, ih acc, elems_of_not_elem hk]
        cases elemsL h 0 r <;> simp
  | succ f ih =>
    have h1 : ∀ n acc, (h n).kind = .elem →
        getByObj h q (f + 1) n acc = (elems h (f + 1) n).map (fun l => acc ++ l.filter (fun x => (h x).qn = q)) := by
      intro n acc hk
      rw [getByObj, ih.2, elems_succ]
      simp only [hk, if_true]
      cases elemsL h f (h n).kids with
      | none => simp
      | some l =>
        by_cases hq : (h n).qn = q
        · simp [hq]
        · simp [hq]
    refine ⟨h1, ?_⟩
    intro ks
    induction ks with
    | nil => intro acc; simp [getByObjL, elemsL_nil]
    | cons k r ih2 =>
      intro acc
      rw [getByObjL, elemsL_cons]
      by_cases hk : (h k).kind = .elem
      · simp only [hk, if_true, h1 k acc hk]
        cases hek : elems h (f + 1) k with
        | none => simp
        | some a =>
          simp only [Option.map_some]
          rw [ih2]
          cases elemsL h (f + 1) r <;> simp [List.filter_append, List.append_assoc]
      · simp only [hk, if_false, ih2 acc, elems_of_not_elem hk]
        cases elemsL h (f + 1) r <;> simp

/-- **C09 (element-level query)**: `element.getElementsByType(f)` returns exactly the elements of the
    subtree (the element itself included) whose qname is the one asked for, in document order —
    unconditionally (no invariant, any heap), also when it fails (deeper than the recursion budget). -/
theorem elByType_eq_filter (h : Heap) (n : Id) (q : Nat) (hk : (h n).kind = .elem) :
    elByType h n q = (elemsUnder h n).map (fun l => l.filter (fun x => (h x).qn = q)) := by
  unfold elByType elemsUnder
  rw [(getByObj_spec h q FUEL).1 n [] hk]
  cases elems h FUEL n <;> simp

/-! ### closed forms of the index maintenance -/

/-- the heaps differ at most in attribute values -/
def SameLinks (h h' : Heap) : Prop :=
  ∀ y, (h' y).kids = (h y).kids ∧ (h' y).parent = (h y).parent ∧ (h' y).prev = (h y).prev ∧
    (h' y).next = (h y).next ∧ (h' y).kind = (h y).kind ∧ (h' y).qn = (h y).qn

theorem SameLinks.refl (h : Heap) : SameLinks h h := fun _ => ⟨rfl, rfl, rfl, rfl, rfl, rfl⟩
theorem SameLinks.trans {h1 h2 h3 : Heap} (a : SameLinks h1 h2) (b : SameLinks h2 h3) : SameLinks h1 h3 := by
  intro y
  obtain ⟨a1, a2, a3, a4, a5, a6⟩ := a y
  obtain ⟨b1, b2, b3, b4, b5, b6⟩ := b y
  exact ⟨b1.trans a1, b2.trans a2, b3.trans a3, b4.trans a4, b5.trans a5, b6.trans a6⟩
theorem sameLinks_setAttrs (h : Heap) (x : Id) (v : List (Nat × Nat)) : SameLinks h (setAttrs h x v) := by
  intro y; simp

theorem forEach_run_pure (f : Id → DM Unit) (g : Id → DState → DState)
    (hf : ∀ x s, (f x).run s = (g x s, .ok ())) : ∀ (l : List Id) (s : DState),
    (forEach f l).run s = (l.foldl (fun s x => g x s) s, .ok ()) := by
  intro l
  induction l with
  | nil => intro s; rfl
  | cons x r ih => intro s; simp only [forEach, DomDoc.run_bind, hf, List.foldl_cons]; exact ih _

theorem walk_run (n : Id) (s : DState) : (walk n).run s =
    match elemsUnder s.heap n with
    | some l => (s, .ok l)
    | none => (s, .error .RecursionError) := by
  unfold walk
  simp only [DomDoc.run_bind_rd]
  cases elemsUnder s.heap n <;> rfl

/-- `dropStyleEntry` as a function -/
def dropStylePure (x : Id) (s : DState) : DState :=
  if (s.heap x).qn = QN_STYLE then
    match lookupAttr KEY_STYLE_NAME (s.heap x).attrs with
    | none => s
    | some name => if sdGet s.sdict name = some x then { s with sdict := sdDel s.sdict name } else s
  else s

theorem dropStyleEntry_run (x : Id) (s : DState) : (dropStyleEntry x).run s = (dropStylePure x s, .ok ()) := by
  unfold dropStyleEntry dropStylePure
  simp only [DomDoc.run_bind_rd]
  by_cases hq : (s.heap x).qn = QN_STYLE
  · simp only [hq, if_true, DomDoc.run_bind_rd]
    cases hn : lookupAttr KEY_STYLE_NAME (s.heap x).attrs with
    | none => rfl
    | some name =>
      simp only [DomDoc.run_bind_rd]
      by_cases hs : sdGet s.sdict name = some x <;> simp [hs]
  · simp [hq]

/-- what `remove_from_caches` does for one element -/
def removeOnePure (x : Id) (s : DState) : DState := dropStylePure x (edDrop x s)

theorem removeOne_run (x : Id) (s : DState) : (removeOne x).run s = (removeOnePure x s, .ok ()) := by
  unfold removeOne removeOnePure
  simp only [DomDoc.run_bind_upd, dropStyleEntry_run]

/-- `__register_stylename` as a function -/
def registerPure (x : Id) (s : DState) : DState :=
  match lookupAttr KEY_STYLE_NAME (s.heap x).attrs with
  | none => s
  | some name =>
    match (s.heap x).parent with
    | none => s
    | some pp =>
      if (s.heap pp).qn = QN_STYLES ∨ (s.heap pp).qn = QN_AUTOSTYLES then
        if (sdGet s.sdict name).isSome then
          { s with fix := storeAttr name (mName name) s.fix,
                   heap := setAttrs s.heap x (storeAttr KEY_STYLE_NAME (mName name) (s.heap x).attrs),
                   sdict := sdSet s.sdict (mName name) x }
        else { s with sdict := sdSet s.sdict name x }
      else s

theorem registerStyle_run (x : Id) (s : DState) : (registerStyle x).run s = (registerPure x s, .ok ()) := by
  unfold registerStyle registerPure
  simp only [DomDoc.run_bind_rd]
  cases hn : lookupAttr KEY_STYLE_NAME (s.heap x).attrs with
  | none => rfl
  | some name =>
    simp only [DomDoc.run_bind_rd]
    cases hp : (s.heap x).parent with
    | none => rfl
    | some pp =>
      simp only [DomDoc.run_bind_rd]
      by_cases hq : (s.heap pp).qn = QN_STYLES ∨ (s.heap pp).qn = QN_AUTOSTYLES
      · by_cases hs : (sdGet s.sdict name).isSome
        · simp [hq, hs]
        · simp [hq, hs]
      · simp [hq]

def registerIfPure (x : Id) (s : DState) : DState :=
  if (s.heap x).qn = QN_STYLE then registerPure x s else s

theorem registerIfStyle_run (x : Id) (s : DState) : (registerIfStyle x).run s = (registerIfPure x s, .ok ()) := by
  unfold registerIfStyle registerIfPure
  simp only [DomDoc.run_bind_rd]
  by_cases hq : (s.heap x).qn = QN_STYLE <;> simp [hq, registerStyle_run]

def fixRefPure (x : Id) (s : DState) : DState :=
  match lookupAttr KEY_TEXT_STYLE_NAME (s.heap x).attrs with
  | none => s
  | some r =>
    match lookupAttr r s.fix with
    | none => s
    | some nw => { s with heap := setAttrs s.heap x (storeAttr KEY_TEXT_STYLE_NAME nw (s.heap x).attrs) }

theorem fixStyleRef_run (x : Id) (s : DState) : (fixStyleRef x).run s = (fixRefPure x s, .ok ()) := by
  unfold fixStyleRef fixRefPure
  simp only [DomDoc.run_bind_rd]
  cases lookupAttr KEY_TEXT_STYLE_NAME (s.heap x).attrs with
  | none => rfl
  | some r =>
    simp only [DomDoc.run_bind_rd]
    cases lookupAttr r s.fix <;> rfl

/-- what `build_caches` does for one element -/
def buildPure (x : Id) (s : DState) : DState := fixRefPure x (registerIfPure x (edAppend x s))

theorem buildCaches_run (x : Id) (s : DState) : (buildCaches x).run s = (buildPure x s, .ok ()) := by
  unfold buildCaches buildPure
  simp only [DomDoc.run_bind, DomDoc.run_upd, registerIfStyle_run, fixStyleRef_run]

/-! ### the three traversals as folds, and what they do to the index -/

theorem setOwnerRec_run (n : Id) (v : Bool) (s : DState) : (setOwnerRec n v).run s =
    match elemsUnder s.heap n with
    | some l => (l.foldl (fun s x => setOwned s x v) s, .ok ())
    | none => (s, .error .RecursionError) := by
  unfold setOwnerRec
  rw [DomDoc.run_bind, walk_run]
  cases elemsUnder s.heap n with
  | none => rfl
  | some l => exact forEach_run_pure _ (fun x s => setOwned s x v) (fun _ _ => rfl) l s

theorem removeFromCaches_run (n : Id) (s : DState) : (removeFromCaches n).run s =
    match elemsUnder s.heap n with
    | some l => (l.foldl (fun s x => removeOnePure x s) s, .ok ())
    | none => (s, .error .RecursionError) := by
  unfold removeFromCaches
  rw [DomDoc.run_bind, walk_run]
  cases elemsUnder s.heap n with
  | none => rfl
  | some l => exact forEach_run_pure _ removeOnePure removeOne_run l s

theorem rebuildCaches_run (n : Id) (s : DState) : (rebuildCaches n).run s =
    match elemsUnder s.heap n with
    | some l => (l.foldl (fun s x => buildPure x s) s, .ok ())
    | none => (s, .error .RecursionError) := by
  unfold rebuildCaches
  rw [DomDoc.run_bind, walk_run]
  cases elemsUnder s.heap n with
  | none => rfl
  | some l => exact forEach_run_pure _ buildPure buildCaches_run l s

/-- `element_dict.get(q, [])` -/
abbrev ed (s : DState) (q : Nat) : List Id := edGet s.edict q

theorem edDrop_ed (x : Id) (s : DState) (q : Nat) :
    ed (edDrop x s) q = if q = (s.heap x).qn then (ed s q).erase x else ed s q := by
  unfold edDrop ed
  by_cases hm : x ∈ edGet s.edict (s.heap x).qn
  · simp only [hm, if_true, edGet_edSet]
    by_cases hq : q = (s.heap x).qn
    · subst hq; simp
    · simp [hq]
  · simp only [hm, if_false]
    by_cases hq : q = (s.heap x).qn
    · subst hq; simp [List.erase_of_not_mem hm]
    · simp [hq]

theorem edDrop_same (x : Id) (s : DState) :
    (edDrop x s).heap = s.heap ∧ (edDrop x s).ownedL = s.ownedL ∧ (edDrop x s).top = s.top ∧
    (edDrop x s).sdict = s.sdict ∧ (edDrop x s).fix = s.fix := by
  unfold edDrop; split <;> simp

theorem dropStylePure_same (x : Id) (s : DState) :
    (dropStylePure x s).heap = s.heap ∧ (dropStylePure x s).ownedL = s.ownedL ∧ (dropStylePure x s).top = s.top ∧
    (dropStylePure x s).edict = s.edict ∧ (dropStylePure x s).fix = s.fix := by
  unfold dropStylePure
  split
  · split
    · simp
    · split <;> simp
  · simp

theorem removeOnePure_same (x : Id) (s : DState) :
    (removeOnePure x s).heap = s.heap ∧ (removeOnePure x s).ownedL = s.ownedL ∧ (removeOnePure x s).top = s.top := by
  unfold removeOnePure
  obtain ⟨a1, a2, a3, _, _⟩ := dropStylePure_same x (edDrop x s)
  obtain ⟨b1, b2, b3, _, _⟩ := edDrop_same x s
  exact ⟨a1.trans b1, a2.trans b2, a3.trans b3⟩

theorem removeOnePure_ed (x : Id) (s : DState) (q : Nat) :
    ed (removeOnePure x s) q = if q = (s.heap x).qn then (ed s q).erase x else ed s q := by
  unfold removeOnePure ed
  rw [(dropStylePure_same x (edDrop x s)).2.2.2.1]
  exact edDrop_ed x s q

theorem foldRemove_same : ∀ (l : List Id) (s : DState),
    (l.foldl (fun s x => removeOnePure x s) s).heap = s.heap ∧
    (l.foldl (fun s x => removeOnePure x s) s).ownedL = s.ownedL ∧
    (l.foldl (fun s x => removeOnePure x s) s).top = s.top := by
  intro l
  induction l with
  | nil => intro s; exact ⟨rfl, rfl, rfl⟩
  | cons x r ih =>
    intro s
    obtain ⟨a1, a2, a3⟩ := ih (removeOnePure x s)
    obtain ⟨b1, b2, b3⟩ := removeOnePure_same x s
    exact ⟨a1.trans b1, a2.trans b2, a3.trans b3⟩

/-- after `remove_from_caches` over `l`: exactly the listed elements are gone from the index -/
theorem foldRemove_ed : ∀ (l : List Id) (s : DState), (∀ q, (ed s q).Nodup) →
    (∀ q, (ed (l.foldl (fun s x => removeOnePure x s) s) q).Nodup) ∧
    (∀ q y, y ∈ ed (l.foldl (fun s x => removeOnePure x s) s) q ↔
      y ∈ ed s q ∧ ¬ (y ∈ l ∧ (s.heap y).qn = q)) := by
  intro l
  induction l with
  | nil => intro s hnd; exact ⟨hnd, fun q y => by simp⟩
  | cons x r ih =>
    intro s hnd
    have hnd1 : ∀ q, (ed (removeOnePure x s) q).Nodup := by
      intro q; rw [removeOnePure_ed]; split
      · exact (hnd q).erase x
      · exact hnd q
    obtain ⟨h1, h2⟩ := ih (removeOnePure x s) hnd1
    refine ⟨h1, ?_⟩
    intro q y
    simp only [List.foldl_cons]
    rw [h2 q y, removeOnePure_ed, (removeOnePure_same x s).1]
    by_cases hq : q = (s.heap x).qn
    · simp only [hq, if_true]
      rw [(hnd _).mem_erase_iff]
      by_cases hyx : y = x
      · subst hyx; simp
      · simp [hyx]
    · simp only [hq, if_false]
      by_cases hyx : y = x
      · subst hyx; simp [Ne.symm hq]
      · simp [hyx]

theorem registerPure_view (x : Id) (s : DState) :
    SameLinks s.heap (registerPure x s).heap ∧ (registerPure x s).ownedL = s.ownedL ∧
    (registerPure x s).top = s.top ∧ (registerPure x s).edict = s.edict := by
  unfold registerPure
  split
  · exact ⟨SameLinks.refl _, rfl, rfl, rfl⟩
  · split
    · exact ⟨SameLinks.refl _, rfl, rfl, rfl⟩
    · split
      · split
        · exact ⟨sameLinks_setAttrs _ _ _, rfl, rfl, rfl⟩
        · exact ⟨SameLinks.refl _, rfl, rfl, rfl⟩
      · exact ⟨SameLinks.refl _, rfl, rfl, rfl⟩

theorem fixRefPure_view (x : Id) (s : DState) :
    SameLinks s.heap (fixRefPure x s).heap ∧ (fixRefPure x s).ownedL = s.ownedL ∧
    (fixRefPure x s).top = s.top ∧ (fixRefPure x s).edict = s.edict := by
  unfold fixRefPure
  split
  · exact ⟨SameLinks.refl _, rfl, rfl, rfl⟩
  · split
    · exact ⟨SameLinks.refl _, rfl, rfl, rfl⟩
    · exact ⟨sameLinks_setAttrs _ _ _, rfl, rfl, rfl⟩

theorem buildPure_view (x : Id) (s : DState) :
    SameLinks s.heap (buildPure x s).heap ∧ (buildPure x s).ownedL = s.ownedL ∧
    (buildPure x s).top = s.top ∧
    (∀ q, ed (buildPure x s) q = if q = (s.heap x).qn then ed s q ++ [x] else ed s q) := by
  unfold buildPure
  have hreg : SameLinks (edAppend x s).heap (registerIfPure x (edAppend x s)).heap ∧
      (registerIfPure x (edAppend x s)).ownedL = (edAppend x s).ownedL ∧
      (registerIfPure x (edAppend x s)).top = (edAppend x s).top ∧
      (registerIfPure x (edAppend x s)).edict = (edAppend x s).edict := by
    unfold registerIfPure; split
    · exact registerPure_view x _
    · exact ⟨SameLinks.refl _, rfl, rfl, rfl⟩
  obtain ⟨a1, a2, a3, a4⟩ := fixRefPure_view x (registerIfPure x (edAppend x s))
  obtain ⟨b1, b2, b3, b4⟩ := hreg
  refine ⟨SameLinks.trans b1 a1, a2.trans b2, a3.trans b3, ?_⟩
  intro q
  unfold ed
  rw [a4, b4]
  simp only [edAppend, edGet_edSet]
  split
  · rename_i e; rw [e]
  · rfl

theorem foldBuild_view : ∀ (l : List Id) (s : DState),
    SameLinks s.heap (l.foldl (fun s x => buildPure x s) s).heap ∧
    (l.foldl (fun s x => buildPure x s) s).ownedL = s.ownedL ∧
    (l.foldl (fun s x => buildPure x s) s).top = s.top ∧
    (∀ q, ed (l.foldl (fun s x => buildPure x s) s) q = ed s q ++ l.filter (fun y => (s.heap y).qn = q)) := by
  intro l
  induction l with
  | nil => intro s; exact ⟨SameLinks.refl _, rfl, rfl, fun q => by simp⟩
  | cons x r ih =>
    intro s
    obtain ⟨a1, a2, a3, a4⟩ := ih (buildPure x s)
    obtain ⟨b1, b2, b3, b4⟩ := buildPure_view x s
    refine ⟨SameLinks.trans b1 a1, a2.trans b2, a3.trans b3, ?_⟩
    intro q
    simp only [List.foldl_cons]
    rw [a4 q, b4 q]
    have hqn : ∀ y, ((buildPure x s).heap y).qn = (s.heap y).qn := fun y => (b1 y).2.2.2.2.2
    simp only [hqn, List.filter_cons]
    by_cases hq : q = (s.heap x).qn
    · subst hq; simp
    · simp [hq, Ne.symm hq]

theorem foldOwned_view (v : Bool) : ∀ (l : List Id) (s : DState),
    (l.foldl (fun s x => setOwned s x v) s).heap = s.heap ∧
    (l.foldl (fun s x => setOwned s x v) s).edict = s.edict ∧
    (l.foldl (fun s x => setOwned s x v) s).top = s.top ∧
    (l.foldl (fun s x => setOwned s x v) s).sdict = s.sdict ∧
    (∀ y, (l.foldl (fun s x => setOwned s x v) s).owned y = if y ∈ l then v else s.owned y) := by
  intro l
  induction l with
  | nil => intro s; exact ⟨rfl, rfl, rfl, rfl, fun y => by simp⟩
  | cons x r ih =>
    intro s
    obtain ⟨a1, a2, a3, a4, a5⟩ := ih (setOwned s x v)
    refine ⟨a1, a2, a3, a4, ?_⟩
    intro y
    simp only [List.foldl_cons]
    rw [a5 y, owned_setOwned]
    by_cases hyr : y ∈ r
    · simp [hyr]
    · by_cases hyx : y = x
      · simp [hyx]
      · simp [hyr, hyx]

/-! ### coherence of the element index and of ownerDocument -/

/-- attached to the document: the top node is the node itself or one of its ancestors -/
def Att (s : DState) (x : Id) : Prop := AncOrSelf s.heap s.top x

/-- **the element index and ownerDocument agree with the tree**: for every qname the list
    `element_dict[qname]` has no repetition and holds exactly the attached elements of that qname
    (so it is a permutation of any duplicate-free enumeration of them, `coh_perm`); an element's
    ownerDocument is the document exactly when it is attached.  (The top node itself is listed only
    after an index rebuild from the top; nothing queries its type.) -/
structure CohIdx (s : DState) : Prop where
  top_elem : (s.heap s.top).kind = .elem
  top_root : (s.heap s.top).parent = none
  nodup : ∀ q, (ed s q).Nodup
  mem_iff : ∀ q x, x ≠ s.top → (x ∈ ed s q ↔ Att s x ∧ (s.heap x).kind = .elem ∧ (s.heap x).qn = q)
  top_mem : ∀ q, s.top ∈ ed s q → (s.heap s.top).qn = q
  owned_iff : ∀ x, (s.heap x).kind = .elem → (s.owned x = true ↔ Att s x)

theorem AncOrSelf.mono {h h' : Heap} (hp : ∀ y q, (h' y).parent = some q → (h y).parent = some q) {a x : Id}
    (ha : AncOrSelf h' a x) : AncOrSelf h a x := by
  induction ha with
  | refl => exact AncOrSelf.refl
  | step hpx _ ih => exact AncOrSelf.step (hp _ _ hpx) ih

/-- the index after a subtree was cut off -/
theorem coh_remove {s s' : DState} {p c : Id} {l : List Id}
    (hI : Inv s.heap) (hC : CohIdx s) (hc : c ∈ (s.heap p).kids) (hI' : Inv s'.heap)
    (htop : s'.top = s.top)
    (hpar : ∀ y, (s'.heap y).parent = if y = c then none else (s.heap y).parent)
    (hkind : ∀ y, (s'.heap y).kind = (s.heap y).kind) (hqn : ∀ y, (s'.heap y).qn = (s.heap y).qn)
    (hl : ∀ x, x ∈ l ↔ AncOrSelf s'.heap c x ∧ (s'.heap x).kind = .elem)
    (hnd' : ∀ q, (ed s' q).Nodup)
    (hed : ∀ q y, y ∈ ed s' q ↔ y ∈ ed s q ∧
      ¬ ((s.owned p = true ∧ (s.heap c).kind = .elem) ∧ y ∈ l ∧ (s.heap y).qn = q))
    (how : ∀ y, s'.owned y = if y ∈ l then false else s.owned y) : CohIdx s' := by
  have hpc : (s.heap c).parent = some p := (hI.parent_iff p c).mp hc
  have hct : c ≠ s.top := by intro e; rw [e, hC.top_root] at hpc; cases hpc
  have hkp : (s.heap p).kind = .elem := hI.parent_elem hpc
  have hptop' : (s'.heap s.top).parent = none := by rw [hpar]; simp [Ne.symm hct, hC.top_root]
  have hpc' : (s'.heap c).parent = none := by rw [hpar]; simp
  -- (R) attached afterwards = attached before and not below c
  have hR1 : ∀ x, AncOrSelf s'.heap s.top x → Att s x := by
    intro x ha
    exact AncOrSelf.mono (h := s.heap) (fun y q hy => by
      rw [hpar] at hy; split at hy
      · cases hy
      · exact hy) ha
  have hR2 : ∀ x, AncOrSelf s'.heap s.top x → ¬ AncOrSelf s'.heap c x := by
    intro x ha hb
    rcases anc_chain ha hb with h1 | h1
    · exact hct (anc_of_no_parent hpc' h1)
    · exact hct (anc_of_no_parent hptop' h1).symm
  have hR3 : ∀ x, Att s x → ¬ AncOrSelf s'.heap c x → AncOrSelf s'.heap s.top x := by
    intro x ha
    induction ha with
    | refl => intro _; exact AncOrSelf.refl
    | @step x q hpx _ ih =>
      intro hn
      have hxc : x ≠ c := fun e => hn (e ▸ AncOrSelf.refl)
      have hpx' : (s'.heap x).parent = some q := by rw [hpar]; simp [hxc, hpx]
      exact AncOrSelf.step hpx' (ih (fun hq => hn (AncOrSelf.step hpx' hq)))
  have hR : ∀ x, Att s' x ↔ Att s x ∧ ¬ AncOrSelf s'.heap c x := by
    intro x; unfold Att; rw [htop]
    exact ⟨fun ha => ⟨hR1 x ha, hR2 x ha⟩, fun ⟨ha, hn⟩ => hR3 x ha hn⟩
  -- when nothing is dropped from the index, no attached element was below c
  have hnone : ¬ (s.owned p = true ∧ (s.heap c).kind = .elem) → ∀ x, (s.heap x).kind = .elem → Att s x →
      ¬ AncOrSelf s'.heap c x := by
    intro hD x hxe hax hcx
    by_cases hce : (s.heap c).kind = .elem
    · have hop : ¬ s.owned p = true := fun h => hD ⟨h, hce⟩
      have hnp : ¬ Att s p := fun h => hop ((hC.owned_iff p hkp).mpr h)
      have hcx0 : AncOrSelf s.heap c x := AncOrSelf.mono (fun y q hy => by
        rw [hpar] at hy; split at hy
        · cases hy
        · exact hy) hcx
      rcases anc_chain hax hcx0 with h1 | h1
      · cases h1 with
        | refl => exact hct rfl
        | step hp' hrest => rw [hpc] at hp'; cases hp'; exact hnp hrest
      · exact hct (anc_of_no_parent hC.top_root h1).symm
    · have hk0 : (s'.heap c).kids = [] := hI'.childless c (by rw [hkind]; exact hce)
      have := AncOrSelf.eq_of_no_kids hI' hk0 hcx
      rw [this] at hxe; exact hce hxe
  refine ⟨by rw [htop, hkind]; exact hC.top_elem, by rw [htop]; exact hptop', hnd', ?_, ?_, ?_⟩
  · intro q x hxt
    rw [htop] at hxt
    rw [hed q x, hC.mem_iff q x hxt, hR x, hl x, hkind, hqn]
    by_cases hD : s.owned p = true ∧ (s.heap c).kind = .elem
    · simp only [hD, true_and]
      constructor
      · rintro ⟨⟨ha, hk, hq⟩, hn⟩
        exact ⟨⟨ha, fun hcx => hn ⟨⟨hcx, hk⟩, hq⟩⟩, hk, hq⟩
      · rintro ⟨⟨ha, hn⟩, hk, hq⟩
        exact ⟨⟨ha, hk, hq⟩, fun ⟨⟨hcx, _⟩, _⟩ => hn hcx⟩
    · simp only [hD, false_and, not_false_eq_true, and_true]
      constructor
      · rintro ⟨ha, hk, hq⟩; exact ⟨⟨ha, hnone hD x hk ha⟩, hk, hq⟩
      · rintro ⟨⟨ha, _⟩, hk, hq⟩; exact ⟨ha, hk, hq⟩
  · intro q ht
    rw [htop] at ht ⊢
    rw [hqn]
    exact hC.top_mem q ((hed q s.top).mp ht).1
  · intro x hxe
    rw [hkind] at hxe
    rw [how x, hR x]
    by_cases hcx : AncOrSelf s'.heap c x
    · have : x ∈ l := (hl x).mpr ⟨hcx, by rw [hkind]; exact hxe⟩
      simp [this, hcx]
    · have : x ∉ l := fun hm => hcx ((hl x).mp hm).1
      simp [this, hcx, hC.owned_iff x hxe]

/-- the index after a detached subtree was hung under `p` -/
theorem coh_attach {s s' : DState} {p c : Id} {l : List Id}
    (hC : CohIdx s) (hI' : Inv s'.heap) (hA' : Acyclic s'.heap)
    (hkp : (s.heap p).kind = .elem) (hdet : (s.heap c).parent = none) (hct : c ≠ s.top)
    (htop : s'.top = s.top)
    (hpar : ∀ y, (s'.heap y).parent = if y = c then some p else (s.heap y).parent)
    (hkind : ∀ y, (s'.heap y).kind = (s.heap y).kind) (hqn : ∀ y, (s'.heap y).qn = (s.heap y).qn)
    (hl : ∀ x, x ∈ l ↔ AncOrSelf s'.heap c x ∧ (s'.heap x).kind = .elem) (hlnd : l.Nodup)
    (hed : ∀ q, ed s' q = if s.owned p = true ∧ (s.heap c).kind = .elem
      then ed s q ++ l.filter (fun y => (s.heap y).qn = q) else ed s q)
    (how : ∀ y, s'.owned y = if y ∈ l then s.owned p else s.owned y) : CohIdx s' := by
  obtain ⟨d, hd⟩ := hA'
  have hpc' : (s'.heap c).parent = some p := by rw [hpar]; simp
  have hptop' : (s'.heap s.top).parent = none := by rw [hpar]; simp [Ne.symm hct, hC.top_root]
  have hup : ∀ x, Att s x → AncOrSelf s'.heap s.top x := by
    intro x ha
    induction ha with
    | refl => exact AncOrSelf.refl
    | @step x q hpx _ ih =>
      have hxc : x ≠ c := by intro e; rw [e, hdet] at hpx; cases hpx
      exact AncOrSelf.step (by rw [hpar]; simp [hxc, hpx]) ih
  -- (A) attached afterwards = attached before, or below c when p is attached
  have hA1 : ∀ x, AncOrSelf s'.heap s.top x → Att s x ∨ (Att s p ∧ AncOrSelf s'.heap c x) := by
    intro x ha
    induction ha with
    | refl => exact Or.inl AncOrSelf.refl
    | @step x q hpx _ ih =>
      by_cases hxc : x = c
      · subst hxc
        rw [hpc'] at hpx; cases hpx
        rcases ih with h1 | ⟨h1, _⟩ <;> exact Or.inr ⟨h1, AncOrSelf.refl⟩
      · have hpx0 : (s.heap x).parent = some q := by rw [hpar] at hpx; simpa [hxc] using hpx
        rcases ih with h1 | ⟨h1, h2⟩
        · exact Or.inl (AncOrSelf.step hpx0 h1)
        · exact Or.inr ⟨h1, AncOrSelf.step hpx h2⟩
  have hA2 : ∀ x, Att s p → AncOrSelf s'.heap c x → AncOrSelf s'.heap s.top x := by
    intro x hp ha
    induction ha with
    | refl => exact AncOrSelf.step hpc' (hup p hp)
    | step hpx _ ih => exact AncOrSelf.step hpx ih
  have hA : ∀ x, Att s' x ↔ Att s x ∨ (Att s p ∧ AncOrSelf s'.heap c x) := by
    intro x; unfold Att; rw [htop]
    exact ⟨hA1 x, fun h => h.elim (hup x) (fun ⟨h1, h2⟩ => hA2 x h1 h2)⟩
  -- nothing that was attached lies below c
  have hold : ∀ x, AncOrSelf s'.heap c x → AncOrSelf s.heap c x := by
    intro x ha
    induction ha with
    | refl => exact AncOrSelf.refl
    | @step x q hpx hrest ih =>
      by_cases hxc : x = c
      · subst hxc
        rw [hpc'] at hpx; cases hpx
        have h1 := anc_depth hd hrest
        have h2 := hd x p hpc'
        omega
      · exact AncOrSelf.step (by rw [hpar] at hpx; simpa [hxc] using hpx) ih
  have hdisj : ∀ x, Att s x → ¬ AncOrSelf s'.heap c x := by
    intro x ha hb
    rcases anc_chain ha (hold x hb) with h1 | h1
    · exact hct (anc_of_no_parent hdet h1)
    · exact hct (anc_of_no_parent hC.top_root h1).symm
  have htopl : s.top ∉ l := by
    intro hm
    exact hct (anc_of_no_parent hptop' ((hl s.top).mp hm).1).symm
  have hop : s.owned p = true ↔ Att s p := hC.owned_iff p hkp
  refine ⟨by rw [htop, hkind]; exact hC.top_elem, by rw [htop]; exact hptop', ?_, ?_, ?_, ?_⟩
  · intro q
    rw [hed q]
    split
    · rw [List.nodup_append]
      refine ⟨hC.nodup q, hlnd.filter _, ?_⟩
      intro a ha b hb e
      subst e
      have hbl : a ∈ l := (List.mem_filter.mp hb).1
      have hat : a ≠ s.top := fun e => htopl (e ▸ hbl)
      exact hdisj a ((hC.mem_iff q a hat).mp ha).1 ((hl a).mp hbl).1
    · exact hC.nodup q
  · intro q x hxt
    rw [htop] at hxt
    rw [hed q, hA x, hkind, hqn]
    by_cases hD : s.owned p = true ∧ (s.heap c).kind = .elem
    · simp only [hD, and_self, if_true, List.mem_append, List.mem_filter, decide_eq_true_eq,
        hC.mem_iff q x hxt, hl x, hkind]
      have hp : Att s p := hop.mp hD.1
      constructor
      · rintro (⟨ha, hk, hq⟩ | ⟨⟨hcx, hk⟩, hq⟩)
        · exact ⟨Or.inl ha, hk, hq⟩
        · exact ⟨Or.inr ⟨hp, hcx⟩, hk, hq⟩
      · rintro ⟨(ha | ⟨_, hcx⟩), hk, hq⟩
        · exact Or.inl ⟨ha, hk, hq⟩
        · exact Or.inr ⟨⟨hcx, hk⟩, hq⟩
    · simp only [hD, if_false, hC.mem_iff q x hxt]
      constructor
      · rintro ⟨ha, hk, hq⟩; exact ⟨Or.inl ha, hk, hq⟩
      · rintro ⟨(ha | ⟨hp, hcx⟩), hk, hq⟩
        · exact ⟨ha, hk, hq⟩
        · exfalso
          apply hD
          refine ⟨hop.mpr hp, ?_⟩
          by_cases hce : (s.heap c).kind = .elem
          · exact hce
          · have hk0 : (s'.heap c).kids = [] := hI'.childless c (by rw [hkind]; exact hce)
            have := AncOrSelf.eq_of_no_kids hI' hk0 hcx
            rw [this] at hk; exact absurd hk hce
  · intro q ht
    rw [htop] at ht ⊢
    rw [hqn]
    apply hC.top_mem q
    rw [hed q] at ht
    split at ht
    · rcases List.mem_append.mp ht with h1 | h1
      · exact h1
      · exact absurd (List.mem_filter.mp h1).1 htopl
    · exact ht
  · intro x hxe
    rw [hkind] at hxe
    rw [how x, hA x]
    by_cases hcx : AncOrSelf s'.heap c x
    · have hm : x ∈ l := (hl x).mpr ⟨hcx, by rw [hkind]; exact hxe⟩
      have hna : ¬ Att s x := fun ha => hdisj x ha hcx
      simp only [hm, if_true, hop, hna, false_or, hcx, and_true]
    · have hm : x ∉ l := fun hm => hcx ((hl x).mp hm).1
      simp only [hm, if_false, hcx, and_false, or_false]
      exact hC.owned_iff x hxe

end OdfModel.Props.C09

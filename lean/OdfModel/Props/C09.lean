/-
  Property C09 — document-wide lookups always agree with the current tree.

  About the model OdfModel/DomDoc.lean (node heap of C08 + ownerDocument + element_dict / _styles_dict /
  _styles_ooo_fix, the three mutators with their index maintenance as the code has it now).

  What is proved
  * `elems_spec`, `elems_nodup`: the three recursions (`_set_owner`, `rebuild_caches`, `remove_from_caches`)
    visit exactly the element nodes at or below their argument, each once.
  * `elByType_eq_filter`: the element-level query is the filter over the subtree in document order —
    unconditionally.
  * `CohIdx`: for every qname the index list has no repetition and holds exactly the attached elements of
    that qname (`coh_perm`: a permutation of any duplicate-free enumeration), and ownerDocument is the
    document exactly on the attached elements.  `coherent_step_partial` / `coherent_reachable_partial`:
    preserved by EVERY operation (tree edits on attached and detached parents, whole subtrees, text nodes,
    attribute calls, both document-level queries with their rebuild, `__replaceGenerator`), for histories
    of any length from a fresh document.  Side conditions (`OpOk`): no node is inserted into itself or its
    own descendant; the top node is not re-created or inserted; and the call did not raise RecursionError
    (subtree deeper than the traversal budget — Python's recursion limit).
  * `detached_never_listed`, `docByType_exact`, `text_node_remove_keeps_index`, `text_node_append_keeps_index`.
  * name lookups (`registeredStyle`, `lookupStyle`, `styleByName` as repaired by fe6d0ae / 29f2068):
    `lookupStyle_spec`: the lookup changes nothing but the style dictionary and answers `none` exactly when
    no attached style:style under office:styles / office:automatic-styles bears the name, otherwise such a
    style — whatever the dictionary held (stale entries are dropped, never shown); `SdQ` (every entry is a
    style:style) holds in every reachable state (`sdq_step`); `getStyleByName_correct_partial` puts it together
    for every state reachable from a fresh document.  Two attached styles may bear one name (user rename, or
    the 'M'+name of a second clash): the answer is then one of them.
  `_partial` now only means: histories in which no call raised RecursionError and no node was inserted
  into itself or its own descendant (`HistoryOk`, `HistoryOk2`).
-/
import OdfModel.DomDoc
import OdfModel.Props.C08
namespace OdfModel.Props.C09
open OdfModel.Dom OdfModel.DomDoc OdfModel.Props.C07 OdfModel.Props.C08

theorem edGet_edSet (d : List (Nat × List Id)) (q q' : Nat) (v : List Id) :
    edGet (edSet d q v) q' = if q' = q then v else edGet d q' := by
  induction d with
  | nil =>
    by_cases h : q' = q
    · subst h; simp [edSet, edGet]
    · simp [edSet, edGet, h, Ne.symm h]
  | cons a r ih =>
    obtain ⟨k, w⟩ := a
    simp only [edSet]
    by_cases hk : k = q
    · subst hk
      by_cases h : q' = k
      · subst h; simp [edGet]
      · simp [edGet, h, Ne.symm h]
    · simp only [hk, if_false, edGet, ih]
      by_cases h2 : k = q'
      · subst h2; simp [hk]
      · simp [h2]

/-! ### the traversal `elems` visits exactly the element nodes of the subtree, each once -/

theorem elems_zero (h : Heap) (n : Id) :
    elems h 0 n = if (h n).kind = .elem then none else some [] := by simp [elems]
theorem elems_succ (h : Heap) (f : Nat) (n : Id) :
    elems h (f + 1) n = if (h n).kind = .elem then (elemsL h f (h n).kids).map (fun l => n :: l) else some [] := by
  simp [elems, elemsL]
theorem elemsL_nil (h : Heap) (f : Nat) : elemsL h f [] = some [] := by simp [elemsL, elemsStep]
theorem elemsL_cons (h : Heap) (f : Nat) (k : Id) (r : List Id) :
    elemsL h f (k :: r) = match elems h f k, elemsL h f r with
      | some a, some b => some (a ++ b)
      | _, _ => none := by
  simp only [elemsL, elemsStep]; cases elems h f k <;> cases elemsStep (fun k => elems h f k) r <;> rfl

theorem elems_of_not_elem {h : Heap} {n : Id} (hk : (h n).kind ≠ .elem) (f : Nat) : elems h f n = some [] := by
  cases f <;> simp [elems, hk]

theorem elemsL_cons_some {h : Heap} {f : Nat} {k : Id} {r l : List Id} (hl : elemsL h f (k :: r) = some l) :
    ∃ a b, elems h f k = some a ∧ elemsL h f r = some b ∧ l = a ++ b := by
  rw [elemsL_cons] at hl
  cases ha : elems h f k with
  | none => simp [ha] at hl
  | some a =>
    cases hb : elemsL h f r with
    | none => simp [ha, hb] at hl
    | some b => simp [ha, hb] at hl; exact ⟨a, b, rfl, rfl, hl.symm⟩

/-- membership in the traversal of a list of siblings -/
theorem elemsL_mem {h : Heap} {f : Nat} : ∀ {ks l : List Id}, elemsL h f ks = some l →
    ∀ x, x ∈ l ↔ ∃ k ∈ ks, ∃ lk, elems h f k = some lk ∧ x ∈ lk := by
  intro ks
  induction ks with
  | nil => intro l hl x; rw [elemsL_nil] at hl; cases hl; simp
  | cons k r ih =>
    intro l hl x
    obtain ⟨a, b, ha, hb, rfl⟩ := elemsL_cons_some hl
    rw [List.mem_append, ih hb x]
    constructor
    · rintro (hx | ⟨k', hk', lk, hlk, hx⟩)
      · exact ⟨k, by simp, a, ha, hx⟩
      · exact ⟨k', by simp [hk'], lk, hlk, hx⟩
    · rintro ⟨k', hk', lk, hlk, hx⟩
      rcases List.mem_cons.mp hk' with e | hk'
      · subst e; rw [ha] at hlk; cases hlk; exact Or.inl hx
      · exact Or.inr ⟨k', hk', lk, hlk, hx⟩

theorem elemsL_all {h : Heap} {f : Nat} : ∀ {ks l : List Id}, elemsL h f ks = some l →
    ∀ k ∈ ks, ∃ lk, elems h f k = some lk := by
  intro ks
  induction ks with
  | nil => intro l _ k hk; cases hk
  | cons k r ih =>
    intro l hl k' hk'
    obtain ⟨a, b, ha, hb, _⟩ := elemsL_cons_some hl
    rcases List.mem_cons.mp hk' with e | hk'
    · subst e; exact ⟨a, ha⟩
    · exact ih hb k' hk'

theorem elems_elem_some {h : Heap} {f : Nat} {n : Id} {l : List Id} (hk : (h n).kind = .elem)
    (hl : elems h f n = some l) : ∃ f' l', f = f' + 1 ∧ elemsL h f' (h n).kids = some l' ∧ l = n :: l' := by
  cases f with
  | zero => simp [elems_zero, hk] at hl
  | succ f' =>
    rw [elems_succ] at hl
    simp only [hk, if_true] at hl
    cases hl' : elemsL h f' (h n).kids with
    | none => simp [hl'] at hl
    | some l' => simp [hl'] at hl; exact ⟨f', l', rfl, hl', hl.symm⟩

theorem elems_head {h : Heap} {f : Nat} {n : Id} {l : List Id} (hk : (h n).kind = .elem)
    (hl : elems h f n = some l) : n ∈ l := by
  obtain ⟨_, l', _, _, rfl⟩ := elems_elem_some hk hl; simp

theorem AncOrSelf.below {h : Heap} {n k x : Id} (hp : (h k).parent = some n) (ha : AncOrSelf h k x) :
    AncOrSelf h n x := by
  induction ha with
  | refl => exact AncOrSelf.step hp AncOrSelf.refl
  | step hpx _ ih => exact AncOrSelf.step hpx ih

/-- soundness: whatever the traversal of `n` lists is an element at or below `n` -/
theorem elems_sound {h : Heap} (hI : Inv h) : ∀ (f : Nat) (n : Id) (l : List Id), elems h f n = some l →
    ∀ x ∈ l, AncOrSelf h n x ∧ (h x).kind = .elem := by
  intro f
  induction f with
  | zero =>
    intro n l hl x hx
    by_cases hk : (h n).kind = .elem
    · simp [elems_zero, hk] at hl
    · rw [elems_of_not_elem hk] at hl; cases hl; cases hx
  | succ f ih =>
    intro n l hl x hx
    by_cases hk : (h n).kind = .elem
    · obtain ⟨f', l', hf, hl', rfl⟩ := elems_elem_some hk hl
      cases hf
      rcases List.mem_cons.mp hx with e | hx
      · subst e; exact ⟨AncOrSelf.refl, hk⟩
      · obtain ⟨k, hkm, lk, hlk, hxk⟩ := (elemsL_mem hl' x).mp hx
        obtain ⟨ha, hke⟩ := ih k lk hlk x hxk
        exact ⟨AncOrSelf.below ((hI.parent_iff n k).mp hkm) ha, hke⟩
    · rw [elems_of_not_elem hk] at hl; cases hl; cases hx

/-- the traversal is closed under "element child of a listed node" -/
theorem elems_closed {h : Heap} : ∀ (f : Nat) (n : Id) (l : List Id), elems h f n = some l →
    ∀ p ∈ l, ∀ x ∈ (h p).kids, (h x).kind = .elem → x ∈ l := by
  intro f
  induction f with
  | zero =>
    intro n l hl p hp
    by_cases hk : (h n).kind = .elem
    · simp [elems_zero, hk] at hl
    · rw [elems_of_not_elem hk] at hl; cases hl; cases hp
  | succ f ih =>
    intro n l hl p hp x hx hxe
    by_cases hk : (h n).kind = .elem
    · obtain ⟨f', l', hf, hl', rfl⟩ := elems_elem_some hk hl
      cases hf
      rcases List.mem_cons.mp hp with e | hp
      · subst e
        obtain ⟨lx, hlx⟩ := elemsL_all hl' x hx
        exact List.mem_cons_of_mem _ ((elemsL_mem hl' x).mpr ⟨x, hx, lx, hlx, elems_head hxe hlx⟩)
      · obtain ⟨k, hkm, lk, hlk, hpk⟩ := (elemsL_mem hl' p).mp hp
        have := ih k lk hlk p hpk x hx hxe
        exact List.mem_cons_of_mem _ ((elemsL_mem hl' x).mpr ⟨k, hkm, lk, hlk, this⟩)
    · rw [elems_of_not_elem hk] at hl; cases hl; cases hp

/-- completeness: a successful traversal of `n` lists every element at or below `n` -/
theorem elems_complete {h : Heap} (hI : Inv h) {f : Nat} {n : Id} {l : List Id} (hl : elems h f n = some l)
    {x : Id} (ha : AncOrSelf h n x) (hx : (h x).kind = .elem) : x ∈ l := by
  induction ha with
  | refl => exact elems_head hx hl
  | @step x p hpx _ ih =>
    have hpe : (h p).kind = .elem := hI.parent_elem hpx
    exact elems_closed f n l hl p (ih hpe) x ((hI.parent_iff p x).mpr hpx) hx

/-- **what the three recursions visit**: exactly the element nodes at or below `n` -/
theorem elems_spec {h : Heap} (hI : Inv h) {f : Nat} {n : Id} {l : List Id} (hl : elems h f n = some l) (x : Id) :
    x ∈ l ↔ AncOrSelf h n x ∧ (h x).kind = .elem :=
  ⟨fun hx => elems_sound hI f n l hl x hx, fun ⟨ha, hk⟩ => elems_complete hI hl ha hk⟩

theorem anc_depth {h : Heap} {d : Id → Nat} (hd : ∀ c p, (h c).parent = some p → d p < d c) {a x : Id}
    (ha : AncOrSelf h a x) : d a ≤ d x := by
  induction ha with
  | refl => exact Nat.le_refl _
  | step hpx _ ih => exact Nat.le_trans ih (Nat.le_of_lt (hd _ _ hpx))

/-- the ancestors of a node form a chain -/
theorem anc_chain {h : Heap} {a b x : Id} (ha : AncOrSelf h a x) (hb : AncOrSelf h b x) :
    AncOrSelf h a b ∨ AncOrSelf h b a := by
  induction ha with
  | refl => exact Or.inr hb
  | @step x p hpx hap ih =>
    cases hb with
    | refl => exact Or.inl (AncOrSelf.step hpx hap)
    | step hpx' hbp => rw [hpx] at hpx'; cases hpx'; exact ih hbp

theorem anc_of_no_parent {h : Heap} {a x : Id} (hp : (h x).parent = none) (ha : AncOrSelf h a x) : x = a := by
  cases ha with
  | refl => rfl
  | step hpx _ => rw [hp] at hpx; cases hpx

theorem elemsL_nodup {h : Heap} {f : Nat} : ∀ {ks l : List Id}, ks.Nodup →
    (∀ k ∈ ks, ∀ lk, elems h f k = some lk → lk.Nodup) →
    (∀ k1 ∈ ks, ∀ k2 ∈ ks, k1 ≠ k2 → ∀ l1 l2, elems h f k1 = some l1 → elems h f k2 = some l2 → ∀ x ∈ l1, x ∉ l2) →
    elemsL h f ks = some l → l.Nodup := by
  intro ks
  induction ks with
  | nil => intro l _ _ _ hl; rw [elemsL_nil] at hl; cases hl; exact List.nodup_nil
  | cons k r ih =>
    intro l hnd hk hdis hl
    obtain ⟨a, b, ha, hb, rfl⟩ := elemsL_cons_some hl
    have hnd' := List.nodup_cons.mp hnd
    rw [List.nodup_append]
    refine ⟨hk k (by simp) a ha, ih hnd'.2 (fun k' hk' => hk k' (by simp [hk']))
      (fun k1 h1 k2 h2 => hdis k1 (by simp [h1]) k2 (by simp [h2])) hb, ?_⟩
    intro x hxa y hyb e
    subst e
    obtain ⟨k', hk', lk, hlk, hxk⟩ := (elemsL_mem hb x).mp hyb
    have hne : k ≠ k' := fun e => hnd'.1 (e ▸ hk')
    exact hdis k (by simp) k' (by simp [hk']) hne a lk ha hlk x hxa hxk

/-- in a consistent forest the traversal lists every node once -/
theorem elems_nodup {h : Heap} (hI : Inv h) (hA : Acyclic h) : ∀ (f : Nat) (n : Id) (l : List Id),
    elems h f n = some l → l.Nodup := by
  obtain ⟨d, hd⟩ := hA
  intro f
  induction f with
  | zero =>
    intro n l hl
    by_cases hk : (h n).kind = .elem
    · simp [elems_zero, hk] at hl
    · rw [elems_of_not_elem hk] at hl; cases hl; exact List.nodup_nil
  | succ f ih =>
    intro n l hl
    by_cases hk : (h n).kind = .elem
    · obtain ⟨f', l', hf, hl', rfl⟩ := elems_elem_some hk hl
      cases hf
      have hbelow : ∀ k ∈ (h n).kids, ∀ lk, elems h f k = some lk → ∀ x ∈ lk, d n < d x := by
        intro k hkm lk hlk x hx
        have hpk := (hI.parent_iff n k).mp hkm
        have := anc_depth hd (elems_sound hI f k lk hlk x hx).1
        have := hd k n hpk
        omega
      rw [List.nodup_cons]
      constructor
      · intro hn
        obtain ⟨k, hkm, lk, hlk, hxk⟩ := (elemsL_mem hl' n).mp hn
        have := hbelow k hkm lk hlk n hxk
        omega
      · apply elemsL_nodup (hI.nodup n) (fun k _ lk hlk => ih k lk hlk) _ hl'
        intro k1 h1 k2 h2 hne l1 l2 hl1 hl2 x hx1 hx2
        have a1 := (elems_sound hI f k1 l1 hl1 x hx1).1
        have a2 := (elems_sound hI f k2 l2 hl2 x hx2).1
        have hp1 := (hI.parent_iff n k1).mp h1
        have hp2 := (hI.parent_iff n k2).mp h2
        rcases anc_chain a1 a2 with hc | hc
        · cases hc with
          | refl => exact hne rfl
          | step hpx hrest =>
            rw [hp2] at hpx; cases hpx
            have := anc_depth hd hrest
            have := hd k1 n hp1
            omega
        · cases hc with
          | refl => exact hne rfl
          | step hpx hrest =>
            rw [hp1] at hpx; cases hpx
            have := anc_depth hd hrest
            have := hd k2 n hp2
            omega
    · rw [elems_of_not_elem hk] at hl; cases hl; exact List.nodup_nil

/-! ### the element-level query is the filter over the subtree, in document order -/

theorem getByObj_spec (h : Heap) (q : Nat) : ∀ (f : Nat),
    (∀ n acc, (h n).kind = .elem →
      getByObj h q f n acc = (elems h f n).map (fun l => acc ++ l.filter (fun x => (h x).qn = q))) ∧
    (∀ ks acc, getByObjL h q f ks acc = (elemsL h f ks).map (fun l => acc ++ l.filter (fun x => (h x).qn = q))) := by
  intro f
  induction f with
  | zero =>
    have h1 : ∀ n acc, (h n).kind = .elem →
        getByObj h q 0 n acc = (elems h 0 n).map (fun l => acc ++ l.filter (fun x => (h x).qn = q)) := by
      intro n acc hk; simp [getByObj, elems_zero, hk]
    refine ⟨h1, ?_⟩
    intro ks
    induction ks with
    | nil => intro acc; simp [getByObjL, elemsL_nil]
    | cons k r ih =>
      intro acc
      rw [getByObjL, elemsL_cons]
      by_cases hk : (h k).kind = .elem
      · simp only [hk, if_true, h1 k acc hk, elems_zero]; simp
      · simp only [hk, if_false, ih acc, elems_of_not_elem hk]
        cases elemsL h 0 r <;> simp
  | succ f ih =>
    have h1 : ∀ n acc, (h n).kind = .elem →
        getByObj h q (f + 1) n acc = (elems h (f + 1) n).map (fun l => acc ++ l.filter (fun x => (h x).qn = q)) := by
      intro n acc hk
      rw [getByObj, ih.2, elems_succ]
      simp only [hk, if_true]
      cases elemsL h f (h n).kids with
      | none => simp
      | some l =>
        by_cases hq : (h n).qn = q
        · simp [hq]
        · simp [hq]
    refine ⟨h1, ?_⟩
    intro ks
    induction ks with
    | nil => intro acc; simp [getByObjL, elemsL_nil]
    | cons k r ih2 =>
      intro acc
      rw [getByObjL, elemsL_cons]
      by_cases hk : (h k).kind = .elem
      · simp only [hk, if_true, h1 k acc hk]
        cases hek : elems h (f + 1) k with
        | none => simp
        | some a =>
          simp only [Option.map_some]
          rw [ih2]
          cases elemsL h (f + 1) r <;> simp [List.filter_append, List.append_assoc]
      · simp only [hk, if_false, ih2 acc, elems_of_not_elem hk]
        cases elemsL h (f + 1) r <;> simp

/-- **C09 (element-level query)**: `element.getElementsByType(f)` returns exactly the elements of the
    subtree (the element itself included) whose qname is the one asked for, in document order —
    unconditionally (no invariant, any heap), also when it fails (deeper than the recursion budget). -/
theorem elByType_eq_filter (h : Heap) (n : Id) (q : Nat) (hk : (h n).kind = .elem) :
    elByType h n q = (elemsUnder h n).map (fun l => l.filter (fun x => (h x).qn = q)) := by
  unfold elByType elemsUnder
  rw [(getByObj_spec h q FUEL).1 n [] hk]
  generalize elems h FUEL n = o
  cases o <;> simp

/-! ### closed forms of the index maintenance -/

/-- the heaps differ at most in attribute values -/
def SameLinks (h h' : Heap) : Prop :=
  ∀ y, (h' y).kids = (h y).kids ∧ (h' y).parent = (h y).parent ∧ (h' y).prev = (h y).prev ∧
    (h' y).next = (h y).next ∧ (h' y).kind = (h y).kind ∧ (h' y).qn = (h y).qn

theorem SameLinks.refl (h : Heap) : SameLinks h h := fun _ => ⟨rfl, rfl, rfl, rfl, rfl, rfl⟩
theorem SameLinks.trans {h1 h2 h3 : Heap} (a : SameLinks h1 h2) (b : SameLinks h2 h3) : SameLinks h1 h3 := by
  intro y
  obtain ⟨a1, a2, a3, a4, a5, a6⟩ := a y
  obtain ⟨b1, b2, b3, b4, b5, b6⟩ := b y
  exact ⟨b1.trans a1, b2.trans a2, b3.trans a3, b4.trans a4, b5.trans a5, b6.trans a6⟩
theorem sameLinks_setAttrs (h : Heap) (x : Id) (v : List (Nat × Nat)) : SameLinks h (setAttrs h x v) := by
  intro y; simp

theorem forEach_run_pure (f : Id → DM Unit) (g : Id → DState → DState)
    (hf : ∀ x s, (f x).run s = (g x s, .ok ())) : ∀ (l : List Id) (s : DState),
    (forEach f l).run s = (l.foldl (fun s x => g x s) s, .ok ()) := by
  intro l
  induction l with
  | nil => intro s; rfl
  | cons x r ih => intro s; simp only [forEach, DomDoc.run_bind, hf, List.foldl_cons]; exact ih _

theorem walk_run (n : Id) (s : DState) : (walk n).run s = walkResult s n := rfl

/-- `dropStyleEntry` as a function -/
def dropStylePure (x : Id) (s : DState) : DState :=
  if (s.heap x).qn = QN_STYLE then
    match lookupAttr KEY_STYLE_NAME (s.heap x).attrs with
    | none => s
    | some name => if sdGet s.sdict name = some x then { s with sdict := sdDel s.sdict name } else s
  else s

theorem dropStyleEntry_run (x : Id) (s : DState) : (dropStyleEntry x).run s = (dropStylePure x s, .ok ()) := by
  unfold dropStyleEntry dropStylePure
  simp only [DomDoc.run_bind_rd]
  by_cases hq : (s.heap x).qn = QN_STYLE
  · simp only [hq, if_true, DomDoc.run_bind_rd]
    cases hn : lookupAttr KEY_STYLE_NAME (s.heap x).attrs with
    | none => rfl
    | some name =>
      simp only [DomDoc.run_bind_rd]
      by_cases hs : sdGet s.sdict name = some x <;> simp [hs]
  · simp [hq]

/-- what `remove_from_caches` does for one element -/
def removeOnePure (x : Id) (s : DState) : DState := dropStylePure x (edDrop x s)

theorem removeOne_run (x : Id) (s : DState) : (removeOne x).run s = (removeOnePure x s, .ok ()) := by
  unfold removeOne removeOnePure
  simp only [DomDoc.run_bind_upd, dropStyleEntry_run]

/-- the part of the state the element index and ownerDocument live in is unchanged (attribute values
    and the style dictionary may differ) -/
def IdxSame (s s' : DState) : Prop :=
  SameLinks s.heap s'.heap ∧ s'.ownedL = s.ownedL ∧ s'.top = s.top ∧ s'.edict = s.edict

theorem IdxSame.refl (s : DState) : IdxSame s s := ⟨SameLinks.refl _, rfl, rfl, rfl⟩
theorem IdxSame.trans {a b c : DState} (h1 : IdxSame a b) (h2 : IdxSame b c) : IdxSame a c :=
  ⟨SameLinks.trans h1.1 h2.1, h2.2.1.trans h1.2.1, h2.2.2.1.trans h1.2.2.1, h2.2.2.2.trans h1.2.2.2⟩

/-- a statement sequence that never raises and leaves links, owners, element index alone -/
def Keeps {α : Type} (m : DM α) : Prop := ∀ s s' r, m.run s = (s', r) → IdxSame s s' ∧ ∃ a, r = .ok a

theorem keeps_pure {α : Type} (a : α) : Keeps (pure a : DM α) := by
  intro s s' r h; cases h; exact ⟨IdxSame.refl s, a, rfl⟩
theorem keeps_rd {α : Type} (f : DState → α) : Keeps (rdD f) := by
  intro s s' r h; cases h; exact ⟨IdxSame.refl s, _, rfl⟩
theorem keeps_upd (f : DState → DState) (hf : ∀ s, IdxSame s (f s)) : Keeps (updD f) := by
  intro s s' r h; cases h; exact ⟨hf s, (), rfl⟩
theorem keeps_bind {α β : Type} {m : DM α} {k : α → DM β} (hm : Keeps m) (hk : ∀ a, Keeps (k a)) :
    Keeps (m >>= k) := by
  intro s s' r h
  rw [DomDoc.run_bind] at h
  rcases hx : m.run s with ⟨s1, r1⟩
  rw [hx] at h
  obtain ⟨h1, a, ha⟩ := hm s s1 r1 hx
  subst ha
  simp only at h
  obtain ⟨h2, b, hb⟩ := hk a s1 s' r h
  exact ⟨IdxSame.trans h1 h2, b, hb⟩
theorem keeps_ite {α : Type} (c : Prop) [Decidable c] {a b : DM α} (ha : Keeps a) (hb : Keeps b) :
    Keeps (if c then a else b) := by
  split
  · exact ha
  · exact hb

theorem registeredStyle_keeps (n : Nat) : Keeps (registeredStyle n) := by
  intro s s' r h
  unfold registeredStyle DM.run at h
  dsimp only at h
  split at h
  · cases h; exact ⟨IdxSame.refl s, _, rfl⟩
  · split at h
    · cases h; exact ⟨IdxSame.refl s, _, rfl⟩
    · cases h; exact ⟨⟨SameLinks.refl _, rfl, rfl, rfl⟩, _, rfl⟩

theorem registerStyle_keeps (x : Id) : Keeps (registerStyle x) := by
  unfold registerStyle
  apply keeps_bind (keeps_rd _)
  intro on
  cases on with
  | none => exact keeps_pure ()
  | some name =>
    apply keeps_bind (keeps_rd _)
    intro op
    cases op with
    | none => exact keeps_pure ()
    | some pp =>
      apply keeps_bind (keeps_rd _)
      intro pq
      apply keeps_ite
      · apply keeps_bind (registeredStyle_keeps name)
        intro cur
        apply keeps_ite
        · apply keeps_bind
          · apply keeps_upd; intro s; exact ⟨SameLinks.refl _, rfl, rfl, rfl⟩
          · intro _
            apply keeps_bind
            · apply keeps_upd; intro s; exact ⟨sameLinks_setAttrs _ _ _, rfl, rfl, rfl⟩
            · intro _
              apply keeps_upd; intro s; exact ⟨SameLinks.refl _, rfl, rfl, rfl⟩
        · apply keeps_upd; intro s; exact ⟨SameLinks.refl _, rfl, rfl, rfl⟩
      · exact keeps_pure ()

/-- `__register_stylename` as a function on states -/
def registerPure (x : Id) (s : DState) : DState := ((registerStyle x).run s).1

theorem registerStyle_run (x : Id) (s : DState) : (registerStyle x).run s = (registerPure x s, .ok ()) := by
  rcases h : (registerStyle x).run s with ⟨s', r⟩
  obtain ⟨_, a, ha⟩ := registerStyle_keeps x s s' r h
  subst ha
  simp [registerPure, h]

def registerIfPure (x : Id) (s : DState) : DState :=
  if (s.heap x).qn = QN_STYLE then registerPure x s else s

theorem registerIfStyle_run (x : Id) (s : DState) : (registerIfStyle x).run s = (registerIfPure x s, .ok ()) := by
  unfold registerIfStyle registerIfPure
  simp only [DomDoc.run_bind_rd]
  by_cases hq : (s.heap x).qn = QN_STYLE <;> simp [hq, registerStyle_run]

def fixRefPure (x : Id) (s : DState) : DState :=
  match lookupAttr KEY_TEXT_STYLE_NAME (s.heap x).attrs with
  | none => s
  | some r =>
    match lookupAttr r s.fix with
    | none => s
    | some nw => { s with heap := setAttrs s.heap x (storeAttr KEY_TEXT_STYLE_NAME nw (s.heap x).attrs) }

theorem fixStyleRef_run (x : Id) (s : DState) : (fixStyleRef x).run s = (fixRefPure x s, .ok ()) := by
  unfold fixStyleRef fixRefPure
  simp only [DomDoc.run_bind_rd]
  cases lookupAttr KEY_TEXT_STYLE_NAME (s.heap x).attrs with
  | none => rfl
  | some r =>
    simp only [DomDoc.run_bind_rd]
    cases lookupAttr r s.fix <;> rfl

/-- what `build_caches` does for one element -/
def buildPure (x : Id) (s : DState) : DState := fixRefPure x (registerIfPure x (edAppend x s))

theorem buildCaches_run (x : Id) (s : DState) : (buildCaches x).run s = (buildPure x s, .ok ()) := by
  unfold buildCaches buildPure
  simp only [DomDoc.run_bind, DomDoc.run_upd, registerIfStyle_run, fixStyleRef_run]

/-! ### the three traversals as folds, and what they do to the index -/

theorem setOwnerRec_run (n : Id) (v : Bool) (s : DState) : (setOwnerRec n v).run s =
    match elemsUnder s.heap n with
    | some l => (l.foldl (fun s x => setOwned s x v) s, .ok ())
    | none => (s, .error .RecursionError) := by
  unfold setOwnerRec
  rw [DomDoc.run_bind, walk_run]
  unfold walkResult
  generalize elemsUnder s.heap n = o
  cases o with
  | none => rfl
  | some l => exact forEach_run_pure _ (fun x s => setOwned s x v) (fun _ _ => rfl) l s

theorem removeFromCaches_run (n : Id) (s : DState) : (removeFromCaches n).run s =
    match elemsUnder s.heap n with
    | some l => (l.foldl (fun s x => removeOnePure x s) s, .ok ())
    | none => (s, .error .RecursionError) := by
  unfold removeFromCaches
  rw [DomDoc.run_bind, walk_run]
  unfold walkResult
  generalize elemsUnder s.heap n = o
  cases o with
  | none => rfl
  | some l => exact forEach_run_pure _ removeOnePure removeOne_run l s

theorem rebuildCaches_run (n : Id) (s : DState) : (rebuildCaches n).run s =
    match elemsUnder s.heap n with
    | some l => (l.foldl (fun s x => buildPure x s) s, .ok ())
    | none => (s, .error .RecursionError) := by
  unfold rebuildCaches
  rw [DomDoc.run_bind, walk_run]
  unfold walkResult
  generalize elemsUnder s.heap n = o
  cases o with
  | none => rfl
  | some l => exact forEach_run_pure _ buildPure buildCaches_run l s

/-- `element_dict.get(q, [])` -/
abbrev ed (s : DState) (q : Nat) : List Id := edGet s.edict q

theorem edDrop_ed (x : Id) (s : DState) (q : Nat) :
    ed (edDrop x s) q = if q = (s.heap x).qn then (ed s q).erase x else ed s q := by
  unfold edDrop ed
  by_cases hm : x ∈ edGet s.edict (s.heap x).qn
  · simp only [hm, if_true, edGet_edSet]
    by_cases hq : q = (s.heap x).qn
    · subst hq; simp
    · simp [hq]
  · simp only [hm, if_false]
    by_cases hq : q = (s.heap x).qn
    · subst hq; simp [List.erase_of_not_mem hm]
    · simp [hq]

theorem edDrop_same (x : Id) (s : DState) :
    (edDrop x s).heap = s.heap ∧ (edDrop x s).ownedL = s.ownedL ∧ (edDrop x s).top = s.top ∧
    (edDrop x s).sdict = s.sdict ∧ (edDrop x s).fix = s.fix := by
  unfold edDrop; split <;> simp

theorem dropStylePure_same (x : Id) (s : DState) :
    (dropStylePure x s).heap = s.heap ∧ (dropStylePure x s).ownedL = s.ownedL ∧ (dropStylePure x s).top = s.top ∧
    (dropStylePure x s).edict = s.edict ∧ (dropStylePure x s).fix = s.fix := by
  unfold dropStylePure
  split
  · split
    · simp
    · split <;> simp
  · simp

theorem removeOnePure_same (x : Id) (s : DState) :
    (removeOnePure x s).heap = s.heap ∧ (removeOnePure x s).ownedL = s.ownedL ∧ (removeOnePure x s).top = s.top := by
  unfold removeOnePure
  obtain ⟨a1, a2, a3, _, _⟩ := dropStylePure_same x (edDrop x s)
  obtain ⟨b1, b2, b3, _, _⟩ := edDrop_same x s
  exact ⟨a1.trans b1, a2.trans b2, a3.trans b3⟩

theorem removeOnePure_ed (x : Id) (s : DState) (q : Nat) :
    ed (removeOnePure x s) q = if q = (s.heap x).qn then (ed s q).erase x else ed s q := by
  unfold removeOnePure ed
  rw [(dropStylePure_same x (edDrop x s)).2.2.2.1]
  exact edDrop_ed x s q

theorem foldRemove_same : ∀ (l : List Id) (s : DState),
    (l.foldl (fun s x => removeOnePure x s) s).heap = s.heap ∧
    (l.foldl (fun s x => removeOnePure x s) s).ownedL = s.ownedL ∧
    (l.foldl (fun s x => removeOnePure x s) s).top = s.top := by
  intro l
  induction l with
  | nil => intro s; exact ⟨rfl, rfl, rfl⟩
  | cons x r ih =>
    intro s
    obtain ⟨a1, a2, a3⟩ := ih (removeOnePure x s)
    obtain ⟨b1, b2, b3⟩ := removeOnePure_same x s
    exact ⟨a1.trans b1, a2.trans b2, a3.trans b3⟩

/-- after `remove_from_caches` over `l`: exactly the listed elements are gone from the index -/
theorem foldRemove_ed : ∀ (l : List Id) (s : DState), (∀ q, (ed s q).Nodup) →
    (∀ q, (ed (l.foldl (fun s x => removeOnePure x s) s) q).Nodup) ∧
    (∀ q y, y ∈ ed (l.foldl (fun s x => removeOnePure x s) s) q ↔
      y ∈ ed s q ∧ ¬ (y ∈ l ∧ (s.heap y).qn = q)) := by
  intro l
  induction l with
  | nil => intro s hnd; exact ⟨hnd, fun q y => by simp⟩
  | cons x r ih =>
    intro s hnd
    have hnd1 : ∀ q, (ed (removeOnePure x s) q).Nodup := by
      intro q; rw [removeOnePure_ed]; split
      · exact (hnd q).erase x
      · exact hnd q
    obtain ⟨h1, h2⟩ := ih (removeOnePure x s) hnd1
    refine ⟨h1, ?_⟩
    intro q y
    simp only [List.foldl_cons]
    rw [h2 q y, removeOnePure_ed, (removeOnePure_same x s).1]
    by_cases hq : q = (s.heap x).qn
    · simp only [hq, if_true]
      rw [(hnd _).mem_erase_iff]
      by_cases hyx : y = x
      · subst hyx; simp
      · simp [hyx]
    · simp only [hq, if_false]
      by_cases hyx : y = x
      · subst hyx; simp [Ne.symm hq]
      · simp [hyx]

theorem registerPure_view (x : Id) (s : DState) :
    SameLinks s.heap (registerPure x s).heap ∧ (registerPure x s).ownedL = s.ownedL ∧
    (registerPure x s).top = s.top ∧ (registerPure x s).edict = s.edict :=
  (registerStyle_keeps x s _ _ (registerStyle_run x s)).1

theorem fixRefPure_view (x : Id) (s : DState) :
    SameLinks s.heap (fixRefPure x s).heap ∧ (fixRefPure x s).ownedL = s.ownedL ∧
    (fixRefPure x s).top = s.top ∧ (fixRefPure x s).edict = s.edict := by
  unfold fixRefPure
  split
  · exact ⟨SameLinks.refl _, rfl, rfl, rfl⟩
  · split
    · exact ⟨SameLinks.refl _, rfl, rfl, rfl⟩
    · exact ⟨sameLinks_setAttrs _ _ _, rfl, rfl, rfl⟩

theorem buildPure_view (x : Id) (s : DState) :
    SameLinks s.heap (buildPure x s).heap ∧ (buildPure x s).ownedL = s.ownedL ∧
    (buildPure x s).top = s.top ∧
    (∀ q, ed (buildPure x s) q = if q = (s.heap x).qn then ed s q ++ [x] else ed s q) := by
  unfold buildPure
  have hreg : SameLinks (edAppend x s).heap (registerIfPure x (edAppend x s)).heap ∧
      (registerIfPure x (edAppend x s)).ownedL = (edAppend x s).ownedL ∧
      (registerIfPure x (edAppend x s)).top = (edAppend x s).top ∧
      (registerIfPure x (edAppend x s)).edict = (edAppend x s).edict := by
    unfold registerIfPure; split
    · exact registerPure_view x _
    · exact ⟨SameLinks.refl _, rfl, rfl, rfl⟩
  obtain ⟨a1, a2, a3, a4⟩ := fixRefPure_view x (registerIfPure x (edAppend x s))
  obtain ⟨b1, b2, b3, b4⟩ := hreg
  refine ⟨SameLinks.trans b1 a1, a2.trans b2, a3.trans b3, ?_⟩
  intro q
  unfold ed
  rw [a4, b4]
  simp only [edAppend, edGet_edSet]
  split
  · rename_i e; rw [e]
  · rfl

theorem foldBuild_view : ∀ (l : List Id) (s : DState),
    SameLinks s.heap (l.foldl (fun s x => buildPure x s) s).heap ∧
    (l.foldl (fun s x => buildPure x s) s).ownedL = s.ownedL ∧
    (l.foldl (fun s x => buildPure x s) s).top = s.top ∧
    (∀ q, ed (l.foldl (fun s x => buildPure x s) s) q = ed s q ++ l.filter (fun y => (s.heap y).qn = q)) := by
  intro l
  induction l with
  | nil => intro s; exact ⟨SameLinks.refl _, rfl, rfl, fun q => by simp⟩
  | cons x r ih =>
    intro s
    obtain ⟨a1, a2, a3, a4⟩ := ih (buildPure x s)
    obtain ⟨b1, b2, b3, b4⟩ := buildPure_view x s
    refine ⟨SameLinks.trans b1 a1, a2.trans b2, a3.trans b3, ?_⟩
    intro q
    simp only [List.foldl_cons]
    rw [a4 q, b4 q]
    have hqn : ∀ y, ((buildPure x s).heap y).qn = (s.heap y).qn := fun y => (b1 y).2.2.2.2.2
    simp only [hqn, List.filter_cons]
    by_cases hq : q = (s.heap x).qn
    · subst hq; simp
    · simp [hq, Ne.symm hq]

theorem foldOwned_view (v : Bool) : ∀ (l : List Id) (s : DState),
    (l.foldl (fun s x => setOwned s x v) s).heap = s.heap ∧
    (l.foldl (fun s x => setOwned s x v) s).edict = s.edict ∧
    (l.foldl (fun s x => setOwned s x v) s).top = s.top ∧
    (l.foldl (fun s x => setOwned s x v) s).sdict = s.sdict ∧
    (∀ y, (l.foldl (fun s x => setOwned s x v) s).owned y = if y ∈ l then v else s.owned y) := by
  intro l
  induction l with
  | nil => intro s; exact ⟨rfl, rfl, rfl, rfl, fun y => by simp⟩
  | cons x r ih =>
    intro s
    obtain ⟨a1, a2, a3, a4, a5⟩ := ih (setOwned s x v)
    refine ⟨a1, a2, a3, a4, ?_⟩
    intro y
    simp only [List.foldl_cons]
    rw [a5 y, owned_setOwned]
    by_cases hyr : y ∈ r
    · simp [hyr]
    · by_cases hyx : y = x
      · simp [hyx]
      · simp [hyr, hyx]

/-! ### coherence of the element index and of ownerDocument -/

/-- attached to the document: the top node is the node itself or one of its ancestors -/
def Att (s : DState) (x : Id) : Prop := AncOrSelf s.heap s.top x

/-- **the element index and ownerDocument agree with the tree**: for every qname the list
    `element_dict[qname]` has no repetition and holds exactly the attached elements of that qname
    (so it is a permutation of any duplicate-free enumeration of them, `coh_perm`); an element's
    ownerDocument is the document exactly when it is attached.  (The top node itself is listed only
    after an index rebuild from the top; nothing queries its type.) -/
structure CohIdx (s : DState) : Prop where
  top_elem : (s.heap s.top).kind = .elem
  top_root : (s.heap s.top).parent = none
  nodup : ∀ q, (ed s q).Nodup
  mem_iff : ∀ q x, x ≠ s.top → (x ∈ ed s q ↔ Att s x ∧ (s.heap x).kind = .elem ∧ (s.heap x).qn = q)
  top_mem : ∀ q, s.top ∈ ed s q → (s.heap s.top).qn = q
  owned_iff : ∀ x, (s.heap x).kind = .elem → (s.owned x = true ↔ Att s x)
  /-- text and CDATA nodes carry no ownerDocument -/
  text_unowned : ∀ x, (s.heap x).kind ≠ .elem → s.owned x = false

theorem AncOrSelf.mono {h h' : Heap} (hp : ∀ y q, (h' y).parent = some q → (h y).parent = some q) {a x : Id}
    (ha : AncOrSelf h' a x) : AncOrSelf h a x := by
  induction ha with
  | refl => exact AncOrSelf.refl
  | step hpx _ ih => exact AncOrSelf.step (hp _ _ hpx) ih

/-- the index after a subtree was cut off -/
theorem coh_remove {s s' : DState} {p c : Id} {l : List Id}
    (hI : Inv s.heap) (hC : CohIdx s) (hc : c ∈ (s.heap p).kids) (hI' : Inv s'.heap)
    (htop : s'.top = s.top)
    (hpar : ∀ y, (s'.heap y).parent = if y = c then none else (s.heap y).parent)
    (hkind : ∀ y, (s'.heap y).kind = (s.heap y).kind) (hqn : ∀ y, (s'.heap y).qn = (s.heap y).qn)
    (hl : ∀ x, x ∈ l ↔ AncOrSelf s'.heap c x ∧ (s'.heap x).kind = .elem)
    (hnd' : ∀ q, (ed s' q).Nodup)
    (hed : ∀ q y, y ∈ ed s' q ↔ y ∈ ed s q ∧
      ¬ ((s.owned p = true ∧ (s.heap c).kind = .elem) ∧ y ∈ l ∧ (s.heap y).qn = q))
    (how : ∀ y, s'.owned y = if y ∈ l then false else s.owned y) : CohIdx s' := by
  have hpc : (s.heap c).parent = some p := (hI.parent_iff p c).mp hc
  have hct : c ≠ s.top := by intro e; rw [e, hC.top_root] at hpc; cases hpc
  have hkp : (s.heap p).kind = .elem := hI.parent_elem hpc
  have hptop' : (s'.heap s.top).parent = none := by rw [hpar]; simp [Ne.symm hct, hC.top_root]
  have hpc' : (s'.heap c).parent = none := by rw [hpar]; simp
  -- (R) attached afterwards = attached before and not below c
  have hR1 : ∀ x, AncOrSelf s'.heap s.top x → Att s x := by
    intro x ha
    exact AncOrSelf.mono (h := s.heap) (fun y q hy => by
      rw [hpar] at hy; split at hy
      · cases hy
      · exact hy) ha
  have hR2 : ∀ x, AncOrSelf s'.heap s.top x → ¬ AncOrSelf s'.heap c x := by
    intro x ha hb
    rcases anc_chain ha hb with h1 | h1
    · exact hct (anc_of_no_parent hpc' h1)
    · exact hct (anc_of_no_parent hptop' h1).symm
  have hR3 : ∀ x, Att s x → ¬ AncOrSelf s'.heap c x → AncOrSelf s'.heap s.top x := by
    intro x ha
    induction ha with
    | refl => intro _; exact AncOrSelf.refl
    | @step x q hpx _ ih =>
      intro hn
      have hxc : x ≠ c := fun e => hn (e ▸ AncOrSelf.refl)
      have hpx' : (s'.heap x).parent = some q := by rw [hpar]; simp [hxc, hpx]
      exact AncOrSelf.step hpx' (ih (fun hq => hn (AncOrSelf.step hpx' hq)))
  have hR : ∀ x, Att s' x ↔ Att s x ∧ ¬ AncOrSelf s'.heap c x := by
    intro x; unfold Att; rw [htop]
    exact ⟨fun ha => ⟨hR1 x ha, hR2 x ha⟩, fun ⟨ha, hn⟩ => hR3 x ha hn⟩
  -- when nothing is dropped from the index, no attached element was below c
  have hnone : ¬ (s.owned p = true ∧ (s.heap c).kind = .elem) → ∀ x, (s.heap x).kind = .elem → Att s x →
      ¬ AncOrSelf s'.heap c x := by
    intro hD x hxe hax hcx
    by_cases hce : (s.heap c).kind = .elem
    · have hop : ¬ s.owned p = true := fun h => hD ⟨h, hce⟩
      have hnp : ¬ Att s p := fun h => hop ((hC.owned_iff p hkp).mpr h)
      have hcx0 : AncOrSelf s.heap c x := AncOrSelf.mono (fun y q hy => by
        rw [hpar] at hy; split at hy
        · cases hy
        · exact hy) hcx
      rcases anc_chain hax hcx0 with h1 | h1
      · cases h1 with
        | refl => exact hct rfl
        | step hp' hrest => rw [hpc] at hp'; cases hp'; exact hnp hrest
      · exact hct (anc_of_no_parent hC.top_root h1).symm
    · have hk0 : (s'.heap c).kids = [] := hI'.childless c (by rw [hkind]; exact hce)
      have := AncOrSelf.eq_of_no_kids hI' hk0 hcx
      rw [this] at hxe; exact hce hxe
  refine ⟨by rw [htop, hkind]; exact hC.top_elem, by rw [htop]; exact hptop', hnd', ?_, ?_, ?_, ?_⟩
  rotate_left 3
  · intro x hxe
    rw [hkind] at hxe
    have : x ∉ l := fun hm => hxe (by rw [← hkind]; exact ((hl x).mp hm).2)
    rw [how x]; simp [this, hC.text_unowned x hxe]
  · intro q x hxt
    rw [htop] at hxt
    rw [hed q x, hC.mem_iff q x hxt, hR x, hl x, hkind, hqn]
    by_cases hD : s.owned p = true ∧ (s.heap c).kind = .elem
    · simp only [hD, true_and]
      constructor
      · rintro ⟨⟨ha, hk, hq⟩, hn⟩
        exact ⟨⟨ha, fun hcx => hn ⟨⟨hcx, hk⟩, hq⟩⟩, hk, hq⟩
      · rintro ⟨⟨ha, hn⟩, hk, hq⟩
        exact ⟨⟨ha, hk, hq⟩, fun ⟨⟨hcx, _⟩, _⟩ => hn hcx⟩
    · simp only [hD, false_and, not_false_eq_true, and_true]
      constructor
      · rintro ⟨ha, hk, hq⟩; exact ⟨⟨ha, hnone hD x hk ha⟩, hk, hq⟩
      · rintro ⟨⟨ha, _⟩, hk, hq⟩; exact ⟨ha, hk, hq⟩
  · intro q ht
    rw [htop] at ht ⊢
    rw [hqn]
    exact hC.top_mem q ((hed q s.top).mp ht).1
  · intro x hxe
    rw [hkind] at hxe
    rw [how x, hR x]
    by_cases hcx : AncOrSelf s'.heap c x
    · have : x ∈ l := (hl x).mpr ⟨hcx, by rw [hkind]; exact hxe⟩
      simp [this, hcx]
    · have : x ∉ l := fun hm => hcx ((hl x).mp hm).1
      simp [this, hcx, hC.owned_iff x hxe]

/-- the index after a detached subtree was hung under `p` -/
theorem coh_attach {s s' : DState} {p c : Id} {l : List Id}
    (hC : CohIdx s) (hI' : Inv s'.heap) (hA' : Acyclic s'.heap)
    (hkp : (s.heap p).kind = .elem) (hdet : (s.heap c).parent = none) (hct : c ≠ s.top)
    (htop : s'.top = s.top)
    (hpar : ∀ y, (s'.heap y).parent = if y = c then some p else (s.heap y).parent)
    (hkind : ∀ y, (s'.heap y).kind = (s.heap y).kind) (hqn : ∀ y, (s'.heap y).qn = (s.heap y).qn)
    (hl : ∀ x, x ∈ l ↔ AncOrSelf s'.heap c x ∧ (s'.heap x).kind = .elem) (hlnd : l.Nodup)
    (hed : ∀ q, ed s' q = if s.owned p = true ∧ (s.heap c).kind = .elem
      then ed s q ++ l.filter (fun y => (s.heap y).qn = q) else ed s q)
    (how : ∀ y, s'.owned y = if y ∈ l then s.owned p else s.owned y) : CohIdx s' := by
  obtain ⟨d, hd⟩ := hA'
  have hpc' : (s'.heap c).parent = some p := by rw [hpar]; simp
  have hptop' : (s'.heap s.top).parent = none := by rw [hpar]; simp [Ne.symm hct, hC.top_root]
  have hup : ∀ x, Att s x → AncOrSelf s'.heap s.top x := by
    intro x ha
    induction ha with
    | refl => exact AncOrSelf.refl
    | @step x q hpx _ ih =>
      have hxc : x ≠ c := by intro e; rw [e, hdet] at hpx; cases hpx
      exact AncOrSelf.step (by rw [hpar]; simp [hxc, hpx]) ih
  -- (A) attached afterwards = attached before, or below c when p is attached
  have hA1 : ∀ x, AncOrSelf s'.heap s.top x → Att s x ∨ (Att s p ∧ AncOrSelf s'.heap c x) := by
    intro x ha
    induction ha with
    | refl => exact Or.inl AncOrSelf.refl
    | @step x q hpx _ ih =>
      by_cases hxc : x = c
      · subst hxc
        rw [hpc'] at hpx; cases hpx
        rcases ih with h1 | ⟨h1, _⟩ <;> exact Or.inr ⟨h1, AncOrSelf.refl⟩
      · have hpx0 : (s.heap x).parent = some q := by rw [hpar] at hpx; simpa [hxc] using hpx
        rcases ih with h1 | ⟨h1, h2⟩
        · exact Or.inl (AncOrSelf.step hpx0 h1)
        · exact Or.inr ⟨h1, AncOrSelf.step hpx h2⟩
  have hA2 : ∀ x, Att s p → AncOrSelf s'.heap c x → AncOrSelf s'.heap s.top x := by
    intro x hp ha
    induction ha with
    | refl => exact AncOrSelf.step hpc' (hup p hp)
    | step hpx _ ih => exact AncOrSelf.step hpx ih
  have hA : ∀ x, Att s' x ↔ Att s x ∨ (Att s p ∧ AncOrSelf s'.heap c x) := by
    intro x; unfold Att; rw [htop]
    exact ⟨hA1 x, fun h => h.elim (hup x) (fun ⟨h1, h2⟩ => hA2 x h1 h2)⟩
  -- nothing that was attached lies below c
  have hold : ∀ x, AncOrSelf s'.heap c x → AncOrSelf s.heap c x := by
    intro x ha
    induction ha with
    | refl => exact AncOrSelf.refl
    | @step x q hpx hrest ih =>
      by_cases hxc : x = c
      · subst hxc
        rw [hpc'] at hpx; cases hpx
        have h1 := anc_depth hd hrest
        have h2 := hd x p hpc'
        omega
      · exact AncOrSelf.step (by rw [hpar] at hpx; simpa [hxc] using hpx) ih
  have hdisj : ∀ x, Att s x → ¬ AncOrSelf s'.heap c x := by
    intro x ha hb
    rcases anc_chain ha (hold x hb) with h1 | h1
    · exact hct (anc_of_no_parent hdet h1)
    · exact hct (anc_of_no_parent hC.top_root h1).symm
  have htopl : s.top ∉ l := by
    intro hm
    exact hct (anc_of_no_parent hptop' ((hl s.top).mp hm).1).symm
  have hop : s.owned p = true ↔ Att s p := hC.owned_iff p hkp
  refine ⟨by rw [htop, hkind]; exact hC.top_elem, by rw [htop]; exact hptop', ?_, ?_, ?_, ?_, ?_⟩
  rotate_left 4
  · intro x hxe
    rw [hkind] at hxe
    have : x ∉ l := fun hm => hxe (by rw [← hkind]; exact ((hl x).mp hm).2)
    rw [how x]; simp [this, hC.text_unowned x hxe]
  · intro q
    rw [hed q]
    split
    · rw [List.nodup_append]
      refine ⟨hC.nodup q, hlnd.filter _, ?_⟩
      intro a ha b hb e
      subst e
      have hbl : a ∈ l := (List.mem_filter.mp hb).1
      have hat : a ≠ s.top := fun e => htopl (e ▸ hbl)
      exact hdisj a ((hC.mem_iff q a hat).mp ha).1 ((hl a).mp hbl).1
    · exact hC.nodup q
  · intro q x hxt
    rw [htop] at hxt
    rw [hed q, hA x, hkind, hqn]
    by_cases hD : s.owned p = true ∧ (s.heap c).kind = .elem
    · simp only [hD, and_self, if_true, List.mem_append, List.mem_filter, decide_eq_true_eq,
        hC.mem_iff q x hxt, hl x, hkind]
      have hp : Att s p := hop.mp hD.1
      constructor
      · rintro (⟨ha, hk, hq⟩ | ⟨⟨hcx, hk⟩, hq⟩)
        · exact ⟨Or.inl ha, hk, hq⟩
        · exact ⟨Or.inr ⟨hp, hcx⟩, hk, hq⟩
      · rintro ⟨(ha | ⟨_, hcx⟩), hk, hq⟩
        · exact Or.inl ⟨ha, hk, hq⟩
        · exact Or.inr ⟨⟨hcx, hk⟩, hq⟩
    · simp only [hD, if_false, hC.mem_iff q x hxt]
      constructor
      · rintro ⟨ha, hk, hq⟩; exact ⟨Or.inl ha, hk, hq⟩
      · rintro ⟨(ha | ⟨hp, hcx⟩), hk, hq⟩
        · exact ⟨ha, hk, hq⟩
        · exfalso
          apply hD
          refine ⟨hop.mpr hp, ?_⟩
          by_cases hce : (s.heap c).kind = .elem
          · exact hce
          · have hk0 : (s'.heap c).kids = [] := hI'.childless c (by rw [hkind]; exact hce)
            have := AncOrSelf.eq_of_no_kids hI' hk0 hcx
            rw [this] at hk; exact absurd hk hce
  · intro q ht
    rw [htop] at ht ⊢
    rw [hqn]
    apply hC.top_mem q
    rw [hed q] at ht
    split at ht
    · rcases List.mem_append.mp ht with h1 | h1
      · exact h1
      · exact absurd (List.mem_filter.mp h1).1 htopl
    · exact ht
  · intro x hxe
    rw [hkind] at hxe
    rw [how x, hA x]
    by_cases hcx : AncOrSelf s'.heap c x
    · have hm : x ∈ l := (hl x).mpr ⟨hcx, by rw [hkind]; exact hxe⟩
      have hna : ¬ Att s x := fun ha => hdisj x ha hcx
      simp only [hm, if_true, hop, hna, false_or, hcx, and_true]
    · have hm : x ∉ l := fun hm => hcx ((hl x).mp hm).1
      simp only [hm, if_false, hcx, and_false, or_false]
      exact hC.owned_iff x hxe

/-! ### removeChild -/

theorem run_bind_liftH {α β} (m : M α) (k : α → DM β) (s : DState) :
    (liftH m >>= k).run s = match m.run s.heap with
      | (h', .ok a) => (k a).run { s with heap := h' }
      | (h', .error e) => ({ s with heap := h' }, .error e) := by
  rw [DomDoc.run_bind, run_liftH]
  rcases m.run s.heap with ⟨h', (e | a)⟩ <;> rfl

/-- the heap after the five link assignments of removeChild -/
def rm5 (h : Heap) (p c : Id) : Heap :=
  setPrev (setNext
    (setNextOpt (setPrevOpt (setKids h p ((h p).kids.erase c)) (h c).next (h c).prev) (h c).prev (h c).next)
    c none) c none

theorem unlink_run (p c : Id) (h : Heap) : (unlink p c).run h = (rm5 h p c, .ok ()) := by
  unfold unlink rm5; simp

theorem rmHeap_eq (h : Heap) (p c : Id) : rmHeap h p c = setParent (rm5 h p c) c none := rfl

theorem elems_congr {h h' : Heap} (hk : ∀ y, (h' y).kids = (h y).kids ∧ (h' y).kind = (h y).kind) :
    ∀ f, (∀ n, elems h' f n = elems h f n) ∧ (∀ ks, elemsL h' f ks = elemsL h f ks) := by
  intro f
  induction f with
  | zero =>
    have h1 : ∀ n, elems h' 0 n = elems h 0 n := by intro n; simp [elems_zero, (hk n).2]
    refine ⟨h1, ?_⟩
    intro ks
    induction ks with
    | nil => simp [elemsL_nil]
    | cons k r ih => rw [elemsL_cons, elemsL_cons, h1 k, ih]
  | succ f ih =>
    have h1 : ∀ n, elems h' (f + 1) n = elems h (f + 1) n := by
      intro n; rw [elems_succ, elems_succ, (hk n).2, (hk n).1, ih.2]
    refine ⟨h1, ?_⟩
    intro ks
    induction ks with
    | nil => simp [elemsL_nil]
    | cons k r ih2 => rw [elemsL_cons, elemsL_cons, h1 k, ih2]

theorem owned_congr {s s' : DState} (h : s'.ownedL = s.ownedL) (y : Id) : s'.owned y = s.owned y := by
  unfold DState.owned; rw [h]

/-- what `dropFromIndexes p c` does (when the traversal stays within the budget) -/
theorem dropFromIndexes_view {p c : Id} {s s' : DState} {r : Except Err Unit}
    (hrun : (dropFromIndexes p c).run s = (s', r)) (hnd : ∀ q, (ed s q).Nodup) :
    r = .error .RecursionError ∨
    (r = .ok () ∧ ∃ l, elemsUnder s.heap c = some l ∧ s'.heap = s.heap ∧ s'.top = s.top ∧
      (∀ q, (ed s' q).Nodup) ∧
      (∀ q y, y ∈ ed s' q ↔ y ∈ ed s q ∧
        ¬ ((s.owned p = true ∧ (s.heap c).kind = .elem) ∧ y ∈ l ∧ (s.heap y).qn = q)) ∧
      (∀ y, s'.owned y = if y ∈ l then false else s.owned y)) := by
  unfold dropFromIndexes at hrun
  simp only [DomDoc.run_bind_rd] at hrun
  cases hl : elemsUnder s.heap c with
  | none =>
    left
    by_cases hD : (s.owned p && decide ((s.heap c).kind = .elem)) = true
    · simp only [hD, if_true] at hrun
      rw [DomDoc.run_bind, removeFromCaches_run, hl] at hrun
      cases hrun; rfl
    · simp only [hD, if_false, DomDoc.run_bind_pure, Bool.false_eq_true] at hrun
      rw [setOwnerRec_run, hl] at hrun
      cases hrun; rfl
  | some l =>
    right
    by_cases hD : (s.owned p && decide ((s.heap c).kind = .elem)) = true
    · simp only [hD, if_true] at hrun
      rw [DomDoc.run_bind, removeFromCaches_run, hl] at hrun
      simp only at hrun
      obtain ⟨a1, a2, a3⟩ := foldRemove_same l s
      obtain ⟨b1, b2⟩ := foldRemove_ed l s hnd
      rw [setOwnerRec_run, a1, hl] at hrun
      simp only at hrun
      obtain ⟨c1, c2, c3, _, c5⟩ := foldOwned_view false l (l.foldl (fun s x => removeOnePure x s) s)
      cases hrun
      have hD' : s.owned p = true ∧ (s.heap c).kind = .elem := by simpa using hD
      refine ⟨rfl, l, rfl, c1.trans a1, c3.trans a3, ?_, ?_, ?_⟩
      · intro q; unfold ed; rw [c2]; exact b1 q
      · intro q y; unfold ed; rw [c2]
        have := b2 q y
        unfold ed at this
        rw [this]; simp [hD']
      · intro y; rw [c5 y, owned_congr a2]
    · simp only [hD, if_false, DomDoc.run_bind_pure, Bool.false_eq_true] at hrun
      rw [setOwnerRec_run, hl] at hrun
      simp only at hrun
      obtain ⟨c1, c2, c3, _, c5⟩ := foldOwned_view false l s
      cases hrun
      have hD' : ¬ (s.owned p = true ∧ (s.heap c).kind = .elem) := by simpa using hD
      refine ⟨rfl, l, rfl, c1, c3, ?_, ?_, c5⟩
      · intro q; unfold ed; rw [c2]; exact hnd q
      · intro q y; unfold ed; rw [c2]; simp [hD']

/-- the tree is consistent and cycle-free, and index and ownerDocument agree with it -/
def Good (s : DState) : Prop := Inv s.heap ∧ Acyclic s.heap ∧ CohIdx s

theorem run_liftH_upd (f : Heap → Heap) (s : DState) :
    (liftH (upd f)).run s = ({ s with heap := f s.heap }, .ok ()) := rfl

theorem rm5_fields (h : Heap) (p c y : Id) :
    (rm5 h p c y).kids = (rmHeap h p c y).kids ∧ (rm5 h p c y).kind = (h y).kind ∧ (rm5 h p c y).qn = (h y).qn := by
  rw [rmHeap_eq]; simp [rm5]

/-- what a `removeChild` that gets past its guards does -/
theorem removeChild_view {p c : Id} {s s' : DState} {r : Except Err Unit}
    (hrun : (DomDoc.removeChild p c).run s = (s', r)) (hnd : ∀ q, (ed s q).Nodup) :
    (s' = s ∧ r = .error .NotFound) ∨ r = .error .RecursionError ∨
    (r = .ok () ∧ ((s.heap p).kind = .elem ∧ c ∈ (s.heap p).kids) ∧
      ∃ l, elemsUnder (rmHeap s.heap p c) c = some l ∧ s'.heap = rmHeap s.heap p c ∧ s'.top = s.top ∧
      (∀ q, (ed s' q).Nodup) ∧
      (∀ q y, y ∈ ed s' q ↔ y ∈ ed s q ∧
        ¬ ((s.owned p = true ∧ (s.heap c).kind = .elem) ∧ y ∈ l ∧ (s.heap y).qn = q)) ∧
      (∀ y, s'.owned y = if y ∈ l then false else s.owned y)) := by
  unfold DomDoc.removeChild at hrun
  simp only [DomDoc.run_bind_rd] at hrun
  by_cases hk : (s.heap p).kind = .elem
  · by_cases hc : c ∈ (s.heap p).kids
    · simp [hk, hc] at hrun
      rw [run_bind_liftH, unlink_run] at hrun
      simp only at hrun
      rw [DomDoc.run_bind] at hrun
      rcases hd : (dropFromIndexes p c).run { s with heap := rm5 s.heap p c } with ⟨s2, r2⟩
      rw [hd] at hrun
      have hnd1 : ∀ q, (ed { s with heap := rm5 s.heap p c } q).Nodup := hnd
      rcases dropFromIndexes_view hd hnd1 with hrec | ⟨hok, l, hl, hh, ht, v1, v2, v3⟩
      · subst hrec; simp only at hrun; cases hrun; exact Or.inr (Or.inl rfl)
      · subst hok
        simp only [run_liftH_upd] at hrun
        cases hrun
        refine Or.inr (Or.inr ⟨rfl, ⟨hk, hc⟩, l, ?_, ?_, ht, v1, ?_, v3⟩)
        · have hcg := (elems_congr (h := rm5 s.heap p c) (h' := rmHeap s.heap p c) (fun y => by
            rw [rmHeap_eq]; simp)) FUEL
          unfold elemsUnder at hl ⊢
          rw [hcg.1]; exact hl
        · show setParent s2.heap c none = rmHeap s.heap p c
          rw [hh, rmHeap_eq]
        · intro q y
          have := v2 q y
          simp only [(rm5_fields s.heap p c c).2.1, (rm5_fields s.heap p c y).2.2] at this
          exact this
    · simp [hk, hc] at hrun
      exact Or.inl ⟨hrun.1.symm, hrun.2.symm⟩
  · simp [hk] at hrun
    exact Or.inl ⟨hrun.1.symm, hrun.2.symm⟩

theorem rmHeap_acyclic {h : Heap} (hA : Acyclic h) (p c : Id) : Acyclic (rmHeap h p c) := by
  apply acyclic_of_parent_sub hA
  intro x q hx; rw [rmHeap_parent] at hx
  split at hx
  · cases hx
  · exact hx

/-- **C09 (removeChild)**: cutting off a node (element or text, with its whole subtree, from an
    attached or a detached parent) keeps index and ownerDocument in step with the tree; a refused
    call changes nothing. -/
theorem removeChild_good {p c : Id} {s s' : DState} {r : Except Err Unit} (hG : Good s)
    (hrun : (DomDoc.removeChild p c).run s = (s', r)) (hr : r ≠ .error .RecursionError) : Good s' := by
  obtain ⟨hI, hA, hC⟩ := hG
  rcases removeChild_view hrun hC.nodup with ⟨e, _⟩ | hrec | ⟨_, ⟨hk, hc⟩, l, hl, hh, ht, v1, v2, v3⟩
  · rw [e]; exact ⟨hI, hA, hC⟩
  · exact absurd hrec hr
  · have hI' : Inv s'.heap := by rw [hh]; exact rm_inv hI hc
    have hA' : Acyclic s'.heap := by rw [hh]; exact rmHeap_acyclic hA p c
    refine ⟨hI', hA', ?_⟩
    apply coh_remove hI hC hc hI' ht
    · intro y; rw [hh, rmHeap_parent]
    · intro y; rw [hh]; simp
    · intro y; rw [hh]; simp
    · intro x
      unfold elemsUnder at hl
      rw [← hh] at hl
      exact elems_spec hI' hl x
    · exact v1
    · exact v2
    · exact v3

/-! ### _child_attached -/

theorem inv_sameLinks {h h' : Heap} (hI : Inv h) (hs : SameLinks h h') : Inv h' := by
  apply inv_of_same_links hI
  · intro q; exact (hs q).1
  · intro q; exact (hs q).2.1
  · intro q; exact (hs q).2.2.1
  · intro q; exact (hs q).2.2.2.1
  · intro q hq; rw [(hs q).2.2.2.2.1] at hq; exact hI.childless q hq

theorem acyclic_sameLinks {h h' : Heap} (hA : Acyclic h) (hs : SameLinks h h') : Acyclic h' :=
  acyclic_of_same_parents hA (fun x => (hs x).2.1)

theorem elemsUnder_sameLinks {h h' : Heap} (hs : SameLinks h h') (n : Id) : elemsUnder h' n = elemsUnder h n := by
  unfold elemsUnder
  exact ((elems_congr (fun y => ⟨(hs y).1, (hs y).2.2.2.2.1⟩)) FUEL).1 n

/-- what `p._child_attached(c)` does (when the traversal stays within the budget) -/
theorem childAttached_view {p c : Id} {s s' : DState} {r : Except Err Unit}
    (hrun : (childAttached p c).run s = (s', r)) :
    r = .error .RecursionError ∨
    (r = .ok () ∧ ∃ l, elemsUnder s.heap c = some l ∧ SameLinks s.heap s'.heap ∧ s'.top = s.top ∧
      (∀ q, ed s' q = if s.owned p = true ∧ (s.heap c).kind = .elem
        then ed s q ++ l.filter (fun y => (s.heap y).qn = q) else ed s q) ∧
      (∀ y, s'.owned y = if y ∈ l then s.owned p else s.owned y)) := by
  unfold childAttached at hrun
  simp only [DomDoc.run_bind_rd] at hrun
  rw [DomDoc.run_bind, setOwnerRec_run] at hrun
  cases hl : elemsUnder s.heap c with
  | none => rw [hl] at hrun; cases hrun; exact Or.inl rfl
  | some l =>
    right
    rw [hl] at hrun
    simp only [DomDoc.run_bind_rd] at hrun
    obtain ⟨c1, c2, c3, _, c5⟩ := foldOwned_view (s.owned p) l s
    rw [DomDoc.run_ite] at hrun
    generalize List.foldl (fun s_1 x => setOwned s_1 x (s.owned p)) s l = s2 at hrun c1 c2 c3 c5
    split at hrun
    · rename_i hD
      rw [rebuildCaches_run, c1, hl] at hrun
      simp only at hrun
      obtain ⟨b1, b2, b3, b4⟩ := foldBuild_view l s2
      cases hrun
      have hD' : s.owned p = true ∧ (s.heap c).kind = .elem := by rw [c1] at hD; simpa using hD
      refine ⟨rfl, l, rfl, ?_, b3.trans c3, ?_, ?_⟩
      · rw [c1] at b1; exact b1
      · intro q; rw [b4 q]; unfold ed; rw [c2, c1]; simp [hD']
      · intro y; rw [owned_congr b2, c5 y]
    · rename_i hD
      rw [DomDoc.run_pure] at hrun
      cases hrun
      have hD' : ¬ (s.owned p = true ∧ (s.heap c).kind = .elem) := by rw [c1] at hD; simpa using hD
      refine ⟨rfl, l, rfl, ?_, c3, ?_, c5⟩
      · rw [c1]; exact SameLinks.refl _
      · intro q; unfold ed; rw [c2]; simp [hD']

/-- the last stage of appendChild / insertBefore: the new child is linked (heap `h1`), now
    `_child_attached` runs -/
theorem attach_good {s0 s' : DState} {p c : Id} {h1 : Heap} {r : Except Err Unit} (hG0 : Good s0)
    (hkp : (s0.heap p).kind = .elem) (hdet : (s0.heap c).parent = none) (hct : c ≠ s0.top)
    (hno : ¬ AncOrSelf s0.heap c p) (hI1 : Inv h1)
    (hpar1 : ∀ y, (h1 y).parent = if y = c then some p else (s0.heap y).parent)
    (hkind1 : ∀ y, (h1 y).kind = (s0.heap y).kind) (hqn1 : ∀ y, (h1 y).qn = (s0.heap y).qn)
    (hrun : (childAttached p c).run { s0 with heap := h1 } = (s', r)) (hr : r ≠ .error .RecursionError) :
    Good s' := by
  obtain ⟨_, hA0, hC0⟩ := hG0
  have hA1 : Acyclic h1 := acyclic_attach hA0 hpar1 hno
  rcases childAttached_view hrun with hrec | ⟨_, l, hl, hs, ht, v1, v2⟩
  · exact absurd hrec hr
  · have hs' : SameLinks h1 s'.heap := hs
    have hI' : Inv s'.heap := inv_sameLinks hI1 hs'
    have hA' : Acyclic s'.heap := acyclic_sameLinks hA1 hs'
    refine ⟨hI', hA', ?_⟩
    have hl' : elemsUnder s'.heap c = some l := by rw [elemsUnder_sameLinks hs']; exact hl
    apply coh_attach (l := l) hC0 hI' hA' hkp hdet hct ht
    · intro y; rw [(hs' y).2.1]; exact hpar1 y
    · intro y; rw [(hs' y).2.2.2.2.1]; exact hkind1 y
    · intro y; rw [(hs' y).2.2.2.2.2]; exact hqn1 y
    · intro x; exact elems_spec hI' hl' x
    · exact elems_nodup hI' hA' FUEL c l hl'
    · intro q
      have := v1 q
      simp only [hkind1, hqn1] at this
      exact this
    · exact v2

/-! ### appendChild, insertBefore -/

theorem app_qn (h : Heap) (p c q : Id) : (setNext (appRawHeap h p c) c none q).qn = (h q).qn := by
  unfold appRawHeap; cases (h p).kids.getLast? <;> simp

theorem insHeap_kind (h : Heap) (p n r x : Id) : (insHeap h p n r x).kind = (h x).kind := by
  unfold insHeap linkPrevHeap
  simp only
  split
  · simp
  · split <;> simp

theorem insHeap_qn (h : Heap) (p n r x : Id) : (insHeap h p n r x).qn = (h x).qn := by
  unfold insHeap linkPrevHeap
  simp only
  split
  · simp
  · split <;> simp

theorem detach_good {c : Id} {s s' : DState} {r : Except Err Unit} (hG : Good s)
    (hrun : (DomDoc.detachIfAttached c).run s = (s', r)) (hr : r ≠ .error .RecursionError) :
    Good s' ∧ s'.top = s.top ∧ (r = .ok () → s'.heap = detach s.heap c) ∧ (r ≠ .ok () → s' = s) := by
  unfold DomDoc.detachIfAttached at hrun
  simp only [DomDoc.run_bind_rd] at hrun
  cases hp : (s.heap c).parent with
  | none =>
    rw [hp] at hrun
    cases hrun
    exact ⟨hG, rfl, fun _ => (detach_of_detached _ _ hp).symm, fun h => absurd rfl h⟩
  | some q =>
    rw [hp] at hrun
    have hG' := removeChild_good hG hrun hr
    rcases removeChild_view hrun hG.2.2.nodup with ⟨e, hnf⟩ | hrec | ⟨hok, _, l, _, hh, ht, _⟩
    · subst e; exact ⟨hG, rfl, (fun h => by rw [hnf] at h; cases h), (fun _ => rfl)⟩
    · exact absurd hrec hr
    · refine ⟨hG', ht, fun _ => ?_, fun h => absurd hok h⟩
      rw [hh]; unfold detach; rw [hp]

/-- **C09 (appendChild)**: appending a node — new, or moved from anywhere with its whole subtree,
    under an attached or a detached parent — keeps index and ownerDocument in step with the tree. -/
theorem appendChild_good {p c : Id} {s s' : DState} {r : Except Err Unit} (hG : Good s)
    (hno : ¬ AncOrSelf s.heap c p) (hct : c ≠ s.top)
    (hrun : (DomDoc.appendChild p c).run s = (s', r)) (hr : r ≠ .error .RecursionError) : Good s' := by
  unfold DomDoc.appendChild at hrun
  simp only [DomDoc.run_bind_rd] at hrun
  by_cases hk : (s.heap p).kind = .elem
  · simp only [hk, ne_eq, not_true, if_false, DomDoc.run_bind_pure] at hrun
    rw [DomDoc.run_bind] at hrun
    rcases hd : (DomDoc.detachIfAttached c).run s with ⟨s0, r0⟩
    rw [hd] at hrun
    cases r0 with
    | error e =>
      simp only at hrun; cases hrun
      exact (detach_good hG hd hr).1
    | ok u =>
      obtain ⟨hG0, ht0, hh0, _⟩ := detach_good hG hd (by intro h; cases h)
      have hh := hh0 rfl
      simp only at hrun
      rw [run_bind_liftH, appendRaw_run] at hrun
      simp only at hrun
      rw [run_bind_liftH, Dom.run_upd] at hrun
      simp only at hrun
      have hkp0 : (s0.heap p).kind = .elem := by rw [hh, detach_kind]; exact hk
      have hdet : (s0.heap c).parent = none := by rw [hh]; exact detach_parent_self _ _
      have hno0 : ¬ AncOrSelf s0.heap c p := fun ha => hno (AncOrSelf.mono (fun y q hy => by
        rw [hh, detach_parent] at hy; split at hy
        · cases hy
        · exact hy) ha)
      exact attach_good hG0 hkp0 hdet (by rw [ht0]; exact hct) hno0 (app_inv hG0.1 hkp0 hdet)
        (fun y => app_parent _ _ _ _) (fun y => app_kind _ _ _ _) (fun y => app_qn _ _ _ _) hrun hr
  · simp [hk] at hrun
    rw [← hrun.1]; exact hG

/-- **C09 (insertBefore)** -/
theorem insertBefore_good {p n : Id} {ref : Option Id} {s s' : DState} {r : Except Err Unit} (hG : Good s)
    (hno : ¬ AncOrSelf s.heap n p) (hct : n ≠ s.top)
    (hrun : (DomDoc.insertBefore p n ref).run s = (s', r)) (hr : r ≠ .error .RecursionError) : Good s' := by
  unfold DomDoc.insertBefore at hrun
  simp only [DomDoc.run_bind_rd] at hrun
  by_cases hk : (s.heap p).kind = .elem
  · simp only [hk, ne_eq, not_true, if_false, DomDoc.run_bind_pure] at hrun
    rw [run_bind_liftH, checkRef_run] at hrun
    by_cases hro : RefOk s.heap p ref
    · simp only [hro, if_true] at hrun
      by_cases hrn : ref = some n
      · simp only [hrn, if_true, DomDoc.run_pure] at hrun
        cases hrun; exact hG
      · simp only [hrn, if_false] at hrun
        rw [DomDoc.run_bind] at hrun
        rcases hd : (DomDoc.detachIfAttached n).run s with ⟨s0, r0⟩
        have hd' : (DomDoc.detachIfAttached n).run { s with heap := s.heap } = (s0, r0) := hd
        rw [hd'] at hrun
        cases r0 with
        | error e =>
          simp only at hrun; cases hrun
          exact (detach_good hG hd hr).1
        | ok u =>
          obtain ⟨hG0, ht0, hh0, _⟩ := detach_good hG hd (by intro h; cases h)
          have hh := hh0 rfl
          simp only at hrun
          have hkp0 : (s0.heap p).kind = .elem := by rw [hh, detach_kind]; exact hk
          have hdet : (s0.heap n).parent = none := by rw [hh]; exact detach_parent_self _ _
          have hno0 : ¬ AncOrSelf s0.heap n p := fun ha => hno (AncOrSelf.mono (fun y q hy => by
            rw [hh, detach_parent] at hy; split at hy
            · cases hy
            · exact hy) ha)
          cases ref with
          | none => exact appendChild_good hG0 hno0 (by rw [ht0]; exact hct) hrun hr
          | some rf =>
            simp only at hrun
            rw [run_bind_liftH, insertAtRef_run] at hrun
            by_cases hrf : rf ∈ (s0.heap p).kids
            · simp only [hrf, if_true] at hrun
              exact attach_good hG0 hkp0 hdet (by rw [ht0]; exact hct) hno0
                (ins_inv hG0.1 hkp0 hrf hdet)
                (fun y => insHeap_parent _ _ _ _ _) (fun y => insHeap_kind _ _ _ _ _)
                (fun y => insHeap_qn _ _ _ _ _) hrun hr
            · simp only [hrf, if_false] at hrun
              cases hrun; exact hG0
    · simp only [hro, if_false] at hrun
      cases hrun; exact hG
  · simp [hk] at hrun
    rw [← hrun.1]; exact hG

/-! ### operations that leave links, kinds and qnames alone; object creation -/

theorem att_congr {s s' : DState} (ht : s'.top = s.top) (hp : ∀ y, (s'.heap y).parent = (s.heap y).parent) (x : Id) :
    Att s' x ↔ Att s x := by
  unfold Att; rw [ht]
  exact ⟨AncOrSelf.congr hp, AncOrSelf.congr (fun y => (hp y).symm)⟩

/-- a state that differs only in attribute values (and style dictionary) is as good -/
theorem good_of_sameLinks {s s' : DState} (hG : Good s) (hs : SameLinks s.heap s'.heap) (ht : s'.top = s.top)
    (he : s'.edict = s.edict) (ho : s'.ownedL = s.ownedL) : Good s' := by
  obtain ⟨hI, hA, hC⟩ := hG
  refine ⟨inv_sameLinks hI hs, acyclic_sameLinks hA hs, ?_⟩
  have hatt := att_congr ht (fun y => (hs y).2.1)
  refine ⟨by rw [ht, (hs _).2.2.2.2.1]; exact hC.top_elem, by rw [ht, (hs _).2.1]; exact hC.top_root, ?_, ?_, ?_, ?_, ?_⟩
  · intro q; unfold ed; rw [he]; exact hC.nodup q
  · intro q x hx; rw [ht] at hx
    unfold ed; rw [he, hatt x, (hs x).2.2.2.2.1, (hs x).2.2.2.2.2]; exact hC.mem_iff q x hx
  · intro q hq; rw [ht] at hq ⊢; unfold ed at hq; rw [he] at hq
    rw [(hs _).2.2.2.2.2]; exact hC.top_mem q hq
  · intro x hx; rw [(hs x).2.2.2.2.1] at hx
    rw [owned_congr ho, hatt x]; exact hC.owned_iff x hx
  · intro x hx; rw [(hs x).2.2.2.2.1] at hx
    rw [owned_congr ho]; exact hC.text_unowned x hx

theorem setAttrNS_sameLinks (h : Heap) (e key : Nat) (conv : Except Err Nat) :
    SameLinks h ((Dom.setAttrNS e key conv).run h).1 := by
  unfold Dom.setAttrNS
  cases conv with
  | error x => exact SameLinks.refl _
  | ok v => simp; exact sameLinks_setAttrs _ _ _

theorem setAttribute_sameLinks (h : Heap) (e : Id) (k t a : Bool) (key : Nat) (conv : Except Err Nat) :
    SameLinks h ((Dom.setAttribute e k t a key conv).run h).1 := by
  unfold Dom.setAttribute
  cases k <;> cases t <;> cases a <;> simp
  all_goals first | exact SameLinks.refl _ | exact setAttrNS_sameLinks h e key conv

theorem removeAttribute_sameLinks (h : Heap) (e : Id) (k t a : Bool) (key : Nat) :
    SameLinks h ((Dom.removeAttribute e k t a key).run h).1 := by
  unfold Dom.removeAttribute
  cases k <;> cases t <;> cases a <;> simp
  all_goals first
    | exact SameLinks.refl _
    | (split
       · exact SameLinks.refl _
       · exact sameLinks_setAttrs _ _ _)

/-- a new object (an unused id) enters the heap detached, unowned, unindexed -/
theorem initNode_good {s : DState} (hG : Good s) {i : Id} (hb : Blank s.heap i) (hit : i ≠ s.top) (k : Kind) (qn : Nat) :
    Good { s with heap := s.heap.set i { kind := k, qn := qn } } := by
  obtain ⟨hI, hA, hC⟩ := hG
  have hpar : ∀ y, ((s.heap.set i { kind := k, qn := qn }) y).parent = (s.heap y).parent := by
    intro y; rw [Heap.set_apply]; split
    · rename_i e; subst e; exact hb.1.symm
    · rfl
  have hother : ∀ y, y ≠ i → (s.heap.set i { kind := k, qn := qn }) y = s.heap y :=
    fun y hy => Heap.set_other _ _ _ _ hy
  have hni : ¬ Att s i := fun ha => hit (anc_of_no_parent hb.1 ha)
  have hoi : s.owned i = false := by
    by_cases hk : (s.heap i).kind = .elem
    · cases ho : s.owned i with
      | false => rfl
      | true => exact absurd ((hC.owned_iff i hk).mp ho) hni
    · exact hC.text_unowned i hk
  refine ⟨initNode_inv hI hb k qn, acyclic_of_same_parents hA hpar, ?_⟩
  have hatt : ∀ x, Att { s with heap := s.heap.set i { kind := k, qn := qn } } x ↔ Att s x :=
    att_congr rfl hpar
  refine ⟨?_, ?_, hC.nodup, ?_, ?_, ?_, ?_⟩
  · show ((s.heap.set i { kind := k, qn := qn }) s.top).kind = .elem
    rw [hother _ (Ne.symm hit)]; exact hC.top_elem
  · show ((s.heap.set i { kind := k, qn := qn }) s.top).parent = none
    rw [hpar]; exact hC.top_root
  · intro q x hx
    show x ∈ ed s q ↔ _
    rw [hatt x]
    by_cases hxi : x = i
    · subst hxi
      have : x ∉ ed s q := fun hm => hni ((hC.mem_iff q x hx).mp hm).1
      simp [this, hni]
    · show x ∈ ed s q ↔ Att s x ∧ ((s.heap.set i { kind := k, qn := qn }) x).kind = .elem ∧
        ((s.heap.set i { kind := k, qn := qn }) x).qn = q
      rw [hother x hxi]; exact hC.mem_iff q x hx
  · intro q hq
    show ((s.heap.set i { kind := k, qn := qn }) s.top).qn = q
    rw [hother _ (Ne.symm hit)]; exact hC.top_mem q hq
  · intro x hx
    show s.owned x = true ↔ _
    rw [hatt x]
    by_cases hxi : x = i
    · subst hxi; simp [hoi, hni]
    · have : (s.heap x).kind = .elem := by
        have h2 : ((s.heap.set i { kind := k, qn := qn }) x).kind = .elem := hx
        rw [hother x hxi] at h2; exact h2
      exact hC.owned_iff x this
  · intro x hx
    show s.owned x = false
    by_cases hxi : x = i
    · subst hxi; exact hoi
    · have : (s.heap x).kind ≠ .elem := by
        have h2 : ((s.heap.set i { kind := k, qn := qn }) x).kind ≠ .elem := hx
        rw [hother x hxi] at h2; exact h2
      exact hC.text_unowned x this

/-! ### the add* wrappers -/

theorem addElement_good {p c : Id} {a : Bool} {s s' : DState} {r : Except Err Unit} (hG : Good s)
    (hno : ¬ AncOrSelf s.heap c p) (hct : c ≠ s.top)
    (hrun : (DomDoc.addElement p c a).run s = (s', r)) (hr : r ≠ .error .RecursionError) : Good s' := by
  unfold DomDoc.addElement at hrun
  cases a with
  | false => simp at hrun; rw [← hrun.1]; exact hG
  | true => simp at hrun; exact appendChild_good hG hno hct hrun hr

theorem appendNew_good {p t : Id} {k : Kind} {s s' : DState} {r : Except Err Unit} (hG : Good s)
    (hb : Blank s.heap t) (htp : t ≠ p) (htt : t ≠ s.top)
    (hrun : (DomDoc.appendChild p t).run { s with heap := s.heap.set t { kind := k, qn := 0 } } = (s', r))
    (hr : r ≠ .error .RecursionError) : Good s' := by
  have hG1 := initNode_good hG hb htt k 0
  refine appendChild_good hG1 ?_ htt hrun hr
  intro ha
  have := AncOrSelf.eq_of_no_kids hG1.1 (by simp) ha
  exact htp this.symm

/-- **C09 (text nodes)**: adding text keeps index and ownerDocument right (and see
    `text_node_edit_keeps_index`) -/
theorem addText_good {p t : Id} {a ne : Bool} {s s' : DState} {r : Except Err Unit} (hG : Good s)
    (hb : Blank s.heap t) (htp : t ≠ p) (htt : t ≠ s.top)
    (hrun : (DomDoc.addText p t a ne).run s = (s', r)) (hr : r ≠ .error .RecursionError) : Good s' := by
  unfold DomDoc.addText at hrun
  cases a with
  | false => simp at hrun; rw [← hrun.1]; exact hG
  | true =>
    cases ne with
    | false => simp at hrun; rw [← hrun.1]; exact hG
    | true =>
      simp only [Bool.not_true, Bool.false_eq_true, if_false, if_true, DomDoc.run_bind_pure] at hrun
      rw [run_bind_liftH, initNode_run] at hrun
      exact appendNew_good hG hb htp htt hrun hr

theorem addCDATA_good {p t : Id} {a : Bool} {s s' : DState} {r : Except Err Unit} (hG : Good s)
    (hb : Blank s.heap t) (htp : t ≠ p) (htt : t ≠ s.top)
    (hrun : (DomDoc.addCDATA p t a).run s = (s', r)) (hr : r ≠ .error .RecursionError) : Good s' := by
  unfold DomDoc.addCDATA at hrun
  cases a with
  | false => simp at hrun; rw [← hrun.1]; exact hG
  | true =>
    simp only [Bool.not_true, Bool.false_eq_true, if_false, DomDoc.run_bind_pure] at hrun
    rw [run_bind_liftH, initNode_run] at hrun
    exact appendNew_good hG hb htp htt hrun hr

/-! ### rebuilding the indexes from the top; the two document-level queries -/

theorem edGet_nil (q : Nat) : edGet [] q = [] := rfl

/-- **C09 (rebuild)**: `rebuild_caches()` from the top (with b44089a: from empty indexes) yields
    an index that lists every attached element exactly once -/
theorem rebuildAll_good {s s' : DState} {r : Except Err Unit} (hG : Good s)
    (hrun : (rebuildAll).run s = (s', r)) (hr : r ≠ .error .RecursionError) : Good s' := by
  obtain ⟨hI, hA, hC⟩ := hG
  unfold rebuildAll at hrun
  simp only [DomDoc.run_bind_upd, DomDoc.run_bind_rd] at hrun
  rw [rebuildCaches_run] at hrun
  cases hl : elemsUnder s.heap s.top with
  | none => simp only [hl] at hrun; cases hrun; exact absurd rfl hr
  | some l =>
    simp only [hl] at hrun
    cases hrun
    obtain ⟨b1, b2, b3, b4⟩ := foldBuild_view l { s with edict := [], sdict := [] }
    have hs : SameLinks s.heap (l.foldl (fun s x => buildPure x s) { s with edict := [], sdict := [] }).heap := b1
    have hlspec := fun x => elems_spec hI (f := FUEL) (n := s.top) (l := l) hl x
    have hlnd := elems_nodup hI hA FUEL s.top l hl
    refine ⟨inv_sameLinks hI hs, acyclic_sameLinks hA hs, ?_⟩
    have hatt := att_congr (s := s) b3 (fun y => (hs y).2.1)
    have hed : ∀ q, ed (l.foldl (fun s x => buildPure x s) { s with edict := [], sdict := [] }) q
        = l.filter (fun y => (s.heap y).qn = q) := by
      intro q; rw [b4 q]; simp [ed, edGet_nil]
    refine ⟨by rw [b3, (hs _).2.2.2.2.1]; exact hC.top_elem, by rw [b3, (hs _).2.1]; exact hC.top_root, ?_, ?_, ?_, ?_, ?_⟩
    · intro q; rw [hed q]; exact hlnd.filter _
    · intro q x _
      rw [hed q, hatt x, (hs x).2.2.2.2.1, (hs x).2.2.2.2.2]
      simp only [List.mem_filter, decide_eq_true_eq, hlspec x]
      exact ⟨fun ⟨⟨a, b⟩, c⟩ => ⟨a, b, c⟩, fun ⟨a, b, c⟩ => ⟨⟨a, b⟩, c⟩⟩
    · intro q hq
      rw [hed q] at hq
      have := (List.mem_filter.mp hq).2
      rw [b3] at this ⊢
      rw [(hs _).2.2.2.2.2]; simpa using this
    · intro x hx; rw [(hs x).2.2.2.2.1] at hx
      rw [owned_congr b2, hatt x]; exact hC.owned_iff x hx
    · intro x hx; rw [(hs x).2.2.2.2.1] at hx
      rw [owned_congr b2]; exact hC.text_unowned x hx

theorem docByType_good {q : Nat} {s s' : DState} {r : Except Err (List Id)} (hG : Good s)
    (hrun : (docByType q).run s = (s', r)) (hr : r ≠ .error .RecursionError) : Good s' := by
  unfold docByType at hrun
  simp only [DomDoc.run_bind_rd] at hrun
  by_cases he : s.edict.isEmpty = true
  · simp only [he, if_true] at hrun
    rw [DomDoc.run_bind] at hrun
    rcases hb : (rebuildAll).run s with ⟨s1, r1⟩
    rw [hb] at hrun
    cases r1 with
    | error e =>
      simp only at hrun; cases hrun
      exact rebuildAll_good hG hb (by intro h; cases h; exact hr rfl)
    | ok u =>
      simp only [DomDoc.run_rd] at hrun; cases hrun
      exact rebuildAll_good hG hb (by intro h; cases h)
  · simp only [he, if_false, DomDoc.run_bind_pure, DomDoc.run_rd, Bool.false_eq_true] at hrun
    cases hrun; exact hG

/-- the part of `getStyleByName` after the optional rebuild: `__registered_style`, then the scan of the
    style:style index list -/
def lookupStyle (n : Nat) : DM (Option Id) := do
  match (← registeredStyle n) with
  | some e => pure (some e)
  | none =>
    match (← rdD fun s => scanStyles s n (edGet s.edict QN_STYLE)) with
    | some e => do
      updD fun s => { s with sdict := sdSet s.sdict n e }
      pure (some e)
    | none => pure none

theorem styleByName_eq (n : Nat) : styleByName n = (do
    if (← rdD fun s => s.sdict.isEmpty) then rebuildAll
    lookupStyle n) := rfl

theorem lookupStyle_keeps (n : Nat) : Keeps (lookupStyle n) := by
  unfold lookupStyle
  apply keeps_bind (registeredStyle_keeps n)
  intro o
  cases o with
  | some e => exact keeps_pure _
  | none =>
    apply keeps_bind (keeps_rd _)
    intro o2
    cases o2 with
    | none => exact keeps_pure _
    | some e =>
      apply keeps_bind
      · apply keeps_upd; intro s; exact ⟨SameLinks.refl _, rfl, rfl, rfl⟩
      · intro _; exact keeps_pure _

theorem good_of_idxSame {s s' : DState} (hG : Good s) (h : IdxSame s s') : Good s' :=
  good_of_sameLinks hG h.1 h.2.2.1 h.2.2.2 h.2.1

theorem styleByName_good {n : Nat} {s s' : DState} {r : Except Err (Option Id)} (hG : Good s)
    (hrun : (styleByName n).run s = (s', r)) (hr : r ≠ .error .RecursionError) : Good s' := by
  rw [styleByName_eq] at hrun
  simp only [DomDoc.run_bind_rd] at hrun
  by_cases he : s.sdict.isEmpty = true
  · simp only [he, if_true] at hrun
    rw [DomDoc.run_bind] at hrun
    rcases hb : (rebuildAll).run s with ⟨s1, r1⟩
    rw [hb] at hrun
    cases r1 with
    | error e =>
      simp only at hrun; cases hrun
      exact rebuildAll_good hG hb (by intro h; cases h; exact hr rfl)
    | ok u =>
      simp only at hrun
      exact good_of_idxSame (rebuildAll_good hG hb (by intro h; cases h)) (lookupStyle_keeps n _ _ _ hrun).1
  · simp only [he, if_false, DomDoc.run_bind_pure, Bool.false_eq_true] at hrun
    exact good_of_idxSame hG (lookupStyle_keeps n _ _ _ hrun).1

/-- **C09 (document-level query)**: what `doc.getElementsByType(f)` returns has no repetition and
    consists exactly of the attached elements of that qname (the top node aside) -/
theorem docByType_exact {q : Nat} {s s' : DState} {l : List Id} (hG : Good s)
    (hrun : (docByType q).run s = (s', .ok l)) :
    l.Nodup ∧ ∀ x, x ≠ s'.top → (x ∈ l ↔ Att s' x ∧ (s'.heap x).kind = .elem ∧ (s'.heap x).qn = q) := by
  have hG' := docByType_good hG hrun (by intro h; cases h)
  have hl : l = ed s' q := by
    unfold docByType at hrun
    simp only [DomDoc.run_bind_rd] at hrun
    by_cases he : s.edict.isEmpty = true
    · simp only [he, if_true] at hrun
      rw [DomDoc.run_bind] at hrun
      rcases hb : (rebuildAll).run s with ⟨s1, (e | u)⟩
      · rw [hb] at hrun; simp only at hrun; cases hrun
      · rw [hb] at hrun; simp only [DomDoc.run_rd] at hrun; cases hrun; rfl
    · simp only [he, if_false, DomDoc.run_bind_pure, DomDoc.run_rd, Bool.false_eq_true] at hrun
      cases hrun; rfl
  rw [hl]
  exact ⟨hG'.2.2.nodup q, fun x hx => hG'.2.2.mem_iff q x hx⟩

/-! ### __replaceGenerator (xml(), metaxml(), save()) -/

/-- parent links after appending a DETACHED node -/
theorem appendChild_parent_detached {p c : Id} {s s' : DState} {r : Except Err Unit}
    (hkp : (s.heap p).kind = .elem) (hdet : (s.heap c).parent = none)
    (hrun : (DomDoc.appendChild p c).run s = (s', r)) (hok : r = .ok ()) :
    (∀ y, (s'.heap y).parent = if y = c then some p else (s.heap y).parent) ∧ s'.top = s.top := by
  unfold DomDoc.appendChild at hrun
  simp only [DomDoc.run_bind_rd] at hrun
  simp only [hkp, ne_eq, not_true, if_false] at hrun
  have hdrun : (DomDoc.detachIfAttached c).run s = (s, .ok ()) := by
    unfold DomDoc.detachIfAttached
    simp only [DomDoc.run_bind_rd, hdet]; rfl
  rw [DomDoc.run_bind, hdrun] at hrun
  simp only at hrun
  rw [run_bind_liftH, appendRaw_run] at hrun
  simp only at hrun
  rw [run_bind_liftH, Dom.run_upd] at hrun
  simp only at hrun
  rcases childAttached_view hrun with hrec | ⟨_, l, _, hs, ht, _, _⟩
  · rw [hok] at hrec; cases hrec
  · refine ⟨fun y => ?_, ht⟩
    have h1 : (s'.heap y).parent = ((setNext (appRawHeap s.heap p c) c none) y).parent := (hs y).2.1
    rw [h1, app_parent]

theorem att_after_attach {s s' : DState} {c p : Id} (hdet : (s.heap c).parent = none) (hct : c ≠ s.top)
    (htop : s'.top = s.top)
    (hpar : ∀ y, (s'.heap y).parent = if y = c then some p else (s.heap y).parent) {x : Id} (ha : Att s x) :
    Att s' x := by
  unfold Att at ha ⊢; rw [htop]
  induction ha with
  | refl => exact AncOrSelf.refl
  | @step x q hpx _ ih =>
    have hxc : x ≠ c := by intro e; rw [e, hdet] at hpx; cases hpx
    exact AncOrSelf.step (by rw [hpar]; simp [hxc, hpx]) ih

theorem att_after_remove {s : DState} {p c x : Id} (hA : Acyclic s.heap) (hpc : (s.heap c).parent = some p)
    (ha : Att s x) (hnx : ¬ AncOrSelf s.heap c x) : AncOrSelf (rmHeap s.heap p c) s.top x := by
  induction ha with
  | refl => exact AncOrSelf.refl
  | @step x q hpx _ ih =>
    have hxc : x ≠ c := fun e => hnx (e ▸ AncOrSelf.refl)
    have hpx' : (rmHeap s.heap p c x).parent = some q := by rw [rmHeap_parent]; simp [hxc, hpx]
    exact AncOrSelf.step hpx' (ih (fun hq => hnx (AncOrSelf.step hpx hq)))

/-- the loop invariant of `__replaceGenerator` -/
def RG (mt g t : Id) (top : Id) (s : DState) : Prop :=
  Good s ∧ Att s mt ∧ Blank s.heap g ∧ Blank s.heap t ∧ s.top = top ∧ (s.heap mt).kind = .elem

theorem forEach_inv (P : DState → Prop) (f : Id → DM Unit)
    (hstep : ∀ x s s' r, P s → (f x).run s = (s', r) → r ≠ .error .RecursionError → P s') :
    ∀ (l : List Id) (s s' : DState) (r : Except Err Unit), P s → (forEach f l).run s = (s', r) →
      r ≠ .error .RecursionError → P s' := by
  intro l
  induction l with
  | nil => intro s s' r hP hrun _; cases hrun; exact hP
  | cons x rest ih =>
    intro s s' r hP hrun hr
    simp only [forEach] at hrun
    rw [DomDoc.run_bind] at hrun
    rcases hx : (f x).run s with ⟨s1, r1⟩
    rw [hx] at hrun
    cases r1 with
    | error e => simp only at hrun; cases hrun; exact hstep x s _ _ hP hx hr
    | ok u => simp only at hrun; exact ih s1 s' r (hstep x s s1 _ hP hx (by intro h; cases h)) hrun hr

theorem rg_remove_step {mt g t top : Id} (hgm : g ≠ mt) (htm : t ≠ mt) {m : Id} {s s' : DState}
    {r : Except Err Unit} (hP : RG mt g t top s)
    (hrun : (do
      if (← rdD fun s => decide ((s.heap m).kind = .elem) && decide ((s.heap m).qn = QN_GENERATOR)) then
        DomDoc.removeChild mt m : DM Unit).run s = (s', r)) (hr : r ≠ .error .RecursionError) :
    RG mt g t top s' := by
  obtain ⟨hG, hatt, hbg, hbt, htop, hmk⟩ := hP
  simp only [DomDoc.run_bind_rd] at hrun
  split at hrun
  · have hG' := removeChild_good hG hrun hr
    rcases removeChild_view hrun hG.2.2.nodup with ⟨e, _⟩ | hrec | ⟨_, ⟨_, hc⟩, l, _, hh, ht, _⟩
    · rw [e]; exact ⟨hG, hatt, hbg, hbt, htop, hmk⟩
    · exact absurd hrec hr
    · have hpm : (s.heap m).parent = some mt := (hG.1.parent_iff mt m).mp hc
      have hnm : ¬ AncOrSelf s.heap m mt := by
        intro ha
        obtain ⟨d, hd⟩ := hG.2.1
        have := anc_depth hd ha
        have := hd m mt hpm
        omega
      refine ⟨hG', ?_, ?_, ?_, ht.trans htop, by rw [hh, rmHeap_kind]; exact hmk⟩
      · unfold Att; rw [hh, ht]; exact att_after_remove hG.2.1 hpm hatt hnm
      · rw [hh]; constructor
        · rw [rmHeap_parent]; split
          · rfl
          · exact hbg.1
        · rw [rmHeap_kids]; simp [hgm, hbg.2]
      · rw [hh]; constructor
        · rw [rmHeap_parent]; split
          · rfl
          · exact hbt.1
        · rw [rmHeap_kids]; simp [htm, hbt.2]
  · rw [DomDoc.run_pure] at hrun; cases hrun; exact ⟨hG, hatt, hbg, hbt, htop, hmk⟩

/-- **C09 / C12 (render ops)**: `__replaceGenerator()` — run by `xml()`, `metaxml()` and `save()`:
    every meta:generator child of the (attached) office:meta element is removed, a new generator
    with its text is built and added — keeps index and ownerDocument coherent.  `g`, `t` are the
    new objects (unused ids, distinct from each other, from `meta` and from the top node). -/
theorem replaceGenerator_good {mt g t : Id} {s s' : DState} {r : Except Err Unit} (hG : Good s)
    (hatt : Att s mt) (hmk : (s.heap mt).kind = .elem) (hbg : Blank s.heap g) (hbt : Blank s.heap t)
    (hgt : g ≠ t) (hgm : g ≠ mt) (htm : t ≠ mt) (hgtop : g ≠ s.top) (httop : t ≠ s.top)
    (hrun : (replaceGenerator mt g t).run s = (s', r)) (hr : r ≠ .error .RecursionError) : Good s' := by
  unfold replaceGenerator at hrun
  simp only [DomDoc.run_bind_rd] at hrun
  rw [DomDoc.run_bind] at hrun
  rcases hloop : (forEach (fun m => do
      if (← rdD fun s => decide ((s.heap m).kind = .elem) && decide ((s.heap m).qn = QN_GENERATOR)) then
        DomDoc.removeChild mt m : Id → DM Unit) (s.heap mt).kids).run s with ⟨s1, r1⟩
  rw [hloop] at hrun
  have hRG0 : RG mt g t s.top s := ⟨hG, hatt, hbg, hbt, rfl, hmk⟩
  cases r1 with
  | error e =>
    simp only at hrun; cases hrun
    exact (forEach_inv (RG mt g t s.top) _ (fun m s s' r hP hrun hr => rg_remove_step hgm htm hP hrun hr)
      _ _ _ _ hRG0 hloop hr).1
  | ok u =>
    obtain ⟨hG1, hatt1, hbg1, hbt1, htop1, hmk1⟩ := forEach_inv (RG mt g t s.top) _
      (fun m s s' r hP hrun hr => rg_remove_step hgm htm hP hrun hr) _ _ _ _ hRG0 hloop (by intro h; cases h)
    simp only at hrun
    rw [run_bind_liftH, initNode_run] at hrun
    simp only at hrun
    -- the new generator element g
    have hG2 := initNode_good hG1 hbg1 (by rw [htop1]; exact hgtop) .elem QN_GENERATOR
    generalize hs2 : ({ s1 with heap := s1.heap.set g { kind := .elem, qn := QN_GENERATOR } } : DState) = s2 at hrun hG2
    have hh2 : s2.heap = s1.heap.set g { kind := .elem, qn := QN_GENERATOR } := by rw [← hs2]
    have ht2 : s2.top = s.top := by rw [← hs2]; exact htop1
    have hpar2 : ∀ y, (s2.heap y).parent = (s1.heap y).parent := by
      intro y; rw [hh2, Heap.set_apply]; split
      · rename_i e; subst e; exact hbg1.1.symm
      · rfl
    have hatt2 : Att s2 mt := (att_congr (ht2.trans htop1.symm) hpar2 mt).mpr hatt1
    have hbt2 : Blank s2.heap t := by
      rw [hh2]; unfold Blank; rw [Heap.set_other _ _ _ _ (Ne.symm hgt)]; exact hbt1
    have hkg2 : (s2.heap g).kind = .elem := by rw [hh2]; simp
    have hpg2 : (s2.heap g).parent = none := by rw [hh2]; simp
    have hmk2 : (s2.heap mt).kind = .elem := by
      rw [hh2, Heap.set_other _ _ _ _ (Ne.symm hgm)]; exact hmk1
    -- its text node t
    rw [DomDoc.run_bind] at hrun
    rcases hat : (DomDoc.addText g t true true).run s2 with ⟨s3, r3⟩
    rw [hat] at hrun
    have hG3 : r3 ≠ .error .RecursionError → Good s3 := fun h3 =>
      addText_good hG2 hbt2 (Ne.symm hgt) (by rw [ht2]; exact httop) hat h3
    cases r3 with
    | error e =>
      simp only at hrun; cases hrun; exact hG3 hr
    | ok u =>
      simp only at hrun
      have hG3' := hG3 (by intro h; cases h)
      have hat' : (DomDoc.appendChild g t).run { s2 with heap := s2.heap.set t { kind := .text, qn := 0 } }
          = (s3, .ok ()) := by
        unfold DomDoc.addText at hat
        simp only [Bool.not_true, Bool.false_eq_true, if_false, if_true, DomDoc.run_bind_pure] at hat
        rw [run_bind_liftH, initNode_run] at hat
        exact hat
      have hpar3a : ∀ y, ((s2.heap.set t { kind := .text, qn := 0 }) y).parent = (s2.heap y).parent := by
        intro y; rw [Heap.set_apply]; split
        · rename_i e; subst e; exact hbt2.1.symm
        · rfl
      obtain ⟨hpar3, htop3⟩ := appendChild_parent_detached
        (s := { s2 with heap := s2.heap.set t { kind := .text, qn := 0 } }) (p := g) (c := t)
        (by show ((s2.heap.set t { kind := .text, qn := 0 }) g).kind = .elem
            rw [Heap.set_other _ _ _ _ hgt]; exact hkg2)
        (by show ((s2.heap.set t { kind := .text, qn := 0 }) t).parent = none
            simp) hat' rfl
      have hatt3a : Att { s2 with heap := s2.heap.set t { kind := .text, qn := 0 } } mt :=
        (att_congr (s := s2) (s' := { s2 with heap := s2.heap.set t { kind := .text, qn := 0 } }) rfl hpar3a mt).mpr hatt2
      have hatt3 : Att s3 mt :=
        att_after_attach (s := { s2 with heap := s2.heap.set t { kind := .text, qn := 0 } })
          (by show ((s2.heap.set t { kind := .text, qn := 0 }) t).parent = none
              simp)
          (by show t ≠ s2.top
              rw [ht2]; exact httop) htop3 hpar3 hatt3a
      have hpg3 : (s3.heap g).parent = none := by
        rw [hpar3]; simp only [hgt, if_false]
        show ((s2.heap.set t { kind := .text, qn := 0 }) g).parent = none
        rw [hpar3a]; exact hpg2
      have htop3' : s3.top = s.top := htop3.trans ht2
      have hgtop3 : g ≠ s3.top := by rw [htop3']; exact hgtop
      unfold DomDoc.addElement at hrun
      simp only [Bool.not_true, Bool.false_eq_true, if_false, DomDoc.run_bind_pure] at hrun
      refine appendChild_good hG3' ?_ hgtop3 hrun hr
      intro ha
      rcases anc_chain ha hatt3 with h1 | h1
      · exact hgtop3 (anc_of_no_parent hG3'.2.2.top_root h1).symm
      · exact hgtop3 (anc_of_no_parent hpg3 h1)

/-! ### a fresh document -/

/-- `OpenDocument.__init__` up to `clear_caches()`: a childless top node `0` of qname `q`, owned by
    the document, empty indexes -/
def freshDoc (q : Nat) : DState :=
  runD DState.init [.tree (.newNode 0 .elem q), .mkDoc 0]

def fresh0 (q : Nat) : DState :=
  { heap := Heap.empty.set 0 { kind := .elem, qn := q }, ownedL := [(0, true)], top := 0,
    edict := [], sdict := [], fix := [] }

theorem freshDoc_eq (q : Nat) : freshDoc q = fresh0 q := rfl

theorem fresh0_owned (q : Nat) (x : Id) : (fresh0 q).owned x = decide (x = 0) := by
  by_cases hx : x = 0
  · subst hx; rfl
  · have : (x == 0) = false := by simp [hx]
    simp [fresh0, DState.owned, List.lookup, hx, this]

theorem good_fresh (q : Nat) : Good (freshDoc q) := by
  rw [freshDoc_eq]
  have hb : Blank Heap.empty 0 := ⟨rfl, rfl⟩
  have hpar : ∀ y, ((fresh0 q).heap y).parent = none := by
    intro y; show ((Heap.empty.set 0 { kind := .elem, qn := q }) y).parent = none
    rw [Heap.set_apply]; split <;> rfl
  have hkind0 : ((fresh0 q).heap 0).kind = .elem := by
    show ((Heap.empty.set 0 { kind := .elem, qn := q }) 0).kind = .elem
    simp
  have hatt : ∀ x, Att (fresh0 q) x → x = 0 := fun x ha => anc_of_no_parent (hpar x) ha
  refine ⟨initNode_inv inv_empty hb .elem q, acyclic_of_same_parents acyclic_empty (fun y => by
    show ((Heap.empty.set 0 { kind := .elem, qn := q }) y).parent = _
    rw [Heap.set_apply]; split <;> rfl), ?_⟩
  refine ⟨hkind0, hpar 0, fun _ => List.nodup_nil, ?_, ?_, ?_, ?_⟩
  · intro qq x hx
    constructor
    · intro hm; cases hm
    · rintro ⟨ha, _⟩; exact absurd (hatt x ha) hx
  · intro qq hm; cases hm
  · intro x _
    rw [fresh0_owned]
    by_cases hx : x = 0
    · subst hx; simp; exact AncOrSelf.refl
    · simp only [hx, decide_false, Bool.false_eq_true, false_iff]
      intro ha; exact hx (hatt x ha)
  · intro x hk
    rw [fresh0_owned]
    have hx : x ≠ 0 := by intro e; subst e; exact hk hkind0
    simp [hx]

/-! ### every operation; every history -/

/-- side conditions of a step: the caller error the property excludes (a node inserted into itself
    or its own descendant), the document's top node is never re-created or inserted anywhere, new
    Text objects are not their receiver; `mkDoc` belongs to document creation only -/
def OpOk (s : DState) : DOp → Prop
  | .tree (.newNode i _ _) => i ≠ s.top
  | .tree (.append p c) => ¬ AncOrSelf s.heap c p ∧ c ≠ s.top
  | .tree (.insertBefore p n _) => ¬ AncOrSelf s.heap n p ∧ n ≠ s.top
  | .tree (.addElement p c _) => ¬ AncOrSelf s.heap c p ∧ c ≠ s.top
  | .tree (.addText p t _ _) => t ≠ p ∧ t ≠ s.top
  | .tree (.addCDATA p t _) => t ≠ p ∧ t ≠ s.top
  | .tree _ => True
  | .mkDoc _ => False
  | .byType _ => True
  | .styleByName _ => True
  | .replaceGenerator mt g t => Att s mt ∧ (s.heap mt).kind = .elem ∧ g ≠ t ∧ g ≠ mt ∧ t ≠ mt ∧ g ≠ s.top ∧ t ≠ s.top

theorem liftH_fresh_run (i : Id) (s : DState) :
    (liftH (fresh i)).run s = if Blank s.heap i then (s, .ok ()) else (s, .error .Other) := by
  rw [run_liftH, fresh_run]; split <;> rfl

/-- **C09 (one step)**: every operation of a history — tree edits on attached and detached
    parents, whole subtrees added / removed / re-added / moved, text nodes, attribute calls, the
    two document-level queries (which may rebuild the indexes) — keeps the element index and
    ownerDocument coherent with the tree, whether it succeeds or is refused. -/
theorem coherent_step_partial {s s' : DState} {op : DOp} {r : Except Err Unit} (hG : Good s) (hok : OpOk s op)
    (hrun : (stepD op).run s = (s', r)) (hr : r ≠ .error .RecursionError) : Good s' := by
  cases op with
  | mkDoc t => exact absurd hok id
  | replaceGenerator m g t =>
    obtain ⟨hatt, hmk, hgt, hgm, htm, hgtop, httop⟩ := hok
    simp only [stepD] at hrun
    rw [DomDoc.run_bind, liftH_fresh_run] at hrun
    by_cases hbg : Blank s.heap g
    · simp only [hbg, if_true] at hrun
      rw [DomDoc.run_bind, liftH_fresh_run] at hrun
      by_cases hbt : Blank s.heap t
      · simp only [hbt, if_true] at hrun
        exact replaceGenerator_good hG hatt hmk hbg hbt hgt hgm htm hgtop httop hrun hr
      · simp only [hbt, if_false] at hrun; cases hrun; exact hG
    · simp only [hbg, if_false] at hrun; cases hrun; exact hG
  | byType q =>
    simp only [stepD] at hrun
    rw [DomDoc.run_bind] at hrun
    rcases hb : (docByType q).run s with ⟨s1, r1⟩
    rw [hb] at hrun
    cases r1 with
    | error e => simp only at hrun; cases hrun; exact docByType_good hG hb (by intro h; cases h; exact hr rfl)
    | ok l => simp only [DomDoc.run_pure] at hrun; cases hrun; exact docByType_good hG hb (by intro h; cases h)
  | styleByName n =>
    simp only [stepD] at hrun
    rw [DomDoc.run_bind] at hrun
    rcases hb : (styleByName n).run s with ⟨s1, r1⟩
    rw [hb] at hrun
    cases r1 with
    | error e => simp only at hrun; cases hrun; exact styleByName_good hG hb (by intro h; cases h; exact hr rfl)
    | ok l => simp only [DomDoc.run_pure] at hrun; cases hrun; exact styleByName_good hG hb (by intro h; cases h)
  | tree top =>
    cases top with
    | newNode i k qn =>
      simp only [stepD, step] at hrun
      rw [run_liftH, Dom.run_bind, fresh_run] at hrun
      by_cases hb : Blank s.heap i
      · simp only [hb, if_true, initNode_run] at hrun
        cases hrun; exact initNode_good hG hb hok k qn
      · simp only [hb, if_false] at hrun
        cases hrun; exact hG
    | append p c => exact appendChild_good hG hok.1 hok.2 hrun hr
    | insertBefore p n ref => exact insertBefore_good hG hok.1 hok.2 hrun hr
    | remove p c => exact removeChild_good hG hrun hr
    | addElement p c a => exact addElement_good hG hok.1 hok.2 hrun hr
    | addText p t a ne =>
      simp only [stepD] at hrun
      rw [DomDoc.run_bind, liftH_fresh_run] at hrun
      by_cases hb : Blank s.heap t
      · simp only [hb, if_true] at hrun; exact addText_good hG hb hok.1 hok.2 hrun hr
      · simp only [hb, if_false] at hrun; cases hrun; exact hG
    | addCDATA p t a =>
      simp only [stepD] at hrun
      rw [DomDoc.run_bind, liftH_fresh_run] at hrun
      by_cases hb : Blank s.heap t
      · simp only [hb, if_true] at hrun; exact addCDATA_good hG hb hok.1 hok.2 hrun hr
      · simp only [hb, if_false] at hrun; cases hrun; exact hG
    | setAttribute e k t a key conv =>
      simp only [stepD] at hrun; rw [run_liftH] at hrun; cases hrun
      exact good_of_sameLinks hG (setAttribute_sameLinks _ _ _ _ _ _ _) rfl rfl rfl
    | setAttrNS e key conv =>
      simp only [stepD] at hrun; rw [run_liftH] at hrun; cases hrun
      exact good_of_sameLinks hG (setAttrNS_sameLinks _ _ _ _) rfl rfl rfl
    | removeAttribute e k t a key =>
      simp only [stepD] at hrun; rw [run_liftH] at hrun; cases hrun
      exact good_of_sameLinks hG (removeAttribute_sameLinks _ _ _ _ _ _) rfl rfl rfl

/-- a history whose every step meets the side conditions and stays within the recursion budget -/
def HistoryOk : DState → List DOp → Prop
  | _, [] => True
  | s, op :: rest => OpOk s op ∧ ((stepD op).run s).2 ≠ .error .RecursionError ∧ HistoryOk ((stepD op).run s).1 rest

theorem coherent_runD (ops : List DOp) : ∀ s, Good s → HistoryOk s ops → Good (runD s ops) := by
  induction ops with
  | nil => intro s hG _; exact hG
  | cons op rest ih =>
    intro s hG hh
    exact ih _ (coherent_step_partial hG hh.1 rfl hh.2.1) hh.2.2

/-- **C09 (any history)**: from a fresh document, after an edit history of ANY length, the element
    index lists exactly the attached elements, each once, under its qname, and ownerDocument is
    set exactly on the attached elements.  (`_partial`: `HistoryOk` excludes calls that raised
    RecursionError and the insertion of a node into itself or its own descendant.) -/
theorem coherent_reachable_partial (q : Nat) (ops : List DOp) (hh : HistoryOk (freshDoc q) ops) :
    Good (runD (freshDoc q) ops) :=
  coherent_runD ops _ (good_fresh q) hh

/-! ### consequences in the words of the property -/

/-- "each exactly once": the list kept for a qname is a permutation of ANY duplicate-free
    enumeration of the attached elements of that qname -/
theorem coh_perm {s : DState} (hC : CohIdx s) (q : Nat) (hq : (s.heap s.top).qn ≠ q) (l : List Id) (hl : l.Nodup)
    (hmem : ∀ x, x ∈ l ↔ x ≠ s.top ∧ Att s x ∧ (s.heap x).kind = .elem ∧ (s.heap x).qn = q) :
    (ed s q).Perm l := by
  rw [List.perm_ext_iff_of_nodup (hC.nodup q) hl]
  intro x
  by_cases hx : x = s.top
  · subst hx
    constructor
    · intro hm; exact absurd (hC.top_mem q hm) hq
    · intro hm; exact absurd rfl ((hmem _).mp hm).1
  · rw [hC.mem_iff q x hx, hmem x]; simp [hx]

/-- **C09 ("elements of detached subtrees never appear")** -/
theorem detached_never_listed {s : DState} (hC : CohIdx s) {x : Id} (hx : ¬ Att s x) (q : Nat) : x ∉ ed s q := by
  intro hm
  by_cases ht : x = s.top
  · subst ht; exact hx AncOrSelf.refl
  · exact hx ((hC.mem_iff q x ht).mp hm).1

theorem elemsUnder_text {h : Heap} {c : Id} (hk : (h c).kind ≠ .elem) : elemsUnder h c = some [] :=
  elems_of_not_elem hk FUEL

theorem dropFromIndexes_text {p c : Id} {s : DState} (hk : (s.heap c).kind ≠ .elem) :
    (dropFromIndexes p c).run s = (s, .ok ()) := by
  unfold dropFromIndexes
  simp only [DomDoc.run_bind_rd]
  have : (s.owned p && decide ((s.heap c).kind = .elem)) = false := by simp [hk]
  simp only [this, Bool.false_eq_true, if_false, DomDoc.run_bind_pure]
  rw [setOwnerRec_run, elemsUnder_text hk]
  rfl

theorem childAttached_text {p c : Id} {s : DState} (hk : (s.heap c).kind ≠ .elem) :
    (childAttached p c).run s = (s, .ok ()) := by
  unfold childAttached
  simp only [DomDoc.run_bind_rd]
  rw [DomDoc.run_bind, setOwnerRec_run, elemsUnder_text hk]
  simp only [List.foldl_nil, DomDoc.run_bind_rd]
  have : (s.owned p && decide ((s.heap c).kind = .elem)) = false := by simp [hk]
  simp [this]

/-- **C09 ("text nodes can be … removed like any other node")**: removing a text or CDATA child
    never touches the indexes or any ownerDocument, and does not run into the recursion budget; it
    is refused only when the node is not a child (NotFoundErr) -/
theorem text_node_remove_keeps_index {p c : Id} {s s' : DState} {r : Except Err Unit}
    (hk : (s.heap c).kind ≠ .elem) (hrun : (DomDoc.removeChild p c).run s = (s', r)) :
    s'.edict = s.edict ∧ s'.sdict = s.sdict ∧ s'.ownedL = s.ownedL ∧
    (r = .ok () ∨ (r = .error .NotFound ∧ s' = s)) := by
  unfold DomDoc.removeChild at hrun
  simp only [DomDoc.run_bind_rd] at hrun
  by_cases hkp : (s.heap p).kind = .elem
  · by_cases hc : c ∈ (s.heap p).kids
    · simp [hkp, hc] at hrun
      rw [run_bind_liftH, unlink_run] at hrun
      simp only at hrun
      have hk1 : (({ s with heap := rm5 s.heap p c } : DState).heap c).kind ≠ .elem := by
        show (rm5 s.heap p c c).kind ≠ .elem
        rw [(rm5_fields s.heap p c c).2.1]; exact hk
      rw [DomDoc.run_bind, dropFromIndexes_text hk1] at hrun
      simp only [run_liftH_upd] at hrun
      cases hrun
      exact ⟨rfl, rfl, rfl, Or.inl rfl⟩
    · simp [hkp, hc] at hrun
      rw [← hrun.1, ← hrun.2]; exact ⟨rfl, rfl, rfl, Or.inr ⟨rfl, rfl⟩⟩
  · simp [hkp] at hrun
    rw [← hrun.1, ← hrun.2]; exact ⟨rfl, rfl, rfl, Or.inr ⟨rfl, rfl⟩⟩

/-- **C09 ("text nodes can be added [and] moved … like any other node")**: appending a detached
    text or CDATA node to an element succeeds and touches neither index nor ownerDocument -/
theorem text_node_append_keeps_index {p c : Id} {s s' : DState} {r : Except Err Unit}
    (hkp : (s.heap p).kind = .elem) (hk : (s.heap c).kind ≠ .elem) (hdet : (s.heap c).parent = none)
    (hrun : (DomDoc.appendChild p c).run s = (s', r)) :
    r = .ok () ∧ s'.edict = s.edict ∧ s'.sdict = s.sdict ∧ s'.ownedL = s.ownedL := by
  unfold DomDoc.appendChild at hrun
  simp only [DomDoc.run_bind_rd] at hrun
  simp only [hkp, ne_eq, not_true, if_false, DomDoc.run_bind_pure] at hrun
  have hdrun : (DomDoc.detachIfAttached c).run s = (s, .ok ()) := by
    unfold DomDoc.detachIfAttached
    simp only [DomDoc.run_bind_rd, hdet]; rfl
  rw [DomDoc.run_bind, hdrun] at hrun
  simp only at hrun
  rw [run_bind_liftH, appendRaw_run] at hrun
  simp only at hrun
  rw [run_bind_liftH, Dom.run_upd] at hrun
  simp only at hrun
  have hk1 : (({ s with heap := setNext (appRawHeap s.heap p c) c none } : DState).heap c).kind ≠ .elem := by
    show (setNext (appRawHeap s.heap p c) c none c).kind ≠ .elem
    rw [app_kind]; exact hk
  rw [childAttached_text hk1] at hrun
  cases hrun
  exact ⟨rfl, rfl, rfl, rfl⟩

/-! ### looking a style up by name -/

/-- a style of name `n` currently in the document: an attached style:style element under
    office:styles or office:automatic-styles whose style:name is `n` NOW -/
def Cand (s : DState) (n : Nat) (e : Id) : Prop :=
  Att s e ∧ (s.heap e).kind = .elem ∧ (s.heap e).qn = QN_STYLE ∧ underStyles s e = true ∧
  lookupAttr KEY_STYLE_NAME (s.heap e).attrs = some n

theorem scanStyles_some {s : DState} {n : Nat} : ∀ {l : List Id} {e : Id}, scanStyles s n l = some e →
    ∃ l1 l2, l = l1 ++ e :: l2 ∧
      (lookupAttr KEY_STYLE_NAME (s.heap e).attrs = some n ∧ underStyles s e = true) ∧
      ∀ y ∈ l1, ¬ (lookupAttr KEY_STYLE_NAME (s.heap y).attrs = some n ∧ underStyles s y = true) := by
  intro l
  induction l with
  | nil => intro e h; simp [scanStyles] at h
  | cons a r ih =>
    intro e h
    unfold scanStyles at h
    by_cases hc : (decide (lookupAttr KEY_STYLE_NAME (s.heap a).attrs = some n) && underStyles s a) = true
    · simp only [hc, if_true] at h
      cases h
      refine ⟨[], r, rfl, by simpa using hc, by intro y hy; cases hy⟩
    · simp only [hc, if_false, Bool.false_eq_true] at h
      obtain ⟨l1, l2, hl, hce, hfirst⟩ := ih h
      refine ⟨a :: l1, l2, by rw [hl]; rfl, hce, ?_⟩
      intro y hy
      rcases List.mem_cons.mp hy with e1 | hy
      · subst e1; simpa using hc
      · exact hfirst y hy

theorem scanStyles_none {s : DState} {n : Nat} : ∀ {l : List Id}, scanStyles s n l = none →
    ∀ y ∈ l, ¬ (lookupAttr KEY_STYLE_NAME (s.heap y).attrs = some n ∧ underStyles s y = true) := by
  intro l
  induction l with
  | nil => intro _ y hy; cases hy
  | cons a r ih =>
    intro h y hy
    unfold scanStyles at h
    by_cases hc : (decide (lookupAttr KEY_STYLE_NAME (s.heap a).attrs = some n) && underStyles s a) = true
    · simp [hc] at h
    · simp only [hc, if_false, Bool.false_eq_true] at h
      rcases List.mem_cons.mp hy with e1 | hy
      · subst e1; simpa using hc
      · exact ih h y hy

theorem underStyles_parent {s : DState} {e : Id} (h : underStyles s e = true) : (s.heap e).parent ≠ none := by
  unfold underStyles at h
  intro hp; rw [hp] at h; cases h

/-- the members of the style:style index list are exactly the attached style elements that have a parent -/
theorem cand_iff_listed {s : DState} (hC : CohIdx s) (n : Nat) (e : Id) :
    Cand s n e ↔ e ∈ ed s QN_STYLE ∧ lookupAttr KEY_STYLE_NAME (s.heap e).attrs = some n ∧ underStyles s e = true := by
  constructor
  · rintro ⟨ha, hk, hq, hu, hn⟩
    have het : e ≠ s.top := by
      intro h; apply underStyles_parent hu; rw [h]; exact hC.top_root
    exact ⟨(hC.mem_iff QN_STYLE e het).mpr ⟨ha, hk, hq⟩, hn, hu⟩
  · rintro ⟨hm, hn, hu⟩
    have het : e ≠ s.top := by
      intro h; apply underStyles_parent hu; rw [h]; exact hC.top_root
    obtain ⟨ha, hk, hq⟩ := (hC.mem_iff QN_STYLE e het).mp hm
    exact ⟨ha, hk, hq, hu, hn⟩

/-- what is read off the state by `Cand` is untouched by changes of the style dictionary alone -/
theorem cand_of_same {s s' : DState} (hh : s'.heap = s.heap) (ht : s'.top = s.top) (n : Nat) (e : Id) :
    Cand s' n e ↔ Cand s n e := by
  unfold Cand Att underStyles; rw [hh, ht]

/-- every entry of the style dictionary is a style:style element (it may be stale in every other respect) -/
def SdQ (s : DState) : Prop := ∀ p ∈ s.sdict, (s.heap p.2).qn = QN_STYLE

theorem sdGet_mem {d : List (Nat × Id)} {n : Nat} {e : Id} (h : sdGet d n = some e) : (n, e) ∈ d := by
  induction d with
  | nil => simp [sdGet] at h
  | cons c r ih =>
    obtain ⟨k, w⟩ := c
    simp only [sdGet] at h
    by_cases hk : k = n
    · simp only [hk, if_true] at h; cases h; subst hk; simp
    · simp only [hk, if_false] at h; exact List.mem_cons_of_mem _ (ih h)

/-- **C09 (name lookup)**: `getStyleByName(n)` (after its optional index rebuild, `styleByName_eq`)
    * changes nothing but the style dictionary — tree, attributes, element index, owners are untouched;
    * answers nothing exactly when no style of that name is in the document, and otherwise answers a
      style of that name that is in the document NOW (attached, under office:styles or
      office:automatic-styles, bearing the name) — whatever the dictionary held: stale entries (renamed,
      removed, moved, replaced styles) are dropped and never shown.  Two attached styles may bear the
      same name (a user rename, or the 'M'+name of a second clash); either is a correct answer. -/
theorem lookupStyle_spec {n : Nat} {s s' : DState} {r : Option Id} (hG : Good s) (hQ : SdQ s)
    (hrun : (lookupStyle n).run s = (s', .ok r)) :
    (s'.heap = s.heap ∧ s'.edict = s.edict ∧ s'.ownedL = s.ownedL ∧ s'.top = s.top ∧ s'.fix = s.fix) ∧
    (r = none ↔ ∀ e, ¬ Cand s n e) ∧ (∀ e, r = some e → Cand s n e) := by
  have hhit : ∀ e, sdGet s.sdict n = some e → s.owned e = true →
      lookupAttr KEY_STYLE_NAME (s.heap e).attrs = some n → underStyles s e = true → Cand s n e := by
    intro e hsd ho hn hu
    have hk : (s.heap e).kind = .elem := by
      by_cases hk : (s.heap e).kind = .elem
      · exact hk
      · rw [hG.2.2.text_unowned e hk] at ho; cases ho
    exact ⟨(hG.2.2.owned_iff e hk).mp ho, hk, hQ (n, e) (sdGet_mem hsd), hu, hn⟩
  have hC := hG.2.2
  -- the scan, on any state with the same heap and element index
  have hscan : ∀ (s2 : DState), s2.heap = s.heap → s2.edict = s.edict → s2.top = s.top →
      ∀ o, scanStyles s2 n (edGet s2.edict QN_STYLE) = o →
        (o = none ↔ ∀ e, ¬ Cand s n e) ∧ (∀ e, o = some e → Cand s n e) := by
    intro s2 hh he ht o ho
    have hsc : scanStyles s2 n (edGet s2.edict QN_STYLE) = scanStyles s n (ed s QN_STYLE) := by
      unfold ed; rw [he]
      have : ∀ l, scanStyles s2 n l = scanStyles s n l := by
        intro l; induction l with
        | nil => rfl
        | cons a r ih => unfold scanStyles underStyles; rw [hh, ih]
      exact this _
    rw [hsc] at ho
    cases o with
    | none =>
      refine ⟨⟨fun _ e hc => ?_, fun _ => rfl⟩, fun e h => by cases h⟩
      obtain ⟨hm, hn, hu⟩ := (cand_iff_listed hC n e).mp hc
      exact scanStyles_none ho e hm ⟨hn, hu⟩
    | some e0 =>
      obtain ⟨l1, l2, hl, ⟨hn, hu⟩, _⟩ := scanStyles_some ho
      have hc0 : Cand s n e0 := (cand_iff_listed hC n e0).mpr ⟨by rw [hl]; simp, hn, hu⟩
      refine ⟨⟨(fun h => by cases h), (fun h => absurd hc0 (h e0))⟩, (fun e h => by cases h; exact hc0)⟩
  unfold lookupStyle at hrun
  rw [DomDoc.run_bind] at hrun
  unfold registeredStyle at hrun
  simp only [DM.run] at hrun
  cases hsd : sdGet s.sdict n with
  | none =>
    simp only [hsd, DomDoc.run_bind_rd] at hrun
    change (match scanStyles s n (edGet s.edict QN_STYLE) with
      | some e => (do updD fun s => { s with sdict := sdSet s.sdict n e }; pure (some e) : DM (Option Id))
      | none => pure none).run s = _ at hrun
    cases hsc : scanStyles s n (edGet s.edict QN_STYLE) with
    | none =>
      rw [hsc] at hrun; cases hrun
      exact ⟨⟨rfl, rfl, rfl, rfl, rfl⟩, hscan s rfl rfl rfl none hsc⟩
    | some e0 =>
      rw [hsc] at hrun; cases hrun
      exact ⟨⟨rfl, rfl, rfl, rfl, rfl⟩, hscan s rfl rfl rfl (some e0) hsc⟩
  | some x =>
    simp only [hsd] at hrun
    by_cases hv : (s.owned x && (lookupAttr KEY_STYLE_NAME (s.heap x).attrs == some n) && underStyles s x) = true
    · simp only [hv, if_true] at hrun
      cases hrun
      have hv' : (s.owned x = true ∧ lookupAttr KEY_STYLE_NAME (s.heap x).attrs = some n) ∧ underStyles s x = true := by
        simpa using hv
      have hcx := hhit x hsd hv'.1.1 hv'.1.2 hv'.2
      exact ⟨⟨rfl, rfl, rfl, rfl, rfl⟩, ⟨(fun h => by cases h), (fun h => absurd hcx (h x))⟩, (fun e h => by cases h; exact hcx)⟩
    · simp only [hv, if_false, Bool.false_eq_true] at hrun
      change (match scanStyles _ n (edGet s.edict QN_STYLE) with
        | some e => (do updD fun s => { s with sdict := sdSet s.sdict n e }; pure (some e) : DM (Option Id))
        | none => pure none).run ({ s with sdict := sdDel s.sdict n } : DState) = _ at hrun
      cases hsc : scanStyles ({ s with sdict := sdDel s.sdict n } : DState) n (edGet s.edict QN_STYLE) with
      | none =>
        rw [hsc] at hrun; cases hrun
        exact ⟨⟨rfl, rfl, rfl, rfl, rfl⟩, hscan ({ s with sdict := sdDel s.sdict n } : DState) rfl rfl rfl none hsc⟩
      | some e0 =>
        rw [hsc] at hrun; cases hrun
        exact ⟨⟨rfl, rfl, rfl, rfl, rfl⟩, hscan ({ s with sdict := sdDel s.sdict n } : DState) rfl rfl rfl (some e0) hsc⟩

/-! ### every entry of the style dictionary is a style:style element, in every reachable state -/

/-- qnames are unchanged, and every entry of the dictionary afterwards was there before or is a style:style -/
def Rq (s s' : DState) : Prop :=
  (∀ y, (s'.heap y).qn = (s.heap y).qn) ∧
  ∀ p ∈ s'.sdict, p ∈ s.sdict ∨ (s.heap p.2).qn = QN_STYLE

theorem Rq.refl (s : DState) : Rq s s := ⟨fun _ => rfl, fun _ h => Or.inl h⟩
theorem Rq.trans {a b c : DState} (h1 : Rq a b) (h2 : Rq b c) : Rq a c := by
  refine ⟨fun y => (h2.1 y).trans (h1.1 y), fun p h => ?_⟩
  rcases h2.2 p h with h | h
  · exact h1.2 p h
  · rw [h1.1 p.2] at h; exact Or.inr h
theorem Rq.of_same {s s' : DState} (hh : s'.heap = s.heap) (hd : s'.sdict = s.sdict) : Rq s s' :=
  ⟨fun y => by rw [hh], fun p h => by rw [hd] at h; exact Or.inl h⟩

theorem sdq_of_Rq {s s' : DState} (hQ : SdQ s) (h : Rq s s') : SdQ s' := by
  intro p hp
  rw [h.1 p.2]
  rcases h.2 p hp with h1 | h1
  · exact hQ p h1
  · exact h1

theorem mem_sdDel {d : List (Nat × Id)} {n : Nat} {p : Nat × Id} (h : p ∈ sdDel d n) : p ∈ d := by
  induction d with
  | nil => simp [sdDel] at h
  | cons c r ih =>
    obtain ⟨k, w⟩ := c
    simp only [sdDel] at h
    by_cases hk : k = n
    · simp only [hk, if_true] at h; exact List.mem_cons_of_mem _ h
    · simp only [hk, if_false] at h
      rcases List.mem_cons.mp h with e | h
      · rw [e]; simp
      · exact List.mem_cons_of_mem _ (ih h)

theorem mem_sdSet {d : List (Nat × Id)} {n : Nat} {v : Id} {p : Nat × Id} (h : p ∈ sdSet d n v) :
    p ∈ d ∨ p = (n, v) := by
  induction d with
  | nil => simp [sdSet] at h; exact Or.inr h
  | cons c r ih =>
    obtain ⟨k, w⟩ := c
    simp only [sdSet] at h
    by_cases hk : k = n
    · simp only [hk, if_true] at h
      rcases List.mem_cons.mp h with e | h
      · exact Or.inr e
      · exact Or.inl (List.mem_cons_of_mem _ h)
    · simp only [hk, if_false] at h
      rcases List.mem_cons.mp h with e | h
      · rw [e]; exact Or.inl (by simp)
      · rcases ih h with h1 | h1
        · exact Or.inl (List.mem_cons_of_mem _ h1)
        · exact Or.inr h1

/-- a predicate on states that only looks at qnames -/
def QnOnly (P : DState → Prop) : Prop := ∀ s s', (∀ y, (s'.heap y).qn = (s.heap y).qn) → P s → P s'

/-- under `P`, the statement sequence relates its start and end states by `Rq` and keeps `P` -/
def Grow (P : DState → Prop) {α : Type} (m : DM α) : Prop :=
  ∀ s s' r, P s → m.run s = (s', r) → Rq s s' ∧ P s'

theorem grow_pure (P : DState → Prop) {α : Type} (a : α) : Grow P (pure a : DM α) := by
  intro s s' r hP h; cases h; exact ⟨Rq.refl s, hP⟩
theorem grow_raise (P : DState → Prop) {α : Type} (e : Err) : Grow P (raiseD e : DM α) := by
  intro s s' r hP h; cases h; exact ⟨Rq.refl s, hP⟩
theorem grow_raise_bind (P : DState → Prop) {α β : Type} (e : Err) (k : α → DM β) :
    Grow P ((raiseD e : DM α) >>= k) := by
  intro s s' r hP h
  rw [DomDoc.run_bind_raise] at h; cases h; exact ⟨Rq.refl s, hP⟩
theorem grow_rd (P : DState → Prop) {α : Type} (f : DState → α) : Grow P (rdD f) := by
  intro s s' r hP h; cases h; exact ⟨Rq.refl s, hP⟩
theorem grow_upd {P : DState → Prop} (hQ : QnOnly P) (f : DState → DState) (hf : ∀ s, P s → Rq s (f s)) :
    Grow P (updD f) := by
  intro s s' r hP h; cases h; exact ⟨hf s hP, hQ s _ (hf s hP).1 hP⟩
theorem grow_bind {P : DState → Prop} {α β : Type} {m : DM α} {k : α → DM β} (hm : Grow P m)
    (hk : ∀ a, Grow P (k a)) : Grow P (m >>= k) := by
  intro s s' r hP h
  rw [DomDoc.run_bind] at h
  rcases hx : m.run s with ⟨s1, r1⟩
  rw [hx] at h
  obtain ⟨h1, hP1⟩ := hm s s1 r1 hP hx
  cases r1 with
  | error e => simp only at h; cases h; exact ⟨h1, hP1⟩
  | ok a =>
    simp only at h
    obtain ⟨h2, hP2⟩ := hk a s1 s' r hP1 h
    exact ⟨Rq.trans h1 h2, hP2⟩
theorem grow_ite {P : DState → Prop} {α : Type} (c : Prop) [Decidable c] {a b : DM α} (ha : Grow P a)
    (hb : Grow P b) : Grow P (if c then a else b) := by
  split
  · exact ha
  · exact hb
theorem grow_forEach {P : DState → Prop} {f : Id → DM Unit} (hf : ∀ x, Grow P (f x)) :
    ∀ l, Grow P (forEach f l) := by
  intro l
  induction l with
  | nil => exact grow_pure P ()
  | cons x r ih => unfold forEach; exact grow_bind (hf x) (fun _ => ih)
theorem grow_liftH {P : DState → Prop} (hQ : QnOnly P) {α : Type} (m : M α)
    (hq : ∀ h y, ((m.run h).1 y).qn = (h y).qn) : Grow P (liftH m) := by
  intro s s' r hP h
  rw [run_liftH] at h; cases h
  have : Rq s { s with heap := (m.run s.heap).1 } := ⟨fun y => hq s.heap y, fun p h => Or.inl h⟩
  exact ⟨this, hQ s _ this.1 hP⟩
theorem grow_weaken {P : DState → Prop} {α : Type} {m : DM α} (h : Grow (fun _ => True) m) (hQ : QnOnly P) :
    Grow P m := by
  intro s s' r hP hrun
  obtain ⟨h1, _⟩ := h s s' r trivial hrun
  exact ⟨h1, hQ s s' h1.1 hP⟩

theorem qnOnly_true : QnOnly (fun _ => True) := fun _ _ _ _ => trivial
theorem qnOnly_qn (x : Id) (q : Nat) : QnOnly (fun s => (s.heap x).qn = q) := by
  intro s s' h hp
  show (s'.heap x).qn = q
  rw [h x]; exact hp

abbrev PT : DState → Prop := fun _ => True

theorem grow_walk (n : Id) : Grow PT (walk n) := by
  intro s s' r _ h
  rw [walk_run] at h; unfold walkResult at h
  split at h <;> (cases h; exact ⟨Rq.refl _, trivial⟩)

theorem grow_setOwnerRec (n : Id) (v : Bool) : Grow PT (setOwnerRec n v) := by
  unfold setOwnerRec
  apply grow_bind (grow_walk n)
  intro l
  apply grow_forEach
  intro x
  apply grow_upd qnOnly_true; intro s _; exact Rq.of_same rfl rfl

theorem grow_dropStyleEntry (x : Id) : Grow PT (dropStyleEntry x) := by
  unfold dropStyleEntry
  apply grow_bind (grow_rd _ _)
  intro q
  apply grow_ite
  · apply grow_bind (grow_rd _ _)
    intro o
    cases o with
    | none => exact grow_pure _ _
    | some name =>
      apply grow_bind (grow_rd _ _)
      intro cur
      apply grow_ite
      · apply grow_upd qnOnly_true; intro s _; exact ⟨fun _ => rfl, fun p hp => Or.inl (mem_sdDel hp)⟩
      · exact grow_pure _ _
  · exact grow_pure _ _

theorem edDrop_Rq (x : Id) (s : DState) : Rq s (edDrop x s) := by
  obtain ⟨a, _, _, b, _⟩ := edDrop_same x s
  exact Rq.of_same a b

theorem grow_removeFromCaches (n : Id) : Grow PT (removeFromCaches n) := by
  unfold removeFromCaches
  apply grow_bind (grow_walk n)
  intro l
  apply grow_forEach
  intro x
  unfold removeOne
  apply grow_bind
  · apply grow_upd qnOnly_true; intro s _; exact edDrop_Rq x s
  intro _
  exact grow_dropStyleEntry x

theorem grow_registeredStyle {P : DState → Prop} (hQ : QnOnly P) (n : Nat) : Grow P (registeredStyle n) := by
  intro s s' r hP h
  unfold registeredStyle DM.run at h
  dsimp only at h
  split at h
  · cases h; exact ⟨Rq.refl s, hP⟩
  · split at h
    · cases h; exact ⟨Rq.refl s, hP⟩
    · cases h
      have : Rq s { s with sdict := sdDel s.sdict n } := ⟨fun _ => rfl, fun p hp => Or.inl (mem_sdDel hp)⟩
      exact ⟨this, hQ s _ this.1 hP⟩

/-- under "x is a style:style" -/
theorem grow_registerStyle (x : Id) : Grow (fun s => (s.heap x).qn = QN_STYLE) (registerStyle x) := by
  have hQ := qnOnly_qn x QN_STYLE
  have hset : ∀ (nm : Nat) (s : DState), (s.heap x).qn = QN_STYLE → Rq s { s with sdict := sdSet s.sdict nm x } := by
    intro nm s hq
    refine ⟨fun _ => rfl, fun p hp => ?_⟩
    rcases mem_sdSet hp with h | h
    · exact Or.inl h
    · rw [h]; exact Or.inr hq
  unfold registerStyle
  apply grow_bind (grow_rd _ _)
  intro on
  cases on with
  | none => exact grow_pure _ _
  | some name =>
    apply grow_bind (grow_rd _ _)
    intro op
    cases op with
    | none => exact grow_pure _ _
    | some pp =>
      apply grow_bind (grow_rd _ _)
      intro pq
      apply grow_ite
      · apply grow_bind (grow_registeredStyle hQ name)
        intro cur
        apply grow_ite
        · apply grow_bind
          · apply grow_upd hQ; intro s _; exact Rq.of_same rfl rfl
          · intro _
            apply grow_bind
            · apply grow_upd hQ; intro s _; exact ⟨fun y => by simp, fun p hp => Or.inl hp⟩
            · intro _
              apply grow_upd hQ; intro s hq; exact hset _ s hq
        · apply grow_upd hQ; intro s hq; exact hset _ s hq
      · exact grow_pure _ _

theorem grow_registerIfStyle (x : Id) : Grow PT (registerIfStyle x) := by
  intro s s' r _ h
  unfold registerIfStyle at h
  simp only [DomDoc.run_bind_rd] at h
  by_cases hq : (s.heap x).qn = QN_STYLE
  · simp only [hq, if_true] at h
    exact ⟨(grow_registerStyle x s s' r hq h).1, trivial⟩
  · simp only [hq, if_false, DomDoc.run_pure] at h
    cases h; exact ⟨Rq.refl _, trivial⟩

theorem grow_fixStyleRef (x : Id) : Grow PT (fixStyleRef x) := by
  unfold fixStyleRef
  apply grow_bind (grow_rd _ _)
  intro o
  cases o with
  | none => exact grow_pure _ _
  | some r =>
    apply grow_bind (grow_rd _ _)
    intro o2
    cases o2 with
    | none => exact grow_pure _ _
    | some nw => apply grow_upd qnOnly_true; intro s _; exact ⟨fun y => by simp, fun p hp => Or.inl hp⟩

theorem grow_rebuildCaches (n : Id) : Grow PT (rebuildCaches n) := by
  unfold rebuildCaches
  apply grow_bind (grow_walk n)
  intro l
  apply grow_forEach
  intro x
  unfold buildCaches
  apply grow_bind
  · apply grow_upd qnOnly_true; intro s _; exact Rq.of_same rfl rfl
  intro _
  apply grow_bind (grow_registerIfStyle x)
  intro _
  exact grow_fixStyleRef x

theorem grow_rebuildAll : Grow PT rebuildAll := by
  unfold rebuildAll
  apply grow_bind
  · apply grow_upd qnOnly_true; intro s _; exact ⟨fun _ => rfl, fun p hp => by cases hp⟩
  intro _
  apply grow_bind (grow_rd _ _)
  intro t
  exact grow_rebuildCaches t

theorem appRaw_qn (h : Heap) (p c y : Id) : (appRawHeap h p c y).qn = (h y).qn := by
  unfold appRawHeap; cases (h p).kids.getLast? <;> simp

theorem grow_removeChild (p c : Id) : Grow PT (DomDoc.removeChild p c) := by
  unfold DomDoc.removeChild
  apply grow_bind (grow_rd _ _); intro k
  try dsimp only
  apply grow_ite _ (grow_raise_bind _ _ _)
  apply grow_bind (grow_rd _ _); intro b
  try dsimp only
  apply grow_ite _ (grow_raise_bind _ _ _)
  apply grow_bind (grow_liftH qnOnly_true _ (fun h y => by rw [unlink_run]; exact (rm5_fields h p c y).2.2)); intro _
  apply grow_bind
  · unfold dropFromIndexes
    apply grow_bind (grow_rd _ _); intro d
    dsimp only
    apply grow_ite
    · exact grow_bind (grow_removeFromCaches c) (fun _ => grow_setOwnerRec c false)
    · exact grow_setOwnerRec c false
  · intro _
    exact grow_liftH qnOnly_true _ (fun h y => by simp [Dom.run_upd])

theorem grow_detach (c : Id) : Grow PT (DomDoc.detachIfAttached c) := by
  unfold DomDoc.detachIfAttached
  apply grow_bind (grow_rd _ _); intro o
  cases o with
  | none => exact grow_pure _ _
  | some q => exact grow_removeChild q c

theorem grow_childAttached (p c : Id) : Grow PT (childAttached p c) := by
  unfold childAttached
  apply grow_bind (grow_rd _ _); intro doc
  apply grow_bind (grow_setOwnerRec c doc); intro _
  apply grow_bind (grow_rd _ _); intro b
  try dsimp only
  apply grow_ite
  · first | exact grow_rebuildCaches c | exact grow_bind (grow_rebuildCaches c) (fun _ => grow_pure _ _)
  · exact grow_pure _ _

theorem grow_appendChild (p c : Id) : Grow PT (DomDoc.appendChild p c) := by
  unfold DomDoc.appendChild
  apply grow_bind (grow_rd _ _); intro k
  try dsimp only
  apply grow_ite _ (grow_raise_bind _ _ _)
  apply grow_bind (grow_detach c); intro _
  apply grow_bind (grow_liftH qnOnly_true _ (fun h y => by rw [appendRaw_run]; exact appRaw_qn h p c y)); intro _
  apply grow_bind (grow_liftH qnOnly_true _ (fun h y => by simp [Dom.run_upd])); intro _
  exact grow_childAttached p c

theorem grow_insertBefore (p n : Id) (ref : Option Id) : Grow PT (DomDoc.insertBefore p n ref) := by
  unfold DomDoc.insertBefore
  apply grow_bind (grow_rd _ _); intro k
  try dsimp only
  apply grow_ite _ (grow_raise_bind _ _ _)
  apply grow_bind (grow_liftH qnOnly_true _ (fun h y => by rw [checkRef_run]; split <;> rfl)); intro _
  apply grow_ite
  · exact grow_pure _ _
  · apply grow_bind (grow_detach n); intro _
    cases ref with
    | none => exact grow_appendChild p n
    | some r =>
      apply grow_bind (grow_liftH qnOnly_true _ (fun h y => by
        rw [insertAtRef_run]; split
        · exact insHeap_qn h p n r y
        · rfl))
      intro _
      exact grow_childAttached p n

theorem grow_addElement (p c : Id) (a : Bool) : Grow PT (DomDoc.addElement p c a) := by
  unfold DomDoc.addElement
  try dsimp only
  apply grow_ite _ (grow_raise_bind _ _ _)
  exact grow_appendChild p c

/-- no entry of the style dictionary refers to `i` -/
def NotInSd (s : DState) (i : Id) : Prop := ∀ p ∈ s.sdict, p.2 ≠ i

theorem sdq_initNode {s : DState} (hQ : SdQ s) {i : Id} (hn : NotInSd s i) (k : Kind) (qn : Nat) :
    SdQ { s with heap := s.heap.set i { kind := k, qn := qn } } := by
  intro p hp
  show ((s.heap.set i { kind := k, qn := qn }) p.2).qn = QN_STYLE
  rw [Heap.set_other _ _ _ _ (hn p hp)]; exact hQ p hp

theorem sdq_grow {α : Type} {m : DM α} (hm : Grow PT m) {s s' : DState} {r : Except Err α} (hQ : SdQ s)
    (hrun : m.run s = (s', r)) : SdQ s' := sdq_of_Rq hQ (hm s s' r trivial hrun).1

theorem sdq_addText {p t : Id} {a ne : Bool} {s s' : DState} {r : Except Err Unit} (hQ : SdQ s) (hn : NotInSd s t)
    (hrun : (DomDoc.addText p t a ne).run s = (s', r)) : SdQ s' := by
  unfold DomDoc.addText at hrun
  cases a with
  | false => simp at hrun; rw [← hrun.1]; exact hQ
  | true =>
    cases ne with
    | false => simp at hrun; rw [← hrun.1]; exact hQ
    | true =>
      simp only [Bool.not_true, Bool.false_eq_true, if_false, if_true] at hrun
      rw [run_bind_liftH, initNode_run] at hrun
      exact sdq_grow (grow_appendChild p t) (sdq_initNode hQ hn .text 0) hrun

theorem sdq_addCDATA {p t : Id} {a : Bool} {s s' : DState} {r : Except Err Unit} (hQ : SdQ s) (hn : NotInSd s t)
    (hrun : (DomDoc.addCDATA p t a).run s = (s', r)) : SdQ s' := by
  unfold DomDoc.addCDATA at hrun
  cases a with
  | false => simp at hrun; rw [← hrun.1]; exact hQ
  | true =>
    simp only [Bool.not_true, Bool.false_eq_true, if_false] at hrun
    rw [run_bind_liftH, initNode_run] at hrun
    exact sdq_grow (grow_appendChild p t) (sdq_initNode hQ hn .cdata 0) hrun

/-- the lookup proper keeps the dictionary well-formed: what the scan registers comes from the style:style index -/
theorem sdq_lookupStyle {n : Nat} {s s' : DState} {r : Except Err (Option Id)} (hG : Good s) (hQ : SdQ s)
    (hrun : (lookupStyle n).run s = (s', r)) : SdQ s' := by
  have hC := hG.2.2
  have hscanq : ∀ (s2 : DState), s2.heap = s.heap → s2.edict = s.edict → ∀ e,
      scanStyles s2 n (edGet s2.edict QN_STYLE) = some e → (s.heap e).qn = QN_STYLE := by
    intro s2 hh he e hsc
    obtain ⟨l1, l2, hl, ⟨_, hu⟩, _⟩ := scanStyles_some hsc
    have hm : e ∈ ed s QN_STYLE := by unfold ed; rw [← he, hl]; simp
    have hu' : underStyles s e = true := by unfold underStyles at hu ⊢; rw [hh] at hu; exact hu
    have het : e ≠ s.top := by intro h; apply underStyles_parent hu'; rw [h]; exact hC.top_root
    exact ((hC.mem_iff QN_STYLE e het).mp hm).2.2
  unfold lookupStyle at hrun
  rw [DomDoc.run_bind] at hrun
  rcases hrs : (registeredStyle n).run s with ⟨s1, r1⟩
  rw [hrs] at hrun
  obtain ⟨hR1, _⟩ := grow_registeredStyle qnOnly_true n s s1 r1 trivial hrs
  have hQ1 := sdq_of_Rq hQ hR1
  have hh1 : s1.heap = s.heap ∧ s1.edict = s.edict := by
    unfold registeredStyle DM.run at hrs
    dsimp only at hrs
    split at hrs
    · cases hrs; exact ⟨rfl, rfl⟩
    · split at hrs <;> (cases hrs; exact ⟨rfl, rfl⟩)
  cases r1 with
  | error e => simp only at hrun; cases hrun; exact hQ1
  | ok o =>
    simp only at hrun
    cases o with
    | some e => simp only [DomDoc.run_pure] at hrun; cases hrun; exact hQ1
    | none =>
      simp only [DomDoc.run_bind_rd] at hrun
      cases hsc : scanStyles s1 n (edGet s1.edict QN_STYLE) with
      | none => rw [hsc] at hrun; cases hrun; exact hQ1
      | some e0 =>
        rw [hsc] at hrun
        cases hrun
        have hq0 := hscanq s1 hh1.1 hh1.2 e0 hsc
        intro p hp
        show (s1.heap p.2).qn = QN_STYLE
        rcases mem_sdSet hp with h | h
        · exact hQ1 p h
        · rw [h, hh1.1]; exact hq0

theorem notInSd_of_Rq {s s' : DState} {i : Id} (hn : NotInSd s i) (hq : (s.heap i).qn ≠ QN_STYLE) (h : Rq s s') :
    NotInSd s' i := by
  intro p hp e
  rcases h.2 p hp with h1 | h1
  · exact hn p h1 e
  · rw [e] at h1; exact hq h1

theorem sdq_styleByName {n : Nat} {s s' : DState} {r : Except Err (Option Id)} (hG : Good s) (hQ : SdQ s)
    (hrun : (styleByName n).run s = (s', r)) : SdQ s' := by
  rw [styleByName_eq] at hrun
  simp only [DomDoc.run_bind_rd] at hrun
  by_cases he : s.sdict.isEmpty = true
  · simp only [he, if_true] at hrun
    rw [DomDoc.run_bind] at hrun
    rcases hb : (rebuildAll).run s with ⟨s1, r1⟩
    rw [hb] at hrun
    have hQ1 : SdQ s1 := sdq_grow grow_rebuildAll hQ hb
    cases r1 with
    | error e => simp only at hrun; cases hrun; exact hQ1
    | ok u =>
      simp only at hrun
      exact sdq_lookupStyle (rebuildAll_good hG hb (by intro h; cases h)) hQ1 hrun
  · simp only [he, if_false, DomDoc.run_bind_pure, Bool.false_eq_true] at hrun
    exact sdq_lookupStyle hG hQ hrun

theorem grow_docByType (q : Nat) : Grow PT (docByType q) := by
  unfold docByType
  apply grow_bind (grow_rd _ _); intro b
  try dsimp only
  apply grow_ite
  · exact grow_bind grow_rebuildAll (fun _ => grow_rd _ _)
  · first | exact grow_rd _ _ | exact grow_bind (grow_pure _ _) (fun _ => grow_rd _ _)

theorem sdq_replaceGenerator {mt g t : Id} {s s' : DState} {r : Except Err Unit} (hQ : SdQ s)
    (hng : NotInSd s g) (hnt : NotInSd s t) (hqg : (s.heap g).qn ≠ QN_STYLE) (hqt : (s.heap t).qn ≠ QN_STYLE)
    (hgt : g ≠ t) (hrun : (replaceGenerator mt g t).run s = (s', r)) : SdQ s' := by
  unfold replaceGenerator at hrun
  simp only [DomDoc.run_bind_rd] at hrun
  rw [DomDoc.run_bind] at hrun
  have hloopG : Grow PT (forEach (fun m => do
      if (← rdD fun s => decide ((s.heap m).kind = .elem) && decide ((s.heap m).qn = QN_GENERATOR)) then
        DomDoc.removeChild mt m : Id → DM Unit) (s.heap mt).kids) := by
    apply grow_forEach
    intro m
    apply grow_bind (grow_rd _ _); intro b
    exact grow_ite _ (grow_removeChild mt m) (grow_pure _ _)
  rcases hloop : (forEach (fun m => do
      if (← rdD fun s => decide ((s.heap m).kind = .elem) && decide ((s.heap m).qn = QN_GENERATOR)) then
        DomDoc.removeChild mt m : Id → DM Unit) (s.heap mt).kids).run s with ⟨s1, r1⟩
  rw [hloop] at hrun
  obtain ⟨hR1, _⟩ := hloopG s s1 r1 trivial hloop
  have hQ1 := sdq_of_Rq hQ hR1
  cases r1 with
  | error e => simp only at hrun; cases hrun; exact hQ1
  | ok u =>
    simp only at hrun
    rw [run_bind_liftH, initNode_run] at hrun
    simp only at hrun
    have hng1 := notInSd_of_Rq hng hqg hR1
    have hnt1 := notInSd_of_Rq hnt hqt hR1
    have hQ2 := sdq_initNode hQ1 hng1 .elem QN_GENERATOR
    rw [DomDoc.run_bind] at hrun
    rcases hat : (DomDoc.addText g t true true).run
        ({ s1 with heap := s1.heap.set g { kind := .elem, qn := QN_GENERATOR } } : DState) with ⟨s3, r3⟩
    rw [hat] at hrun
    have hQ3 : SdQ s3 := sdq_addText hQ2 hnt1 hat
    cases r3 with
    | error e => simp only at hrun; cases hrun; exact hQ3
    | ok u2 =>
      simp only at hrun
      exact sdq_grow (grow_addElement mt g true) hQ3 hrun

/-- allocation discipline towards the style dictionary: a new object is none the dictionary still
    refers to (and, for the generator objects, not a former style:style) -/
def OpOkSd (s : DState) : DOp → Prop
  | .tree (.newNode i _ _) => NotInSd s i
  | .tree (.addText _ t _ _) => NotInSd s t
  | .tree (.addCDATA _ t _) => NotInSd s t
  | .replaceGenerator _ g t => NotInSd s g ∧ NotInSd s t ∧ (s.heap g).qn ≠ QN_STYLE ∧ (s.heap t).qn ≠ QN_STYLE ∧ g ≠ t
  | _ => True

theorem sdq_step {s s' : DState} {op : DOp} {r : Except Err Unit} (hG : Good s) (hQ : SdQ s) (hok : OpOkSd s op)
    (hrun : (stepD op).run s = (s', r)) : SdQ s' := by
  cases op with
  | mkDoc t =>
    simp only [stepD, mkDoc] at hrun; cases hrun
    intro p hp; cases hp
  | replaceGenerator m g t =>
    obtain ⟨hng, hnt, hqg, hqt, hgt⟩ := hok
    simp only [stepD] at hrun
    rw [DomDoc.run_bind, liftH_fresh_run] at hrun
    by_cases hbg : Blank s.heap g
    · simp only [hbg, if_true] at hrun
      rw [DomDoc.run_bind, liftH_fresh_run] at hrun
      by_cases hbt : Blank s.heap t
      · simp only [hbt, if_true] at hrun
        exact sdq_replaceGenerator hQ hng hnt hqg hqt hgt hrun
      · simp only [hbt, if_false] at hrun; cases hrun; exact hQ
    · simp only [hbg, if_false] at hrun; cases hrun; exact hQ
  | byType q =>
    simp only [stepD] at hrun
    exact sdq_grow (grow_bind (grow_docByType q) (fun _ => grow_pure _ _)) hQ hrun
  | styleByName n =>
    simp only [stepD] at hrun
    rw [DomDoc.run_bind] at hrun
    rcases hb : (styleByName n).run s with ⟨s1, r1⟩
    rw [hb] at hrun
    have := sdq_styleByName hG hQ hb
    cases r1 with
    | error e => simp only at hrun; cases hrun; exact this
    | ok l => simp only [DomDoc.run_pure] at hrun; cases hrun; exact this
  | tree top =>
    cases top with
    | newNode i k qn =>
      simp only [stepD, step] at hrun
      rw [run_liftH, Dom.run_bind, fresh_run] at hrun
      by_cases hb : Blank s.heap i
      · simp only [hb, if_true, initNode_run] at hrun
        cases hrun; exact sdq_initNode hQ hok k qn
      · simp only [hb, if_false] at hrun
        cases hrun; exact hQ
    | append p c => exact sdq_grow (grow_appendChild p c) hQ hrun
    | insertBefore p n ref => exact sdq_grow (grow_insertBefore p n ref) hQ hrun
    | remove p c => exact sdq_grow (grow_removeChild p c) hQ hrun
    | addElement p c a => exact sdq_grow (grow_addElement p c a) hQ hrun
    | addText p t a ne =>
      simp only [stepD] at hrun
      rw [DomDoc.run_bind, liftH_fresh_run] at hrun
      by_cases hb : Blank s.heap t
      · simp only [hb, if_true] at hrun; exact sdq_addText hQ hok hrun
      · simp only [hb, if_false] at hrun; cases hrun; exact hQ
    | addCDATA p t a =>
      simp only [stepD] at hrun
      rw [DomDoc.run_bind, liftH_fresh_run] at hrun
      by_cases hb : Blank s.heap t
      · simp only [hb, if_true] at hrun; exact sdq_addCDATA hQ hok hrun
      · simp only [hb, if_false] at hrun; cases hrun; exact hQ
    | setAttribute e k t a key conv =>
      simp only [stepD] at hrun
      exact sdq_grow (grow_liftH qnOnly_true _ (fun h y => (setAttribute_sameLinks h e k t a key conv y).2.2.2.2.2)) hQ hrun
    | setAttrNS e key conv =>
      simp only [stepD] at hrun
      exact sdq_grow (grow_liftH qnOnly_true _ (fun h y => (setAttrNS_sameLinks h e key conv y).2.2.2.2.2)) hQ hrun
    | removeAttribute e k t a key =>
      simp only [stepD] at hrun
      exact sdq_grow (grow_liftH qnOnly_true _ (fun h y => (removeAttribute_sameLinks h e k t a key y).2.2.2.2.2)) hQ hrun

/-- a history that meets `HistoryOk` and the allocation discipline towards the style dictionary -/
def HistoryOk2 : DState → List DOp → Prop
  | _, [] => True
  | s, op :: rest => OpOk s op ∧ OpOkSd s op ∧ ((stepD op).run s).2 ≠ .error .RecursionError ∧
      HistoryOk2 ((stepD op).run s).1 rest

theorem reachable_runD (ops : List DOp) : ∀ s, Good s → SdQ s → HistoryOk2 s ops →
    Good (runD s ops) ∧ SdQ (runD s ops) := by
  induction ops with
  | nil => intro s hG hQ _; exact ⟨hG, hQ⟩
  | cons op rest ih =>
    intro s hG hQ hh
    exact ih _ (coherent_step_partial hG hh.1 rfl hh.2.2.1) (sdq_step hG hQ hh.2.1 rfl) hh.2.2.2

/-- **C09 (name lookup, every reachable state)**: in every state reachable from a fresh document
    (side conditions as in `coherent_reachable_partial`: no RecursionError, no insertion into an own
    descendant), `getStyleByName(n)` leaves the tree and its links untouched, keeps the element
    index coherent, and answers `none` exactly when no attached style:style under office:styles /
    office:automatic-styles bears the name `n`, otherwise such a style — independently of what the
    style dictionary held. -/
theorem getStyleByName_correct_partial (q : Nat) (ops : List DOp) (hh : HistoryOk2 (freshDoc q) ops)
    {n : Nat} {s' : DState} {r : Option Id}
    (hrun : (styleByName n).run (runD (freshDoc q) ops) = (s', .ok r)) :
    Good s' ∧ SdQ s' ∧ SameLinks (runD (freshDoc q) ops).heap s'.heap ∧
    (r = none ↔ ∀ e, ¬ Cand s' n e) ∧ (∀ e, r = some e → Cand s' n e) := by
  have hfreshQ : SdQ (freshDoc q) := by intro p hp; cases hp
  obtain ⟨hG, hQ⟩ := reachable_runD ops _ (good_fresh q) hfreshQ hh
  generalize runD (freshDoc q) ops = s at hG hQ hrun
  have hG' := styleByName_good hG hrun (by intro h; cases h)
  have hQ' := sdq_styleByName hG hQ hrun
  rw [styleByName_eq] at hrun
  simp only [DomDoc.run_bind_rd] at hrun
  by_cases he : s.sdict.isEmpty = true
  · simp only [he, if_true] at hrun
    rw [DomDoc.run_bind] at hrun
    rcases hb : (rebuildAll).run s with ⟨s1, r1⟩
    rw [hb] at hrun
    cases r1 with
    | error e => simp only at hrun; cases hrun
    | ok u =>
      simp only at hrun
      have hG1 := rebuildAll_good hG hb (by intro h; cases h)
      have hQ1 : SdQ s1 := sdq_grow grow_rebuildAll hQ hb
      obtain ⟨⟨hh1, _, _, ht1, _⟩, hnone, hsome⟩ := lookupStyle_spec hG1 hQ1 hrun
      have hs1 : SameLinks s.heap s1.heap := by
        unfold rebuildAll at hb
        simp only [DomDoc.run_bind_upd, DomDoc.run_bind_rd] at hb
        rw [rebuildCaches_run] at hb
        cases hl : elemsUnder s.heap s.top with
        | none => simp only [hl] at hb; cases hb
        | some l =>
          simp only [hl] at hb; cases hb
          exact (foldBuild_view l { s with edict := [], sdict := [] }).1
      refine ⟨hG', hQ', by rw [hh1]; exact hs1, ?_, ?_⟩
      · rw [hnone]; exact forall_congr' (fun e => not_congr (cand_of_same hh1 ht1 n e).symm)
      · intro e he'; exact (cand_of_same hh1 ht1 n e).mpr (hsome e he')
  · simp only [he, if_false, DomDoc.run_bind_pure, Bool.false_eq_true] at hrun
    obtain ⟨⟨hh1, _, _, ht1, _⟩, hnone, hsome⟩ := lookupStyle_spec hG hQ hrun
    refine ⟨hG', hQ', by rw [hh1]; exact SameLinks.refl _, ?_, ?_⟩
    · rw [hnone]; exact forall_congr' (fun e => not_congr (cand_of_same hh1 ht1 n e).symm)
    · intro e he'; exact (cand_of_same hh1 ht1 n e).mpr (hsome e he')

/-- the hypotheses of `coherent_reachable_partial` are satisfiable: a P-like element 1 is created, added
    under the top node, and queried -/
example : HistoryOk (freshDoc 9) [.tree (.newNode 1 .elem 5), .tree (.append 0 1), .byType 5] := by
  have hne : ∀ (x : Except Err Unit), x = .ok () → x ≠ .error .RecursionError := by
    intro x hx h; rw [hx] at h; cases h
  refine ⟨?_, hne _ rfl, ⟨?_, ?_⟩, hne _ rfl, trivial, hne _ rfl, trivial⟩
  · show (1 : Nat) ≠ (freshDoc 9).top
    decide
  · intro ha
    cases ha with
    | step hp _ =>
      have hnone : (((stepD (.tree (.newNode 1 .elem 5))).run (freshDoc 9)).1.heap 0).parent = none := by decide
      rw [hnone] at hp; cases hp
  · show (1 : Nat) ≠ ((stepD (.tree (.newNode 1 .elem 5))).run (freshDoc 9)).1.top
    decide

example : ed (runD (freshDoc 9) [.tree (.newNode 1 .elem 5), .tree (.append 0 1), .byType 5]) 5 = [1] := by decide

/-! ### the former findings KF-C09-1/2, now positive examples -/

/-- document 0 with office:styles 1 (attached) and a style 2 named 7 under it -/
def docWithStyle : DState :=
  runD (freshDoc 9) [.tree (.newNode 1 .elem QN_STYLES), .tree (.append 0 1), .tree (.newNode 2 .elem QN_STYLE),
    .tree (.setAttrNS 2 KEY_STYLE_NAME (.ok 7)), .tree (.append 1 2)]

/-- after a rename of the attached style the new name finds it and the old name finds nothing; after its
    removal neither does -/
example :
    let s1 := runD docWithStyle [.tree (.setAttrNS 2 KEY_STYLE_NAME (.ok 8))]
    let s2 := runD s1 [.tree (.remove 1 2)]
    ((styleByName 8).run s1).2 = .ok (some 2) ∧ ((styleByName 7).run s1).2 = .ok none ∧
    ((styleByName 8).run s2).2 = .ok none ∧ ((styleByName 7).run s2).2 = .ok none := by
  refine ⟨by rfl, by rfl, by rfl, by rfl⟩

/-- styles 'MA' (2), 'A' (3), then a second 'A' (4, renamed 'MA' on the clash): after 4 is removed
    the lookup of 'MA' finds the older style 2 again -/
example :
    let s := runD (freshDoc 9) [.tree (.newNode 1 .elem QN_STYLES), .tree (.append 0 1),
      .tree (.newNode 2 .elem QN_STYLE), .tree (.setAttrNS 2 KEY_STYLE_NAME (.ok (mName 7))), .tree (.append 1 2),
      .tree (.newNode 3 .elem QN_STYLE), .tree (.setAttrNS 3 KEY_STYLE_NAME (.ok 7)), .tree (.append 1 3),
      .tree (.newNode 4 .elem QN_STYLE), .tree (.setAttrNS 4 KEY_STYLE_NAME (.ok 7)), .tree (.append 1 4)]
    let s' := runD s [.tree (.remove 1 4)]
    ((styleByName (mName 7)).run s).2 = .ok (some 4) ∧ ((styleByName (mName 7)).run s').2 = .ok (some 2) := by
  refine ⟨by rfl, by rfl⟩

end OdfModel.Props.C09

/-
  Property C09 — document-wide lookups always agree with the current tree.  (under construction)
-/
import OdfModel.DomDoc
import OdfModel.Props.C08
namespace OdfModel.Props.C09
open OdfModel.Dom OdfModel.DomDoc

theorem edGet_edSet (d : List (Nat × List Id)) (q q' : Nat) (v : List Id) :
    edGet (edSet d q v) q' = if q' = q then v else edGet d q' := by
  induction d with
  | nil => simp [edSet, edGet]; split <;> simp_all [eq_comm]
  | cons a r ih =>
    obtain ⟨k, w⟩ := a
    simp only [edSet]
    by_cases hk : k = q
    · subst hk; simp only [if_true, edGet]; split <;> simp_all [eq_comm]
    · simp only [hk, if_false, edGet, ih]
      by_cases h2 : k = q'
      · subst h2; simp [Ne.symm hk, hk]
      · simp [h2]

end OdfModel.Props.C09

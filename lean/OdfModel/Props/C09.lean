/-
  Property C09 — document-wide lookups always agree with the current tree.  (under construction)
-/
import OdfModel.DomDoc
import OdfModel.Props.C08
namespace OdfModel.Props.C09
open OdfModel.Dom OdfModel.DomDoc OdfModel.Props.C07 OdfModel.Props.C08

theorem edGet_edSet (d : List (Nat × List Id)) (q q' : Nat) (v : List Id) :
    edGet (edSet d q v) q' = if q' = q then v else edGet d q' := by
  induction d with
  | nil =>
    by_cases h : q' = q
    · subst h; simp [edSet, edGet]
    · simp [edSet, edGet, h, Ne.symm h]
  | cons a r ih =>
    obtain ⟨k, w⟩ := a
    simp only [edSet]
    by_cases hk : k = q
    · subst hk
      by_cases h : q' = k
      · subst h; simp [edGet]
      · simp [edGet, h, Ne.symm h]
    · simp only [hk, if_false, edGet, ih]
      by_cases h2 : k = q'
      · subst h2; simp [hk]
      · simp [h2]

/-! ### the traversal `elems` visits exactly the element nodes of the subtree, each once -/

theorem elems_zero (h : Heap) (n : Id) :
    elems h 0 n = if (h n).kind = .elem then none else some [] := by simp [elems]
theorem elems_succ (h : Heap) (f : Nat) (n : Id) :
    elems h (f + 1) n = if (h n).kind = .elem then (elemsL h f (h n).kids).map (fun l => n :: l) else some [] := by
  simp [elems]
theorem elemsL_nil (h : Heap) (f : Nat) : elemsL h f [] = some [] := by simp [elemsL]
theorem elemsL_cons (h : Heap) (f : Nat) (k : Id) (r : List Id) :
    elemsL h f (k :: r) = match elems h f k, elemsL h f r with
      | some a, some b => some (a ++ b)
      | _, _ => none := by
  rw [elemsL]; cases elems h f k <;> cases elemsL h f r <;> rfl

theorem elems_of_not_elem {h : Heap} {n : Id} (hk : (h n).kind ≠ .elem) (f : Nat) : elems h f n = some [] := by
  cases f <;> simp [elems, hk]

theorem elemsL_cons_some {h : Heap} {f : Nat} {k : Id} {r l : List Id} (hl : elemsL h f (k :: r) = some l) :
    ∃ a b, elems h f k = some a ∧ elemsL h f r = some b ∧ l = a ++ b := by
  rw [elemsL_cons] at hl
  cases ha : elems h f k with
  | none => simp [ha] at hl
  | some a =>
    cases hb : elemsL h f r with
    | none => simp [ha, hb] at hl
    | some b => simp [ha, hb] at hl; exact ⟨a, b, rfl, rfl, hl.symm⟩

/-- membership in the traversal of a list of siblings -/
theorem elemsL_mem {h : Heap} {f : Nat} : ∀ {ks l : List Id}, elemsL h f ks = some l →
    ∀ x, x ∈ l ↔ ∃ k ∈ ks, ∃ lk, elems h f k = some lk ∧ x ∈ lk := by
  intro ks
  induction ks with
  | nil => intro l hl x; rw [elemsL_nil] at hl; cases hl; simp
  | cons k r ih =>
    intro l hl x
    obtain ⟨a, b, ha, hb, rfl⟩ := elemsL_cons_some hl
    rw [List.mem_append, ih hb x]
    constructor
    · rintro (hx | ⟨k', hk', lk, hlk, hx⟩)
      · exact ⟨k, by simp, a, ha, hx⟩
      · exact ⟨k', by simp [hk'], lk, hlk, hx⟩
    · rintro ⟨k', hk', lk, hlk, hx⟩
      rcases List.mem_cons.mp hk' with e | hk'
      · subst e; rw [ha] at hlk; cases hlk; exact Or.inl hx
      · exact Or.inr ⟨k', hk', lk, hlk, hx⟩

theorem elemsL_all {h : Heap} {f : Nat} : ∀ {ks l : List Id}, elemsL h f ks = some l →
    ∀ k ∈ ks, ∃ lk, elems h f k = some lk := by
  intro ks
  induction ks with
  | nil => intro l _ k hk; cases hk
  | cons k r ih =>
    intro l hl k' hk'
    obtain ⟨a, b, ha, hb, _⟩ := elemsL_cons_some hl
    rcases List.mem_cons.mp hk' with e | hk'
    · subst e; exact ⟨a, ha⟩
    · exact ih hb k' hk'

theorem elems_elem_some {h : Heap} {f : Nat} {n : Id} {l : List Id} (hk : (h n).kind = .elem)
    (hl : elems h f n = some l) : ∃ f' l', f = f' + 1 ∧ elemsL h f' (h n).kids = some l' ∧ l = n :: l' := by
  cases f with
  | zero => simp [elems_zero, hk] at hl
  | succ f' =>
    rw [elems_succ] at hl
    simp only [hk, if_true] at hl
    cases hl' : elemsL h f' (h n).kids with
    | none => simp [hl'] at hl
    | some l' => simp [hl'] at hl; exact ⟨f', l', rfl, hl', hl.symm⟩

theorem elems_head {h : Heap} {f : Nat} {n : Id} {l : List Id} (hk : (h n).kind = .elem)
    (hl : elems h f n = some l) : n ∈ l := by
  obtain ⟨_, l', _, _, rfl⟩ := elems_elem_some hk hl; simp

theorem AncOrSelf.below {h : Heap} {n k x : Id} (hp : (h k).parent = some n) (ha : AncOrSelf h k x) :
    AncOrSelf h n x := by
  induction ha with
  | refl => exact AncOrSelf.step hp AncOrSelf.refl
  | step hpx _ ih => exact AncOrSelf.step hpx ih

/-- soundness: whatever the traversal of `n` lists is an element at or below `n` -/
theorem elems_sound {h : Heap} (hI : Inv h) : ∀ (f : Nat) (n : Id) (l : List Id), elems h f n = some l →
    ∀ x ∈ l, AncOrSelf h n x ∧ (h x).kind = .elem := by
  intro f
  induction f with
  | zero =>
    intro n l hl x hx
    by_cases hk : (h n).kind = .elem
    · simp [elems_zero, hk] at hl
    · rw [elems_of_not_elem hk] at hl; cases hl; cases hx
  | succ f ih =>
    intro n l hl x hx
    by_cases hk : (h n).kind = .elem
    · obtain ⟨f', l', hf, hl', rfl⟩ := elems_elem_some hk hl
      cases hf
      rcases List.mem_cons.mp hx with e | hx
      · subst e; exact ⟨AncOrSelf.refl, hk⟩
      · obtain ⟨k, hkm, lk, hlk, hxk⟩ := (elemsL_mem hl' x).mp hx
        obtain ⟨ha, hke⟩ := ih k lk hlk x hxk
        exact ⟨AncOrSelf.below ((hI.parent_iff n k).mp hkm) ha, hke⟩
    · rw [elems_of_not_elem hk] at hl; cases hl; cases hx

/-- the traversal is closed under "element child of a listed node" -/
theorem elems_closed {h : Heap} : ∀ (f : Nat) (n : Id) (l : List Id), elems h f n = some l →
    ∀ p ∈ l, ∀ x ∈ (h p).kids, (h x).kind = .elem → x ∈ l := by
  intro f
  induction f with
  | zero =>
    intro n l hl p hp
    by_cases hk : (h n).kind = .elem
    · simp [elems_zero, hk] at hl
    · rw [elems_of_not_elem hk] at hl; cases hl; cases hp
  | succ f ih =>
    intro n l hl p hp x hx hxe
    by_cases hk : (h n).kind = .elem
    · obtain ⟨f', l', hf, hl', rfl⟩ := elems_elem_some hk hl
      cases hf
      rcases List.mem_cons.mp hp with e | hp
      · subst e
        obtain ⟨lx, hlx⟩ := elemsL_all hl' x hx
        exact List.mem_cons_of_mem _ ((elemsL_mem hl' x).mpr ⟨x, hx, lx, hlx, elems_head hxe hlx⟩)
      · obtain ⟨k, hkm, lk, hlk, hpk⟩ := (elemsL_mem hl' p).mp hp
        have := ih k lk hlk p hpk x hx hxe
        exact List.mem_cons_of_mem _ ((elemsL_mem hl' x).mpr ⟨k, hkm, lk, hlk, this⟩)
    · rw [elems_of_not_elem hk] at hl; cases hl; cases hp

/-- completeness: a successful traversal of `n` lists every element at or below `n` -/
theorem elems_complete {h : Heap} (hI : Inv h) {f : Nat} {n : Id} {l : List Id} (hl : elems h f n = some l)
    {x : Id} (ha : AncOrSelf h n x) (hx : (h x).kind = .elem) : x ∈ l := by
  induction ha with
  | refl => exact elems_head hx hl
  | @step x p hpx _ ih =>
    have hpe : (h p).kind = .elem := hI.parent_elem hpx
    exact elems_closed f n l hl p (ih hpe) x ((hI.parent_iff p x).mpr hpx) hx

/-- **what the three recursions visit**: exactly the element nodes at or below `n` -/
theorem elems_spec {h : Heap} (hI : Inv h) {f : Nat} {n : Id} {l : List Id} (hl : elems h f n = some l) (x : Id) :
    x ∈ l ↔ AncOrSelf h n x ∧ (h x).kind = .elem :=
  ⟨fun hx => elems_sound hI f n l hl x hx, fun ⟨ha, hk⟩ => elems_complete hI hl ha hk⟩

end OdfModel.Props.C09

/-
  Property C09 — document-wide lookups always agree with the current tree.  (under construction)
-/
import OdfModel.DomDoc
import OdfModel.Props.C08
namespace OdfModel.Props.C09
open OdfModel.Dom OdfModel.DomDoc

theorem edGet_edSet (d : List (Nat × List Id)) (q q' : Nat) (v : List Id) :
    edGet (edSet d q v) q' = if q' = q then v else edGet d q' := by
  induction d with
  | nil =>
    by_cases h : q' = q
    · subst h; simp [edSet, edGet]
    · simp [edSet, edGet, h, Ne.symm h]
  | cons a r ih =>
    obtain ⟨k, w⟩ := a
    simp only [edSet]
    by_cases hk : k = q
    · subst hk
      by_cases h : q' = k
      · subst h; simp [edGet]
      · simp [edGet, h, Ne.symm h]
    · simp only [hk, if_false, edGet, ih]
      by_cases h2 : k = q'
      · subst h2; simp [hk]
      · simp [h2]

end OdfModel.Props.C09

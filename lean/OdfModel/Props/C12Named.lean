/-
  Props/C12Named — C12 for documents whose named things bear REPEATED names (two font faces / styles / master pages with
  one name) and for documents whose media type has surrounding white space (loaded from a package zipped by hand).

  The theorems of Props/C12 quantify over ALL documents; here the two classes are spelled out: no hypothesis about the
  names in `office:font-face-decls` (or anywhere else) and none about the media type string is needed.  Rendering writes
  the font declarations element AS IT IS (no selection by name, no moving of its children) and the media type AS IT IS
  (no trimming), after any history of output calls, and the document keeps both.
-/
import OdfModel.Render
import OdfModel.Props.C12
namespace OdfModel.Props.C12Named
open OdfModel OdfModel.Styles OdfModel.Render OdfModel.Props.C12

/-- **C12 (media type)**: after any sequence of output calls `getMediaType()` (of the document and of every embedded
    object) and the `office:mimetype` attribute of the top node are what they were — white space included. -/
theorem mediatype_pure (c : Render.Cfg) (ops : List Op) (d : Doc) :
    (run c ops d).mimetype = d.mimetype ∧ (run c ops d).topAttrs = d.topAttrs ∧
    (run c ops d).objects.map (·.mimetype) = d.objects.map (·.mimetype) := by
  have h := nonmeta_pure c ops d
  simp [h.2.1, h.2.2.2.1, h.2.2.2.2.2.2]

/-- the package begins with the `mimetype` member, holding the document's media type string verbatim -/
theorem pkg_mimetype_verbatim (F : Styles.Cfg) (d : Doc) :
    (pkg F d).head? = some (str "mimetype", Member.bytes d.mimetype) := by
  simp [pkg]

/-- **C12 (media type written)**: after ANY history of output calls, `save()` and `write()` write as `mimetype` member
    exactly the string the ORIGINAL document holds: nothing is trimmed, neither in the output nor (by `mediatype_pure`)
    in the document. -/
theorem mimetype_member_after_history (c : Render.Cfg) (pre : List Op) (d : Doc) (op : Op) (h : op = .save ∨ op = .write) :
    ∃ rest, out c op (run c pre d) = .pkg ((str "mimetype", Member.bytes d.mimetype) :: rest) := by
  rw [out_run]
  rcases h with h | h <;> subst h <;> simp [out, pkg, normGen]

/-- the manifest entry of the document ("/") carries the same string -/
theorem xmlMembers_entry (F : Styles.Cfg) (folder entry mt : Str) (p : Part) (m : Option Node) :
    (xmlMembers F folder entry mt p m).2.head? = some (entry, mt) := by
  simp [xmlMembers]

/-- **C12 (font declarations)**: after any sequence of output calls the `office:font-face-decls` element of the document
    is the one it was — whatever names its children bear, repeated or not. -/
theorem fontdecls_pure (c : Render.Cfg) (ops : List Op) (d : Doc) : (run c ops d).part.ffd = d.part.ffd := by
  rw [(nonmeta_pure c ops d).1]

/-- **C12 (font declarations written)**: `contentxml()` and `stylesxml()` after any history write the font declarations
    element of the ORIGINAL document itself (when it has children), all children in their order — not a selection. -/
theorem fontdecls_written_as_declared (c : Render.Cfg) (pre : List Op) (d : Doc) :
    (∃ a b, out c .contentxml (run c pre d) = .xml (.elem eDocContent ver (a ++ ifKids d.part.ffd ++ b))) ∧
    (∃ b, out c .stylesxml (run c pre d) = .xml (.elem eDocStyles ver (ifKids d.part.ffd ++ b))) := by
  rw [out_run, out_run]
  refine ⟨⟨ifKids d.part.scripts, [.elem eAutoStyles [] (contentKept c.followed (toStyleDoc d.part))] ++ [d.part.body], ?_⟩,
          ⟨[d.part.styles] ++ [.elem eAutoStyles [] (stylesKept c.followed (toStyleDoc d.part))] ++ ifKids d.part.master, ?_⟩⟩
  · simp only [out, contentTree, List.append_assoc]
  · simp only [out, stylesTree, List.append_assoc]

/-- a document that declares one font name twice, and whose media type ends with a line end -/
def twice : Doc :=
  { C12.sample with
    mimetype := str "application/vnd.oasis.opendocument.text\n"
    part := { C12.sample.part with
      ffd := .elem 60 [] [.elem 61 [(70, str "Body Font")] [], .elem 61 [(70, str "Mono")] [],
                          .elem 61 [(70, str "Body Font"), (71, str "roman")] []] } }

example : (run ⟨⟨[], [], fun _ => false⟩, str "ODFPY/x"⟩ [.save, .contentxml, .write, .stylesxml] twice).part.ffd = twice.part.ffd ∧
    (run ⟨⟨[], [], fun _ => false⟩, str "ODFPY/x"⟩ [.save, .contentxml, .write, .stylesxml] twice).mimetype = twice.mimetype := by
  exact ⟨fontdecls_pure _ _ _, (mediatype_pure _ _ _).1⟩

end OdfModel.Props.C12Named

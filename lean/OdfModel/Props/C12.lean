/-
  Property C12 — producing output never changes the document and is repeatable.

  Theorems about `OdfModel.Render` (the seven output calls as state transformers with an infoset
  output).  The snapshot of a document is the whole `Doc` value (tree of every container, pictures,
  child objects, thumbnail, extra members), so every query that is a function of the document is
  covered by `queries_pure`.  Tie: correspondence run of harness/c12.py (same call sequences on the
  real library and on `drv_render`, document dump after every call and every output compared).
-/
import OdfModel.Render
namespace OdfModel.Props.C12
open OdfModel OdfModel.Styles OdfModel.Render

/-! ### generator normalisation -/

theorem isGen_genNode (tv : Str) : isGen (genNode tv) = true := by simp [genNode, isGen]

theorem normMeta_idempotent (tv : Str) (m : Node) : normMeta tv (normMeta tv m) = normMeta tv m := by
  cases m with
  | text s => rfl
  | elem n a ks =>
    simp only [normMeta, List.filter_append, List.filter_filter, Bool.and_self, List.filter_cons,
      List.filter_nil, isGen_genNode, Bool.not_true]
    simp

/-- **C12 (`normGen` idempotent)**: normalising the generator twice is the same as once. -/
theorem normGen_idempotent (tv : Str) (d : Doc) : normGen tv (normGen tv d) = normGen tv d := by
  simp [normGen, normMeta_idempotent]

/-- normalisation touches nothing but the children of `office:meta` … -/
theorem normGen_only_meta (tv : Str) (d : Doc) :
    (normGen tv d).mimetype = d.mimetype ∧ (normGen tv d).topAttrs = d.topAttrs ∧
    (normGen tv d).part = d.part ∧ (normGen tv d).pictures = d.pictures ∧
    (normGen tv d).objects = d.objects ∧ (normGen tv d).thumbnail = d.thumbnail ∧
    (normGen tv d).extras = d.extras := by
  simp [normGen]

/-- … and there only the generator elements: every other child of `office:meta` is kept, in order,
    the old generators are gone and exactly one fresh generator is the last child. -/
theorem normGen_meta (tv : Str) (n : Nat) (a : Attrs) (ks : List Node) (d : Doc) (h : d.metaEl = .elem n a ks) :
    (normGen tv d).metaEl = .elem n a (ks.filter (fun k => !isGen k) ++ [genNode tv]) ∧
    (kidsOf (normGen tv d).metaEl).filter (fun k => !isGen k) = ks.filter (fun k => !isGen k) ∧
    (kidsOf (normGen tv d).metaEl).filter isGen = [genNode tv] := by
  simp only [normGen, h, normMeta, kidsOf, List.filter_append, List.filter_filter, Bool.and_self,
    List.filter_cons, List.filter_nil, isGen_genNode, Bool.not_true]
  refine ⟨trivial, by simp, ?_⟩
  have : List.filter (fun k => isGen k && !isGen k) ks = [] := by
    apply List.filter_eq_nil_iff.mpr; intro x _; cases isGen x <;> simp
  simp

/-- a document whose generator is already the normal one (last child, no other generator) is a
    fixed point: for such documents the output calls change nothing at all -/
theorem normGen_fixed (tv : Str) (n : Nat) (a : Attrs) (ks : List Node) (d : Doc)
    (h : d.metaEl = .elem n a (ks ++ [genNode tv])) (hk : ∀ k ∈ ks, isGen k = false) : normGen tv d = d := by
  have hf : ks.filter (fun k => !isGen k) = ks := by
    apply List.filter_eq_self.mpr; intro k hk'; simp [hk k hk']
  cases d
  simp only [normGen, Doc.mk.injEq, and_true, true_and] at h ⊢
  subst h
  simp [normMeta, List.filter_append, hf, isGen_genNode]

/-! ### purity -/

theorem step_cases (c : Render.Cfg) (op : Op) (d : Doc) : step c op d = d ∨ step c op d = normGen c.tv d := by
  unfold step; split <;> simp

/-- exact form: after a sequence of calls the document is the original one if no call of the
    sequence normalises, and the normalised original otherwise -/
theorem run_eq (c : Render.Cfg) (ops : List Op) (d : Doc) :
    run c ops d = if ops.any Op.normalises then normGen c.tv d else d := by
  induction ops generalizing d with
  | nil => simp [run]
  | cons op r ih =>
    simp only [run, List.any_cons]
    rw [ih]
    unfold step
    by_cases h1 : op.normalises = true <;> by_cases h2 : r.any Op.normalises = true <;>
      simp [h1, h2, normGen_idempotent]

/-- **C12 (purity)**: for ALL sequences of output calls, the document afterwards is the document
    before, or the document before with its generator normalised — nothing else can change.
    (snapshot = the whole `Doc`.) -/
theorem render_pure (c : Render.Cfg) (ops : List Op) (d : Doc) :
    run c ops d = d ∨ run c ops d = normGen c.tv d := by
  rw [run_eq]; split <;> simp

/-- **C12 (queries)**: whatever a query computes from the document, after any sequence of output
    calls it returns what it returned before, or what it returns on the generator-normalised document. -/
theorem queries_pure {α : Type} (q : Doc → α) (c : Render.Cfg) (ops : List Op) (d : Doc) :
    q (run c ops d) = q d ∨ q (run c ops d) = q (normGen c.tv d) := by
  rcases render_pure c ops d with h | h <;> simp [h]

/-- queries that do not look at `office:meta` are not affected at all -/
theorem nonmeta_pure (c : Render.Cfg) (ops : List Op) (d : Doc) :
    (run c ops d).part = d.part ∧ (run c ops d).objects = d.objects ∧
    (run c ops d).pictures = d.pictures ∧ (run c ops d).topAttrs = d.topAttrs ∧
    (run c ops d).thumbnail = d.thumbnail ∧ (run c ops d).extras = d.extras ∧
    (run c ops d).mimetype = d.mimetype := by
  rcases render_pure c ops d with h | h <;> simp [h, normGen]

/-- the pure calls really are pure, the others normalise -/
theorem pure_calls (c : Render.Cfg) (d : Doc) :
    step c .contentxml d = d ∧ step c .stylesxml d = d ∧ step c .settingsxml d = d ∧
    step c .xml d = normGen c.tv d ∧ step c .metaxml d = normGen c.tv d ∧
    step c .save d = normGen c.tv d ∧ step c .write d = normGen c.tv d := by
  simp [step, Op.normalises]

/-! ### repeatability -/

/-- an output does not depend on whether the generator was already normalised: the outputs that
    contain `office:meta` normalise first, the others do not contain it -/
theorem out_normGen (c : Render.Cfg) (op : Op) (d : Doc) : out c op (normGen c.tv d) = out c op d := by
  cases op <;> simp [out, normGen_idempotent] <;> simp [normGen]

theorem out_run (c : Render.Cfg) (op : Op) (pre : List Op) (d : Doc) : out c op (run c pre d) = out c op d := by
  rcases render_pure c pre d with h | h
  · rw [h]
  · rw [h, out_normGen]

theorem outs_length (c : Render.Cfg) (ops : List Op) (d : Doc) : (outs c ops d).length = ops.length := by
  induction ops generalizing d with
  | nil => rfl
  | cons op r ih => simp [outs, ih]

theorem outs_normGen (c : Render.Cfg) (ops : List Op) (d : Doc) : outs c ops (normGen c.tv d) = outs c ops d := by
  induction ops generalizing d with
  | nil => rfl
  | cons o r ih =>
    simp only [outs, out_normGen]
    congr 1
    have h1 : step c o (normGen c.tv d) = normGen c.tv d := by
      unfold step; split <;> simp [normGen_idempotent]
    rw [h1, ih]
    rcases step_cases c o d with h | h
    · rw [h]
    · rw [h, ih]

theorem outs_step (c : Render.Cfg) (ops : List Op) (op : Op) (d : Doc) : outs c ops (step c op d) = outs c ops d := by
  rcases step_cases c op d with h | h
  · rw [h]
  · rw [h, outs_normGen]

/-- **C12 (history independence)**: the i-th output of any sequence of calls is what the same call
    returns on the untouched document. -/
theorem render_history_independent (c : Render.Cfg) (ops : List Op) (d : Doc) (i : Nat) (hi : i < ops.length) :
    (outs c ops d)[i]'(by rw [outs_length]; exact hi) = out c ops[i] d := by
  induction ops generalizing d i with
  | nil => cases hi
  | cons op r ih =>
    cases i with
    | zero => simp [outs]
    | succ i =>
      simp only [outs, List.getElem_cons_succ]
      simp only [List.length_cons, Nat.add_lt_add_iff_right] at hi
      have := ih (step c op d) i hi
      simp only [outs_step] at this ⊢
      rw [this]
      rcases step_cases c op d with h | h
      · rw [h]
      · rw [h, out_normGen]

/-- **C12 (repeatability, full strength)**: in every sequence of output calls, in any order and
    interleaving, two calls of the same kind give identical infosets — no restriction on the
    document (a foreign or missing generator included: every output that contains the metadata
    normalises the generator first, the other outputs do not contain it). -/
theorem render_repeatable (c : Render.Cfg) (ops : List Op) (d : Doc) (i j : Nat)
    (hi : i < ops.length) (hj : j < ops.length) (hk : ops[i] = ops[j]) :
    (outs c ops d)[i]'(by rw [outs_length]; exact hi) = (outs c ops d)[j]'(by rw [outs_length]; exact hj) := by
  rw [render_history_independent c ops d i hi, render_history_independent c ops d j hj, hk]

/-- `save` and `write` produce the same package -/
theorem save_write_same (c : Render.Cfg) (d : Doc) : out c .save d = out c .write d := rfl

/-- the metadata part of every output that has one shows exactly one generator, the library's own -/
theorem meta_output_generator (c : Render.Cfg) (n : Nat) (a : Attrs) (ks : List Node) (d : Doc) (h : d.metaEl = .elem n a ks) :
    out c .metaxml d = .xml (metaTree (.elem n a (ks.filter (fun k => !isGen k) ++ [genNode c.tv]))) := by
  simp [out, (normGen_meta c.tv n a ks d h).1]

/-- **each folder's parts are computed from that folder's document**: for every embedded object the
    package holds `<folder>styles.xml` and `<folder>content.xml` rendered from the object's own containers
    (its own automatic styles, master styles and body — `_saveXmlObjects` calls `anObject.stylesxml()` /
    `anObject.contentxml()`), and the top-level parts are rendered from the top document. -/
theorem pkg_parts_per_document (F : Styles.Cfg) (d : Doc) :
    (str "styles.xml", Member.xml (stylesTree F d.part)) ∈ pkg F d ∧
    (str "content.xml", Member.xml (contentTree F d.part)) ∈ pkg F d ∧
    ∀ o ∈ d.objects, (o.folder ++ str "styles.xml", Member.xml (stylesTree F o.part)) ∈ pkg F d ∧
                     (o.folder ++ str "content.xml", Member.xml (contentTree F o.part)) ∈ pkg F d := by
  refine ⟨by simp [pkg, xmlMembers], by simp [pkg, xmlMembers], ?_⟩
  intro o ho
  constructor
  · simp only [pkg, xmlMembers, List.mem_append, List.mem_cons, List.mem_flatMap, List.mem_map]
    exact Or.inl (Or.inr (Or.inl (Or.inl (Or.inl (Or.inl (Or.inr ⟨_, ⟨o, ho, rfl⟩, by simp⟩))))))
  · simp only [pkg, xmlMembers, List.mem_append, List.mem_cons, List.mem_flatMap, List.mem_map]
    exact Or.inl (Or.inr (Or.inl (Or.inl (Or.inl (Or.inl (Or.inr ⟨_, ⟨o, ho, rfl⟩, by simp⟩))))))

/-! ### several live documents -/

theorem modifyAt_other (f : Doc → Doc) (i j : Nat) (w : List Doc) (h : j ≠ i) : (modifyAt f i w)[j]? = w[j]? := by
  induction w generalizing i j with
  | nil => simp [modifyAt]
  | cons d r ih =>
    cases i with
    | zero =>
      cases j with
      | zero => exact absurd rfl h
      | succ j => simp [modifyAt]
    | succ i =>
      cases j with
      | zero => simp [modifyAt]
      | succ j => simp only [modifyAt, List.getElem?_cons_succ]; exact ih i j (by omega)

theorem modifyAt_self (f : Doc → Doc) (i : Nat) (w : List Doc) : (modifyAt f i w)[i]? = w[i]?.map f := by
  induction w generalizing i with
  | nil => simp [modifyAt]
  | cons d r ih =>
    cases i with
    | zero => simp [modifyAt]
    | succ i => simp only [modifyAt, List.getElem?_cons_succ]; exact ih i

/-- **C12 (other documents)**: an output call on one document leaves every other live document
    exactly as it was. -/
theorem render_other_untouched (c : Render.Cfg) (w : List Doc) (i j : Nat) (op : Op) (h : j ≠ i) :
    (runW c [(i, op)] w)[j]? = w[j]? := by
  simp only [runW]; exact modifyAt_other _ i j w h

/-- **C12 (purity, any number of documents)**: after any interleaving of output calls on any of the
    live documents, each document is what it was, or what it was with its own generator normalised. -/
theorem world_pure (c : Render.Cfg) (calls : List (Nat × Op)) (w : List Doc) (j : Nat) :
    (runW c calls w)[j]? = w[j]? ∨ (runW c calls w)[j]? = w[j]?.map (normGen c.tv) := by
  induction calls generalizing w with
  | nil => exact Or.inl rfl
  | cons call r ih =>
    obtain ⟨i, op⟩ := call
    simp only [runW]
    by_cases hji : j = i
    · subst hji
      have hs := modifyAt_self (step c op) j w
      rcases ih (modifyAt (step c op) j w) with h | h
      · rw [h, hs]
        cases hw : w[j]? with
        | none => simp
        | some d => rcases step_cases c op d with h' | h' <;> simp [h']
      · rw [h, hs]
        cases hw : w[j]? with
        | none => simp
        | some d => rcases step_cases c op d with h' | h' <;> simp [h', normGen_idempotent]
    · have ho := modifyAt_other (step c op) i j w hji
      rcases ih (modifyAt (step c op) i w) with h | h
      · exact Or.inl (by rw [h, ho])
      · exact Or.inr (by rw [h, ho])

/-- hypotheses are satisfiable / the statements are not vacuous: a document with a foreign generator
    in front of a title really changes on the first `xml()` and not on `contentxml()` -/
def sample : Doc :=
  { mimetype := str "application/vnd.oasis.opendocument.text", topAttrs := [],
    metaEl := .elem 20 [] [.elem eGenerator [] [.text (str "Other/1.0")], .elem 21 [] [.text (str "T")]],
    part := { scripts := .elem 22 [] [], ffd := .elem 23 [] [], settings := .elem 24 [] [],
              styles := .elem 25 [] [], auto := .elem 26 [] [], master := .elem 27 [] [], body := .elem 28 [] [] },
    pictures := [], objects := [], thumbnail := none, thumbType := [], extras := [] }

example : (run ⟨⟨[], [], fun _ => false⟩, str "ODFPY/x"⟩ [.xml] sample).metaEl =
    .elem 20 [] [.elem 21 [] [.text (str "T")], .elem eGenerator [] [.text (str "ODFPY/x")]] := by rfl

example : (run ⟨⟨[], [], fun _ => false⟩, str "ODFPY/x"⟩ [.contentxml, .stylesxml, .settingsxml] sample).metaEl = sample.metaEl := by rfl

/-! ### histories that contain package calls which raised part-way (`Render.Call`) -/

theorem stepC_cases (c : Render.Cfg) (k : Call) (d : Doc) : stepC c k d = d ∨ stepC c k d = normGen c.tv d := by
  cases k with
  | ok op => exact step_cases c op d
  | failedEarly => exact Or.inl rfl
  | failedLate => exact Or.inr rfl

theorem stepC_normGen (c : Render.Cfg) (k : Call) (d : Doc) : stepC c k (normGen c.tv d) = normGen c.tv d := by
  cases k with
  | ok op => simp only [stepC]; unfold step; split <;> simp [normGen_idempotent]
  | failedEarly => rfl
  | failedLate => simp [stepC, normGen_idempotent]

theorem runC_normGen (c : Render.Cfg) (ks : List Call) (d : Doc) : runC c ks (normGen c.tv d) = normGen c.tv d := by
  induction ks with
  | nil => rfl
  | cons k r ih => simp only [runC, stepC_normGen, ih]

/-- **C12 (failed calls are calls too, purity)**: after ANY history of output calls, some of which raised
    part-way, the document is the document before or the document before with its generator normalised. -/
theorem failed_calls_pure (c : Render.Cfg) (ks : List Call) (d : Doc) :
    runC c ks d = d ∨ runC c ks d = normGen c.tv d := by
  induction ks generalizing d with
  | nil => exact Or.inl rfl
  | cons k r ih =>
    simp only [runC]
    rcases stepC_cases c k d with h | h
    · rw [h]; exact ih d
    · rw [h, runC_normGen]; exact Or.inr rfl

theorem outsC_length (c : Render.Cfg) (ks : List Call) (d : Doc) : (outsC c ks d).length = ks.length := by
  induction ks generalizing d with
  | nil => rfl
  | cons k r ih => simp [outsC, ih]

theorem outC_normGen (c : Render.Cfg) (k : Call) (d : Doc) : outC c k (normGen c.tv d) = outC c k d := by
  cases k <;> simp [outC, out_normGen]

theorem outsC_normGen (c : Render.Cfg) (ks : List Call) (d : Doc) : outsC c ks (normGen c.tv d) = outsC c ks d := by
  induction ks generalizing d with
  | nil => rfl
  | cons k r ih =>
    simp only [outsC, outC_normGen, stepC_normGen]
    congr 1
    rcases stepC_cases c k d with h | h
    · rw [h, ih]
    · rw [h]

/-- **C12 (failed calls are calls too, history independence)**: in a history in which some package calls
    raised part-way, the i-th call returns nothing (it raised) or exactly what the same call returns on the
    untouched document - whatever failed before it. -/
theorem failed_calls_history_independent (c : Render.Cfg) (ks : List Call) (d : Doc) (i : Nat) (hi : i < ks.length) :
    (outsC c ks d)[i]'(by rw [outsC_length]; exact hi) = outC c ks[i] d := by
  induction ks generalizing d i with
  | nil => cases hi
  | cons k r ih =>
    cases i with
    | zero => simp [outsC]
    | succ i =>
      simp only [outsC, List.getElem_cons_succ]
      simp only [List.length_cons, Nat.add_lt_add_iff_right] at hi
      rcases stepC_cases c k d with h | h
      · simp only [h]; exact ih d i hi
      · simp only [h, outsC_normGen]; exact ih d i hi

/-- **C12 (failed calls leave no trace in later output)**: the outputs of the calls that got through are the
    outputs of the same history with the failed calls left out. -/
theorem failed_calls_invisible (c : Render.Cfg) (ks : List Call) (d : Doc) :
    (outsC c ks d).filterMap id = outs c (ks.filterMap Call.op?) d := by
  induction ks generalizing d with
  | nil => rfl
  | cons k r ih =>
    cases k with
    | ok op => simp [outsC, outC, stepC, Call.op?, outs, ih]
    | failedEarly =>
      have h : (Call.failedEarly :: r).filterMap Call.op? = r.filterMap Call.op? := rfl
      simp [outsC, outC, stepC, ih, h]
    | failedLate =>
      have h : (Call.failedLate :: r).filterMap Call.op? = r.filterMap Call.op? := rfl
      simp [outsC, outC, stepC, ih, h, outs_normGen]

/-- **C12 (repeatability with failed calls in between)**: two calls of the same kind that got through give
    identical infosets, whatever calls failed before, between or after them. -/
theorem repeatable_across_failed_calls (c : Render.Cfg) (ks : List Call) (d : Doc) (i j : Nat)
    (hi : i < ks.length) (hj : j < ks.length) (hk : ks[i] = ks[j]) :
    (outsC c ks d)[i]'(by rw [outsC_length]; exact hi) = (outsC c ks d)[j]'(by rw [outsC_length]; exact hj) := by
  rw [failed_calls_history_independent c ks d i hi, failed_calls_history_independent c ks d j hj, hk]

example : outsC ⟨⟨[], [], fun _ => false⟩, str "ODFPY/x"⟩ [.ok .metaxml, .failedLate, .failedEarly, .ok .metaxml] sample
    = [some (out ⟨⟨[], [], fun _ => false⟩, str "ODFPY/x"⟩ .metaxml sample), none, none,
       some (out ⟨⟨[], [], fun _ => false⟩, str "ODFPY/x"⟩ .metaxml sample)] := by
  have h := out_normGen ⟨⟨[], [], fun _ => false⟩, str "ODFPY/x"⟩ .metaxml
  simp only [outsC, outC, stepC, step, Op.normalises, if_true] at h ⊢
  simp only [h]

end OdfModel.Props.C12

/-
  Property C04 — saving a document and loading it back reproduces the document.

  Model: `OdfModel.LoadSax` (LoadParser as a state machine over SAX events, with the style index of
  `build_caches`), composed with the XML round trip `parseDoc_render` of the XML layer (C02).
  Tie: harness/c04.py — the recorded SAX streams of every saved part are fed to `drv_load` and the sections are
  compared with what the real `load()` built; the oracle compares load(save(d)) with d on the real library.

  Trusted legs (said so in the statements): expat delivers the event stream `evN t` of the infoset `t` the
  reference parser computes, cut into chunks in any way (`Chunked`); the zip container and the manifest dispatch
  (pictures, sub-documents) are the subject of C03/C16 and of the oracle.
-/
import OdfModel.LoadSax
import OdfModel.Xml.Compose
namespace OdfModel.Props.C04
open OdfModel OdfModel.Xml OdfModel.Spec OdfModel.LoadSax

/-! ### forests -/

@[simp] theorem appF_nil_left (g : Forest) : appF .nil g = g := rfl
@[simp] theorem appF_cons (h : Node) (t g : Forest) : appF (.cons h t) g = .cons h (appF t g) := rfl

@[simp] theorem appF_nil_right : (f : Forest) → appF f .nil = f
  | .nil => rfl
  | .cons h t => by simp [appF_nil_right t]

theorem appF_assoc : (a b c : Forest) → appF (appF a b) c = appF a (appF b c)
  | .nil, _, _ => rfl
  | .cons h t, b, c => by simp [appF_assoc t b c]

/-! ### running event lists -/

@[simp] theorem run_nil (st : St) : run st [] = some st := rfl

theorem run_cons (st : St) (e : Event) (es : List Event) :
    run st (e :: es) = (step st e).bind (fun s => run s es) := by
  simp only [run]; cases step st e <;> rfl

theorem run_append (st : St) (a b : List Event) : run st (a ++ b) = (run st a).bind (fun s => run s b) := by
  induction a generalizing st with
  | nil => simp
  | cons e es ih =>
    simp only [List.cons_append, run_cons]
    cases step st e with
    | none => rfl
    | some s => simpa using ih s

/-! ### C04 (chunking): any way of cutting the character data gives the same result -/

/-- `evs'` is `evs` with every character event cut into an arbitrary list of chunks (empty chunks and, for an empty
    string, no chunk at all included) — what a SAX parser is free to do -/
inductive Chunked : List Event → List Event → Prop where
  | nil : Chunked [] []
  | chars (s : Str) (cs : List Str) (r r' : List Event) : cs.flatten = s → Chunked r r' →
      Chunked (.chars s :: r) (cs.map Event.chars ++ r')
  | other (e : Event) (r r' : List Event) : Chunked r r' → Chunked (e :: r) (e :: r')

theorem stepChars_nil (st : St) : stepChars st [] = st := by
  unfold stepChars; split <;> simp

theorem stepChars_append (st : St) (a b : Str) : stepChars (stepChars st a) b = stepChars st (a ++ b) := by
  unfold stepChars
  by_cases h : st.parsing = true <;> simp [h, List.append_assoc]

theorem run_chunks (st : St) (cs : List Str) (r : List Event) :
    run st (cs.map Event.chars ++ r) = run (stepChars st cs.flatten) r := by
  induction cs generalizing st with
  | nil => simp [stepChars_nil]
  | cons c cs ih =>
    simp only [List.map_cons, List.cons_append, run_cons, step, Option.bind_some, List.flatten_cons]
    rw [ih, stepChars_append]

/-- **C04 (build_chunk_invariant)**: for EVERY state of the parser and EVERY re-chunking of the character events,
    the run gives the same result (also the same crash). -/
theorem build_chunk_invariant (evs evs' : List Event) (h : Chunked evs evs') :
    ∀ st : St, run st evs' = run st evs := by
  induction h with
  | nil => intro st; rfl
  | chars s cs r r' hs _ ih =>
    intro st
    rw [run_chunks, hs, run_cons]
    simp only [step, Option.bind_some]
    exact ih _
  | other e r r' _ ih =>
    intro st
    simp only [run_cons]
    cases step st e with
    | none => rfl
    | some s => simpa using ih s

/-- every stream is a chunking of itself (one chunk per event) -/
theorem chunked_refl (evs : List Event) : Chunked evs evs := by
  induction evs with
  | nil => exact .nil
  | cons e r ih =>
    cases e with
    | chars s => simpa using Chunked.chars s [s] r r (by simp) ih
    | start q a => exact .other _ r r ih
    | stop q => exact .other _ r r ih

/-! ### what LoadParser builds from the events of a forest -/

mutual
/-- no section (trigger) element anywhere inside -/
def noTrigN : Node → Bool
  | .text _ => true
  | .cdata _ => true
  | .elem q _ kids => !isTrigger q && noTrigF kids
def noTrigF : Forest → Bool
  | .nil => true
  | .cons h t => noTrigN h && noTrigF t
end

def hasElemF : Forest → Bool
  | .nil => false
  | .cons (.elem _ _ _) _ => true
  | .cons (.text _) t => hasElemF t
  | .cons (.cdata _) t => hasElemF t

/-- the children LoadParser gives an element whose content is `f`, with pending character data `acc`: character
    data (text and CDATA alike) is accumulated over any number of events and becomes ONE text node in front of the
    next element / at the end tag; an empty accumulation gives no node; nothing is stripped -/
def mergeTF (acc : Str) : Forest → Forest
  | .nil => flushT acc .nil
  | .cons (.text s) t => mergeTF (acc ++ s) t
  | .cons (.cdata s) t => mergeTF (acc ++ s) t
  | .cons (.elem q a kids) t => flushT acc (.cons (.elem q a (mergeTF [] kids)) (mergeTF [] t))

/-- the same, split into the nodes that are complete and the character data still pending at the end -/
def mergeK (acc : Str) : Forest → Forest × Str
  | .nil => (.nil, acc)
  | .cons (.text s) t => mergeK (acc ++ s) t
  | .cons (.cdata s) t => mergeK (acc ++ s) t
  | .cons (.elem q a kids) t => (flushT acc (.cons (.elem q a (mergeTF [] kids)) (mergeK [] t).1), (mergeK [] t).2)

theorem appF_flushT (acc : Str) (f g : Forest) : appF (flushT acc f) g = flushT acc (appF f g) := by
  unfold flushT; split <;> simp

theorem mergeTF_eq (acc : Str) (f : Forest) :
    mergeTF acc f = appF (mergeK acc f).1 (flushT (mergeK acc f).2 .nil) := by
  fun_induction mergeK acc f with
  | case1 acc => simp [mergeTF]
  | case2 acc s t ih => simpa [mergeTF] using ih
  | case3 acc s t ih => simpa [mergeTF] using ih
  | case4 acc q a kids t ih => simp [mergeTF, appF_flushT, ih]

theorem mergeK_noElem (acc : Str) (f : Forest) (h : hasElemF f = false) : (mergeK acc f).1 = .nil := by
  fun_induction mergeK acc f with
  | case1 acc => rfl
  | case2 acc s t ih => exact ih (by simpa [hasElemF] using h)
  | case3 acc s t ih => exact ih (by simpa [hasElemF] using h)
  | case4 acc q a kids t ih => simp [hasElemF] at h

/-- names registered when `(q, attrs)` is attached under `pq` (no clash) -/
def regOne (pq : Option QName) (q : QName) (a : List (QName × Str)) : List Str :=
  match pq with
  | none => []
  | some p =>
    if q = qStyle ∧ (p = qStyles ∨ p = qAutoStyles) then
      match lookupA aStyleName a with
      | some n => [n]
      | none => []
    else []

/-- names registered by the direct children of an element `pq` -/
def regF (pq : Option QName) : Forest → List Str
  | .nil => []
  | .cons (.elem q a _) t => regOne pq q a ++ regF pq t
  | .cons (.text _) t => regF pq t
  | .cons (.cdata _) t => regF pq t

/-- none of the new names is registered already, and they differ from each other -/
def fresh (names : List Str) : List Str → Bool
  | [] => true
  | n :: r => !(names.contains n) && fresh (names ++ [n]) r

def appendKids (st : St) (ns : Forest) : St :=
  match st.spine with
  | f :: r => { st with spine := f.add ns :: r }
  | [] => attachToRoot st ns

def ParentOK (st : St) : Prop := st.spine ≠ [] ∨ st.root = .top ∨ st.root = .det ∨ ∃ s, st.root = .sec s

theorem addToParent_ok (st : St) (ns : Forest) (h : ParentOK st) : addToParent st ns = some (appendKids st ns) := by
  unfold addToParent appendKids attachToRoot
  cases hs : st.spine with
  | cons f r => rfl
  | nil =>
    rcases h with h | h | h | ⟨s, h⟩
    · exact absurd hs h
    all_goals simp [h]

/-- the state after the events of `f`, in closed form -/
def result (st : St) (f : Forest) : St :=
  { appendKids st (mergeK st.data f).1 with
      data := (mergeK st.data f).2
      names := st.names ++ regF (parentQ st) f
      currDet := st.currDet && !hasElemF f }

def flushP (st : St) : St :=
  if st.data.isEmpty then st else { appendKids st (.cons (.text st.data) .nil) with data := [] }

def openE (st : St) (q : QName) (a : List (QName × Str)) : St :=
  { st with names := st.names ++ regOne (parentQ st) q a, spine := ⟨q, a, .nil⟩ :: st.spine, currDet := false }

theorem isTrigger_false_secOf {q : QName} (h : isTrigger q = false) : secOfTrigger q = none := by
  unfold isTrigger at h; cases hs : secOfTrigger q <;> simp_all

theorem trig_fontFace : isTrigger qFontFace = true := by decide
theorem trig_styles : isTrigger qStyles = true := by decide
theorem trig_autoStyles : isTrigger qAutoStyles = true := by decide

theorem attachHook_fresh (names : List Str) (pq : Option QName) (q : QName) (a : List (QName × Str))
    (h : fresh names (regOne pq q a) = true) :
    attachHook names [] pq q a = (names ++ regOne pq q a, [], a) := by
  unfold attachHook
  cases pq with
  | none => simp [regOne]
  | some p =>
    simp only [regOne] at h ⊢
    by_cases hq : q = qStyle
    · cases hl : lookupA aStyleName a with
      | none => simp [hq, hl, lookupFix]; cases lookupA aTextStyleName a <;> simp
      | some nm =>
        by_cases hp : p = qStyles ∨ p = qAutoStyles
        · have hnm : nm ∉ names := by
            simp [hq, hl, hp, fresh] at h; exact h
          simp [hq, hl, hp, hnm, lookupFix]; cases lookupA aTextStyleName a <;> simp
        · simp [hq, hl, hp, lookupFix]; cases lookupA aTextStyleName a <;> simp
    · simp [hq, lookupFix]; cases lookupA aTextStyleName a <;> simp

end OdfModel.Props.C04

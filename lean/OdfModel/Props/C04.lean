/-
  Property C04 — saving a document and loading it back reproduces the document.

  Model: `OdfModel.LoadSax` (LoadParser as a state machine over SAX events, with the style index of
  `build_caches`), composed with the XML round trip `parseDoc_render` of the XML layer (C02).
  Tie: harness/c04.py — the recorded SAX streams of every saved part are fed to `drv_load` and the sections are
  compared with what the real `load()` built; the oracle compares load(save(d)) with d on the real library.

  Trusted legs (said so in the statements): expat delivers the event stream `evN t` of the infoset `t` the
  reference parser computes, cut into chunks in any way (`Chunked`); the zip container and the manifest dispatch
  (pictures, sub-documents) are the subject of C03/C16 and of the oracle.
-/
import OdfModel.LoadSax
import OdfModel.Xml.Compose
namespace OdfModel.Props.C04
open OdfModel OdfModel.Xml OdfModel.Spec OdfModel.LoadSax

/-! ### forests -/

@[simp] theorem appF_nil_left (g : Forest) : appF .nil g = g := rfl
@[simp] theorem appF_cons (h : Node) (t g : Forest) : appF (.cons h t) g = .cons h (appF t g) := rfl

@[simp] theorem appF_nil_right : (f : Forest) → appF f .nil = f
  | .nil => rfl
  | .cons h t => by simp [appF_nil_right t]

theorem appF_assoc : (a b c : Forest) → appF (appF a b) c = appF a (appF b c)
  | .nil, _, _ => rfl
  | .cons h t, b, c => by simp [appF_assoc t b c]

/-! ### running event lists -/

@[simp] theorem run_nil (st : St) : run st [] = some st := rfl

theorem run_cons (st : St) (e : Event) (es : List Event) :
    run st (e :: es) = (step st e).bind (fun s => run s es) := by
  simp only [run]; cases step st e <;> rfl

theorem run_append (st : St) (a b : List Event) : run st (a ++ b) = (run st a).bind (fun s => run s b) := by
  induction a generalizing st with
  | nil => simp
  | cons e es ih =>
    simp only [List.cons_append, run_cons]
    cases step st e with
    | none => rfl
    | some s => simpa using ih s

/-! ### C04 (chunking): any way of cutting the character data gives the same result -/

/-- `evs'` is `evs` with every character event cut into an arbitrary list of chunks (empty chunks and, for an empty
    string, no chunk at all included) — what a SAX parser is free to do -/
inductive Chunked : List Event → List Event → Prop where
  | nil : Chunked [] []
  | chars (s : Str) (cs : List Str) (r r' : List Event) : cs.flatten = s → Chunked r r' →
      Chunked (.chars s :: r) (cs.map Event.chars ++ r')
  | other (e : Event) (r r' : List Event) : Chunked r r' → Chunked (e :: r) (e :: r')

theorem stepChars_nil (st : St) : stepChars st [] = st := by
  unfold stepChars; split <;> simp

theorem stepChars_append (st : St) (a b : Str) : stepChars (stepChars st a) b = stepChars st (a ++ b) := by
  unfold stepChars
  by_cases h : st.parsing = true <;> simp [h, List.append_assoc]

theorem run_chunks (st : St) (cs : List Str) (r : List Event) :
    run st (cs.map Event.chars ++ r) = run (stepChars st cs.flatten) r := by
  induction cs generalizing st with
  | nil => simp [stepChars_nil]
  | cons c cs ih =>
    simp only [List.map_cons, List.cons_append, run_cons, step, Option.bind_some, List.flatten_cons]
    rw [ih, stepChars_append]

/-- **C04 (build_chunk_invariant)**: for EVERY state of the parser and EVERY re-chunking of the character events,
    the run gives the same result (also the same crash). -/
theorem build_chunk_invariant (evs evs' : List Event) (h : Chunked evs evs') :
    ∀ st : St, run st evs' = run st evs := by
  induction h with
  | nil => intro st; rfl
  | chars s cs r r' hs _ ih =>
    intro st
    rw [run_chunks, hs, run_cons]
    simp only [step, Option.bind_some]
    exact ih _
  | other e r r' _ ih =>
    intro st
    simp only [run_cons]
    cases step st e with
    | none => rfl
    | some s => simpa using ih s

/-- every stream is a chunking of itself (one chunk per event) -/
theorem chunked_refl (evs : List Event) : Chunked evs evs := by
  induction evs with
  | nil => exact .nil
  | cons e r ih =>
    cases e with
    | chars s => simpa using Chunked.chars s [s] r r (by simp) ih
    | start q a => exact .other _ r r ih
    | stop q => exact .other _ r r ih

/-! ### what LoadParser builds from the events of a forest -/

mutual
/-- no section (trigger) element anywhere inside -/
def noTrigN : Node → Bool
  | .text _ => true
  | .cdata _ => true
  | .elem q _ kids => !isTrigger q && noTrigF kids
def noTrigF : Forest → Bool
  | .nil => true
  | .cons h t => noTrigN h && noTrigF t
end

def hasElemF : Forest → Bool
  | .nil => false
  | .cons (.elem _ _ _) _ => true
  | .cons (.text _) t => hasElemF t
  | .cons (.cdata _) t => hasElemF t

/-- the children LoadParser gives an element whose content is `f`, with pending character data `acc`: character
    data (text and CDATA alike) is accumulated over any number of events and becomes ONE text node in front of the
    next element / at the end tag; an empty accumulation gives no node; nothing is stripped -/
def mergeTF (acc : Str) : Forest → Forest
  | .nil => flushT acc .nil
  | .cons (.text s) t => mergeTF (acc ++ s) t
  | .cons (.cdata s) t => mergeTF (acc ++ s) t
  | .cons (.elem q a kids) t => flushT acc (.cons (.elem q a (mergeTF [] kids)) (mergeTF [] t))

/-- the same, split into the nodes that are complete and the character data still pending at the end -/
def mergeK (acc : Str) : Forest → Forest × Str
  | .nil => (.nil, acc)
  | .cons (.text s) t => mergeK (acc ++ s) t
  | .cons (.cdata s) t => mergeK (acc ++ s) t
  | .cons (.elem q a kids) t => (flushT acc (.cons (.elem q a (mergeTF [] kids)) (mergeK [] t).1), (mergeK [] t).2)

theorem appF_flushT (acc : Str) (f g : Forest) : appF (flushT acc f) g = flushT acc (appF f g) := by
  unfold flushT; split <;> simp

theorem mergeTF_eq (acc : Str) (f : Forest) :
    mergeTF acc f = appF (mergeK acc f).1 (flushT (mergeK acc f).2 .nil) := by
  fun_induction mergeK acc f with
  | case1 acc => simp [mergeTF]
  | case2 acc s t ih => simpa [mergeTF] using ih
  | case3 acc s t ih => simpa [mergeTF] using ih
  | case4 acc q a kids t ih => simp [mergeTF, appF_flushT, ih]

theorem mergeK_noElem (acc : Str) (f : Forest) (h : hasElemF f = false) : (mergeK acc f).1 = .nil := by
  fun_induction mergeK acc f with
  | case1 acc => rfl
  | case2 acc s t ih => exact ih (by simpa [hasElemF] using h)
  | case3 acc s t ih => exact ih (by simpa [hasElemF] using h)
  | case4 acc q a kids t ih => simp [hasElemF] at h

/-- names registered when `(q, attrs)` is attached under `pq` (no clash) -/
def regOne (pq : Option QName) (q : QName) (a : List (QName × Str)) : List Str :=
  match pq with
  | none => []
  | some p =>
    if q = qStyle ∧ (p = qStyles ∨ p = qAutoStyles) then
      match lookupA aStyleName a with
      | some n => [n]
      | none => []
    else []

/-- names registered by the direct children of an element `pq` -/
def regF (pq : Option QName) : Forest → List Str
  | .nil => []
  | .cons (.elem q a _) t => regOne pq q a ++ regF pq t
  | .cons (.text _) t => regF pq t
  | .cons (.cdata _) t => regF pq t

/-- none of the new names is registered already, and they differ from each other -/
def fresh (names : List Str) : List Str → Bool
  | [] => true
  | n :: r => !(names.contains n) && fresh (names ++ [n]) r

def docAfter (r : Root) (d : Doc) (ns : Forest) : Doc :=
  match r with
  | .sec s => d.app s ns
  | _ => d

@[simp] theorem attachToRoot_doc (st : St) (ns : Forest) : (attachToRoot st ns).doc = docAfter st.root st.doc ns := by
  unfold attachToRoot docAfter; cases hr : st.root <;> simp [hr]
@[simp] theorem attachToRoot_spine (st : St) (ns : Forest) : (attachToRoot st ns).spine = st.spine := by
  unfold attachToRoot; cases hr : st.root <;> simp [hr]
@[simp] theorem attachToRoot_root (st : St) (ns : Forest) : (attachToRoot st ns).root = st.root := by
  unfold attachToRoot; cases hr : st.root <;> simp [hr]
@[simp] theorem attachToRoot_names (st : St) (ns : Forest) : (attachToRoot st ns).names = st.names := by
  unfold attachToRoot; cases hr : st.root <;> simp [hr]
@[simp] theorem attachToRoot_fix (st : St) (ns : Forest) : (attachToRoot st ns).fix = st.fix := by
  unfold attachToRoot; cases hr : st.root <;> simp [hr]
@[simp] theorem attachToRoot_stylesPart (st : St) (ns : Forest) : (attachToRoot st ns).stylesPart = st.stylesPart := by
  unfold attachToRoot; cases hr : st.root <;> simp [hr]
@[simp] theorem attachToRoot_parsing (st : St) (ns : Forest) : (attachToRoot st ns).parsing = st.parsing := by
  unfold attachToRoot; cases hr : st.root <;> simp [hr]
@[simp] theorem attachToRoot_data (st : St) (ns : Forest) : (attachToRoot st ns).data = st.data := by
  unfold attachToRoot; cases hr : st.root <;> simp [hr]
@[simp] theorem attachToRoot_currDet (st : St) (ns : Forest) : (attachToRoot st ns).currDet = st.currDet := by
  unfold attachToRoot; cases hr : st.root <;> simp [hr]

def appendKids (st : St) (ns : Forest) : St :=
  match st.spine with
  | f :: r => { st with spine := f.add ns :: r }
  | [] => attachToRoot st ns

def ParentOK (st : St) : Prop := st.spine ≠ [] ∨ st.root = .top ∨ st.root = .det ∨ ∃ s, st.root = .sec s

theorem addToParent_ok (st : St) (ns : Forest) (h : ParentOK st) : addToParent st ns = some (appendKids st ns) := by
  unfold addToParent appendKids attachToRoot
  cases hs : st.spine with
  | cons f r => rfl
  | nil =>
    rcases h with h | h | h | ⟨s, h⟩
    · exact absurd hs h
    all_goals simp [h]

/-- the state after the events of `f`, in closed form -/
def result (st : St) (f : Forest) : St :=
  { appendKids st (mergeK st.data f).1 with
      data := (mergeK st.data f).2
      names := st.names ++ regF (parentQ st) f
      currDet := st.currDet && !hasElemF f }

def flushP (st : St) : St :=
  if st.data.isEmpty then st else { appendKids st (.cons (.text st.data) .nil) with data := [] }

def openE (st : St) (q : QName) (a : List (QName × Str)) : St :=
  { st with names := st.names ++ regOne (parentQ st) q a, spine := ⟨q, a, .nil⟩ :: st.spine, currDet := false }

theorem isTrigger_false_secOf {q : QName} (h : isTrigger q = false) : secOfTrigger q = none := by
  unfold isTrigger at h; cases hs : secOfTrigger q <;> simp_all

theorem trig_fontFace : isTrigger qFontFace = true := by decide
theorem trig_styles : isTrigger qStyles = true := by decide
theorem trig_autoStyles : isTrigger qAutoStyles = true := by decide

theorem attachHook_fresh (names : List Str) (pq : Option QName) (q : QName) (a : List (QName × Str))
    (h : fresh names (regOne pq q a) = true) :
    attachHook names [] pq q a = (names ++ regOne pq q a, [], a) := by
  unfold attachHook
  cases pq with
  | none => simp [regOne]
  | some p =>
    simp only [regOne] at h ⊢
    by_cases hq : q = qStyle
    · cases hl : lookupA aStyleName a with
      | none => simp [hq, hl, lookupFix]; cases lookupA aTextStyleName a <;> simp
      | some nm =>
        by_cases hp : p = qStyles ∨ p = qAutoStyles
        · have hnm : nm ∉ names := by
            simp [hq, hl, hp, fresh] at h; exact h
          simp [hq, hl, hp, hnm, lookupFix]; cases lookupA aTextStyleName a <;> simp
        · simp [hq, hl, hp, lookupFix]; cases lookupA aTextStyleName a <;> simp
    · simp [hq, lookupFix]; cases lookupA aTextStyleName a <;> simp

@[simp] theorem parentQ_appendKids (st : St) (ns : Forest) : parentQ (appendKids st ns) = parentQ st := by
  unfold appendKids parentQ attachToRoot
  cases hs : st.spine with
  | cons f r => simp [Frame.add]
  | nil => cases hr : st.root <;> simp [hr, hs]

theorem parentOK_appendKids (st : St) (ns : Forest) (h : ParentOK st) : ParentOK (appendKids st ns) := by
  unfold appendKids attachToRoot ParentOK at *
  cases hs : st.spine with
  | cons f r => left; simp
  | nil =>
    rcases h with h | h | h | ⟨s, h⟩
    · exact absurd hs h
    all_goals simp [h, hs]

theorem stepStart_inner (st : St) (q : QName) (a : List (QName × Str)) (hp : st.parsing = true)
    (hok : ParentOK st) (hf : st.fix = []) (hq : isTrigger q = false)
    (hfr : fresh st.names (regOne (parentQ st) q a) = true) :
    stepStart st q a = some (openE (flushP st) q a) := by
  have hsec := isTrigger_false_secOf hq
  have hff : q ≠ qFontFace := by intro h; rw [h, trig_fontFace] at hq; cases hq
  unfold stepStart
  simp only [hq, hp, hff, Bool.false_eq_true, if_false, Bool.and_false, Bool.not_true, decide_false]
  by_cases hd : st.data.isEmpty = true
  · simp only [hd, if_true, hsec]
    have hfl : flushP st = st := by simp [flushP, hd]
    rw [hfl]
    unfold ParentOK at hok
    cases hs : st.spine with
    | cons f r =>
      simp only [hs]
      rw [hf, attachHook_fresh _ _ _ _ (by simpa [parentQ, hs] using hfr)]
      simp [openE, hs, hp, hf, parentQ]
    | nil =>
      rcases hok with h | h | h | ⟨s, h⟩
      · exact absurd hs h
      all_goals
        simp only [hs, h]
        rw [hf, attachHook_fresh _ _ _ _ (by simpa [parentQ, hs, h] using hfr)]
        simp [openE, hs, hp, hf, parentQ, h]
  · simp only [hd, Bool.false_eq_true, if_false, addToParent_ok st _ hok, Option.map_some, hsec]
    have hfl : flushP st = { appendKids st (.cons (.text st.data) .nil) with data := [] } := by simp [flushP, hd]
    rw [hfl]
    unfold ParentOK at hok
    cases hs : st.spine with
    | cons f r =>
      simp only [appendKids, hs]
      rw [hf, attachHook_fresh _ _ _ _ (by simpa [parentQ, hs, Frame.add] using hfr)]
      simp [openE, hs, hp, hf, parentQ, Frame.add]
    | nil =>
      rcases hok with h | h | h | ⟨s, h⟩
      · exact absurd hs h
      all_goals
        simp only [appendKids, attachToRoot, hs, h]
        rw [hf, attachHook_fresh _ _ _ _ (by simpa [parentQ, hs, h] using hfr)]
        simp [openE, hs, hp, hf, parentQ, h]

def closeE (st : St) : St :=
  match st.spine with
  | f :: r => { appendKids { st with spine := r } (.cons f.close .nil) with currDet := false }
  | [] => st

theorem stepStop_inner (st : St) (q : QName) (hp : st.parsing = true) (hs : st.spine ≠ [])
    (hcd : st.currDet = false) (hq : isTrigger q = false) :
    stepStop st q = some (closeE (flushP st)) := by
  unfold stepStop
  simp only [hp, Bool.not_true, Bool.false_eq_true, if_false]
  cases hsp : st.spine with
  | nil => exact absurd hsp hs
  | cons f r =>
    by_cases hd : st.data.isEmpty = true
    · have hfl : flushP st = st := by simp [flushP, hd]
      simp only [hd, if_true, hfl, hsp, closeE, hq]
      cases r with
      | nil => simp [appendKids]
      | cons g r' => simp [appendKids]
    · have hfl : flushP st = { appendKids st (.cons (.text st.data) .nil) with data := [] } := by simp [flushP, hd]
      simp only [hd, Bool.false_eq_true, if_false, addToCurr, hcd, addToParent, hsp, Option.map_some, hfl, closeE,
        appendKids, hq]
      cases r with
      | nil => simp [appendKids]
      | cons g r' => simp [appendKids]

/-! #### algebra of `appendKids` -/

theorem Doc.app_nil (d : Doc) (s : Sec) : d.app s .nil = d := by
  cases s <;> simp [Doc.app, Doc.set, Doc.get]

theorem Doc.app_app (d : Doc) (s : Sec) (a b : Forest) : (d.app s a).app s b = d.app s (appF a b) := by
  cases s <;> simp [Doc.app, Doc.set, Doc.get, appF_assoc]

@[simp] theorem Doc.get_app_same (d : Doc) (s : Sec) (a : Forest) : (d.app s a).get s = appF (d.get s) a := by
  cases s <;> simp [Doc.app, Doc.set, Doc.get]

theorem Doc.get_app_other (d : Doc) (s s' : Sec) (a : Forest) (h : s' ≠ s) : (d.app s a).get s' = d.get s' := by
  cases s <;> cases s' <;> simp_all [Doc.app, Doc.set, Doc.get]

theorem appendKids_nil (st : St) : appendKids st .nil = st := by
  unfold appendKids attachToRoot
  cases hs : st.spine with
  | cons f r => cases st; simp_all [Frame.add]
  | nil => cases hr : st.root <;> cases st <;> simp_all [Doc.app_nil]

theorem appendKids_appendKids (st : St) (a b : Forest) :
    appendKids (appendKids st a) b = appendKids st (appF a b) := by
  unfold appendKids attachToRoot
  cases hs : st.spine with
  | cons f r => simp [Frame.add, appF_assoc]
  | nil => cases hr : st.root <;> simp [hs, hr, Doc.app_app]

theorem isEmpty_eq_nil {l : Str} (h : l.isEmpty = true) : l = [] := by cases l <;> simp_all

theorem flushP_eq (st : St) : flushP st = { appendKids st (flushT st.data .nil) with data := [] } := by
  unfold flushP flushT
  by_cases h : st.data.isEmpty = true
  · have := isEmpty_eq_nil h
    simp only [h, if_true, appendKids_nil]
    cases st; simp_all
  · simp [h]

theorem fresh_append (names a b : List Str) : fresh names (a ++ b) = (fresh names a && fresh (names ++ a) b) := by
  induction a generalizing names with
  | nil => simp [fresh]
  | cons n r ih => simp [fresh, ih, Bool.and_assoc, List.append_assoc]

theorem regOne_nontrigger (pq : Option QName) (q : QName) (a : List (QName × Str))
    (h : ∀ p, pq = some p → isTrigger p = false) : regOne pq q a = [] := by
  unfold regOne
  cases pq with
  | none => rfl
  | some p =>
    have hp := h p rfl
    have h1 : p ≠ qStyles := by intro e; rw [e, trig_styles] at hp; cases hp
    have h2 : p ≠ qAutoStyles := by intro e; rw [e, trig_autoStyles] at hp; cases hp
    simp [h1, h2]

theorem regF_nontrigger (pq : Option QName) (h : ∀ p, pq = some p → isTrigger p = false) :
    (f : Forest) → regF pq f = []
  | .nil => rfl
  | .cons (.text _) t => by simp [regF, regF_nontrigger pq h t]
  | .cons (.cdata _) t => by simp [regF, regF_nontrigger pq h t]
  | .cons (.elem q a _) t => by simp [regF, regOne_nontrigger pq q a h, regF_nontrigger pq h t]

/-- what one element contributes: from `st`, the events `start q a`, those of `kids`, `stop q` -/
def afterElem (st : St) (q : QName) (a : List (QName × Str)) (kids : Forest) : St :=
  { appendKids st (flushT st.data (.cons (.elem q a (mergeTF [] kids)) .nil)) with
      data := []
      names := st.names ++ regOne (parentQ st) q a
      currDet := false }

theorem elem_closed (st : St) (q : QName) (a : List (QName × Str)) (kids : Forest)
    (hr : regF (parentQ (openE (flushP st) q a)) kids = []) :
    closeE (flushP (result (openE (flushP st) q a) kids)) = afterElem st q a kids := by
  rw [flushP_eq (result _ _)]
  simp only [result, hr, List.append_nil]
  rw [flushP_eq st]
  have hm := mergeTF_eq [] kids
  obtain ⟨doc, names, fix, sp, parsing, data, root, spine, currDet⟩ := st
  cases spine with
  | cons f r =>
    simp [openE, appendKids, closeE, afterElem, parentQ, Frame.add, Frame.close, hm, appF_assoc, appF_flushT]
  | nil =>
    cases root <;>
      simp [openE, appendKids, closeE, afterElem, parentQ, Frame.add, Frame.close, hm, appF_flushT, docAfter, Doc.app_app]

theorem result_nil (st : St) : result st .nil = st := by
  simp only [result, mergeK, regF, hasElemF, appendKids_nil, List.append_nil]
  cases st; simp

theorem result_text (st : St) (s : Str) (t : Forest) :
    result { st with data := st.data ++ s } t = result st (.cons (.text s) t) := by
  obtain ⟨doc, names, fix, sp, parsing, data, root, spine, currDet⟩ := st
  cases spine with
  | cons f r => simp [result, mergeK, regF, hasElemF, appendKids, parentQ]
  | nil => cases root <;> simp [result, mergeK, regF, hasElemF, appendKids, parentQ, attachToRoot]

theorem result_cdata (st : St) (s : Str) (t : Forest) :
    result { st with data := st.data ++ s } t = result st (.cons (.cdata s) t) := by
  obtain ⟨doc, names, fix, sp, parsing, data, root, spine, currDet⟩ := st
  cases spine with
  | cons f r => simp [result, mergeK, regF, hasElemF, appendKids, parentQ]
  | nil => cases root <;> simp [result, mergeK, regF, hasElemF, appendKids, parentQ, attachToRoot]

theorem result_elem (st : St) (q : QName) (a : List (QName × Str)) (kids t : Forest) :
    result (afterElem st q a kids) t = result st (.cons (.elem q a kids) t) := by
  obtain ⟨doc, names, fix, sp, parsing, data, root, spine, currDet⟩ := st
  cases spine with
  | cons f r =>
    simp [result, afterElem, mergeK, regF, hasElemF, appendKids, parentQ, Frame.add, appF_assoc, appF_flushT]
  | nil =>
    cases root <;>
      simp [result, afterElem, mergeK, regF, hasElemF, appendKids, parentQ, attachToRoot, appF_flushT, Doc.app_app]

/-! #### invariants of the helper states -/

theorem flushP_parsing (st : St) : (flushP st).parsing = st.parsing := by
  rw [flushP_eq]; unfold appendKids; cases hs : st.spine <;> simp
theorem flushP_fix (st : St) : (flushP st).fix = st.fix := by
  rw [flushP_eq]; unfold appendKids; cases hs : st.spine <;> simp
theorem flushP_names (st : St) : (flushP st).names = st.names := by
  rw [flushP_eq]; unfold appendKids; cases hs : st.spine <;> simp
theorem flushP_parentQ (st : St) : parentQ (flushP st) = parentQ st := by
  rw [flushP_eq]
  have := parentQ_appendKids st (flushT st.data .nil)
  simpa [parentQ] using this
theorem flushP_parentOK (st : St) (h : ParentOK st) : ParentOK (flushP st) := by
  rw [flushP_eq]
  have := parentOK_appendKids st (flushT st.data .nil) h
  simpa [ParentOK] using this

theorem parentQ_openE (st : St) (q : QName) (a : List (QName × Str)) :
    ∀ p, parentQ (openE st q a) = some p → p = q := by
  intro p
  unfold parentQ openE
  cases st.root <;> simp <;> intro h <;> exact h.symm

theorem afterElem_parentQ (st : St) (q : QName) (a : List (QName × Str)) (kids : Forest) :
    parentQ (afterElem st q a kids) = parentQ st := by
  have := parentQ_appendKids st (flushT st.data (.cons (.elem q a (mergeTF [] kids)) .nil))
  simpa [afterElem, parentQ] using this

theorem afterElem_parentOK (st : St) (q : QName) (a : List (QName × Str)) (kids : Forest) (h : ParentOK st) :
    ParentOK (afterElem st q a kids) := by
  have := parentOK_appendKids st (flushT st.data (.cons (.elem q a (mergeTF [] kids)) .nil)) h
  simpa [afterElem, ParentOK] using this

theorem appendKids_fields (st : St) (ns : Forest) :
    (appendKids st ns).parsing = st.parsing ∧ (appendKids st ns).fix = st.fix ∧ (appendKids st ns).names = st.names ∧
    (appendKids st ns).data = st.data ∧ (appendKids st ns).currDet = st.currDet ∧
    (appendKids st ns).stylesPart = st.stylesPart ∧ (appendKids st ns).root = st.root ∧
    ((appendKids st ns).spine = [] ↔ st.spine = []) := by
  unfold appendKids; cases hs : st.spine <;> simp [hs]

/-- **the tree builder, inside an element**: from any state in which the parser is switched on and has a parent to
    attach to, the events of a forest without section elements append exactly `mergeK` of the forest to that parent
    and leave the trailing character data pending. -/
theorem run_forest : (f : Forest) → (st : St) → st.parsing = true → ParentOK st → st.fix = [] →
    noTrigF f = true → fresh st.names (regF (parentQ st) f) = true →
    run st (evF f) = some (result st f)
  | .nil, st, _, _, _, _, _ => by simp [evF, result_nil]
  | .cons (.text s) t, st, hp, hok, hf, hnt, hfr => by
    simp only [evF, evN, List.cons_append, List.nil_append, run_cons, step, Option.bind_some]
    have hst : stepChars st s = { st with data := st.data ++ s } := by simp [stepChars, hp]
    rw [hst, ← result_text]
    refine run_forest t _ hp ?_ hf (by simpa [noTrigF, noTrigN] using hnt) (by simpa [regF, parentQ] using hfr)
    simpa [ParentOK] using hok
  | .cons (.cdata s) t, st, hp, hok, hf, hnt, hfr => by
    simp only [evF, evN, List.cons_append, List.nil_append, run_cons, step, Option.bind_some]
    have hst : stepChars st s = { st with data := st.data ++ s } := by simp [stepChars, hp]
    rw [hst, ← result_cdata]
    refine run_forest t _ hp ?_ hf (by simpa [noTrigF, noTrigN] using hnt) (by simpa [regF, parentQ] using hfr)
    simpa [ParentOK] using hok
  | .cons (.elem q a kids) t, st, hp, hok, hf, hnt, hfr => by
    have hnt' : isTrigger q = false ∧ noTrigF kids = true ∧ noTrigF t = true := by
      simpa [noTrigF, noTrigN, Bool.and_assoc] using hnt
    obtain ⟨hq, hnk, hntt⟩ := hnt'
    have hfr' : fresh st.names (regOne (parentQ st) q a) = true ∧
        fresh (st.names ++ regOne (parentQ st) q a) (regF (parentQ st) t) = true := by
      simpa [regF, fresh_append] using hfr
    simp only [evF, evN, List.cons_append, List.append_assoc, run_cons, step]
    rw [stepStart_inner st q a hp hok hf hq hfr'.1]
    simp only [Option.bind_some]
    -- the children
    let st1 := openE (flushP st) q a
    have h1p : st1.parsing = true := by simp [st1, openE, flushP_parsing, hp]
    have h1ok : ParentOK st1 := by left; simp [st1, openE]
    have h1f : st1.fix = [] := by simp [st1, openE, flushP_fix, hf]
    have h1q : ∀ p, parentQ st1 = some p → isTrigger p = false := by
      intro p hpq; rw [parentQ_openE _ _ _ p hpq]; exact hq
    have h1r : regF (parentQ st1) kids = [] := regF_nontrigger _ h1q kids
    have ihk := run_forest kids st1 h1p h1ok h1f hnk (by rw [h1r]; rfl)
    rw [run_append, ihk]
    simp only [Option.bind_some, run_cons]
    -- the end tag
    have hres := appendKids_fields st1 (mergeK st1.data kids).1
    have h3p : (result st1 kids).parsing = true := by simp [result, hres.1, h1p]
    have h3s : (result st1 kids).spine ≠ [] := by
      simp only [result]; intro h; have := hres.2.2.2.2.2.2.2.mp h; simp [st1, openE] at this
    have h3c : (result st1 kids).currDet = false := by simp [result, st1, openE]
    rw [step, stepStop_inner _ q h3p h3s h3c hq]
    simp only [Option.bind_some]
    rw [elem_closed st q a kids h1r, ← result_elem]
    -- the rest
    refine run_forest t _ ?_ (afterElem_parentOK st q a kids hok) ?_ hntt ?_
    · have := appendKids_fields st (flushT st.data (.cons (.elem q a (mergeTF [] kids)) .nil))
      simp [afterElem, this.1, hp]
    · have := appendKids_fields st (flushT st.data (.cons (.elem q a (mergeTF [] kids)) .nil))
      simp [afterElem, this.2.1, hf]
    · rw [afterElem_parentQ]
      simpa [afterElem] using hfr'.2

/-! ### sections: routing, and what is ignored -/

/-- **C04 (routing)**: the document attribute a start tag is routed to.  `office:font-face-decls` is taken from
    styles.xml only; the other seven section elements from whatever part they occur in. -/
def route (stylesPart : Bool) (q : QName) : Option Sec :=
  if !stylesPart && q = qFontFace then none else secOfTrigger q

theorem routing_table :
    route false qFontFace = none ∧ route true qFontFace = some .fontFace ∧
    (∀ sp, route sp qAutoStyles = some .autoStyles ∧ route sp qBody = some .body ∧ route sp qMaster = some .master ∧
      route sp qMeta = some .metaS ∧ route sp qScripts = some .scripts ∧ route sp qSettings = some .settings ∧
      route sp qStyles = some .styles) := by
  refine ⟨by decide, by decide, ?_⟩
  intro sp; cases sp <;> decide

theorem route_some_trigger {sp : Bool} {q : QName} {s : Sec} (h : route sp q = some s) :
    isTrigger q = true ∧ secOfTrigger q = some s ∧ ¬(sp = false ∧ q = qFontFace) := by
  unfold route at h
  by_cases hc : (!sp && decide (q = qFontFace)) = true
  · simp [hc] at h
  · simp only [hc, Bool.false_eq_true, if_false] at h
    refine ⟨by simp [isTrigger, h], h, ?_⟩
    rintro ⟨h1, h2⟩; simp [h1, h2] at hc

/-- while the parser is switched off, everything without a section element inside is skipped -/
theorem run_ignored : (f : Forest) → (st : St) → st.parsing = false → noTrigF f = true → run st (evF f) = some st
  | .nil, st, _, _ => rfl
  | .cons (.text s) t, st, hp, hnt => by
    simp only [evF, evN, List.cons_append, List.nil_append, run_cons, step, Option.bind_some]
    have : stepChars st s = st := by simp [stepChars, hp]
    rw [this]; exact run_ignored t st hp (by simpa [noTrigF, noTrigN] using hnt)
  | .cons (.cdata s) t, st, hp, hnt => by
    simp only [evF, evN, List.cons_append, List.nil_append, run_cons, step, Option.bind_some]
    have : stepChars st s = st := by simp [stepChars, hp]
    rw [this]; exact run_ignored t st hp (by simpa [noTrigF, noTrigN] using hnt)
  | .cons (.elem q a kids) t, st, hp, hnt => by
    have hnt' : isTrigger q = false ∧ noTrigF kids = true ∧ noTrigF t = true := by
      simpa [noTrigF, noTrigN, Bool.and_assoc] using hnt
    obtain ⟨hq, hnk, hntt⟩ := hnt'
    have hstart : stepStart st q a = some st := by
      unfold stepStart; simp [hq, hp]; cases st; simp_all
    have hstop : stepStop st q = some st := by unfold stepStop; simp [hp]
    simp only [evF, evN, List.cons_append, List.append_assoc, run_cons, step, hstart, Option.bind_some]
    rw [run_append, run_ignored kids st hp hnk]
    simp only [Option.bind_some, List.cons_append, List.nil_append, run_cons, step, hstop]
    exact run_ignored t st hp hntt

/-- the children a section receives from a section element with content `f`: the merged content — unless `f` has no
    element child at all, in which case its character data is lost with the element LoadParser built and dropped -/
def secContent (f : Forest) : Forest := if hasElemF f then mergeTF [] f else .nil

def Idle (st : St) : Prop := st.parsing = false ∧ st.data = [] ∧ st.spine = [] ∧ st.currDet = false

/-- the state after a whole section element -/
def afterSection (st : St) (s : Sec) (a : List (QName × Str)) (kids : Forest) : St :=
  { st with doc := (st.doc.putAttrs s a).app s (secContent kids)
            names := st.names ++ regF (some (qOfSec s)) kids
            root := if hasElemF kids then .top else .none }

theorem settle_nil (st : St) (h : st.spine = []) : settle st = st := by simp [settle, h, collapse]

/-- **C04 (one section)**: a section element met while the parser is idle puts `secContent` of its content into the
    section it is routed to, puts its attributes `a` on the section object (`Doc.putAttrs`: later values overwrite),
    registers the style names, and leaves the parser idle again. -/
theorem run_section (st : St) (q : QName) (a : List (QName × Str)) (kids : Forest) (s : Sec)
    (hi : Idle st) (hf : st.fix = []) (hr : route st.stylesPart q = some s) (hnt : noTrigF kids = true)
    (hfr : fresh st.names (regF (some (qOfSec s)) kids) = true) :
    run st (evN (.elem q a kids)) = some (afterSection st s a kids) := by
  obtain ⟨htr, hsec, hnf⟩ := route_some_trigger hr
  obtain ⟨hp, hd, hsp, hcd⟩ := hi
  -- the start tag
  let st1 : St := { st with doc := st.doc.putAttrs s a, parsing := true, root := .sec s, spine := [], currDet := true }
  have hstart : stepStart st q a = some st1 := by
    unfold stepStart
    have hc : (!st.stylesPart && decide (q = qFontFace)) = false := by
      cases hsp' : st.stylesPart <;> simp_all
    simp only [htr, if_true, hc, Bool.false_eq_true, if_false, Bool.not_true, hd, List.isEmpty_nil, hsec]
    rw [settle_nil _ (by simpa using hsp)]
    simp [st1, hd]
  have h1q : parentQ st1 = some (qOfSec s) := by simp [st1, parentQ]
  have ihk := run_forest kids st1 rfl (Or.inr (Or.inr (Or.inr ⟨s, rfl⟩))) (by simpa [st1] using hf) hnt
    (by rw [h1q]; simpa [st1] using hfr)
  simp only [evN, run_cons, step, hstart, Option.bind_some]
  rw [run_append, ihk]
  simp only [Option.bind_some, run_cons, run_nil, step]
  -- the end tag
  have hK := mergeTF_eq [] kids
  obtain ⟨doc, names, fix, stp, parsing, data, root, spine, currDet⟩ := st
  simp only at hp hd hsp hcd hf
  subst hp hd hsp hcd hf
  by_cases he : hasElemF kids = true
  · by_cases hk2 : (mergeK [] kids).2.isEmpty = true
    · have hk2' := isEmpty_eq_nil hk2
      simp [stepStop, result, st1, appendKids, attachToRoot, h1q, he, hk2', htr, afterSection, secContent, hK, flushT]
    · simp [stepStop, result, st1, appendKids, attachToRoot, h1q, he, hk2, htr, afterSection, secContent, hK, flushT,
        addToCurr, addToParent, Doc.app_app]
  · have he' : hasElemF kids = false := by simpa using he
    have hk1 := mergeK_noElem [] kids he'
    by_cases hk2 : (mergeK [] kids).2.isEmpty = true
    · have hk2' := isEmpty_eq_nil hk2
      simp [stepStop, result, st1, appendKids, attachToRoot, h1q, he', hk2', htr, afterSection, secContent, hk1,
        Doc.app_nil]
    · simp [stepStop, result, st1, appendKids, attachToRoot, h1q, he', hk2, htr, afterSection, secContent, hk1,
        Doc.app_nil, addToCurr]

/-! ### a whole part -/

/-- the top-level children of a part are section elements without nested section elements and with fresh style
    names, or things that are skipped (white space, other elements, office:font-face-decls outside styles.xml) -/
def partKidsOK (sp : Bool) (names : List Str) : Forest → Bool
  | .nil => true
  | .cons (.text _) t => partKidsOK sp names t
  | .cons (.cdata _) t => partKidsOK sp names t
  | .cons (.elem q _ kids) t =>
    match route sp q with
    | some s => noTrigF kids && fresh names (regF (some (qOfSec s)) kids) &&
                partKidsOK sp (names ++ regF (some (qOfSec s)) kids) t
    | none => noTrigF kids && (isTrigger q → q = qFontFace) && partKidsOK sp names t

/-- **what a part contributes to the document** (closed form): every routed section element appends `secContent` of
    its content to its section; everything else is skipped -/
def loadKids (sp : Bool) (l : Loaded) : Forest → Loaded
  | .nil => l
  | .cons (.text _) t => loadKids sp l t
  | .cons (.cdata _) t => loadKids sp l t
  | .cons (.elem q a kids) t =>
    match route sp q with
    | some s => loadKids sp ⟨(l.doc.putAttrs s a).app s (secContent kids), l.names ++ regF (some (qOfSec s)) kids, l.fix⟩ t
    | none => loadKids sp l t

def afterKids (st : St) : Forest → St
  | .nil => st
  | .cons (.text _) t => afterKids st t
  | .cons (.cdata _) t => afterKids st t
  | .cons (.elem q a kids) t =>
    match route st.stylesPart q with
    | some s => afterKids (afterSection st s a kids) t
    | none => afterKids st t

theorem afterSection_idle (st : St) (s : Sec) (a : List (QName × Str)) (kids : Forest) (h : Idle st) :
    Idle (afterSection st s a kids) := by
  simpa [Idle, afterSection] using h

theorem run_skip_elem (st : St) (q : QName) (a : List (QName × Str)) (kids : Forest) (hp : st.parsing = false)
    (hr : route st.stylesPart q = none) (hq : isTrigger q = true → q = qFontFace) (hnk : noTrigF kids = true) :
    run st (evN (.elem q a kids)) = some st := by
  have hstart : stepStart st q a = some st := by
    unfold stepStart
    by_cases ht : isTrigger q = true
    · have hqf := hq ht
      have hsp : st.stylesPart = false := by
        cases h : st.stylesPart with
        | false => rfl
        | true => simp [route, h, hqf] at hr; simp [isTrigger, hr, hqf] at ht
      simp [ht, hsp, hqf]; cases st; simp_all
    · simp [ht, hp]; cases st; simp_all
  have hstop : stepStop st q = some st := by unfold stepStop; simp [hp]
  simp only [evN, run_cons, step, hstart, Option.bind_some]
  rw [run_append, run_ignored kids st hp hnk]
  simp [run_cons, step, hstop]

theorem run_partKids : (f : Forest) → (st : St) → Idle st → st.fix = [] →
    partKidsOK st.stylesPart st.names f = true → run st (evF f) = some (afterKids st f)
  | .nil, st, _, _, _ => rfl
  | .cons (.text s) t, st, hi, hf, hok => by
    simp only [evF, evN, List.cons_append, List.nil_append, run_cons, step, Option.bind_some]
    have : stepChars st s = st := by simp [stepChars, hi.1]
    rw [this]; exact run_partKids t st hi hf (by simpa [partKidsOK] using hok)
  | .cons (.cdata s) t, st, hi, hf, hok => by
    simp only [evF, evN, List.cons_append, List.nil_append, run_cons, step, Option.bind_some]
    have : stepChars st s = st := by simp [stepChars, hi.1]
    rw [this]; exact run_partKids t st hi hf (by simpa [partKidsOK] using hok)
  | .cons (.elem q a kids) t, st, hi, hf, hok => by
    simp only [evF]
    rw [run_append]
    cases hr : route st.stylesPart q with
    | some s =>
      simp only [partKidsOK, hr, Bool.and_eq_true] at hok
      rw [run_section st q a kids s hi hf hr hok.1.1 hok.1.2]
      simp only [Option.bind_some, afterKids, hr]
      exact run_partKids t _ (afterSection_idle st s a kids hi) (by simpa [afterSection] using hf)
        (by simpa [afterSection] using hok.2)
    | none =>
      simp only [partKidsOK, hr, Bool.and_eq_true, decide_eq_true_eq] at hok
      rw [run_skip_elem st q a kids hi.1 hr hok.1.2 hok.1.1]
      simp only [Option.bind_some, afterKids, hr]
      exact run_partKids t st hi hf hok.2

theorem afterKids_loaded : (f : Forest) → (st : St) →
    (⟨(afterKids st f).doc, (afterKids st f).names, (afterKids st f).fix⟩ : Loaded) =
      loadKids st.stylesPart ⟨st.doc, st.names, st.fix⟩ f ∧ (afterKids st f).spine = st.spine ∧
      (afterKids st f).parsing = st.parsing
  | .nil, st => ⟨rfl, rfl, rfl⟩
  | .cons (.text _) t, st => by simpa [afterKids, loadKids] using afterKids_loaded t st
  | .cons (.cdata _) t, st => by simpa [afterKids, loadKids] using afterKids_loaded t st
  | .cons (.elem q a kids) t, st => by
    cases hr : route st.stylesPart q with
    | some s =>
      have := afterKids_loaded t (afterSection st s a kids)
      simpa [afterKids, loadKids, hr, afterSection] using this
    | none => simpa [afterKids, loadKids, hr] using afterKids_loaded t st

/-- **C04 (build_events)**: LoadParser on the event stream of a whole part `<root …> sections </root>`.
    For every part whose top-level children satisfy `partKidsOK`, the run succeeds and the document afterwards is
    `loadKids` of the children: each routed section element appended `secContent` of its content to its section
    and put its attributes on the section object, the root element, white space between the sections and (outside styles.xml)
    office:font-face-decls contributed nothing. -/
theorem build_events (sp : Bool) (l : Loaded) (rq : QName) (ra : List (QName × Str)) (secs : Forest)
    (hf : l.fix = []) (hrq : isTrigger rq = false) (hok : partKidsOK sp l.names secs = true) :
    loadPart sp l (evN (.elem rq ra secs)) = some (loadKids sp l secs) := by
  unfold loadPart
  obtain ⟨st0, hst0⟩ : ∃ st0 : St, st0 = { doc := l.doc, names := l.names, fix := l.fix, stylesPart := sp } := ⟨_, rfl⟩
  rw [← hst0]
  have hi : Idle st0 := by subst hst0; exact ⟨rfl, rfl, rfl, rfl⟩
  have hstart : stepStart st0 rq ra = some st0 := by subst hst0; unfold stepStart; simp [hrq]
  have hk := run_partKids secs st0 hi (by subst hst0; exact hf) (by subst hst0; exact hok)
  have hstop : ∀ st : St, st.parsing = false → stepStop st rq = some st := by
    intro st h; unfold stepStop; simp [h]
  obtain ⟨hl, hsp, hpar⟩ := afterKids_loaded secs st0
  have hap : (afterKids st0 secs).parsing = false := by rw [hpar]; exact hi.1
  simp only [evN, run_cons, step, hstart, Option.bind_some]
  rw [run_append, hk]
  simp only [Option.bind_some, run_cons, step, hstop _ hap, run_nil]
  rw [settle_nil _ (by rw [hsp]; exact hi.2.2.1)]
  subst hst0
  simpa using congrArg some hl

/-! ### canonical forests: what a parser delivers is rebuilt exactly -/

def startsChar : Forest → Bool
  | .cons (.text _) _ => true
  | .cons (.cdata _) _ => true
  | _ => false

/-- no CDATA node, no empty text node, no two adjacent text nodes — at every level -/
def canonB : Forest → Bool
  | .nil => true
  | .cons (.text s) t => !s.isEmpty && !startsChar t && canonB t
  | .cons (.cdata _) _ => false
  | .cons (.elem _ _ k) t => canonB k && canonB t

def prependT (acc : Str) : Forest → Forest
  | .cons (.text s) t => .cons (.text (acc ++ s)) t
  | f => flushT acc f

theorem prependT_nil (f : Forest) : prependT [] f = f := by
  cases f with
  | nil => rfl
  | cons h t => cases h <;> simp [prependT, flushT]

theorem mergeTF_canon : (f : Forest) → (acc : Str) → canonB f = true → mergeTF acc f = prependT acc f
  | .nil, acc, _ => rfl
  | .cons (.cdata _) _, _, h => by simp [canonB] at h
  | .cons (.elem q a k) t, acc, h => by
    simp only [canonB, Bool.and_eq_true] at h
    rw [mergeTF, mergeTF_canon k [] h.1, mergeTF_canon t [] h.2, prependT_nil, prependT_nil]
    rfl
  | .cons (.text s) t, acc, h => by
    simp only [canonB, Bool.and_eq_true, Bool.not_eq_true'] at h
    obtain ⟨⟨hs, hst⟩, hc⟩ := h
    have hne : (acc ++ s).isEmpty = false := by cases s <;> simp_all
    cases t with
    | nil => simp [mergeTF, prependT, flushT, hne]
    | cons h' t' =>
      cases h' with
      | text _ => simp [startsChar] at hst
      | cdata _ => simp [startsChar] at hst
      | elem q a k =>
        have := mergeTF_canon (.cons (.elem q a k) t') (acc ++ s) hc
        simp only [mergeTF] at this ⊢
        rw [this]; simp [prependT, flushT, hne]

/-- **a canonical forest is rebuilt as it is** (mixed content in order, white-space-only text kept, nothing
    stripped, nothing merged because nothing is adjacent) -/
theorem mergeTF_canon_id (f : Forest) (h : canonB f = true) : mergeTF [] f = f := by
  rw [mergeTF_canon f [] h, prependT_nil]

theorem canonB_flushT (acc : Str) (f : Forest) (hf : canonB f = true) (hs : startsChar f = false) :
    canonB (flushT acc f) = true := by
  unfold flushT
  by_cases h : acc.isEmpty = true
  · simp [h, hf]
  · simp [h, canonB, hf, hs]

theorem canonB_canonTF (acc : Str) (f : Forest) : canonB (canonTF acc f) = true := by
  fun_induction canonTF acc f with
  | case1 acc => exact canonB_flushT acc .nil rfl rfl
  | case2 acc s t ih => exact ih
  | case3 acc s t ih => exact ih
  | case4 acc q a kids t ih1 ih2 => exact canonB_flushT acc _ (by simp [canonB, ih1, ih2]) rfl

theorem hasElemF_flushT (acc : Str) (f : Forest) : hasElemF (flushT acc f) = hasElemF f := by
  unfold flushT; split <;> simp [hasElemF]

theorem hasElemF_canonTF (acc : Str) (f : Forest) : hasElemF (canonTF acc f) = hasElemF f := by
  fun_induction canonTF acc f with
  | case1 acc => simp [hasElemF_flushT, hasElemF]
  | case2 acc s t ih => simpa [hasElemF] using ih
  | case3 acc s t ih => simpa [hasElemF] using ih
  | case4 acc q a kids t ih1 ih2 => simp [hasElemF_flushT, hasElemF]

/-- what `load` makes of a section that `save` wrote with content `f` -/
def lsec (f : Forest) : Forest := secContent (canonTF [] f)

/-- … is the canonical form of `f`; only a section whose whole content is character data loses it -/
theorem lsec_eq (f : Forest) : lsec f = if hasElemF f then canonTF [] f else .nil := by
  simp [lsec, secContent, hasElemF_canonTF, mergeTF_canon_id _ (canonB_canonTF [] f)]

mutual
theorem noTrigN_canon : (n : Node) → noTrigN n = true → noTrigN (canonT n) = true
  | .text _, _ => rfl
  | .cdata _, _ => rfl
  | .elem q a k, h => by
    simp only [noTrigN, Bool.and_eq_true] at h
    simp [canonT, noTrigN, h.1, noTrigF_canonTF k [] h.2]
theorem noTrigF_canonTF : (f : Forest) → (acc : Str) → noTrigF f = true → noTrigF (canonTF acc f) = true
  | .nil, acc, _ => by unfold canonTF flushT; split <;> simp [noTrigF, noTrigN]
  | .cons (.text s) t, acc, h => by
    simp only [noTrigF, noTrigN, Bool.true_and] at h
    simpa [canonTF] using noTrigF_canonTF t _ h
  | .cons (.cdata s) t, acc, h => by
    simp only [noTrigF, noTrigN, Bool.true_and] at h
    simpa [canonTF] using noTrigF_canonTF t _ h
  | .cons (.elem q a k) t, acc, h => by
    simp only [noTrigF, noTrigN, Bool.and_eq_true] at h
    unfold canonTF flushT
    split <;> simp [noTrigF, noTrigN, h.1.1, noTrigF_canonTF k [] h.1.2, noTrigF_canonTF t [] h.2]
end

/-! ### the composite: load what save wrote -/

/-- the section objects of the document carry no attributes of their own (true of every document built through the
    API: none of the eight section elements has an attribute in the schema) -/
def allSecs : List Sec := [.autoStyles, .body, .fontFace, .master, .metaS, .scripts, .settings, .styles]
def noSecAttrs (d : Doc) : Bool := allSecs.all (fun s => (d.sattrs s).isEmpty)

theorem noSecAttrs_at (d : Doc) (h : noSecAttrs d = true) (s : Sec) : d.sattrs s = [] := by
  simp only [noSecAttrs, allSecs, List.all_cons, List.all_nil, Bool.and_true, Bool.and_eq_true] at h
  cases s <;> apply isEmpty_eq_nil' <;> simp [h]
where isEmpty_eq_nil' {α} {l : List α} (h : l.isEmpty = true) : l = [] := by cases l <;> simp_all

/-- a section element written without attributes -/
def secEl0 (s : Sec) (f : Forest) : Node := .elem (qOfSec s) [] f
def ifKids0 (s : Sec) (f : Forest) : Forest :=
  match f with
  | .nil => .nil
  | f => .cons (secEl0 s f) .nil

theorem secEl_eq (d : Doc) (h : noSecAttrs d = true) (s : Sec) (f : Forest) : secEl d s f = secEl0 s f := by
  simp [secEl, secEl0, noSecAttrs_at d h s]
theorem ifKids_eq (d : Doc) (h : noSecAttrs d = true) (s : Sec) (f : Forest) : ifKids d s f = ifKids0 s f := by
  cases f <;> simp [ifKids, ifKids0, secEl_eq d h]
theorem autoEl_eq (f : Forest) : autoEl f = secEl0 .autoStyles f := rfl

theorem putAttrs_nil_doc (d : Doc) (s : Sec) : d.putAttrs s [] = d := by
  have : (fun s' => if s' = s then putAttrs (d.sattrs s) [] else d.sattrs s') = d.sattrs := by
    funext s'; by_cases h : s' = s <;> simp [h, putAttrs]
  simp [Doc.putAttrs, this]

theorem canonTF_cons_elem (q : QName) (a : List (QName × Str)) (k t : Forest) :
    canonTF [] (.cons (.elem q a k) t) = .cons (.elem q (huAttrsQ a) (canonTF [] k)) (canonTF [] t) := by
  simp [canonTF, flushT]

theorem canonTF_nil : canonTF [] .nil = .nil := by simp [canonTF, flushT]

theorem lsec_nil : lsec .nil = .nil := by simp [lsec_eq, hasElemF]

theorem regF_sec_other (s : Sec) (h1 : s ≠ .styles) (h2 : s ≠ .autoStyles) (f : Forest) :
    regF (some (qOfSec s)) f = [] := by
  have key : ∀ q a, regOne (some (qOfSec s)) q a = [] := by
    intro q a
    unfold regOne
    have e1 : qOfSec s ≠ qStyles := by cases s <;> first | exact absurd rfl h1 | decide
    have e2 : qOfSec s ≠ qAutoStyles := by cases s <;> first | exact absurd rfl h2 | decide
    simp [e1, e2]
  have : ∀ f : Forest, regF (some (qOfSec s)) f = [] := by
    intro f
    fun_induction regF (some (qOfSec s)) f with
    | case1 => rfl
    | case2 q a k t ih => simp [key, ih]
    | case3 _ t ih => exact ih
    | case4 _ t ih => exact ih
  exact this f

theorem route_of_sec (sp : Bool) (s : Sec) (h : s = .fontFace → sp = true) : route sp (qOfSec s) = some s := by
  cases s <;> cases sp <;> first | decide | (exact absurd (h rfl) (by decide))

/-- a written section element, read back -/
theorem loadKids_secEl0 (sp : Bool) (l : Loaded) (s : Sec) (f g : Forest) (hr : route sp (qOfSec s) = some s) :
    loadKids sp l (canonTF [] (.cons (secEl0 s f) g)) =
      loadKids sp ⟨l.doc.app s (lsec f), l.names ++ regF (some (qOfSec s)) (canonTF [] f), l.fix⟩ (canonTF [] g) := by
  simp [secEl0, canonTF_cons_elem, loadKids, hr, lsec, huAttrsQ, putAttrs_nil_doc]

theorem loadKids_ifKids0 (sp : Bool) (l : Loaded) (s : Sec) (f g : Forest) (hr : route sp (qOfSec s) = some s) :
    loadKids sp l (canonTF [] (appF (ifKids0 s f) g)) =
      loadKids sp ⟨l.doc.app s (lsec f), l.names ++ regF (some (qOfSec s)) (canonTF [] f), l.fix⟩ (canonTF [] g) := by
  cases f with
  | nil => simp [ifKids0, lsec_nil, Doc.app_nil, canonTF_nil, regF]
  | cons h t => simpa [ifKids0] using loadKids_secEl0 sp l s (.cons h t) g hr

theorem loadKids_ifKids_skip (l : Loaded) (f g : Forest) :
    loadKids false l (canonTF [] (appF (ifKids0 .fontFace f) g)) = loadKids false l (canonTF [] g) := by
  have hr : route false qFontFace = none := by decide
  cases f with
  | nil => simp [ifKids0]
  | cons h t => simp [ifKids0, secEl0, canonTF_cons_elem, loadKids, qOfSec, hr]

theorem partKidsOK_secEl0 (sp : Bool) (names : List Str) (s : Sec) (f g : Forest) (hr : route sp (qOfSec s) = some s) :
    partKidsOK sp names (canonTF [] (.cons (secEl0 s f) g)) =
      (noTrigF (canonTF [] f) && fresh names (regF (some (qOfSec s)) (canonTF [] f)) &&
        partKidsOK sp (names ++ regF (some (qOfSec s)) (canonTF [] f)) (canonTF [] g)) := by
  simp [secEl0, canonTF_cons_elem, partKidsOK, hr]

theorem partKidsOK_ifKids0 (sp : Bool) (names : List Str) (s : Sec) (f g : Forest) (hr : route sp (qOfSec s) = some s)
    (hn : noTrigF (canonTF [] f) = true) (hfr : fresh names (regF (some (qOfSec s)) (canonTF [] f)) = true)
    (hg : partKidsOK sp (names ++ regF (some (qOfSec s)) (canonTF [] f)) (canonTF [] g) = true) :
    partKidsOK sp names (canonTF [] (appF (ifKids0 s f) g)) = true := by
  cases f with
  | nil => simpa [ifKids0, canonTF_nil, regF] using hg
  | cons h t => simp [ifKids0, partKidsOK_secEl0 sp names s _ g hr, hn, hfr, hg]

theorem partKidsOK_ifKids_skip (names : List Str) (f g : Forest) (hn : noTrigF (canonTF [] f) = true)
    (hg : partKidsOK false names (canonTF [] g) = true) :
    partKidsOK false names (canonTF [] (appF (ifKids0 .fontFace f) g)) = true := by
  have hr : route false qFontFace = none := by decide
  cases f with
  | nil => simpa [ifKids0] using hg
  | cons h t => simp [ifKids0, secEl0, canonTF_cons_elem, partKidsOK, qOfSec, hr, hn, hg]

theorem trig_roots : isTrigger qDocContent = false ∧ isTrigger qDocStyles = false ∧ isTrigger qDocMeta = false ∧
    isTrigger qDocSettings = false := by decide

theorem nt (f : Forest) (h : noTrigF f = true) : noTrigF (canonTF [] f) = true := noTrigF_canonTF f [] h

/-- settings.xml / meta.xml: one section, no style names -/
theorem part_single (l : Loaded) (rq : QName) (s : Sec) (f : Forest) (hf : l.fix = []) (hrq : isTrigger rq = false)
    (hs1 : s ≠ .styles) (hs2 : s ≠ .autoStyles) (hs3 : s ≠ .fontFace) (hn : noTrigF f = true) :
    loadPart false l (evN (canonT (.elem rq verAttrs (.cons (secEl0 s f) .nil)))) =
      some ⟨l.doc.app s (lsec f), l.names, []⟩ := by
  have hr := route_of_sec false s (fun h => absurd h hs3)
  have hreg := regF_sec_other s hs1 hs2 (canonTF [] f)
  simp only [canonT]
  rw [build_events false l rq _ _ hf hrq]
  · rw [loadKids_secEl0 false l s f .nil hr, hreg]
    simp [canonTF_nil, loadKids, hf]
  · rw [partKidsOK_secEl0 false l.names s f .nil hr, hreg]
    simp [nt f hn, fresh, canonTF_nil, partKidsOK]

theorem part_content (l : Loaded) (d : Doc) (uc : Forest) (hsa : noSecAttrs d = true) (hf : l.fix = [])
    (h1 : noTrigF d.scripts = true) (h2 : noTrigF d.fontFace = true) (h3 : noTrigF uc = true)
    (h4 : noTrigF d.body = true) (hfr : fresh l.names (regF (some qAutoStyles) (canonTF [] uc)) = true) :
    loadPart false l (evN (canonT (contentTree d uc))) =
      some ⟨((l.doc.app .scripts (lsec d.scripts)).app .autoStyles (lsec uc)).app .body (lsec d.body),
            l.names ++ regF (some qAutoStyles) (canonTF [] uc), []⟩ := by
  have r1 := route_of_sec false .scripts (by intro h; cases h)
  have r2 := route_of_sec false .autoStyles (by intro h; cases h)
  have r3 := route_of_sec false .body (by intro h; cases h)
  have g1 := regF_sec_other .scripts (by decide) (by decide)
  have g3 := regF_sec_other .body (by decide) (by decide)
  simp only [canonT, contentTree, secEl_eq d hsa, ifKids_eq d hsa, autoEl_eq]
  rw [build_events false l _ _ _ hf trig_roots.1]
  · rw [loadKids_ifKids0 false l .scripts _ _ r1, loadKids_ifKids_skip, loadKids_secEl0 false _ .autoStyles _ _ r2,
      loadKids_secEl0 false _ .body _ _ r3, g1, g3]
    simp [canonTF_nil, loadKids, hf, qOfSec]
  · refine partKidsOK_ifKids0 false _ .scripts _ _ r1 (nt _ h1) (by rw [g1]; rfl) ?_
    rw [g1, List.append_nil]
    refine partKidsOK_ifKids_skip _ _ _ (nt _ h2) ?_
    rw [partKidsOK_secEl0 false _ .autoStyles _ _ r2, partKidsOK_secEl0 false _ .body _ _ r3, g3]
    simp [nt _ h3, nt _ h4, fresh, canonTF_nil, partKidsOK]
    simpa [qOfSec] using hfr

theorem part_styles (l : Loaded) (d : Doc) (us : Forest) (hsa : noSecAttrs d = true) (hf : l.fix = [])
    (h1 : noTrigF d.fontFace = true) (h2 : noTrigF d.styles = true) (h3 : noTrigF us = true)
    (h4 : noTrigF d.master = true)
    (hfr : fresh l.names (regF (some qStyles) (canonTF [] d.styles) ++ regF (some qAutoStyles) (canonTF [] us)) = true) :
    loadPart true l (evN (canonT (stylesTree d us))) =
      some ⟨(((l.doc.app .fontFace (lsec d.fontFace)).app .styles (lsec d.styles)).app .autoStyles (lsec us)).app
              .master (lsec d.master),
            l.names ++ regF (some qStyles) (canonTF [] d.styles) ++ regF (some qAutoStyles) (canonTF [] us), []⟩ := by
  have r1 := route_of_sec true .fontFace (fun _ => rfl)
  have r2 := route_of_sec true .styles (fun _ => rfl)
  have r3 := route_of_sec true .autoStyles (fun _ => rfl)
  have r4 := route_of_sec true .master (fun _ => rfl)
  have g1 := regF_sec_other .fontFace (by decide) (by decide)
  have g4 := regF_sec_other .master (by decide) (by decide)
  rw [fresh_append] at hfr
  simp only [Bool.and_eq_true] at hfr
  have hmast : ∀ g : Forest, appF (ifKids0 .master d.master) .nil = ifKids0 .master d.master := fun _ => appF_nil_right _
  simp only [canonT, stylesTree, secEl_eq d hsa, ifKids_eq d hsa, autoEl_eq]
  rw [build_events true l _ _ _ hf trig_roots.2.1]
  · rw [loadKids_ifKids0 true l .fontFace _ _ r1, loadKids_secEl0 true _ .styles _ _ r2,
      loadKids_secEl0 true _ .autoStyles _ _ r3, ← appF_nil_right (ifKids0 .master d.master),
      loadKids_ifKids0 true _ .master _ _ r4, g1, g4]
    simp [canonTF_nil, loadKids, hf, qOfSec, List.append_assoc]
  · refine partKidsOK_ifKids0 true _ .fontFace _ _ r1 (nt _ h1) (by rw [g1]; rfl) ?_
    rw [g1, List.append_nil, partKidsOK_secEl0 true _ .styles _ _ r2, partKidsOK_secEl0 true _ .autoStyles _ _ r3]
    simp only [Bool.and_eq_true]
    refine ⟨⟨nt _ h2, by simpa [qOfSec] using hfr.1⟩, ⟨nt _ h3, by simpa [qOfSec] using hfr.2⟩, ?_⟩
    rw [← appF_nil_right (ifKids0 .master d.master)]
    exact partKidsOK_ifKids0 true _ .master _ _ r4 (nt _ h4) (by rw [g4]; rfl) (by simp [canonTF_nil, partKidsOK])

/-- the XML leg's hypothesis (C02's): an admissible namespace table that covers the four trees -/
structure XmlOK (tbl : NsTable) (tv : Str) (d : Doc) (uc us : Forest) : Prop where
  table : TableOK tbl
  clean : NsClean tbl
  content : TreeOK tbl (contentTree d uc)
  styles : TreeOK tbl (stylesTree d us)
  metaT : TreeOK tbl (metaTree tv d)
  settings : TreeOK tbl (settingsTree d)

/-- the load leg's hypothesis, decidable (`DocOK` of DESIGN.md = `XmlOK ∧ LoadOK`):
    * no section element (office:body, office:styles, … — `LoadParser.triggers`) nested inside a section
      (`finding_nested_section` shows what happens otherwise);
    * the style:style names registered while loading — automatic styles of content.xml, common styles, automatic
      styles of styles.xml, in this order — are pairwise distinct (no rename by `__register_stylename`: C11's subject);
    * the section objects carry no attributes of their own (`noSecAttrs`; since fix 2a48e47 such attributes do survive
      a load — `run_section`, C05 `section_attributes_kept` — but `office:automatic-styles` is written as a fresh
      element, so stating the general case would need one more exception). -/
def LoadOK (tv : Str) (d : Doc) (uc us : Forest) : Bool :=
  noSecAttrs d && noTrigF d.settings && noTrigF (normGen tv d.metaS) && noTrigF d.scripts && noTrigF d.fontFace && noTrigF uc &&
  noTrigF d.body && noTrigF d.styles && noTrigF us && noTrigF d.master &&
  fresh [] (regF (some qAutoStyles) (canonTF [] uc) ++
            (regF (some qStyles) (canonTF [] d.styles) ++ regF (some qAutoStyles) (canonTF [] us)))

/-- what `load(save(d))` holds: every section in canonical form (`lsec`), the generator normalised, the automatic
    styles that were written (content.xml's first, then styles.xml's) -/
def expected (tv : Str) (d : Doc) (uc us : Forest) : Doc :=
  { settings := lsec d.settings, metaS := lsec (normGen tv d.metaS), scripts := lsec d.scripts,
    autoStyles := appF (lsec uc) (lsec us), body := lsec d.body, fontFace := lsec d.fontFace,
    styles := lsec d.styles, master := lsec d.master }

/-- `__loadxmlparts` on the saved package: settings.xml only if it was written -/
def loadSaved (ws : Bool) (eS eM eC eY : List Event) : Option Loaded :=
  loadParts {} ((if ws then [(sSettingsXml, eS)] else []) ++ [(sMetaXml, eM), (sContentXml, eC), (sStylesXml, eY)])

/-- the statement of C04 at model level, for given trees: each written part is accepted by the reference parser,
    and LoadParser, fed the event stream of what the parser returns under ANY chunking, rebuilds `expected` -/
def LoadsBack (tbl : NsTable) (tv : Str) (d : Doc) (uc us : Forest) : Prop :=
  ∃ tS tM tC tY : Node,
    parseDoc (render tbl (settingsTree d)) = some tS ∧ parseDoc (render tbl (metaTree tv d)) = some tM ∧
    parseDoc (render tbl (contentTree d uc)) = some tC ∧ parseDoc (render tbl (stylesTree d us)) = some tY ∧
    ∀ eS eM eC eY : List Event, Chunked (evN tS) eS → Chunked (evN tM) eM → Chunked (evN tC) eC → Chunked (evN tY) eY →
      ∃ names, loadSaved (writesSettings d) eS eM eC eY = some ⟨expected tv d uc us, names, []⟩

/-- **C04, FULL STATEMENT**: every document that can be written is loaded back.  FALSE on the current tree
    (`finding_nested_section`, and C11's renames); proved below as `load_save_partial` under `LoadOK`. -/
def FullStatement : Prop :=
  ∀ (tbl : NsTable) (tv : Str) (d : Doc) (uc us : Forest), XmlOK tbl tv d uc us → LoadsBack tbl tv d uc us

theorem loadPart_chunked (sp : Bool) (l : Loaded) (evs evs' : List Event) (h : Chunked evs evs') :
    loadPart sp l evs' = loadPart sp l evs := by
  unfold loadPart; rw [build_chunk_invariant evs evs' h]

theorem sp_names : stylesPartOf sSettingsXml = false ∧ stylesPartOf sMetaXml = false ∧
    stylesPartOf sContentXml = false ∧ stylesPartOf sStylesXml = true := by decide

theorem empty_app (s : Sec) (f : Forest) : (({} : Doc).app s f).get s = f := by
  cases s <;> simp [Doc.app, Doc.set, Doc.get]

/-- **C04 (load_save, partial)**: for every document `d` (eight sections), every selection `uc` / `us` of automatic
    styles written to content.xml / styles.xml and every admissible namespace table: what `save` writes is accepted
    by the reference parser, and `load` — LoadParser over the SAX events of the parsed parts, character data chunked
    in any way, parts in the order settings, meta, content, styles — yields exactly `expected`: each section in
    canonical form, meta with exactly one generator (`normGen`), the written automatic styles.
    Restrictions (`LoadOK`): no section element nested inside a section; no style-name collision (C11).
    Not in the model: attribute converters (values are fixed points: C15), which automatic styles are written (C10:
    `uc`, `us` are parameters), the zip container, pictures and sub-documents (C03/C16 and the oracle), expat
    (trusted to deliver the events of the infoset the reference parser computes). -/
theorem load_save_partial (tbl : NsTable) (tv : Str) (d : Doc) (uc us : Forest)
    (hx : XmlOK tbl tv d uc us) (hl : LoadOK tv d uc us = true) : LoadsBack tbl tv d uc us := by
  simp only [LoadOK, Bool.and_eq_true] at hl
  obtain ⟨⟨⟨⟨⟨⟨⟨⟨⟨⟨hsa, n1⟩, n2⟩, n3⟩, n4⟩, n5⟩, n6⟩, n7⟩, n8⟩, n9⟩, hfr⟩ := hl
  rw [fresh_append] at hfr
  simp only [Bool.and_eq_true, List.nil_append] at hfr
  refine ⟨_, _, _, _, parseDoc_render tbl _ _ _ hx.table hx.clean hx.settings,
    parseDoc_render tbl _ _ _ hx.table hx.clean hx.metaT,
    parseDoc_render tbl _ _ _ hx.table hx.clean hx.content,
    parseDoc_render tbl _ _ _ hx.table hx.clean hx.styles, ?_⟩
  intro eS eM eC eY cS cM cC cY
  have pS : loadPart false {} (evN (canonT (settingsTree d))) = some ⟨({} : Doc).app .settings (lsec d.settings), [], []⟩ := by
    simp only [settingsTree, secEl_eq d hsa]
    exact part_single {} qDocSettings .settings d.settings rfl trig_roots.2.2.2 (by decide) (by decide) (by decide) n1
  have pM : ∀ l : Loaded, l.fix = [] → loadPart false l (evN (canonT (metaTree tv d))) =
      some ⟨l.doc.app .metaS (lsec (normGen tv d.metaS)), l.names, []⟩ := by
    intro l h
    simp only [metaTree, secEl_eq d hsa]
    exact part_single l qDocMeta .metaS _ h trig_roots.2.2.1 (by decide) (by decide) (by decide) n2
  have pC : ∀ l : Loaded, l.fix = [] → l.names = [] → loadPart false l (evN (canonT (contentTree d uc))) = _ :=
    fun l h hn => part_content l d uc hsa h n3 n4 n5 n6 (by rw [hn]; exact hfr.1)
  have pY : ∀ l : Loaded, l.fix = [] → l.names = regF (some qAutoStyles) (canonTF [] uc) →
      loadPart true l (evN (canonT (stylesTree d us))) = _ :=
    fun l h hn => part_styles l d us hsa h n4 n7 n8 n9 (by rw [hn]; exact hfr.2)
  simp only [settingsTree, metaTree, contentTree, stylesTree] at pS pM pC pY
  refine ⟨regF (some qAutoStyles) (canonTF [] uc) ++ regF (some qStyles) (canonTF [] d.styles) ++
    regF (some qAutoStyles) (canonTF [] us), ?_⟩
  unfold loadSaved
  cases hws : writesSettings d with
  | true =>
    simp only [if_true, List.cons_append, List.nil_append, loadParts, sp_names.1, sp_names.2.1, sp_names.2.2.1,
      sp_names.2.2.2]
    rw [loadPart_chunked _ _ _ _ cS, pS]
    simp only []
    rw [loadPart_chunked _ _ _ _ cM, pM _ rfl]
    simp only []
    rw [loadPart_chunked _ _ _ _ cC, pC _ rfl rfl]
    simp only []
    rw [loadPart_chunked _ _ _ _ cY, pY _ rfl (by simp)]
    simp [expected, Doc.app, Doc.set, Doc.get]
  | false =>
    have hset : d.settings = .nil := by
      cases h : d.settings with
      | nil => rfl
      | cons a b => simp [writesSettings, h] at hws
    simp only [Bool.false_eq_true, if_false, List.nil_append, loadParts, sp_names.2.1, sp_names.2.2.1, sp_names.2.2.2]
    rw [loadPart_chunked _ _ _ _ cM, pM _ rfl]
    simp only []
    rw [loadPart_chunked _ _ _ _ cC, pC _ rfl rfl]
    simp only []
    rw [loadPart_chunked _ _ _ _ cY, pY _ rfl (by simp)]
    simp [expected, Doc.app, Doc.set, Doc.get, hset, lsec_nil]

/-! ### the canonical form is a fixed point of the parser's normalisation (needed for "second generation") -/

theorem hu_idem (c : Cp) : hu (hu c) = hu c := by
  unfold hu
  by_cases h : filtered c = true
  · have : filtered 0xFFFD = false := by decide
    simp [h, this]
  · simp [h]

theorem map_hu_idem (s : Str) : (s.map hu).map hu = s.map hu := by
  simp [List.map_map, Function.comp_def, hu_idem]

theorem huAttrsQ_idem (a : List (QName × Str)) : huAttrsQ (huAttrsQ a) = huAttrsQ a := by
  induction a with
  | nil => rfl
  | cons x r ih => obtain ⟨q, v⟩ := x; simp [huAttrsQ, ih, hu_idem]

mutual
/-- every string of the tree filtered through `hu` -/
def huN : Node → Node
  | .text s => .text (s.map hu)
  | .cdata s => .cdata (s.map hu)
  | .elem q a k => .elem q (huAttrsQ a) (huF k)
def huF : Forest → Forest
  | .nil => .nil
  | .cons h t => .cons (huN h) (huF t)
end

theorem huF_flushT (acc : Str) (f : Forest) : huF (flushT acc f) = flushT (acc.map hu) (huF f) := by
  unfold flushT
  by_cases h : acc.isEmpty = true
  · have := isEmpty_eq_nil h; subst this; simp
  · have h2 : (acc.map hu).isEmpty = false := by cases acc <;> simp_all
    simp [h, h2, huF, huN]

theorem huF_canonTF (acc : Str) (f : Forest) (ha : acc.map hu = acc) : huF (canonTF acc f) = canonTF acc f := by
  fun_induction canonTF acc f with
  | case1 acc => simp [huF_flushT, ha, huF]
  | case2 acc s t ih => exact ih (by simp [ha, hu_idem])
  | case3 acc s t ih => exact ih (by simp [ha, hu_idem])
  | case4 acc q a kids t ih1 ih2 => simp [huF_flushT, ha, huF, huN, huAttrsQ_idem, ih1 rfl, ih2 rfl]

theorem canonTF_eq_merge (acc : Str) (f : Forest) : canonTF acc f = mergeTF acc (huF f) := by
  fun_induction canonTF acc f with
  | case1 acc => simp [huF, mergeTF]
  | case2 acc s t ih => simpa [huF, huN, mergeTF] using ih
  | case3 acc s t ih => simpa [huF, huN, mergeTF] using ih
  | case4 acc q a kids t ih1 ih2 => simp [huF, huN, mergeTF, ih1, ih2]

theorem canonTF_idem (f : Forest) : canonTF [] (canonTF [] f) = canonTF [] f := by
  rw [canonTF_eq_merge [] (canonTF [] f), huF_canonTF [] f rfl, mergeTF_canon_id _ (canonB_canonTF [] f)]

theorem canonT_idem (q : QName) (a : List (QName × Str)) (k : Forest) :
    canonT (canonT (.elem q a k)) = canonT (.elem q a k) := by
  simp [canonT, huAttrsQ_idem, canonTF_idem]

/-! ### second generation -/

/-- a section is empty or has at least one element child (true of every section a schema-directed document has:
    none of the eight section elements may hold character data) -/
def secOK : Forest → Bool
  | .nil => true
  | f => hasElemF f

def SecsOK (d : Doc) (uc us : Forest) : Bool :=
  secOK d.settings && secOK d.scripts && secOK d.fontFace && secOK uc && secOK d.body && secOK d.styles && secOK us &&
  secOK d.master

theorem lsec_secOK (f : Forest) (h : secOK f = true) : lsec f = canonTF [] f := by
  cases f with
  | nil => simp [lsec_nil, canonTF_nil]
  | cons a t => simp only [secOK] at h; simp [lsec_eq, h]

theorem ifKids_canon (s : Sec) (f g : Forest) (h : secOK f = true) :
    canonTF [] (appF (ifKids0 s f) g) = appF (ifKids0 s (lsec f)) (canonTF [] g) := by
  rw [lsec_secOK f h]
  cases f with
  | nil => simp [ifKids0, canonTF_nil]
  | cons a t =>
    simp only [secOK] at h
    have he : hasElemF (canonTF [] (.cons a t)) = true := by rw [hasElemF_canonTF]; exact h
    cases hc : canonTF [] (.cons a t) with
    | nil => rw [hc] at he; simp [hasElemF] at he
    | cons a' t' => simp [ifKids0, secEl0, canonTF_cons_elem, hc, huAttrsQ]

theorem secEl_canon (s : Sec) (f g : Forest) (h : secOK f = true) :
    canonTF [] (.cons (secEl0 s f) g) = .cons (secEl0 s (lsec f)) (canonTF [] g) := by
  rw [lsec_secOK f h]; simp [secEl0, canonTF_cons_elem, huAttrsQ]

theorem ver_stable : huAttrsQ verAttrs = verAttrs := by decide

def noGenB : Forest → Bool
  | .nil => true
  | .cons h t => !isGen h && noGenB t

theorem noGenB_filterNG : (m : Forest) → noGenB (filterNG m) = true
  | .nil => rfl
  | .cons h t => by
    unfold filterNG
    by_cases hg : isGen h = true
    · simp [hg, noGenB_filterNG t]
    · simp [hg, noGenB, noGenB_filterNG t]

theorem filterNG_flushT (acc : Str) (f : Forest) : filterNG (flushT acc f) = flushT acc (filterNG f) := by
  unfold flushT; split <;> simp [filterNG, isGen]

theorem canon_genNode (tv : Str) (htv : tv.map hu = tv) (acc : Str) :
    canonTF acc (.cons (genNode tv) .nil) = flushT acc (.cons (genNode tv) .nil) := by
  unfold genNode
  by_cases h : tv.isEmpty = true
  · simp [h, canonTF, huAttrsQ, flushT]
  · have h2 : tv ≠ [] := by intro e; simp [e] at h
    simp [h, canonTF, huAttrsQ, flushT, htv, h2]

theorem gen_fix (tv : Str) (htv : tv.map hu = tv) : (X : Forest) → (acc : Str) → noGenB X = true →
    appF (filterNG (canonTF acc (appF X (.cons (genNode tv) .nil)))) (.cons (genNode tv) .nil) =
      canonTF acc (appF X (.cons (genNode tv) .nil))
  | .nil, acc, _ => by
    have hg : isGen (genNode tv) = true := by simp [genNode, isGen]
    simp [canon_genNode tv htv, filterNG_flushT, filterNG, hg, appF_flushT]
  | .cons (.text s) t, acc, h => by
    simp only [noGenB, isGen, Bool.not_false, Bool.true_and] at h
    simpa [canonTF] using gen_fix tv htv t _ h
  | .cons (.cdata s) t, acc, h => by
    simp only [noGenB, isGen, Bool.not_false, Bool.true_and] at h
    simpa [canonTF] using gen_fix tv htv t _ h
  | .cons (.elem q a k) t, acc, h => by
    simp only [noGenB, Bool.and_eq_true, Bool.not_eq_true'] at h
    have hq : isGen (.elem q (huAttrsQ a) (canonTF [] k)) = false := by simpa [isGen] using h.1
    simp only [appF_cons, canonTF, filterNG_flushT, filterNG, hq, Bool.false_eq_true, if_false, appF_flushT]
    rw [gen_fix tv htv t [] h.2]

theorem hasElemF_appF_elem (X : Forest) (q : QName) (a : List (QName × Str)) (k : Forest) :
    hasElemF (appF X (.cons (.elem q a k) .nil)) = true := by
  fun_induction hasElemF X <;> simp_all [hasElemF]

theorem normGen_fix (tv : Str) (htv : tv.map hu = tv) (m : Forest) :
    normGen tv (lsec (normGen tv m)) = canonTF [] (normGen tv m) := by
  have he : hasElemF (normGen tv m) = true := by unfold normGen genNode; exact hasElemF_appF_elem _ _ _ _
  rw [lsec_eq, he]
  simp only [if_true, normGen]
  exact gen_fix tv htv (filterNG m) [] (noGenB_filterNG m)

/-- **C04 (second generation, partial)**: saving the loaded document writes, part by part, exactly the infoset of
    the first package (`canonT` of the tree that was written = what the reference parser returns for it), with the
    generator still named exactly once; settings.xml is written the second time iff it was the first time.
    Hypotheses: `SecsOK` (no section consists of character data only), `noSecAttrs`, the library version string has no filtered
    character, and — C10's subject — the second save selects for each part the automatic styles that were loaded
    from it (`lsec uc`, `lsec us`). -/
theorem second_generation_partial (tv : Str) (d : Doc) (uc us : Forest) (hs : SecsOK d uc us = true)
    (hsa : noSecAttrs d = true) (htv : tv.map hu = tv) :
    contentTree (expected tv d uc us) (lsec uc) = canonT (contentTree d uc) ∧
    stylesTree (expected tv d uc us) (lsec us) = canonT (stylesTree d us) ∧
    metaTree tv (expected tv d uc us) = canonT (metaTree tv d) ∧
    settingsTree (expected tv d uc us) = canonT (settingsTree d) ∧
    writesSettings (expected tv d uc us) = writesSettings d := by
  simp only [SecsOK, Bool.and_eq_true] at hs
  obtain ⟨⟨⟨⟨⟨⟨⟨o1, o2⟩, o3⟩, o4⟩, o5⟩, o6⟩, o7⟩, o8⟩ := hs
  have he : noSecAttrs (expected tv d uc us) = true := rfl
  refine ⟨?_, ?_, ?_, ?_, ?_⟩
  · simp only [contentTree, secEl_eq _ he, ifKids_eq _ he, secEl_eq d hsa, ifKids_eq d hsa, autoEl_eq]
    simp only [canonT, expected, ver_stable]
    rw [ifKids_canon _ _ _ o2, ifKids_canon _ _ _ o3, secEl_canon _ _ _ o4, secEl_canon _ _ _ o5, canonTF_nil]
  · simp only [stylesTree, secEl_eq _ he, ifKids_eq _ he, secEl_eq d hsa, ifKids_eq d hsa, autoEl_eq]
    simp only [canonT, expected, ver_stable]
    rw [ifKids_canon _ _ _ o3, secEl_canon _ _ _ o6, secEl_canon _ _ _ o7]
    have := ifKids_canon .master d.master .nil o8
    simp only [appF_nil_right, canonTF_nil] at this
    rw [this]
  · simp only [metaTree, secEl_eq _ he, secEl_eq d hsa]
    simp only [canonT, expected, ver_stable]
    rw [normGen_fix tv htv]
    simp [secEl0, canonTF_cons_elem, huAttrsQ, canonTF_nil]
  · simp only [settingsTree, secEl_eq _ he, secEl_eq d hsa]
    simp only [canonT, expected, ver_stable]
    rw [secEl_canon _ _ _ o1, canonTF_nil]
  · simp only [expected, writesSettings]
    rw [lsec_secOK _ o1]
    cases hd : d.settings with
    | nil => simp [canonTF_nil]
    | cons a t =>
      rw [hd] at o1; simp only [secOK] at o1
      have he : hasElemF (canonTF [] (.cons a t)) = true := by rw [hasElemF_canonTF]; exact o1
      cases hc : canonTF [] (.cons a t) with
      | nil => rw [hc] at he; simp [hasElemF] at he
      | cons a' t' => rfl

/-- … hence both generations have the same infoset (the reference parser returns the same tree for both) -/
theorem second_generation_infoset (tbl : NsTable) (tv : Str) (d : Doc) (uc us : Forest)
    (hx : XmlOK tbl tv d uc us) (hs : SecsOK d uc us = true) (hsa : noSecAttrs d = true) (htv : tv.map hu = tv) :
    parseDoc (render tbl (contentTree (expected tv d uc us) (lsec uc))) = parseDoc (render tbl (contentTree d uc)) ∧
    parseDoc (render tbl (stylesTree (expected tv d uc us) (lsec us))) = parseDoc (render tbl (stylesTree d us)) ∧
    parseDoc (render tbl (metaTree tv (expected tv d uc us))) = parseDoc (render tbl (metaTree tv d)) ∧
    parseDoc (render tbl (settingsTree (expected tv d uc us))) = parseDoc (render tbl (settingsTree d)) := by
  obtain ⟨e1, e2, e3, e4, _⟩ := second_generation_partial tv d uc us hs hsa htv
  have key : ∀ (q : QName) (a : List (QName × Str)) (k : Forest), TreeOK tbl (.elem q a k) →
      parseDoc (render tbl (canonT (.elem q a k))) = parseDoc (render tbl (.elem q a k)) := by
    intro q a k h
    rw [parseDoc_render tbl q a k hx.table hx.clean h]
    have h2 := treeOK_canonT q a k h
    simp only [canonT] at h2 ⊢
    rw [parseDoc_render tbl q _ _ hx.table hx.clean h2]
    have := canonT_idem q a k
    simp only [canonT] at this ⊢
    rw [this]
  rw [e1, e2, e3, e4]
  exact ⟨key _ _ _ hx.content, key _ _ _ hx.styles, key _ _ _ hx.metaT, key _ _ _ hx.settings⟩

/-! ### proved counter-examples (known findings) -/

def topNames : Forest → List QName
  | .nil => []
  | .cons (.elem q _ _) t => q :: topNames t
  | .cons _ t => topNames t

/-- `u:a`, `u:b`, `u:c` in the namespace "u" -/
def exQ (c : Nat) : QName := ⟨[117], [c]⟩
def exE (c : Nat) : Node := .elem (exQ c) [] .nil

/-- content.xml whose body is `<u:a/> <office:settings><u:c/></office:settings> <u:b/>` (the schema allows an inline
    office:document, with its own office:settings / office:body …, inside draw:object) -/
def nestedPart : Node :=
  .elem qDocContent [] (.cons (.elem qBody []
    (.cons (exE 97) (.cons (.elem qSettings [] (.cons (exE 99) .nil)) (.cons (exE 98) .nil)))) .nil)

/-- **known finding KF-C04-8, proved on the model**: the nested office:settings is routed to the OUTER document's
    settings, the body keeps only what came before it (`u:b` is lost: the inner end tag switched the parser off),
    and the nested element itself is not in the body. -/
theorem finding_nested_section :
    (loadPart false {} (evN nestedPart)).map (fun l => (topNames l.doc.body, topNames l.doc.settings)) =
      some ([exQ 97], [exQ 99]) := by decide

/-- … and this is exactly what `LoadOK` excludes -/
theorem nested_not_LoadOK : noTrigF (.cons (exE 97) (.cons (.elem qSettings [] (.cons (exE 99) .nil)) (.cons (exE 98) .nil))) = false := by
  decide

/-- `Object 1/styles.xml` -/
def sObj1Styles : Str := [79, 98, 106, 101, 99, 116, 32, 49, 47] ++ sStylesXml

/-- styles.xml of a sub-document with one font declaration -/
def fontsPart : Node :=
  .elem qDocStyles [] (.cons (.elem qFontFace [] (.cons (exE 102) .nil)) (.cons (.elem qStyles [] (.cons (exE 115) .nil)) .nil))

/-- (was known finding KF-C04-4 / KF-C05-4, repaired in 934baed) the base name of `doc._parsing` is compared, so the
    font declarations of a sub-document's styles.xml are loaded like those of the top document, while
    "Object 1/content.xml" still skips them -/
theorem subdocument_fonts_loaded :
    stylesPartOf sObj1Styles = true ∧
    (loadPart (stylesPartOf sObj1Styles) {} (evN fontsPart)).map (fun l => (topNames l.doc.fontFace, topNames l.doc.styles)) =
      some ([exQ 102], [exQ 115]) ∧
    (loadPart (stylesPartOf ([79, 98, 106, 101, 99, 116, 32, 49, 47] ++ sContentXml)) {} (evN fontsPart)).map
      (fun l => (topNames l.doc.fontFace, topNames l.doc.styles)) = some ([], [exQ 115]) := by decide

/-! ### the hypotheses are satisfiable -/

/-- namespace table: office ↦ "o", meta ↦ "m", "u" ↦ "p" -/
def exTbl : NsTable := [(OFFICENS, [111]), (METANS, [109]), ([117], [112])]

/-- body `<u:a>x y<u:b/> </u:a>` (mixed content, white-space-only text), one common style element, the rest empty -/
def exDoc : Doc :=
  { body := .cons (.elem (exQ 97) [] (.cons (.text [120, 32, 121]) (.cons (exE 98) (.cons (.text [32]) .nil)))) .nil,
    styles := .cons (exE 115) .nil }

theorem exTbl_ok : TableOK exTbl := by
  refine ⟨by decide, ?_⟩
  intro e he
  simp only [exTbl, List.mem_cons, List.not_mem_nil, or_false] at he
  rcases he with rfl | rfl | rfl <;> refine ⟨by decide, by decide, by decide, ?_⟩ <;> unfold StrOK <;> decide

/-- a decision procedure for the XML layer's `TreeOK` (so that `XmlOK` can be checked by evaluation) -/
def strOKb (s : Str) : Bool := s.all (fun c => decide (c < 0x110000))
def qnameOKb (q : QName) : Bool := isNCName q.loc && (!q.ns.isEmpty || decide (q.loc ≠ XMLNS_NAME))
def coveredB (tbl : NsTable) (q : QName) : Bool := q.ns.isEmpty || (lookupNs tbl q.ns).isSome
def attrsOKb (tbl : NsTable) (as : List (QName × Str)) : Bool :=
  nodupQ as && as.all (fun a => qnameOKb a.1 && coveredB tbl a.1 && strOKb a.2)

mutual
def treeOKb (tbl : NsTable) : Node → Bool
  | .text s => strOKb s
  | .cdata s => strOKb s
  | .elem q a k => qnameOKb q && coveredB tbl q && attrsOKb tbl a && forestOKb tbl k
def forestOKb (tbl : NsTable) : Forest → Bool
  | .nil => true
  | .cons h t => treeOKb tbl h && forestOKb tbl t
end

theorem strOKb_sound {s : Str} (h : strOKb s = true) : StrOK s := by
  intro c hc; simp only [strOKb, List.all_eq_true, decide_eq_true_eq] at h; exact h c hc

theorem qnameOKb_sound {q : QName} (h : qnameOKb q = true) : QNameOK q := by
  simp only [qnameOKb, Bool.and_eq_true, Bool.or_eq_true, Bool.not_eq_true', decide_eq_true_eq] at h
  refine ⟨h.1, fun hn => ?_⟩
  rcases h.2 with h2 | h2
  · simp [hn] at h2
  · exact h2

theorem coveredB_sound {tbl : NsTable} {q : QName} (h : coveredB tbl q = true) : Covered tbl q := by
  simp only [coveredB, Bool.or_eq_true] at h
  rcases h with h | h
  · left; exact isEmpty_eq_nil h
  · right; cases hl : lookupNs tbl q.ns with
    | none => simp [hl] at h
    | some p => exact ⟨p, rfl⟩

theorem attrsOKb_sound {tbl : NsTable} {as : List (QName × Str)} (h : attrsOKb tbl as = true) : AttrsQOK tbl as := by
  simp only [attrsOKb, Bool.and_eq_true, List.all_eq_true] at h
  exact ⟨h.1, fun a ha => ⟨qnameOKb_sound (h.2 a ha).1.1, coveredB_sound (h.2 a ha).1.2, strOKb_sound (h.2 a ha).2⟩⟩

mutual
theorem treeOKb_sound (tbl : NsTable) : (n : Node) → treeOKb tbl n = true → TreeOK tbl n
  | .text s, h => strOKb_sound (by simpa [treeOKb] using h)
  | .cdata s, h => strOKb_sound (by simpa [treeOKb] using h)
  | .elem q a k, h => by
    simp only [treeOKb, Bool.and_eq_true] at h
    exact ⟨qnameOKb_sound h.1.1.1, coveredB_sound h.1.1.2, attrsOKb_sound h.1.2, forestOKb_sound tbl k h.2⟩
theorem forestOKb_sound (tbl : NsTable) : (f : Forest) → forestOKb tbl f = true → ForestOK tbl f
  | .nil, _ => trivial
  | .cons h t, hh => by
    simp only [forestOKb, Bool.and_eq_true] at hh
    exact ⟨treeOKb_sound tbl h hh.1, forestOKb_sound tbl t hh.2⟩
end

/-- non-vacuity: all hypotheses of `load_save_partial`, `second_generation_partial` hold for a document with mixed
    content and white-space-only text in the body, a common style, the library's generator string "T" -/
example : XmlOK exTbl [84] exDoc .nil .nil ∧ LoadOK [84] exDoc .nil .nil = true ∧ SecsOK exDoc .nil .nil = true ∧
    noSecAttrs exDoc = true ∧ ([84] : Str).map hu = [84] := by
  refine ⟨⟨exTbl_ok, ?_, ?_, ?_, ?_, ?_⟩, by decide, by decide, by decide, by decide⟩
  · intro e he
    simp only [exTbl, List.mem_cons, List.not_mem_nil, or_false] at he
    rcases he with rfl | rfl | rfl <;> decide
  · exact treeOKb_sound _ _ (by decide)
  · exact treeOKb_sound _ _ (by decide)
  · exact treeOKb_sound _ _ (by decide)
  · exact treeOKb_sound _ _ (by decide)

end OdfModel.Props.C04

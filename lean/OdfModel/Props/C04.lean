/-
  Property C04 — saving a document and loading it back reproduces the document.

  Model: `OdfModel.LoadSax` (LoadParser as a state machine over SAX events, with the style index of
  `build_caches`), composed with the XML round trip `parseDoc_render` of the XML layer (C02).
  Tie: harness/c04.py — the recorded SAX streams of every saved part are fed to `drv_load` and the sections are
  compared with what the real `load()` built; the oracle compares load(save(d)) with d on the real library.

  Trusted legs (said so in the statements): expat delivers the event stream `evN t` of the infoset `t` the
  reference parser computes, cut into chunks in any way (`Chunked`); the zip container and the manifest dispatch
  (pictures, sub-documents) are the subject of C03/C16 and of the oracle.
-/
import OdfModel.LoadSax
import OdfModel.Xml.Compose
namespace OdfModel.Props.C04
open OdfModel OdfModel.Xml OdfModel.Spec OdfModel.LoadSax

/-! ### forests -/

@[simp] theorem appF_nil_left (g : Forest) : appF .nil g = g := rfl
@[simp] theorem appF_cons (h : Node) (t g : Forest) : appF (.cons h t) g = .cons h (appF t g) := rfl

@[simp] theorem appF_nil_right : (f : Forest) → appF f .nil = f
  | .nil => rfl
  | .cons h t => by simp [appF_nil_right t]

theorem appF_assoc : (a b c : Forest) → appF (appF a b) c = appF a (appF b c)
  | .nil, _, _ => rfl
  | .cons h t, b, c => by simp [appF_assoc t b c]

/-! ### running event lists -/

@[simp] theorem run_nil (st : St) : run st [] = some st := rfl

theorem run_cons (st : St) (e : Event) (es : List Event) :
    run st (e :: es) = (step st e).bind (fun s => run s es) := by
  simp only [run]; cases step st e <;> rfl

theorem run_append (st : St) (a b : List Event) : run st (a ++ b) = (run st a).bind (fun s => run s b) := by
  induction a generalizing st with
  | nil => simp
  | cons e es ih =>
    simp only [List.cons_append, run_cons]
    cases step st e with
    | none => rfl
    | some s => simpa using ih s

/-! ### C04 (chunking): any way of cutting the character data gives the same result -/

/-- `evs'` is `evs` with every character event cut into an arbitrary list of chunks (empty chunks and, for an empty
    string, no chunk at all included) — what a SAX parser is free to do -/
inductive Chunked : List Event → List Event → Prop where
  | nil : Chunked [] []
  | chars (s : Str) (cs : List Str) (r r' : List Event) : cs.flatten = s → Chunked r r' →
      Chunked (.chars s :: r) (cs.map Event.chars ++ r')
  | other (e : Event) (r r' : List Event) : Chunked r r' → Chunked (e :: r) (e :: r')

theorem stepChars_nil (st : St) : stepChars st [] = st := by
  unfold stepChars; split <;> simp

theorem stepChars_append (st : St) (a b : Str) : stepChars (stepChars st a) b = stepChars st (a ++ b) := by
  unfold stepChars
  by_cases h : (st.parsing && st.skip == 0) = true <;> simp [h, List.append_assoc]

theorem run_chunks (st : St) (cs : List Str) (r : List Event) :
    run st (cs.map Event.chars ++ r) = run (stepChars st cs.flatten) r := by
  induction cs generalizing st with
  | nil => simp [stepChars_nil]
  | cons c cs ih =>
    simp only [List.map_cons, List.cons_append, run_cons, step, Option.bind_some, List.flatten_cons]
    rw [ih, stepChars_append]

/-- **C04 (build_chunk_invariant)**: for EVERY state of the parser and EVERY re-chunking of the character events,
    the run gives the same result (also the same crash). -/
theorem build_chunk_invariant (evs evs' : List Event) (h : Chunked evs evs') :
    ∀ st : St, run st evs' = run st evs := by
  induction h with
  | nil => intro st; rfl
  | chars s cs r r' hs _ ih =>
    intro st
    rw [run_chunks, hs, run_cons]
    simp only [step, Option.bind_some]
    exact ih _
  | other e r r' _ ih =>
    intro st
    simp only [run_cons]
    cases step st e with
    | none => rfl
    | some s => simpa using ih s

/-- every stream is a chunking of itself (one chunk per event) -/
theorem chunked_refl (evs : List Event) : Chunked evs evs := by
  induction evs with
  | nil => exact .nil
  | cons e r ih =>
    cases e with
    | chars s => simpa using Chunked.chars s [s] r r (by simp) ih
    | start q a => exact .other _ r r ih
    | stop q => exact .other _ r r ih

/-! ### what LoadParser builds from the events of a forest -/

def hasElemF : Forest → Bool
  | .nil => false
  | .cons (.elem _ _ _) _ => true
  | .cons (.text _) t => hasElemF t
  | .cons (.cdata _) t => hasElemF t

/-- the children LoadParser gives an element whose content is `f`, with pending character data `acc`: character
    data (text and CDATA alike) is accumulated over any number of events and becomes ONE text node in front of the
    next element / at the end tag; an empty accumulation gives no node; nothing is stripped -/
def mergeTF (acc : Str) : Forest → Forest
  | .nil => flushT acc .nil
  | .cons (.text s) t => mergeTF (acc ++ s) t
  | .cons (.cdata s) t => mergeTF (acc ++ s) t
  | .cons (.elem q a kids) t => flushT acc (.cons (.elem q a (mergeTF [] kids)) (mergeTF [] t))

/-- the same, split into the nodes that are complete and the character data still pending at the end -/
def mergeK (acc : Str) : Forest → Forest × Str
  | .nil => (.nil, acc)
  | .cons (.text s) t => mergeK (acc ++ s) t
  | .cons (.cdata s) t => mergeK (acc ++ s) t
  | .cons (.elem q a kids) t => (flushT acc (.cons (.elem q a (mergeTF [] kids)) (mergeK [] t).1), (mergeK [] t).2)

theorem appF_flushT (acc : Str) (f g : Forest) : appF (flushT acc f) g = flushT acc (appF f g) := by
  unfold flushT; split <;> simp

theorem mergeTF_eq (acc : Str) (f : Forest) :
    mergeTF acc f = appF (mergeK acc f).1 (flushT (mergeK acc f).2 .nil) := by
  fun_induction mergeK acc f with
  | case1 acc => simp [mergeTF]
  | case2 acc s t ih => simpa [mergeTF] using ih
  | case3 acc s t ih => simpa [mergeTF] using ih
  | case4 acc q a kids t ih => simp [mergeTF, appF_flushT, ih]

theorem mergeK_noElem (acc : Str) (f : Forest) (h : hasElemF f = false) : (mergeK acc f).1 = .nil := by
  fun_induction mergeK acc f with
  | case1 acc => rfl
  | case2 acc s t ih => exact ih (by simpa [hasElemF] using h)
  | case3 acc s t ih => exact ih (by simpa [hasElemF] using h)
  | case4 acc q a kids t ih => simp [hasElemF] at h

/-- names registered when `(q, attrs)` is attached under `pq` (no clash) -/
def regOne (pq : Option QName) (q : QName) (a : List (QName × Str)) : List Str :=
  match pq with
  | none => []
  | some p =>
    if q = qStyle ∧ (p = qStyles ∨ p = qAutoStyles) then
      match lookupA aStyleName a with
      | some n => [n]
      | none => []
    else []

mutual
/-- the names registered while a subtree is attached under `pq`, in document order.  Since the repair of the nested
    sections an office:styles / office:automatic-styles element may occur anywhere (inside an inline office:document),
    and the style:style children of such an element are registered like those of the real sections. -/
def regN (pq : Option QName) : Node → List Str
  | .elem q a k => regOne pq q a ++ regAllF (pq.map (fun _ => q)) k
  | .text _ => []
  | .cdata _ => []
def regAllF (pq : Option QName) : Forest → List Str
  | .nil => []
  | .cons h t => regN pq h ++ regAllF pq t
end

/-- none of the new names is registered already, and they differ from each other -/
def fresh (names : List Str) : List Str → Bool
  | [] => true
  | n :: r => !(names.contains n) && fresh (names ++ [n]) r

def docAfter (r : Root) (d : Doc) (ns : Forest) : Doc :=
  match r with
  | .sec s => d.app s ns
  | _ => d

@[simp] theorem attachToRoot_doc (st : St) (ns : Forest) : (attachToRoot st ns).doc = docAfter st.root st.doc ns := by
  unfold attachToRoot docAfter; cases hr : st.root <;> simp [hr]
@[simp] theorem attachToRoot_spine (st : St) (ns : Forest) : (attachToRoot st ns).spine = st.spine := by
  unfold attachToRoot; cases hr : st.root <;> simp [hr]
@[simp] theorem attachToRoot_root (st : St) (ns : Forest) : (attachToRoot st ns).root = st.root := by
  unfold attachToRoot; cases hr : st.root <;> simp [hr]
@[simp] theorem attachToRoot_names (st : St) (ns : Forest) : (attachToRoot st ns).names = st.names := by
  unfold attachToRoot; cases hr : st.root <;> simp [hr]
@[simp] theorem attachToRoot_fix (st : St) (ns : Forest) : (attachToRoot st ns).fix = st.fix := by
  unfold attachToRoot; cases hr : st.root <;> simp [hr]
@[simp] theorem attachToRoot_stylesPart (st : St) (ns : Forest) : (attachToRoot st ns).stylesPart = st.stylesPart := by
  unfold attachToRoot; cases hr : st.root <;> simp [hr]
@[simp] theorem attachToRoot_parsing (st : St) (ns : Forest) : (attachToRoot st ns).parsing = st.parsing := by
  unfold attachToRoot; cases hr : st.root <;> simp [hr]
@[simp] theorem attachToRoot_data (st : St) (ns : Forest) : (attachToRoot st ns).data = st.data := by
  unfold attachToRoot; cases hr : st.root <;> simp [hr]
@[simp] theorem attachToRoot_currDet (st : St) (ns : Forest) : (attachToRoot st ns).currDet = st.currDet := by
  unfold attachToRoot; cases hr : st.root <;> simp [hr]
@[simp] theorem attachToRoot_depth (st : St) (ns : Forest) : (attachToRoot st ns).depth = st.depth := by
  unfold attachToRoot; cases hr : st.root <;> simp [hr]
@[simp] theorem attachToRoot_skip (st : St) (ns : Forest) : (attachToRoot st ns).skip = st.skip := by
  unfold attachToRoot; cases hr : st.root <;> simp [hr]
@[simp] theorem attachToRoot_fonts (st : St) (ns : Forest) : (attachToRoot st ns).fonts = st.fonts := by
  unfold attachToRoot; cases hr : st.root <;> simp [hr]

def appendKids (st : St) (ns : Forest) : St :=
  match st.spine with
  | f :: r => { st with spine := f.add ns :: r }
  | [] => attachToRoot st ns

def ParentOK (st : St) : Prop := st.spine ≠ [] ∨ st.root = .top ∨ st.root = .det ∨ ∃ s, st.root = .sec s

theorem addToParent_ok (st : St) (ns : Forest) (h : ParentOK st) : addToParent st ns = some (appendKids st ns) := by
  unfold addToParent appendKids attachToRoot
  cases hs : st.spine with
  | cons f r => rfl
  | nil =>
    rcases h with h | h | h | ⟨s, h⟩
    · exact absurd hs h
    all_goals simp [h]

/-- the state after the events of `f`, in closed form -/
def result (st : St) (f : Forest) : St :=
  { appendKids st (mergeK st.data f).1 with
      data := (mergeK st.data f).2
      names := st.names ++ regAllF (parentQ st) f
      currDet := st.currDet && !hasElemF f }

def flushP (st : St) : St :=
  if st.data.isEmpty then st else { appendKids st (.cons (.text st.data) .nil) with data := [] }

def openE (st : St) (q : QName) (a : List (QName × Str)) : St :=
  { st with depth := st.depth + 1, names := st.names ++ regOne (parentQ st) q a, spine := ⟨q, a, .nil⟩ :: st.spine,
            currDet := false }

theorem attachHook_fresh (names : List Str) (pq : Option QName) (q : QName) (a : List (QName × Str))
    (h : fresh names (regOne pq q a) = true) :
    attachHook names [] pq q a = (names ++ regOne pq q a, [], a) := by
  unfold attachHook
  cases pq with
  | none => simp [regOne]
  | some p =>
    simp only [regOne] at h ⊢
    by_cases hq : q = qStyle
    · cases hl : lookupA aStyleName a with
      | none => simp [hq, hl, lookupFix]; cases lookupA aTextStyleName a <;> simp
      | some nm =>
        by_cases hp : p = qStyles ∨ p = qAutoStyles
        · have hnm : nm ∉ names := by
            simp [hq, hl, hp, fresh] at h; exact h
          simp [hq, hl, hp, hnm, lookupFix]; cases lookupA aTextStyleName a <;> simp
        · simp [hq, hl, hp, lookupFix]; cases lookupA aTextStyleName a <;> simp
    · simp [hq, lookupFix]; cases lookupA aTextStyleName a <;> simp

@[simp] theorem parentQ_appendKids (st : St) (ns : Forest) : parentQ (appendKids st ns) = parentQ st := by
  unfold appendKids parentQ attachToRoot
  cases hs : st.spine with
  | cons f r => simp [Frame.add]
  | nil => cases hr : st.root <;> simp [hr, hs]

theorem parentOK_appendKids (st : St) (ns : Forest) (h : ParentOK st) : ParentOK (appendKids st ns) := by
  unfold appendKids attachToRoot ParentOK at *
  cases hs : st.spine with
  | cons f r => left; simp
  | nil =>
    rcases h with h | h | h | ⟨s, h⟩
    · exact absurd hs h
    all_goals simp [h, hs]

/-- an element that is not a section (it is not a child of the root element: `depth ≥ 2` before its start tag) and
    is not a repeated font declaration -/
theorem stepStart_inner (st : St) (q : QName) (a : List (QName × Str)) (hp : st.parsing = true) (hsk : st.skip = 0)
    (hd : 2 ≤ st.depth) (hok : ParentOK st) (hf : st.fix = []) (hnf : fontDeclared st q a = false)
    (hfr : fresh st.names (regOne (parentQ st) q a) = true) :
    stepStart st q a = some (openE (flushP st) q a) := by
  have hd2 : decide (st.depth + 1 = 2) = false := by simp; omega
  unfold stepStart
  simp only [hd2, Bool.false_and, Bool.false_eq_true, if_false, hp, Bool.not_true, hsk, hnf, bne_self_eq_false,
    Bool.or_self]
  by_cases hdt : st.data.isEmpty = true
  · simp only [hdt, if_true]
    have hfl : flushP st = st := by simp [flushP, hdt]
    rw [hfl]
    unfold ParentOK at hok
    cases hs : st.spine with
    | cons f r =>
      simp only [hs]
      rw [hf, attachHook_fresh _ _ _ _ (by simpa [parentQ, hs] using hfr)]
      simp [openE, hs, hp, hf, parentQ, hsk]
    | nil =>
      rcases hok with h | h | h | ⟨s, h⟩
      · exact absurd hs h
      all_goals
        simp only [hs, h]
        rw [hf, attachHook_fresh _ _ _ _ (by simpa [parentQ, hs, h] using hfr)]
        simp [openE, hs, hp, hf, parentQ, h, hsk]
  · simp only [hdt, Bool.false_eq_true, if_false, addToParent_ok st _ hok, Option.map_some]
    have hfl : flushP st = { appendKids st (.cons (.text st.data) .nil) with data := [] } := by simp [flushP, hdt]
    rw [hfl]
    unfold ParentOK at hok
    cases hs : st.spine with
    | cons f r =>
      simp only [appendKids, hs]
      rw [hf, attachHook_fresh _ _ _ _ (by simpa [parentQ, hs, Frame.add] using hfr)]
      simp [openE, hs, hp, hf, parentQ, Frame.add, hsk]
    | nil =>
      rcases hok with h | h | h | ⟨s, h⟩
      · exact absurd hs h
      all_goals
        simp only [appendKids, attachToRoot, hs, h]
        rw [hf, attachHook_fresh _ _ _ _ (by simpa [parentQ, hs, h] using hfr)]
        simp [openE, hs, hp, hf, parentQ, h, hsk]

def closeE (st : St) : St :=
  match st.spine with
  | f :: r => { appendKids { st with spine := r } (.cons f.close .nil) with depth := st.depth - 1, currDet := false }
  | [] => st

theorem stepStop_inner (st : St) (q : QName) (hp : st.parsing = true) (hsk : st.skip = 0) (hd : 3 ≤ st.depth)
    (hs : st.spine ≠ []) (hcd : st.currDet = false) :
    stepStop st q = some (closeE (flushP st)) := by
  have hd1 : decide (st.depth - 1 = 1) = false := by simp; omega
  unfold stepStop
  simp only [hp, Bool.not_true, Bool.false_eq_true, if_false, hsk, bne_self_eq_false, hd1, Bool.false_and]
  cases hsp : st.spine with
  | nil => exact absurd hsp hs
  | cons f r =>
    by_cases hdt : st.data.isEmpty = true
    · have hfl : flushP st = st := by simp [flushP, hdt]
      simp only [hdt, if_true, hfl, hsp, closeE]
      cases r with
      | nil => simp [appendKids, hp, hsk]
      | cons g r' => simp [appendKids, hp, hsk]
    · have hfl : flushP st = { appendKids st (.cons (.text st.data) .nil) with data := [] } := by simp [flushP, hdt]
      simp only [hdt, Bool.false_eq_true, if_false, addToCurr, hcd, addToParent, hsp, Option.map_some, hfl, closeE,
        appendKids]
      cases r with
      | nil => simp [appendKids, hp, hsk]
      | cons g r' => simp [appendKids, hp, hsk]

/-! #### algebra of `appendKids` -/

theorem Doc.app_nil (d : Doc) (s : Sec) : d.app s .nil = d := by
  cases s <;> simp [Doc.app, Doc.set, Doc.get]

theorem Doc.app_app (d : Doc) (s : Sec) (a b : Forest) : (d.app s a).app s b = d.app s (appF a b) := by
  cases s <;> simp [Doc.app, Doc.set, Doc.get, appF_assoc]

@[simp] theorem Doc.get_app_same (d : Doc) (s : Sec) (a : Forest) : (d.app s a).get s = appF (d.get s) a := by
  cases s <;> simp [Doc.app, Doc.set, Doc.get]

theorem Doc.get_app_other (d : Doc) (s s' : Sec) (a : Forest) (h : s' ≠ s) : (d.app s a).get s' = d.get s' := by
  cases s <;> cases s' <;> simp_all [Doc.app, Doc.set, Doc.get]

theorem appendKids_nil (st : St) : appendKids st .nil = st := by
  unfold appendKids attachToRoot
  cases hs : st.spine with
  | cons f r => cases st; simp_all [Frame.add]
  | nil => cases hr : st.root <;> cases st <;> simp_all [Doc.app_nil]

theorem appendKids_appendKids (st : St) (a b : Forest) :
    appendKids (appendKids st a) b = appendKids st (appF a b) := by
  unfold appendKids attachToRoot
  cases hs : st.spine with
  | cons f r => simp [Frame.add, appF_assoc]
  | nil => cases hr : st.root <;> simp [hs, hr, Doc.app_app]

theorem isEmpty_eq_nil {l : Str} (h : l.isEmpty = true) : l = [] := by cases l <;> simp_all

theorem flushP_eq (st : St) : flushP st = { appendKids st (flushT st.data .nil) with data := [] } := by
  unfold flushP flushT
  by_cases h : st.data.isEmpty = true
  · have := isEmpty_eq_nil h
    simp only [h, if_true, appendKids_nil]
    cases st; simp_all
  · simp [h]

theorem fresh_append (names a b : List Str) : fresh names (a ++ b) = (fresh names a && fresh (names ++ a) b) := by
  induction a generalizing names with
  | nil => simp [fresh]
  | cons n r ih => simp [fresh, ih, Bool.and_assoc, List.append_assoc]

/-- what one element contributes: from `st`, the events `start q a`, those of `kids`, `stop q` -/
def afterElem (st : St) (q : QName) (a : List (QName × Str)) (kids : Forest) : St :=
  { appendKids st (flushT st.data (.cons (.elem q a (mergeTF [] kids)) .nil)) with
      data := []
      names := st.names ++ regN (parentQ st) (.elem q a kids)
      currDet := false }

theorem parentQ_openE (st : St) (q : QName) (a : List (QName × Str)) :
    parentQ (openE st q a) = (parentQ st).map (fun _ => q) := by
  unfold parentQ openE
  cases st.root <;> simp

theorem elem_closed (st : St) (q : QName) (a : List (QName × Str)) (kids : Forest) :
    closeE (flushP (result (openE (flushP st) q a) kids)) = afterElem st q a kids := by
  rw [flushP_eq (result _ _)]
  have hq : parentQ (openE (flushP st) q a) = (parentQ st).map (fun _ => q) := by
    rw [parentQ_openE, flushP_eq]; have := parentQ_appendKids st (flushT st.data .nil); simpa [parentQ] using congrArg _ this
  simp only [result, hq]
  rw [flushP_eq st]
  have hm := mergeTF_eq [] kids
  obtain ⟨doc, names, fix, sp, parsing, data, root, spine, depth, skip, fonts, currDet⟩ := st
  cases spine with
  | cons f r =>
    simp [openE, appendKids, closeE, afterElem, parentQ, Frame.add, Frame.close, hm, appF_assoc, appF_flushT, regN,
      List.append_assoc]
  | nil =>
    cases root <;>
      simp [openE, appendKids, closeE, afterElem, parentQ, Frame.add, Frame.close, hm, appF_flushT, docAfter, Doc.app_app,
        regN, List.append_assoc]

theorem result_nil (st : St) : result st .nil = st := by
  simp only [result, mergeK, regAllF, hasElemF, appendKids_nil, List.append_nil]
  cases st; simp

theorem result_text (st : St) (s : Str) (t : Forest) :
    result { st with data := st.data ++ s } t = result st (.cons (.text s) t) := by
  obtain ⟨doc, names, fix, sp, parsing, data, root, spine, depth, skip, fonts, currDet⟩ := st
  cases spine with
  | cons f r => simp [result, mergeK, regAllF, regN, hasElemF, appendKids, parentQ]
  | nil => cases root <;> simp [result, mergeK, regAllF, regN, hasElemF, appendKids, parentQ, attachToRoot]

theorem result_cdata (st : St) (s : Str) (t : Forest) :
    result { st with data := st.data ++ s } t = result st (.cons (.cdata s) t) := by
  obtain ⟨doc, names, fix, sp, parsing, data, root, spine, depth, skip, fonts, currDet⟩ := st
  cases spine with
  | cons f r => simp [result, mergeK, regAllF, regN, hasElemF, appendKids, parentQ]
  | nil => cases root <;> simp [result, mergeK, regAllF, regN, hasElemF, appendKids, parentQ, attachToRoot]

theorem result_elem (st : St) (q : QName) (a : List (QName × Str)) (kids t : Forest) :
    result (afterElem st q a kids) t = result st (.cons (.elem q a kids) t) := by
  obtain ⟨doc, names, fix, sp, parsing, data, root, spine, depth, skip, fonts, currDet⟩ := st
  cases spine with
  | cons f r =>
    simp [result, afterElem, mergeK, regAllF, hasElemF, appendKids, parentQ, Frame.add, appF_assoc, appF_flushT,
      List.append_assoc]
  | nil =>
    cases root <;>
      simp [result, afterElem, mergeK, regAllF, hasElemF, appendKids, parentQ, attachToRoot, appF_flushT, Doc.app_app,
        List.append_assoc]

/-! #### invariants of the helper states -/

theorem appendKids_fields (st : St) (ns : Forest) :
    (appendKids st ns).parsing = st.parsing ∧ (appendKids st ns).fix = st.fix ∧ (appendKids st ns).names = st.names ∧
    (appendKids st ns).data = st.data ∧ (appendKids st ns).currDet = st.currDet ∧
    (appendKids st ns).stylesPart = st.stylesPart ∧ (appendKids st ns).root = st.root ∧
    ((appendKids st ns).spine = [] ↔ st.spine = []) ∧ (appendKids st ns).depth = st.depth ∧
    (appendKids st ns).skip = st.skip ∧ (appendKids st ns).fonts = st.fonts := by
  unfold appendKids; cases hs : st.spine <;> simp [hs]

theorem flushP_fields (st : St) :
    (flushP st).parsing = st.parsing ∧ (flushP st).fix = st.fix ∧ (flushP st).names = st.names ∧
    (flushP st).depth = st.depth ∧ (flushP st).skip = st.skip ∧ ((flushP st).spine = [] ↔ st.spine = []) ∧
    (flushP st).root = st.root := by
  rw [flushP_eq]
  have := appendKids_fields st (flushT st.data .nil)
  simp [this.1, this.2.1, this.2.2.1, this.2.2.2.2.2.2.1, this.2.2.2.2.2.2.2.1, this.2.2.2.2.2.2.2.2.1,
    this.2.2.2.2.2.2.2.2.2.1]

theorem flushP_parentQ (st : St) : parentQ (flushP st) = parentQ st := by
  rw [flushP_eq]
  have := parentQ_appendKids st (flushT st.data .nil)
  simpa [parentQ] using this
theorem flushP_parentOK (st : St) (h : ParentOK st) : ParentOK (flushP st) := by
  rw [flushP_eq]
  have := parentOK_appendKids st (flushT st.data .nil) h
  simpa [ParentOK] using this

theorem afterElem_parentQ (st : St) (q : QName) (a : List (QName × Str)) (kids : Forest) :
    parentQ (afterElem st q a kids) = parentQ st := by
  have := parentQ_appendKids st (flushT st.data (.cons (.elem q a (mergeTF [] kids)) .nil))
  simpa [afterElem, parentQ] using this

theorem afterElem_parentOK (st : St) (q : QName) (a : List (QName × Str)) (kids : Forest) (h : ParentOK st) :
    ParentOK (afterElem st q a kids) := by
  have := parentOK_appendKids st (flushT st.data (.cons (.elem q a (mergeTF [] kids)) .nil)) h
  simpa [afterElem, ParentOK] using this

/-- inside a skipped font declaration nothing happens -/
theorem run_skipping : (f : Forest) → (st : St) → st.parsing = true → st.skip ≠ 0 → run st (evF f) = some st
  | .nil, st, _, _ => rfl
  | .cons (.text s) t, st, hp, hk => by
    simp only [evF, evN, List.cons_append, List.nil_append, run_cons, step, Option.bind_some]
    have : stepChars st s = st := by simp [stepChars, hk]
    rw [this]; exact run_skipping t st hp hk
  | .cons (.cdata s) t, st, hp, hk => by
    simp only [evF, evN, List.cons_append, List.nil_append, run_cons, step, Option.bind_some]
    have : stepChars st s = st := by simp [stepChars, hk]
    rw [this]; exact run_skipping t st hp hk
  | .cons (.elem q a kids) t, st, hp, hk => by
    obtain ⟨st', hst'⟩ : ∃ s : St, s = { st with depth := st.depth + 1, skip := st.skip + 1 } := ⟨_, rfl⟩
    have hstart : stepStart st q a = some st' := by
      subst hst'; unfold stepStart; simp [hp, hk]
    have hstop : stepStop st' q = some st := by
      subst hst'; unfold stepStop; simp [hp]; cases st; simp_all
    have hp' : st'.parsing = true := by subst hst'; exact hp
    have hk' : st'.skip ≠ 0 := by subst hst'; simp
    simp only [evF, evN, List.cons_append, List.append_assoc, run_cons, step, hstart, Option.bind_some]
    rw [run_append, run_skipping kids st' hp' hk']
    simp only [Option.bind_some, List.cons_append, List.nil_append, run_cons, step, hstop]
    exact run_skipping t st hp hk

/-- **a font declaration whose name is declared already is skipped with its subtree** (repair b40b9f8): the state
    after it is the state before it -/
theorem run_skip (st : St) (q : QName) (a : List (QName × Str)) (kids : Forest) (hp : st.parsing = true)
    (hsk : st.skip = 0) (hfd : fontDeclared st q a = true) : run st (evN (.elem q a kids)) = some st := by
  obtain ⟨st', hst'⟩ : ∃ s : St, s = { st with depth := st.depth + 1, skip := 1 } := ⟨_, rfl⟩
  have hstart : stepStart st q a = some st' := by
    subst hst'; unfold stepStart; simp [hp, hsk, hfd]
  have hstop : stepStop st' q = some st := by
    subst hst'; unfold stepStop; simp [hp]; cases st; simp_all
  have hp' : st'.parsing = true := by subst hst'; exact hp
  have hk' : st'.skip ≠ 0 := by subst hst'; simp
  simp only [evN, run_cons, step, hstart, Option.bind_some]
  rw [run_append, run_skipping kids st' hp' hk']
  simp [run_cons, step, hstop]

theorem fontDeclared_inner (st : St) (q : QName) (a : List (QName × Str)) (h : st.spine ≠ [] ∨ st.root ≠ .sec .fontFace) :
    fontDeclared st q a = false := by
  unfold fontDeclared
  rcases h with h | h
  · cases hs : st.spine with
    | nil => exact absurd hs h
    | cons f r => simp
  · simp [h]

mutual
/-- **one element** that is not a child of the root element and not a repeated font declaration: LoadParser attaches
    it, with its attributes and the merged content, to the parent — whatever its name is (a nested office:body, office:styles
    … is ordinary content since repair e0e65e8) -/
theorem run_elem : (q : QName) → (a : List (QName × Str)) → (kids : Forest) → (st : St) → st.parsing = true →
    st.skip = 0 → 2 ≤ st.depth → ParentOK st → st.fix = [] → fontDeclared st q a = false →
    fresh st.names (regN (parentQ st) (.elem q a kids)) = true →
    run st (evN (.elem q a kids)) = some (afterElem st q a kids)
  | q, a, kids, st, hp, hsk, hd, hok, hf, hnf, hfr => by
    have hfr' : fresh st.names (regOne (parentQ st) q a) = true ∧
        fresh (st.names ++ regOne (parentQ st) q a) (regAllF ((parentQ st).map (fun _ => q)) kids) = true := by
      simpa [regN, fresh_append] using hfr
    simp only [evN, run_cons, step]
    rw [stepStart_inner st q a hp hsk hd hok hf hnf hfr'.1]
    simp only [Option.bind_some]
    let st1 := openE (flushP st) q a
    have ff := flushP_fields st
    have h1p : st1.parsing = true := by simp [st1, openE, ff.1, hp]
    have h1k : st1.skip = 0 := by simp [st1, openE, ff.2.2.2.2.1, hsk]
    have h1d : 3 ≤ st1.depth := by simp [st1, openE, ff.2.2.2.1]; omega
    have h1ok : ParentOK st1 := by left; simp [st1, openE]
    have h1f : st1.fix = [] := by simp [st1, openE, ff.2.1, hf]
    have h1q : parentQ st1 = (parentQ st).map (fun _ => q) := by
      simp only [st1]; rw [parentQ_openE, flushP_parentQ]
    have ihk := run_forest kids st1 h1p h1k (by omega) h1ok h1f (Or.inl (by simp [st1, openE]))
      (by rw [h1q]; simpa [st1, openE, ff.2.2.1, flushP_parentQ] using hfr'.2)
    rw [run_append, ihk]
    simp only [Option.bind_some, run_cons, run_nil]
    have hres := appendKids_fields st1 (mergeK st1.data kids).1
    have h3p : (result st1 kids).parsing = true := by simp [result, hres.1, h1p]
    have h3k : (result st1 kids).skip = 0 := by simp [result, hres.2.2.2.2.2.2.2.2.2.1, h1k]
    have h3d : 3 ≤ (result st1 kids).depth := by simp [result, hres.2.2.2.2.2.2.2.2.1]; exact h1d
    have h3s : (result st1 kids).spine ≠ [] := by
      simp only [result]; intro h; have := hres.2.2.2.2.2.2.2.1.mp h; simp [st1, openE] at this
    have h3c : (result st1 kids).currDet = false := by simp [result, st1, openE]
    rw [step, stepStop_inner _ q h3p h3k h3d h3s h3c]
    simp only [Option.bind_some]
    rw [elem_closed st q a kids]
/-- **the tree builder, inside a section**: the events of ANY forest append exactly `mergeK` of the forest to the
    parent and leave the trailing character data pending (`NotFontTop`: not directly under office:font-face-decls,
    where repeated font declarations are skipped — `run_fontTop`). -/
theorem run_forest : (f : Forest) → (st : St) → st.parsing = true → st.skip = 0 → 2 ≤ st.depth → ParentOK st →
    st.fix = [] → (st.spine ≠ [] ∨ st.root ≠ .sec .fontFace) → fresh st.names (regAllF (parentQ st) f) = true →
    run st (evF f) = some (result st f)
  | .nil, st, _, _, _, _, _, _, _ => by simp [evF, result_nil]
  | .cons (.text s) t, st, hp, hsk, hd, hok, hf, hnt, hfr => by
    simp only [evF, evN, List.cons_append, List.nil_append, run_cons, step, Option.bind_some]
    have hst : stepChars st s = { st with data := st.data ++ s } := by simp [stepChars, hp, hsk]
    rw [hst, ← result_text]
    exact run_forest t _ hp hsk hd (by simpa [ParentOK] using hok) hf hnt (by simpa [regAllF, regN, parentQ] using hfr)
  | .cons (.cdata s) t, st, hp, hsk, hd, hok, hf, hnt, hfr => by
    simp only [evF, evN, List.cons_append, List.nil_append, run_cons, step, Option.bind_some]
    have hst : stepChars st s = { st with data := st.data ++ s } := by simp [stepChars, hp, hsk]
    rw [hst, ← result_cdata]
    exact run_forest t _ hp hsk hd (by simpa [ParentOK] using hok) hf hnt (by simpa [regAllF, regN, parentQ] using hfr)
  | .cons (.elem q a kids) t, st, hp, hsk, hd, hok, hf, hnt, hfr => by
    have hfr' : fresh st.names (regN (parentQ st) (.elem q a kids)) = true ∧
        fresh (st.names ++ regN (parentQ st) (.elem q a kids)) (regAllF (parentQ st) t) = true := by
      simpa [regAllF, fresh_append] using hfr
    simp only [evF]
    rw [run_append, run_elem q a kids st hp hsk hd hok hf (fontDeclared_inner st q a hnt) hfr'.1]
    simp only [Option.bind_some]
    rw [← result_elem]
    have af := appendKids_fields st (flushT st.data (.cons (.elem q a (mergeTF [] kids)) .nil))
    refine run_forest t _ ?_ ?_ ?_ (afterElem_parentOK st q a kids hok) ?_ ?_ ?_
    · simp [afterElem, af.1, hp]
    · simp [afterElem, af.2.2.2.2.2.2.2.2.2.1, hsk]
    · simp [afterElem, af.2.2.2.2.2.2.2.2.1]; exact hd
    · simp [afterElem, af.2.1, hf]
    · rcases hnt with h | h
      · left; simp only [afterElem]; intro e; exact h (af.2.2.2.2.2.2.2.1.mp e)
      · right; simp [afterElem, af.2.2.2.2.2.2.1]; exact h
    · rw [afterElem_parentQ]; simpa [afterElem] using hfr'.2
end

/-! ### office:font-face-decls: fonts a part read earlier has declared are not declared again -/

/-- what is kept of the content of an office:font-face-decls element when `decl` are the style:name values declared
    by the parts read before: a style:font-face whose name is among them is dropped with its subtree, every other node
    is kept — repeats inside the part included -/
def fontDrop (decl : List (Option Str)) : Forest → Forest
  | .nil => .nil
  | .cons (.elem q a k) t =>
    if q = qFontFaceEl ∧ decl.contains (lookupA aStyleName a) = true then fontDrop decl t
    else .cons (.elem q a k) (fontDrop decl t)
  | .cons (.text s) t => .cons (.text s) (fontDrop decl t)
  | .cons (.cdata s) t => .cons (.cdata s) (fontDrop decl t)

theorem fontDrop_nil_decl : (f : Forest) → fontDrop [] f = f
  | .nil => rfl
  | .cons (.text _) t => by simp [fontDrop, fontDrop_nil_decl t]
  | .cons (.cdata _) t => by simp [fontDrop, fontDrop_nil_decl t]
  | .cons (.elem _ _ _) t => by simp [fontDrop, fontDrop_nil_decl t]

theorem declaredNames_appF : (x y : Forest) → declaredNames (appF x y) = declaredNames x ++ declaredNames y
  | .nil, _ => rfl
  | .cons (.text _) t, y => by simpa [declaredNames] using declaredNames_appF t y
  | .cons (.cdata _) t, y => by simpa [declaredNames] using declaredNames_appF t y
  | .cons (.elem _ _ _) t, y => by simp [declaredNames, declaredNames_appF t y]

theorem declaredNames_flushT (acc : Str) (f : Forest) : declaredNames (flushT acc f) = declaredNames f := by
  unfold flushT; split <;> simp [declaredNames]

/-- directly under office:font-face-decls: the events of `f` have the effect of the events of what `fontDrop` keeps -/
theorem run_fontTop : (f : Forest) → (st : St) → st.parsing = true → st.skip = 0 → 2 ≤ st.depth → st.spine = [] →
    st.root = .sec .fontFace → st.fix = [] →
    fresh st.names (regAllF (parentQ st) (fontDrop st.fonts f)) = true →
    run st (evF f) = some (result st (fontDrop st.fonts f))
  | .nil, st, _, _, _, _, _, _, _ => by simp [evF, fontDrop, result_nil]
  | .cons (.text s) t, st, hp, hsk, hd, hs, hr, hf, hfr => by
    simp only [evF, evN, List.cons_append, List.nil_append, run_cons, step, Option.bind_some]
    have hst : stepChars st s = { st with data := st.data ++ s } := by simp [stepChars, hp, hsk]
    rw [hst]
    simp only [fontDrop]
    rw [← result_text]
    exact run_fontTop t _ hp hsk hd hs hr hf (by simpa [fontDrop, regAllF, regN, parentQ] using hfr)
  | .cons (.cdata s) t, st, hp, hsk, hd, hs, hr, hf, hfr => by
    simp only [evF, evN, List.cons_append, List.nil_append, run_cons, step, Option.bind_some]
    have hst : stepChars st s = { st with data := st.data ++ s } := by simp [stepChars, hp, hsk]
    rw [hst]
    simp only [fontDrop]
    rw [← result_cdata]
    exact run_fontTop t _ hp hsk hd hs hr hf (by simpa [fontDrop, regAllF, regN, parentQ] using hfr)
  | .cons (.elem q a kids) t, st, hp, hsk, hd, hs, hr, hf, hfr => by
    simp only [evF]
    rw [run_append]
    by_cases hc : q = qFontFaceEl ∧ st.fonts.contains (lookupA aStyleName a) = true
    · have hfd : fontDeclared st q a = true := by
        simp [fontDeclared, hc.1, hs, hr]; simpa using hc.2
      rw [run_skip st q a kids hp hsk hfd]
      simp only [Option.bind_some, fontDrop, hc, and_self, if_true] at hfr ⊢
      exact run_fontTop t st hp hsk hd hs hr hf hfr
    · have hnf : fontDeclared st q a = false := by
        unfold fontDeclared
        by_cases h1 : q = qFontFaceEl
        · have h2 : st.fonts.contains (lookupA aStyleName a) = false := by
            cases h : st.fonts.contains (lookupA aStyleName a) with
            | false => rfl
            | true => exact absurd ⟨h1, h⟩ hc
          have h2' : lookupA aStyleName a ∉ st.fonts := by simpa using h2
          simp [h2']
        · simp [h1]
      have hok : ParentOK st := Or.inr (Or.inr (Or.inr ⟨_, hr⟩))
      simp only [fontDrop, hc, if_false] at hfr ⊢
      have hfr' : fresh st.names (regN (parentQ st) (.elem q a kids)) = true ∧
          fresh (st.names ++ regN (parentQ st) (.elem q a kids)) (regAllF (parentQ st) (fontDrop st.fonts t)) = true := by
        simpa [regAllF, fresh_append] using hfr
      rw [run_elem q a kids st hp hsk hd hok hf hnf hfr'.1]
      simp only [Option.bind_some]
      rw [← result_elem]
      have af := appendKids_fields st (flushT st.data (.cons (.elem q a (mergeTF [] kids)) .nil))
      have hfo : (afterElem st q a kids).fonts = st.fonts := by simp [afterElem, af.2.2.2.2.2.2.2.2.2.2]
      rw [← hfo]
      refine run_fontTop t _ ?_ ?_ ?_ ?_ ?_ ?_ ?_
      · simp [afterElem, af.1, hp]
      · simp [afterElem, af.2.2.2.2.2.2.2.2.2.1, hsk]
      · simp [afterElem, af.2.2.2.2.2.2.2.2.1]; exact hd
      · simp only [afterElem]; exact af.2.2.2.2.2.2.2.1.mpr hs
      · simp [afterElem, af.2.2.2.2.2.2.1, hr]
      · simp [afterElem, af.2.1, hf]
      · rw [afterElem_parentQ, hfo]; simpa [afterElem] using hfr'.2

/-! ### sections: routing, and what is ignored -/

/-- **C04 (routing)**: the document attribute a start tag is routed to — when the element is a child of the root
    element.  Since repair b40b9f8 office:font-face-decls is taken from every part (a font name is declared once),
    like the other seven section elements. -/
theorem routing_table :
    secOfTrigger qFontFace = some .fontFace ∧ secOfTrigger qAutoStyles = some .autoStyles ∧
    secOfTrigger qBody = some .body ∧ secOfTrigger qMaster = some .master ∧ secOfTrigger qMeta = some .metaS ∧
    secOfTrigger qScripts = some .scripts ∧ secOfTrigger qSettings = some .settings ∧
    secOfTrigger qStyles = some .styles := by decide

/-- while the parser is switched off, everything below the children of the root element is skipped — whatever it is
    called (only a child of the root element can be a section) -/
theorem run_ignored : (f : Forest) → (st : St) → st.parsing = false → 2 ≤ st.depth → run st (evF f) = some st
  | .nil, st, _, _ => rfl
  | .cons (.text s) t, st, hp, hd => by
    simp only [evF, evN, List.cons_append, List.nil_append, run_cons, step, Option.bind_some]
    have : stepChars st s = st := by simp [stepChars, hp]
    rw [this]; exact run_ignored t st hp hd
  | .cons (.cdata s) t, st, hp, hd => by
    simp only [evF, evN, List.cons_append, List.nil_append, run_cons, step, Option.bind_some]
    have : stepChars st s = st := by simp [stepChars, hp]
    rw [this]; exact run_ignored t st hp hd
  | .cons (.elem q a kids) t, st, hp, hd => by
    obtain ⟨st', hst'⟩ : ∃ s : St, s = { st with depth := st.depth + 1 } := ⟨_, rfl⟩
    have hd2 : decide (st.depth + 1 = 2) = false := by simp; omega
    have hstart : stepStart st q a = some st' := by subst hst'; unfold stepStart; simp [hd2, hp]
    have hstop : stepStop st' q = some st := by subst hst'; unfold stepStop; simp [hp]; cases st; simp_all
    have hp' : st'.parsing = false := by subst hst'; exact hp
    have hd' : 2 ≤ st'.depth := by subst hst'; simp; omega
    simp only [evF, evN, List.cons_append, List.append_assoc, run_cons, step, hstart, Option.bind_some]
    rw [run_append, run_ignored kids st' hp' hd']
    simp only [Option.bind_some, List.cons_append, List.nil_append, run_cons, step, hstop]
    exact run_ignored t st hp hd

/-- the children a section receives from a section element with content `f`: the merged content — unless `f` has no
    element child at all, in which case its character data is lost with the element LoadParser built and dropped -/
def secContent (f : Forest) : Forest := if hasElemF f then mergeTF [] f else .nil

/-- between the sections: parser off, nothing pending, at the root element -/
def Idle (st : St) : Prop :=
  st.parsing = false ∧ st.data = [] ∧ st.spine = [] ∧ st.currDet = false ∧ st.skip = 0 ∧ st.depth = 1

/-- the part of a section's content that is loaded: everything, except — under office:font-face-decls — font
    declarations whose name was declared before the section started (by a part read earlier) -/
def keepS (d : Doc) (s : Sec) (kids : Forest) : Forest :=
  match s with
  | .fontFace => fontDrop (declaredNames d.fontFace) kids
  | _ => kids

/-- the state after a whole section element -/
def afterSection (st : St) (s : Sec) (a : List (QName × Str)) (kids : Forest) : St :=
  { st with doc := (st.doc.putAttrs s a).app s (secContent (keepS st.doc s kids))
            names := st.names ++ regAllF (some (qOfSec s)) (keepS st.doc s kids)
            root := if hasElemF (keepS st.doc s kids) then .top else .none
            fonts := if s = .fontFace then declaredNames st.doc.fontFace else st.fonts }

theorem settle_nil (st : St) (h : st.spine = []) : settle st = st := by simp [settle, h, collapse]

/-- **C04 (one section)**: a section element — a child of the root element — met while the parser is idle puts
    `secContent` of its content (under office:font-face-decls: of what `fontKeep` keeps) into the section it is routed
    to, puts its attributes `a` on the section object (`Doc.putAttrs`: later values overwrite), registers the style
    names, and leaves the parser idle again.  No hypothesis on the names of the elements inside. -/
theorem run_section (st : St) (q : QName) (a : List (QName × Str)) (kids : Forest) (s : Sec)
    (hi : Idle st) (hf : st.fix = []) (hsec : secOfTrigger q = some s)
    (hfr : fresh st.names (regAllF (some (qOfSec s)) (keepS st.doc s kids)) = true) :
    run st (evN (.elem q a kids)) = some (afterSection st s a kids) := by
  have htr : isTrigger q = true := by simp [isTrigger, hsec]
  obtain ⟨hp, hd, hsp, hcd, hsk, hdp⟩ := hi
  have hqf : q ≠ qFontFaceEl := by
    intro e
    have hn : secOfTrigger qFontFaceEl = none := by decide
    rw [e, hn] at hsec; cases hsec
  have hnf : fontDeclared st q a = false := by simp [fontDeclared, hqf]
  -- the start tag
  have hqs : (q = qFontFace) ↔ (s = .fontFace) := by
    constructor
    · intro e
      have hn : secOfTrigger qFontFace = some .fontFace := by decide
      rw [e, hn] at hsec; exact (Option.some.inj hsec).symm
    · intro e
      rw [e] at hsec
      unfold secOfTrigger at hsec
      split at hsec
      · cases hsec
      split at hsec
      · cases hsec
      split at hsec
      · assumption
      split at hsec
      · cases hsec
      split at hsec
      · cases hsec
      split at hsec
      · cases hsec
      split at hsec
      · cases hsec
      split at hsec
      · cases hsec
      · cases hsec
  obtain ⟨st1, hst1⟩ : ∃ x : St, x = { st with doc := st.doc.putAttrs s a, depth := 2, parsing := true, root := Root.sec s, spine := [], currDet := true, fonts := if s = .fontFace then declaredNames st.doc.fontFace else st.fonts } :=
    ⟨_, rfl⟩
  have hstart : stepStart st q a = some st1 := by
    subst hst1
    unfold stepStart
    simp only [hdp, htr, hsk, hnf, hd, hsec]
    by_cases hs : s = .fontFace
    · simp [settle, collapse, hsp, hd, hs, hqs.mpr hs]
    · have hq : q ≠ qFontFace := fun e => hs (hqs.mp e)
      simp [settle, collapse, hsp, hd, hs, hq]
  have h1q : parentQ st1 = some (qOfSec s) := by subst hst1; simp [parentQ]
  have h1ff : st1.doc.fontFace = st.doc.fontFace := by subst hst1; rfl
  have h1n : st1.names = st.names := by subst hst1; rfl
  have h1p : st1.parsing = true := by subst hst1; rfl
  have h1k : st1.skip = 0 := by subst hst1; exact hsk
  have h1d : (2 : Int) ≤ st1.depth := by subst hst1; simp
  have h1f : st1.fix = [] := by subst hst1; exact hf
  have h1s : st1.spine = [] := by subst hst1; rfl
  have h1r : st1.root = .sec s := by subst hst1; rfl
  have ihk : run st1 (evF kids) = some (result st1 (keepS st.doc s kids)) := by
    by_cases hs : s = .fontFace
    · subst hs
      have h1fo : st1.fonts = declaredNames st.doc.fontFace := by subst hst1; simp
      have := run_fontTop kids st1 h1p h1k h1d h1s h1r h1f (by rw [h1q, h1fo, h1n]; simpa [keepS] using hfr)
      simpa [keepS, h1fo] using this
    · have hk : keepS st.doc s kids = kids := by cases s <;> first | rfl | exact absurd rfl hs
      rw [hk] at hfr ⊢
      exact run_forest kids st1 h1p h1k h1d (Or.inr (Or.inr (Or.inr ⟨s, h1r⟩))) h1f
        (Or.inr (by rw [h1r]; intro e; exact hs (Root.sec.inj e))) (by rw [h1q, h1n]; exact hfr)
  simp only [evN, run_cons, step, hstart, Option.bind_some]
  rw [run_append, ihk]
  simp only [Option.bind_some, run_cons, run_nil, step]
  -- the end tag
  simp only [afterSection]
  generalize keepS st.doc s kids = K
  have hK := mergeTF_eq [] K
  subst hst1
  obtain ⟨doc, names, fix, stp, parsing, data, root, spine, depth, skip, fonts, currDet⟩ := st
  simp only at hp hd hsp hcd hf hsk hdp
  subst hp hd hsp hcd hf hsk hdp
  by_cases he : hasElemF K = true
  · by_cases hk2 : (mergeK [] K).2.isEmpty = true
    · have hk2' := isEmpty_eq_nil hk2
      simp [stepStop, result, appendKids, attachToRoot, parentQ, he, hk2', htr, secContent, hK, flushT]
    · simp [stepStop, result, appendKids, attachToRoot, parentQ, he, hk2, htr, secContent, hK, flushT,
        addToCurr, addToParent, Doc.app_app]
  · have he' : hasElemF K = false := by simpa using he
    have hk1 := mergeK_noElem [] K he'
    by_cases hk2 : (mergeK [] K).2.isEmpty = true
    · have hk2' := isEmpty_eq_nil hk2
      simp [stepStop, result, appendKids, attachToRoot, parentQ, he', hk2', htr, secContent, hk1,
        Doc.app_nil]
    · simp [stepStop, result, appendKids, attachToRoot, parentQ, he', hk2, htr, secContent, hk1,
        Doc.app_nil, addToCurr]

/-! ### a whole part -/

/-- what one routed section element contributes to the document -/
def stepSec (l : Loaded) (s : Sec) (a : List (QName × Str)) (kids : Forest) : Loaded :=
  ⟨(l.doc.putAttrs s a).app s (secContent (keepS l.doc s kids)),
   l.names ++ regAllF (some (qOfSec s)) (keepS l.doc s kids), l.fix⟩

/-- the only requirement on a part: the style:style names it registers (direct children of office:styles /
    office:automatic-styles elements, wherever they occur) are fresh — no rename by `__register_stylename` (C11) -/
def partKidsOK (l : Loaded) : Forest → Bool
  | .nil => true
  | .cons (.text _) t => partKidsOK l t
  | .cons (.cdata _) t => partKidsOK l t
  | .cons (.elem q a kids) t =>
    match secOfTrigger q with
    | some s => fresh l.names (regAllF (some (qOfSec s)) (keepS l.doc s kids)) && partKidsOK (stepSec l s a kids) t
    | none => partKidsOK l t

/-- **what a part contributes to the document** (closed form): every child of the root element that is a section
    element appends `secContent` of its (kept) content to its section and puts its attributes on the section object;
    every other child of the root element is skipped -/
def loadKids (l : Loaded) : Forest → Loaded
  | .nil => l
  | .cons (.text _) t => loadKids l t
  | .cons (.cdata _) t => loadKids l t
  | .cons (.elem q a kids) t =>
    match secOfTrigger q with
    | some s => loadKids (stepSec l s a kids) t
    | none => loadKids l t

def afterKids (st : St) : Forest → St
  | .nil => st
  | .cons (.text _) t => afterKids st t
  | .cons (.cdata _) t => afterKids st t
  | .cons (.elem q a kids) t =>
    match secOfTrigger q with
    | some s => afterKids (afterSection st s a kids) t
    | none => afterKids st t

theorem afterSection_idle (st : St) (s : Sec) (a : List (QName × Str)) (kids : Forest) (h : Idle st) :
    Idle (afterSection st s a kids) := by
  simpa [Idle, afterSection] using h

theorem run_skip_elem (st : St) (q : QName) (a : List (QName × Str)) (kids : Forest) (hp : st.parsing = false)
    (hd : st.depth = 1) (hr : secOfTrigger q = none) : run st (evN (.elem q a kids)) = some st := by
  have hq : isTrigger q = false := by simp [isTrigger, hr]
  obtain ⟨st', hst'⟩ : ∃ s : St, s = { st with depth := 2 } := ⟨_, rfl⟩
  have hstart : stepStart st q a = some st' := by subst hst'; unfold stepStart; simp [hq, hp, hd]
  have hstop : stepStop st' q = some st := by
    subst hst'; unfold stepStop; simp [hp]; cases st; simp_all
  have hp' : st'.parsing = false := by subst hst'; exact hp
  have hd' : (2 : Int) ≤ st'.depth := by subst hst'; simp
  simp only [evN, run_cons, step, hstart, Option.bind_some]
  rw [run_append, run_ignored kids st' hp' hd']
  simp [run_cons, step, hstop]

theorem run_partKids : (f : Forest) → (st : St) → Idle st → st.fix = [] →
    partKidsOK ⟨st.doc, st.names, st.fix⟩ f = true → run st (evF f) = some (afterKids st f)
  | .nil, st, _, _, _ => rfl
  | .cons (.text s) t, st, hi, hf, hok => by
    simp only [evF, evN, List.cons_append, List.nil_append, run_cons, step, Option.bind_some]
    have : stepChars st s = st := by simp [stepChars, hi.1]
    rw [this]; exact run_partKids t st hi hf (by simpa [partKidsOK] using hok)
  | .cons (.cdata s) t, st, hi, hf, hok => by
    simp only [evF, evN, List.cons_append, List.nil_append, run_cons, step, Option.bind_some]
    have : stepChars st s = st := by simp [stepChars, hi.1]
    rw [this]; exact run_partKids t st hi hf (by simpa [partKidsOK] using hok)
  | .cons (.elem q a kids) t, st, hi, hf, hok => by
    simp only [evF]
    rw [run_append]
    cases hr : secOfTrigger q with
    | some s =>
      simp only [partKidsOK, hr, Bool.and_eq_true] at hok
      rw [run_section st q a kids s hi hf hr hok.1]
      simp only [Option.bind_some, afterKids, hr]
      exact run_partKids t _ (afterSection_idle st s a kids hi) (by simpa [afterSection] using hf)
        (by simpa [afterSection, stepSec] using hok.2)
    | none =>
      simp only [partKidsOK, hr] at hok
      rw [run_skip_elem st q a kids hi.1 hi.2.2.2.2.2 hr]
      simp only [Option.bind_some, afterKids, hr]
      exact run_partKids t st hi hf hok

theorem afterKids_loaded : (f : Forest) → (st : St) →
    (⟨(afterKids st f).doc, (afterKids st f).names, (afterKids st f).fix⟩ : Loaded) =
      loadKids ⟨st.doc, st.names, st.fix⟩ f ∧ (afterKids st f).spine = st.spine ∧
      (afterKids st f).parsing = st.parsing ∧ (afterKids st f).depth = st.depth
  | .nil, st => ⟨rfl, rfl, rfl, rfl⟩
  | .cons (.text _) t, st => by simpa [afterKids, loadKids] using afterKids_loaded t st
  | .cons (.cdata _) t, st => by simpa [afterKids, loadKids] using afterKids_loaded t st
  | .cons (.elem q a kids) t, st => by
    cases hr : secOfTrigger q with
    | some s =>
      have := afterKids_loaded t (afterSection st s a kids)
      simpa [afterKids, loadKids, hr, afterSection, stepSec] using this
    | none => simpa [afterKids, loadKids, hr] using afterKids_loaded t st

/-- **C04 (build_events)**: LoadParser on the event stream of a whole part `<root …> children </root>`.
    For every part — any root element, any children, any nesting inside them — whose registered style names are fresh
    (`partKidsOK`), the run succeeds and the document afterwards is `loadKids` of the children: each child of the root
    element that is a section element appended `secContent` of its content to its section and put its attributes on
    the section object; the root element itself, white space between the sections and every other child of the root
    element contributed nothing.  (`sp`, the former `_parsing == "styles.xml"`, is no longer consulted.) -/
theorem build_events (sp : Bool) (l : Loaded) (rq : QName) (ra : List (QName × Str)) (secs : Forest)
    (hf : l.fix = []) (hok : partKidsOK l secs = true) :
    loadPart sp l (evN (.elem rq ra secs)) = some (loadKids l secs) := by
  unfold loadPart
  obtain ⟨st0, hst0⟩ : ∃ st0 : St, st0 = { doc := l.doc, names := l.names, fix := l.fix, stylesPart := sp } := ⟨_, rfl⟩
  rw [← hst0]
  obtain ⟨st1, hst1⟩ : ∃ s : St, s = { st0 with depth := 1 } := ⟨_, rfl⟩
  have hi : Idle st1 := by subst hst1 hst0; exact ⟨rfl, rfl, rfl, rfl, rfl, rfl⟩
  have hstart : stepStart st0 rq ra = some st1 := by subst hst1 hst0; unfold stepStart; simp
  have hk := run_partKids secs st1 hi (by subst hst1 hst0; exact hf) (by subst hst1 hst0; exact hok)
  obtain ⟨hl, hsp, hpar, hdep⟩ := afterKids_loaded secs st1
  have hstop : stepStop (afterKids st1 secs) rq = some { afterKids st1 secs with depth := 0 } := by
    unfold stepStop
    have h1 : (afterKids st1 secs).parsing = false := by rw [hpar]; exact hi.1
    have h2 : (afterKids st1 secs).depth = 1 := by rw [hdep]; exact hi.2.2.2.2.2
    simp [h1, h2]
  simp only [evN, run_cons, step, hstart, Option.bind_some]
  rw [run_append, hk]
  simp only [Option.bind_some, run_cons, step, hstop, run_nil]
  rw [settle_nil _ (by simpa using hsp.trans hi.2.2.1)]
  subst hst1 hst0
  simpa using congrArg some hl

/-! ### canonical forests: what a parser delivers is rebuilt exactly -/

def startsChar : Forest → Bool
  | .cons (.text _) _ => true
  | .cons (.cdata _) _ => true
  | _ => false

/-- no CDATA node, no empty text node, no two adjacent text nodes — at every level -/
def canonB : Forest → Bool
  | .nil => true
  | .cons (.text s) t => !s.isEmpty && !startsChar t && canonB t
  | .cons (.cdata _) _ => false
  | .cons (.elem _ _ k) t => canonB k && canonB t

def prependT (acc : Str) : Forest → Forest
  | .cons (.text s) t => .cons (.text (acc ++ s)) t
  | f => flushT acc f

theorem prependT_nil (f : Forest) : prependT [] f = f := by
  cases f with
  | nil => rfl
  | cons h t => cases h <;> simp [prependT, flushT]

theorem mergeTF_canon : (f : Forest) → (acc : Str) → canonB f = true → mergeTF acc f = prependT acc f
  | .nil, acc, _ => rfl
  | .cons (.cdata _) _, _, h => by simp [canonB] at h
  | .cons (.elem q a k) t, acc, h => by
    simp only [canonB, Bool.and_eq_true] at h
    rw [mergeTF, mergeTF_canon k [] h.1, mergeTF_canon t [] h.2, prependT_nil, prependT_nil]
    rfl
  | .cons (.text s) t, acc, h => by
    simp only [canonB, Bool.and_eq_true, Bool.not_eq_true'] at h
    obtain ⟨⟨hs, hst⟩, hc⟩ := h
    have hne : (acc ++ s).isEmpty = false := by cases s <;> simp_all
    cases t with
    | nil => simp [mergeTF, prependT, flushT, hne]
    | cons h' t' =>
      cases h' with
      | text _ => simp [startsChar] at hst
      | cdata _ => simp [startsChar] at hst
      | elem q a k =>
        have := mergeTF_canon (.cons (.elem q a k) t') (acc ++ s) hc
        simp only [mergeTF] at this ⊢
        rw [this]; simp [prependT, flushT, hne]

/-- **a canonical forest is rebuilt as it is** (mixed content in order, white-space-only text kept, nothing
    stripped, nothing merged because nothing is adjacent) -/
theorem mergeTF_canon_id (f : Forest) (h : canonB f = true) : mergeTF [] f = f := by
  rw [mergeTF_canon f [] h, prependT_nil]

theorem canonB_flushT (acc : Str) (f : Forest) (hf : canonB f = true) (hs : startsChar f = false) :
    canonB (flushT acc f) = true := by
  unfold flushT
  by_cases h : acc.isEmpty = true
  · simp [h, hf]
  · simp [h, canonB, hf, hs]

theorem canonB_canonTF (acc : Str) (f : Forest) : canonB (canonTF acc f) = true := by
  fun_induction canonTF acc f with
  | case1 acc => exact canonB_flushT acc .nil rfl rfl
  | case2 acc s t ih => exact ih
  | case3 acc s t ih => exact ih
  | case4 acc q a kids t ih1 ih2 => exact canonB_flushT acc _ (by simp [canonB, ih1, ih2]) rfl

theorem hasElemF_flushT (acc : Str) (f : Forest) : hasElemF (flushT acc f) = hasElemF f := by
  unfold flushT; split <;> simp [hasElemF]

theorem hasElemF_canonTF (acc : Str) (f : Forest) : hasElemF (canonTF acc f) = hasElemF f := by
  fun_induction canonTF acc f with
  | case1 acc => simp [hasElemF_flushT, hasElemF]
  | case2 acc s t ih => simpa [hasElemF] using ih
  | case3 acc s t ih => simpa [hasElemF] using ih
  | case4 acc q a kids t ih1 ih2 => simp [hasElemF_flushT, hasElemF]

/-- what `load` makes of a section that `save` wrote with content `f` -/
def lsec (f : Forest) : Forest := secContent (canonTF [] f)

/-- … is the canonical form of `f`; only a section whose whole content is character data loses it -/
theorem lsec_eq (f : Forest) : lsec f = if hasElemF f then canonTF [] f else .nil := by
  simp [lsec, secContent, hasElemF_canonTF, mergeTF_canon_id _ (canonB_canonTF [] f)]

/-! ### the composite: load what save wrote -/

theorem canonTF_cons_elem (q : QName) (a : List (QName × Str)) (k t : Forest) :
    canonTF [] (.cons (.elem q a k) t) = .cons (.elem q (huAttrsQ a) (canonTF [] k)) (canonTF [] t) := by
  simp [canonTF, flushT]

theorem canonTF_nil : canonTF [] .nil = .nil := by simp [canonTF, flushT]

theorem lsec_nil : lsec .nil = .nil := by simp [lsec_eq, hasElemF]

theorem secOf_qOfSec (s : Sec) : secOfTrigger (qOfSec s) = some s := by cases s <;> decide

/-- the section objects of the document carry no attributes of their own (true of every document built through the
    API: none of the eight section elements has an attribute in the schema) -/
def allSecs : List Sec := [.autoStyles, .body, .fontFace, .master, .metaS, .scripts, .settings, .styles]
def noSecAttrs (d : Doc) : Bool := allSecs.all (fun s => (d.sattrs s).isEmpty)

theorem noSecAttrs_at (d : Doc) (h : noSecAttrs d = true) (s : Sec) : d.sattrs s = [] := by
  simp only [noSecAttrs, allSecs, List.all_cons, List.all_nil, Bool.and_true, Bool.and_eq_true] at h
  cases s <;> apply isEmpty_eq_nil' <;> simp [h]
where isEmpty_eq_nil' {α} {l : List α} (h : l.isEmpty = true) : l = [] := by cases l <;> simp_all

/-- a section element written without attributes -/
def secEl0 (s : Sec) (f : Forest) : Node := .elem (qOfSec s) [] f
def ifKids0 (s : Sec) (f : Forest) : Forest :=
  match f with
  | .nil => .nil
  | f => .cons (secEl0 s f) .nil

theorem secEl_eq (d : Doc) (h : noSecAttrs d = true) (s : Sec) (f : Forest) : secEl d s f = secEl0 s f := by
  simp [secEl, secEl0, noSecAttrs_at d h s]
theorem ifKids_eq (d : Doc) (h : noSecAttrs d = true) (s : Sec) (f : Forest) : ifKids d s f = ifKids0 s f := by
  cases f <;> simp [ifKids, ifKids0, secEl_eq d h]
theorem autoEl_eq (f : Forest) : autoEl f = secEl0 .autoStyles f := rfl

theorem putAttrs_nil_doc (d : Doc) (s : Sec) : d.putAttrs s [] = d := by
  have : (fun s' => if s' = s then putAttrs (d.sattrs s) [] else d.sattrs s') = d.sattrs := by
    funext s'; by_cases h : s' = s <;> simp [h, putAttrs]
  simp [Doc.putAttrs, this]

theorem keepS_nil (d : Doc) (s : Sec) : keepS d s .nil = .nil := by cases s <;> rfl

theorem stepSec_nil (l : Loaded) (s : Sec) : stepSec l s [] .nil = l := by
  simp [stepSec, keepS_nil, putAttrs_nil_doc, secContent, hasElemF, Doc.app_nil, regAllF]

/-- the freshness condition of one section -/
def okStep (l : Loaded) (s : Sec) (f : Forest) : Bool := fresh l.names (regAllF (some (qOfSec s)) (keepS l.doc s f))

/-- a written section element, read back -/
theorem loadKids_secEl0 (l : Loaded) (s : Sec) (f g : Forest) :
    loadKids l (canonTF [] (.cons (secEl0 s f) g)) = loadKids (stepSec l s [] (canonTF [] f)) (canonTF [] g) := by
  simp [secEl0, canonTF_cons_elem, loadKids, secOf_qOfSec, huAttrsQ]

theorem loadKids_ifKids0 (l : Loaded) (s : Sec) (f g : Forest) :
    loadKids l (canonTF [] (appF (ifKids0 s f) g)) = loadKids (stepSec l s [] (canonTF [] f)) (canonTF [] g) := by
  cases f with
  | nil => simp [ifKids0, canonTF_nil, stepSec_nil]
  | cons h t => simpa [ifKids0] using loadKids_secEl0 l s (.cons h t) g

theorem partKidsOK_secEl0 (l : Loaded) (s : Sec) (f g : Forest) :
    partKidsOK l (canonTF [] (.cons (secEl0 s f) g)) =
      (okStep l s (canonTF [] f) && partKidsOK (stepSec l s [] (canonTF [] f)) (canonTF [] g)) := by
  simp [secEl0, canonTF_cons_elem, partKidsOK, secOf_qOfSec, huAttrsQ, okStep]

theorem partKidsOK_ifKids0 (l : Loaded) (s : Sec) (f g : Forest) :
    partKidsOK l (canonTF [] (appF (ifKids0 s f) g)) =
      (okStep l s (canonTF [] f) && partKidsOK (stepSec l s [] (canonTF [] f)) (canonTF [] g)) := by
  cases f with
  | nil => simp [ifKids0, canonTF_nil, stepSec_nil, okStep, keepS_nil, regAllF, fresh]
  | cons h t => simpa [ifKids0] using partKidsOK_secEl0 l s (.cons h t) g

theorem trig_roots : isTrigger qDocContent = false ∧ isTrigger qDocStyles = false ∧ isTrigger qDocMeta = false ∧
    isTrigger qDocSettings = false := by decide

/-- the XML leg's hypothesis (C02's): an admissible namespace table that covers the four trees -/
structure XmlOK (tbl : NsTable) (tv : Str) (d : Doc) (uc us : Forest) : Prop where
  table : TableOK tbl
  clean : NsClean tbl
  content : TreeOK tbl (contentTree d uc)
  styles : TreeOK tbl (stylesTree d us)
  metaT : TreeOK tbl (metaTree tv d)
  settings : TreeOK tbl (settingsTree d)

/-! the document after each part of the saved package has been read (settings, meta, content, styles) -/
def afterS (d : Doc) : Loaded := stepSec {} .settings [] (canonTF [] d.settings)
def afterM (tv : Str) (d : Doc) : Loaded := stepSec (afterS d) .metaS [] (canonTF [] (normGen tv d.metaS))
def afterC1 (tv : Str) (d : Doc) : Loaded := stepSec (afterM tv d) .scripts [] (canonTF [] d.scripts)
def afterC2 (tv : Str) (d : Doc) : Loaded := stepSec (afterC1 tv d) .fontFace [] (canonTF [] d.fontFace)
def afterC3 (tv : Str) (d : Doc) (uc : Forest) : Loaded := stepSec (afterC2 tv d) .autoStyles [] (canonTF [] uc)
def afterC (tv : Str) (d : Doc) (uc : Forest) : Loaded := stepSec (afterC3 tv d uc) .body [] (canonTF [] d.body)
def afterY1 (tv : Str) (d : Doc) (uc : Forest) : Loaded := stepSec (afterC tv d uc) .fontFace [] (canonTF [] d.fontFace)
def afterY2 (tv : Str) (d : Doc) (uc : Forest) : Loaded := stepSec (afterY1 tv d uc) .styles [] (canonTF [] d.styles)
def afterY3 (tv : Str) (d : Doc) (uc us : Forest) : Loaded := stepSec (afterY2 tv d uc) .autoStyles [] (canonTF [] us)
/-- what `load(save(d))` is -/
def loadedOf (tv : Str) (d : Doc) (uc us : Forest) : Loaded := stepSec (afterY3 tv d uc us) .master [] (canonTF [] d.master)

/-- the load leg's hypothesis, decidable (`DocOK` of DESIGN.md = `XmlOK ∧ LoadOK`):
    * the style:style names registered while loading — direct children of office:styles / office:automatic-styles
      elements, in the order the ten sections are read — are pairwise distinct (`okStep`: no rename by
      `__register_stylename`, C11's subject);
    * the section objects carry no attributes of their own (`noSecAttrs`: such attributes do survive a load —
      `run_section` — but `office:automatic-styles` is written as a fresh element).
    Gone since repairs e0e65e8 / b40b9f8: "no section element nested inside a section" — the content of a section may
    be ANY forest. -/
def LoadOK (tv : Str) (d : Doc) (uc us : Forest) : Bool :=
  noSecAttrs d &&
  okStep {} .settings (canonTF [] d.settings) && okStep (afterS d) .metaS (canonTF [] (normGen tv d.metaS)) &&
  okStep (afterM tv d) .scripts (canonTF [] d.scripts) && okStep (afterC1 tv d) .fontFace (canonTF [] d.fontFace) &&
  okStep (afterC2 tv d) .autoStyles (canonTF [] uc) && okStep (afterC3 tv d uc) .body (canonTF [] d.body) &&
  okStep (afterC tv d uc) .fontFace (canonTF [] d.fontFace) && okStep (afterY1 tv d uc) .styles (canonTF [] d.styles) &&
  okStep (afterY2 tv d uc) .autoStyles (canonTF [] us) && okStep (afterY3 tv d uc us) .master (canonTF [] d.master)

/-- `__loadxmlparts` on the saved package: settings.xml only if it was written -/
def loadSaved (ws : Bool) (eS eM eC eY : List Event) : Option Loaded :=
  loadParts {} ((if ws then [(sSettingsXml, eS)] else []) ++ [(sMetaXml, eM), (sContentXml, eC), (sStylesXml, eY)])

/-- the statement of C04 at model level, for given trees: each written part is accepted by the reference parser,
    and LoadParser, fed the event stream of what the parser returns under ANY chunking, yields `loadedOf` -/
def LoadsBack (tbl : NsTable) (tv : Str) (d : Doc) (uc us : Forest) : Prop :=
  ∃ tS tM tC tY : Node,
    parseDoc (render tbl (settingsTree d)) = some tS ∧ parseDoc (render tbl (metaTree tv d)) = some tM ∧
    parseDoc (render tbl (contentTree d uc)) = some tC ∧ parseDoc (render tbl (stylesTree d us)) = some tY ∧
    ∀ eS eM eC eY : List Event, Chunked (evN tS) eS → Chunked (evN tM) eM → Chunked (evN tC) eC → Chunked (evN tY) eY →
      loadSaved (writesSettings d) eS eM eC eY = some (loadedOf tv d uc us)

/-- **C04, FULL STATEMENT**: every document that can be written is loaded back.  Still FALSE in this generality on the
    current tree only because of C11's renames (`LoadOK`); proved below as `load_save_partial`. -/
def FullStatement : Prop :=
  ∀ (tbl : NsTable) (tv : Str) (d : Doc) (uc us : Forest), XmlOK tbl tv d uc us → LoadsBack tbl tv d uc us

theorem loadPart_chunked (sp : Bool) (l : Loaded) (evs evs' : List Event) (h : Chunked evs evs') :
    loadPart sp l evs' = loadPart sp l evs := by
  unfold loadPart; rw [build_chunk_invariant evs evs' h]

theorem sp_names : stylesPartOf sSettingsXml = false ∧ stylesPartOf sMetaXml = false ∧
    stylesPartOf sContentXml = false ∧ stylesPartOf sStylesXml = true := by decide

theorem okStep_fix (l : Loaded) (s : Sec) (a : List (QName × Str)) (f : Forest) : (stepSec l s a f).fix = l.fix := rfl

/-- **C04 (load_save, partial)**: for every document `d` (eight sections, ANY content), every selection `uc` / `us` of
    automatic styles written to content.xml / styles.xml and every admissible namespace table: what `save` writes is
    accepted by the reference parser, and `load` — LoadParser over the SAX events of the parsed parts, character data
    chunked in any way, parts in the order settings, meta, content, styles — yields `loadedOf`: each section's
    canonical form appended to its section (`stepSec`), meta with exactly one generator (`normGen`), the written
    automatic styles, every font name declared once (`loadedOf_doc` gives the sections explicitly).
    Restrictions (`LoadOK`): no style-name collision (C11); no attributes on the section objects.
    Not in the model: attribute converters (values are fixed points: C15), which automatic styles are written (C10:
    `uc`, `us` are parameters), the zip container, pictures and sub-documents (C03/C16 and the oracle), expat
    (trusted to deliver the events of the infoset the reference parser computes). -/
theorem load_save_partial (tbl : NsTable) (tv : Str) (d : Doc) (uc us : Forest)
    (hx : XmlOK tbl tv d uc us) (hl : LoadOK tv d uc us = true) : LoadsBack tbl tv d uc us := by
  simp only [LoadOK, Bool.and_eq_true] at hl
  obtain ⟨⟨⟨⟨⟨⟨⟨⟨⟨⟨hsa, o1⟩, o2⟩, o3⟩, o4⟩, o5⟩, o6⟩, o7⟩, o8⟩, o9⟩, o10⟩ := hl
  simp only [afterC1, afterC2, afterC3, afterC, afterY1, afterY2, afterY3] at o4 o5 o6 o7 o8 o9 o10
  refine ⟨_, _, _, _, parseDoc_render tbl _ _ _ hx.table hx.clean hx.settings,
    parseDoc_render tbl _ _ _ hx.table hx.clean hx.metaT,
    parseDoc_render tbl _ _ _ hx.table hx.clean hx.content,
    parseDoc_render tbl _ _ _ hx.table hx.clean hx.styles, ?_⟩
  intro eS eM eC eY cS cM cC cY
  have pS : loadPart false {} (evN (canonT (settingsTree d))) = some (afterS d) := by
    simp only [settingsTree, secEl_eq d hsa, canonT]
    rw [build_events false {} _ _ _ rfl (by rw [partKidsOK_secEl0]; simp [o1, canonTF_nil, partKidsOK])]
    rw [loadKids_secEl0]; simp [canonTF_nil, loadKids, afterS]
  have pM : loadPart false (afterS d) (evN (canonT (metaTree tv d))) = some (afterM tv d) := by
    simp only [metaTree, secEl_eq d hsa, canonT]
    rw [build_events false _ _ _ _ rfl (by rw [partKidsOK_secEl0]; simp [o2, canonTF_nil, partKidsOK])]
    rw [loadKids_secEl0]; simp [canonTF_nil, loadKids, afterM]
  have pC : loadPart false (afterM tv d) (evN (canonT (contentTree d uc))) = some (afterC tv d uc) := by
    simp only [contentTree, secEl_eq d hsa, ifKids_eq d hsa, autoEl_eq, canonT]
    rw [build_events false _ _ _ _ rfl (by
      rw [partKidsOK_ifKids0, partKidsOK_ifKids0, partKidsOK_secEl0, partKidsOK_secEl0]
      simp [o3, o4, o5, o6, canonTF_nil, partKidsOK] )]
    rw [loadKids_ifKids0, loadKids_ifKids0, loadKids_secEl0, loadKids_secEl0]
    simp [canonTF_nil, loadKids, afterC, afterC1, afterC2, afterC3]
  have pY : loadPart true (afterC tv d uc) (evN (canonT (stylesTree d us))) = some (loadedOf tv d uc us) := by
    simp only [stylesTree, secEl_eq d hsa, ifKids_eq d hsa, autoEl_eq, canonT]
    have hm : ifKids0 .master d.master = appF (ifKids0 .master d.master) .nil := (appF_nil_right _).symm
    rw [hm]
    rw [build_events true _ _ _ _ rfl (by
      rw [partKidsOK_ifKids0, partKidsOK_secEl0, partKidsOK_secEl0, partKidsOK_ifKids0]
      simp [o7, o8, o9, o10, canonTF_nil, partKidsOK, afterC, afterC1, afterC2, afterC3] )]
    rw [loadKids_ifKids0, loadKids_secEl0, loadKids_secEl0, loadKids_ifKids0]
    simp [canonTF_nil, loadKids, loadedOf, afterY1, afterY2, afterY3, afterC, afterC1, afterC2, afterC3]
  simp only [settingsTree, metaTree, contentTree, stylesTree] at pS pM pC pY
  unfold loadSaved
  cases hws : writesSettings d with
  | true =>
    simp only [if_true, List.cons_append, List.nil_append, loadParts, sp_names.1, sp_names.2.1, sp_names.2.2.1,
      sp_names.2.2.2]
    rw [loadPart_chunked _ _ _ _ cS, pS]
    simp only []
    rw [loadPart_chunked _ _ _ _ cM, pM]
    simp only []
    rw [loadPart_chunked _ _ _ _ cC, pC]
    simp only []
    rw [loadPart_chunked _ _ _ _ cY, pY]
  | false =>
    have hset : d.settings = .nil := by
      cases h : d.settings with
      | nil => rfl
      | cons a b => simp [writesSettings, h] at hws
    have hS0 : afterS d = {} := by simp [afterS, hset, canonTF_nil, stepSec_nil]
    rw [hS0] at pM
    simp only [Bool.false_eq_true, if_false, List.nil_append, loadParts, sp_names.2.1, sp_names.2.2.1, sp_names.2.2.2]
    rw [loadPart_chunked _ _ _ _ cM, pM]
    simp only []
    rw [loadPart_chunked _ _ _ _ cC, pC]
    simp only []
    rw [loadPart_chunked _ _ _ _ cY, pY]

/-! #### the sections of the loaded document, explicitly -/

/-- all nodes are style:font-face elements (what office:font-face-decls may hold) -/
def onlyFonts : Forest → Bool
  | .nil => true
  | .cons (.elem q _ _) t => decide (q = qFontFaceEl) && onlyFonts t
  | .cons _ _ => false

theorem declaredNames_mergeTF (acc : Str) (f : Forest) : declaredNames (mergeTF acc f) = declaredNames f := by
  fun_induction mergeTF acc f with
  | case1 acc => simp [declaredNames_flushT, declaredNames]
  | case2 acc s t ih => simpa [declaredNames] using ih
  | case3 acc s t ih => simpa [declaredNames] using ih
  | case4 acc q a kids t ih1 ih2 => simp [declaredNames_flushT, declaredNames, ih2]

theorem declaredNames_noElem : (f : Forest) → hasElemF f = false → declaredNames f = []
  | .nil, _ => rfl
  | .cons (.text _) t, h => by simpa [declaredNames] using declaredNames_noElem t (by simpa [hasElemF] using h)
  | .cons (.cdata _) t, h => by simpa [declaredNames] using declaredNames_noElem t (by simpa [hasElemF] using h)
  | .cons (.elem _ _ _) _, h => by simp [hasElemF] at h

theorem declaredNames_secContent (f : Forest) : declaredNames (secContent f) = declaredNames f := by
  unfold secContent
  by_cases h : hasElemF f = true
  · simp [h, declaredNames_mergeTF]
  · have h' : hasElemF f = false := by simpa using h
    simp [h', declaredNames_noElem f h', declaredNames]

theorem fontDrop_all_declared : (g : Forest) → (decl : List (Option Str)) → onlyFonts g = true →
    (∀ n ∈ declaredNames g, n ∈ decl) → fontDrop decl g = .nil
  | .nil, _, _, _ => rfl
  | .cons (.text _) _, _, h, _ => by simp [onlyFonts] at h
  | .cons (.cdata _) _, _, h, _ => by simp [onlyFonts] at h
  | .cons (.elem q a k) t, decl, h, hn => by
    simp only [onlyFonts, Bool.and_eq_true, decide_eq_true_eq] at h
    have h1 : decl.contains (lookupA aStyleName a) = true := by
      simpa using hn (lookupA aStyleName a) (by simp [declaredNames])
    simp only [fontDrop, h.1, h1, and_self, if_true]
    exact fontDrop_all_declared t decl h.2 (fun n hm => hn n (by simp [declaredNames, hm]))

/-- reading the same declarations a second time (styles.xml after content.xml) adds nothing — whatever repeats the
    list has: every name of it was declared by the first reading -/
theorem fonts_second (ff : Forest) (h : onlyFonts (canonTF [] ff) = true) :
    fontDrop (declaredNames (lsec ff)) (canonTF [] ff) = .nil := by
  apply fontDrop_all_declared _ _ h
  intro n hn
  rw [lsec, declaredNames_secContent]
  exact hn

/-- what `load(save(d))` holds: every section in canonical form (`lsec`), the generator normalised, the automatic
    styles that were written (content.xml's first, then styles.xml's), the font declarations once -/
def expected (tv : Str) (d : Doc) (uc us : Forest) : Doc :=
  { settings := lsec d.settings, metaS := lsec (normGen tv d.metaS), scripts := lsec d.scripts,
    autoStyles := appF (lsec uc) (lsec us), body := lsec d.body, fontFace := lsec d.fontFace,
    styles := lsec d.styles, master := lsec d.master }

/-- **the sections of `load(save(d))`**, explicitly.  Residual hypothesis `onlyFonts`: office:font-face-decls holds
    style:font-face elements only — anything else in it (white space, foreign elements) is read from BOTH parts and
    would appear twice.  Font declarations may repeat a name: content.xml's list is read entirely, styles.xml's copy
    of it is skipped entirely. -/
theorem loadedOf_doc (tv : Str) (d : Doc) (uc us : Forest) (hfo : onlyFonts (canonTF [] d.fontFace) = true) :
    (loadedOf tv d uc us).doc = expected tv d uc us := by
  have h2 := fonts_second d.fontFace hfo
  simp only [loadedOf, afterY3, afterY2, afterY1, afterC, afterC3, afterC2, afterC1, afterM, afterS, stepSec,
    putAttrs_nil_doc, keepS]
  simp only [Doc.app, Doc.set, Doc.get, declaredNames, appF_nil_left, fontDrop_nil_decl]
  have e1 : secContent (canonTF [] d.fontFace) = lsec d.fontFace := rfl
  simp only [e1, h2]
  simp [expected, lsec, secContent, hasElemF]

/-! ### the canonical form is a fixed point of the parser's normalisation (needed for "second generation") -/

theorem hu_idem (c : Cp) : hu (hu c) = hu c := by
  unfold hu
  by_cases h : filtered c = true
  · have : filtered 0xFFFD = false := by decide
    simp [h, this]
  · simp [h]

theorem map_hu_idem (s : Str) : (s.map hu).map hu = s.map hu := by
  simp [List.map_map, Function.comp_def, hu_idem]

theorem huAttrsQ_idem (a : List (QName × Str)) : huAttrsQ (huAttrsQ a) = huAttrsQ a := by
  induction a with
  | nil => rfl
  | cons x r ih => obtain ⟨q, v⟩ := x; simp [huAttrsQ, ih, hu_idem]

mutual
/-- every string of the tree filtered through `hu` -/
def huN : Node → Node
  | .text s => .text (s.map hu)
  | .cdata s => .cdata (s.map hu)
  | .elem q a k => .elem q (huAttrsQ a) (huF k)
def huF : Forest → Forest
  | .nil => .nil
  | .cons h t => .cons (huN h) (huF t)
end

theorem huF_flushT (acc : Str) (f : Forest) : huF (flushT acc f) = flushT (acc.map hu) (huF f) := by
  unfold flushT
  by_cases h : acc.isEmpty = true
  · have := isEmpty_eq_nil h; subst this; simp
  · have h2 : (acc.map hu).isEmpty = false := by cases acc <;> simp_all
    simp [h, h2, huF, huN]

theorem huF_canonTF (acc : Str) (f : Forest) (ha : acc.map hu = acc) : huF (canonTF acc f) = canonTF acc f := by
  fun_induction canonTF acc f with
  | case1 acc => simp [huF_flushT, ha, huF]
  | case2 acc s t ih => exact ih (by simp [ha, hu_idem])
  | case3 acc s t ih => exact ih (by simp [ha, hu_idem])
  | case4 acc q a kids t ih1 ih2 => simp [huF_flushT, ha, huF, huN, huAttrsQ_idem, ih1 rfl, ih2 rfl]

theorem canonTF_eq_merge (acc : Str) (f : Forest) : canonTF acc f = mergeTF acc (huF f) := by
  fun_induction canonTF acc f with
  | case1 acc => simp [huF, mergeTF]
  | case2 acc s t ih => simpa [huF, huN, mergeTF] using ih
  | case3 acc s t ih => simpa [huF, huN, mergeTF] using ih
  | case4 acc q a kids t ih1 ih2 => simp [huF, huN, mergeTF, ih1, ih2]

theorem canonTF_idem (f : Forest) : canonTF [] (canonTF [] f) = canonTF [] f := by
  rw [canonTF_eq_merge [] (canonTF [] f), huF_canonTF [] f rfl, mergeTF_canon_id _ (canonB_canonTF [] f)]

theorem canonT_idem (q : QName) (a : List (QName × Str)) (k : Forest) :
    canonT (canonT (.elem q a k)) = canonT (.elem q a k) := by
  simp [canonT, huAttrsQ_idem, canonTF_idem]

/-! ### second generation -/

/-- a section is empty or has at least one element child (true of every section a schema-directed document has:
    none of the eight section elements may hold character data) -/
def secOK : Forest → Bool
  | .nil => true
  | f => hasElemF f

def SecsOK (d : Doc) (uc us : Forest) : Bool :=
  secOK d.settings && secOK d.scripts && secOK d.fontFace && secOK uc && secOK d.body && secOK d.styles && secOK us &&
  secOK d.master

theorem lsec_secOK (f : Forest) (h : secOK f = true) : lsec f = canonTF [] f := by
  cases f with
  | nil => simp [lsec_nil, canonTF_nil]
  | cons a t => simp only [secOK] at h; simp [lsec_eq, h]

theorem ifKids_canon (s : Sec) (f g : Forest) (h : secOK f = true) :
    canonTF [] (appF (ifKids0 s f) g) = appF (ifKids0 s (lsec f)) (canonTF [] g) := by
  rw [lsec_secOK f h]
  cases f with
  | nil => simp [ifKids0, canonTF_nil]
  | cons a t =>
    simp only [secOK] at h
    have he : hasElemF (canonTF [] (.cons a t)) = true := by rw [hasElemF_canonTF]; exact h
    cases hc : canonTF [] (.cons a t) with
    | nil => rw [hc] at he; simp [hasElemF] at he
    | cons a' t' => simp [ifKids0, secEl0, canonTF_cons_elem, hc, huAttrsQ]

theorem secEl_canon (s : Sec) (f g : Forest) (h : secOK f = true) :
    canonTF [] (.cons (secEl0 s f) g) = .cons (secEl0 s (lsec f)) (canonTF [] g) := by
  rw [lsec_secOK f h]; simp [secEl0, canonTF_cons_elem, huAttrsQ]

theorem ver_stable : huAttrsQ verAttrs = verAttrs := by decide

def noGenB : Forest → Bool
  | .nil => true
  | .cons h t => !isGen h && noGenB t

theorem noGenB_filterNG : (m : Forest) → noGenB (filterNG m) = true
  | .nil => rfl
  | .cons h t => by
    unfold filterNG
    by_cases hg : isGen h = true
    · simp [hg, noGenB_filterNG t]
    · simp [hg, noGenB, noGenB_filterNG t]

theorem filterNG_flushT (acc : Str) (f : Forest) : filterNG (flushT acc f) = flushT acc (filterNG f) := by
  unfold flushT; split <;> simp [filterNG, isGen]

theorem canon_genNode (tv : Str) (htv : tv.map hu = tv) (acc : Str) :
    canonTF acc (.cons (genNode tv) .nil) = flushT acc (.cons (genNode tv) .nil) := by
  unfold genNode
  by_cases h : tv.isEmpty = true
  · simp [h, canonTF, huAttrsQ, flushT]
  · have h2 : tv ≠ [] := by intro e; simp [e] at h
    simp [h, canonTF, huAttrsQ, flushT, htv, h2]

theorem gen_fix (tv : Str) (htv : tv.map hu = tv) : (X : Forest) → (acc : Str) → noGenB X = true →
    appF (filterNG (canonTF acc (appF X (.cons (genNode tv) .nil)))) (.cons (genNode tv) .nil) =
      canonTF acc (appF X (.cons (genNode tv) .nil))
  | .nil, acc, _ => by
    have hg : isGen (genNode tv) = true := by simp [genNode, isGen]
    simp [canon_genNode tv htv, filterNG_flushT, filterNG, hg, appF_flushT]
  | .cons (.text s) t, acc, h => by
    simp only [noGenB, isGen, Bool.not_false, Bool.true_and] at h
    simpa [canonTF] using gen_fix tv htv t _ h
  | .cons (.cdata s) t, acc, h => by
    simp only [noGenB, isGen, Bool.not_false, Bool.true_and] at h
    simpa [canonTF] using gen_fix tv htv t _ h
  | .cons (.elem q a k) t, acc, h => by
    simp only [noGenB, Bool.and_eq_true, Bool.not_eq_true'] at h
    have hq : isGen (.elem q (huAttrsQ a) (canonTF [] k)) = false := by simpa [isGen] using h.1
    simp only [appF_cons, canonTF, filterNG_flushT, filterNG, hq, Bool.false_eq_true, if_false, appF_flushT]
    rw [gen_fix tv htv t [] h.2]

theorem hasElemF_appF_elem (X : Forest) (q : QName) (a : List (QName × Str)) (k : Forest) :
    hasElemF (appF X (.cons (.elem q a k) .nil)) = true := by
  fun_induction hasElemF X <;> simp_all [hasElemF]

theorem normGen_fix (tv : Str) (htv : tv.map hu = tv) (m : Forest) :
    normGen tv (lsec (normGen tv m)) = canonTF [] (normGen tv m) := by
  have he : hasElemF (normGen tv m) = true := by unfold normGen genNode; exact hasElemF_appF_elem _ _ _ _
  rw [lsec_eq, he]
  simp only [if_true, normGen]
  exact gen_fix tv htv (filterNG m) [] (noGenB_filterNG m)

/-- **C04 (second generation, partial)**: saving the loaded document writes, part by part, exactly the infoset of
    the first package (`canonT` of the tree that was written = what the reference parser returns for it), with the
    generator still named exactly once; settings.xml is written the second time iff it was the first time.
    Hypotheses: `SecsOK` (no section consists of character data only), `noSecAttrs`, the library version string has no filtered
    character, and — C10's subject — the second save selects for each part the automatic styles that were loaded
    from it (`lsec uc`, `lsec us`). -/
theorem second_generation_partial (tv : Str) (d : Doc) (uc us : Forest) (hs : SecsOK d uc us = true)
    (hsa : noSecAttrs d = true) (htv : tv.map hu = tv) :
    contentTree (expected tv d uc us) (lsec uc) = canonT (contentTree d uc) ∧
    stylesTree (expected tv d uc us) (lsec us) = canonT (stylesTree d us) ∧
    metaTree tv (expected tv d uc us) = canonT (metaTree tv d) ∧
    settingsTree (expected tv d uc us) = canonT (settingsTree d) ∧
    writesSettings (expected tv d uc us) = writesSettings d := by
  simp only [SecsOK, Bool.and_eq_true] at hs
  obtain ⟨⟨⟨⟨⟨⟨⟨o1, o2⟩, o3⟩, o4⟩, o5⟩, o6⟩, o7⟩, o8⟩ := hs
  have he : noSecAttrs (expected tv d uc us) = true := rfl
  refine ⟨?_, ?_, ?_, ?_, ?_⟩
  · simp only [contentTree, secEl_eq _ he, ifKids_eq _ he, secEl_eq d hsa, ifKids_eq d hsa, autoEl_eq]
    simp only [canonT, expected, ver_stable]
    rw [ifKids_canon _ _ _ o2, ifKids_canon _ _ _ o3, secEl_canon _ _ _ o4, secEl_canon _ _ _ o5, canonTF_nil]
  · simp only [stylesTree, secEl_eq _ he, ifKids_eq _ he, secEl_eq d hsa, ifKids_eq d hsa, autoEl_eq]
    simp only [canonT, expected, ver_stable]
    rw [ifKids_canon _ _ _ o3, secEl_canon _ _ _ o6, secEl_canon _ _ _ o7]
    have := ifKids_canon .master d.master .nil o8
    simp only [appF_nil_right, canonTF_nil] at this
    rw [this]
  · simp only [metaTree, secEl_eq _ he, secEl_eq d hsa]
    simp only [canonT, expected, ver_stable]
    rw [normGen_fix tv htv]
    simp [secEl0, canonTF_cons_elem, huAttrsQ, canonTF_nil]
  · simp only [settingsTree, secEl_eq _ he, secEl_eq d hsa]
    simp only [canonT, expected, ver_stable]
    rw [secEl_canon _ _ _ o1, canonTF_nil]
  · simp only [expected, writesSettings]
    rw [lsec_secOK _ o1]
    cases hd : d.settings with
    | nil => simp [canonTF_nil]
    | cons a t =>
      rw [hd] at o1; simp only [secOK] at o1
      have he : hasElemF (canonTF [] (.cons a t)) = true := by rw [hasElemF_canonTF]; exact o1
      cases hc : canonTF [] (.cons a t) with
      | nil => rw [hc] at he; simp [hasElemF] at he
      | cons a' t' => rfl

/-- … hence both generations have the same infoset (the reference parser returns the same tree for both) -/
theorem second_generation_infoset (tbl : NsTable) (tv : Str) (d : Doc) (uc us : Forest)
    (hx : XmlOK tbl tv d uc us) (hs : SecsOK d uc us = true) (hsa : noSecAttrs d = true) (htv : tv.map hu = tv) :
    parseDoc (render tbl (contentTree (expected tv d uc us) (lsec uc))) = parseDoc (render tbl (contentTree d uc)) ∧
    parseDoc (render tbl (stylesTree (expected tv d uc us) (lsec us))) = parseDoc (render tbl (stylesTree d us)) ∧
    parseDoc (render tbl (metaTree tv (expected tv d uc us))) = parseDoc (render tbl (metaTree tv d)) ∧
    parseDoc (render tbl (settingsTree (expected tv d uc us))) = parseDoc (render tbl (settingsTree d)) := by
  obtain ⟨e1, e2, e3, e4, _⟩ := second_generation_partial tv d uc us hs hsa htv
  have key : ∀ (q : QName) (a : List (QName × Str)) (k : Forest), TreeOK tbl (.elem q a k) →
      parseDoc (render tbl (canonT (.elem q a k))) = parseDoc (render tbl (.elem q a k)) := by
    intro q a k h
    rw [parseDoc_render tbl q a k hx.table hx.clean h]
    have h2 := treeOK_canonT q a k h
    simp only [canonT] at h2 ⊢
    rw [parseDoc_render tbl q _ _ hx.table hx.clean h2]
    have := canonT_idem q a k
    simp only [canonT] at this ⊢
    rw [this]
  rw [e1, e2, e3, e4]
  exact ⟨key _ _ _ hx.content, key _ _ _ hx.styles, key _ _ _ hx.metaT, key _ _ _ hx.settings⟩

/-! ### examples of the repaired behaviour (former known findings) -/

def topNames : Forest → List QName
  | .nil => []
  | .cons (.elem q _ _) t => q :: topNames t
  | .cons _ t => topNames t

/-- `u:a`, `u:b`, `u:c` in the namespace "u" -/
def exQ (c : Nat) : QName := ⟨[117], [c]⟩
def exE (c : Nat) : Node := .elem (exQ c) [] .nil

/-- content.xml whose body is `<u:a/> <office:settings><u:c/></office:settings> <u:b/>` (the schema allows an inline
    office:document, with its own office:settings / office:body …, inside draw:object) -/
def nestedPart : Node :=
  .elem qDocContent [] (.cons (.elem qBody []
    (.cons (exE 97) (.cons (.elem qSettings [] (.cons (exE 99) .nil)) (.cons (exE 98) .nil)))) .nil)

/-- (was known finding KF-C04-8 / KF-C05-16, repaired in e0e65e8) an element named like a section that is not a child
    of the root element is ordinary content: it stays in the body, with what follows it, and the outer document's
    settings are not touched.  The general statement is `run_section` / `build_events`, which no longer have a
    hypothesis about the names of nested elements. -/
theorem nested_section_kept :
    (loadPart false {} (evN nestedPart)).map (fun l => (topNames l.doc.body, topNames l.doc.settings)) =
      some ([exQ 97, qSettings, exQ 98], []) := by decide

/-- `Object 1/styles.xml` -/
def sObj1Styles : Str := [79, 98, 106, 101, 99, 116, 32, 49, 47] ++ sStylesXml

/-- a part that declares the font name "F" twice (different content) and "G" once -/
def fontsPart : Node :=
  .elem qDocStyles [] (.cons (.elem qFontFace []
      (.cons (.elem qFontFaceEl [(aStyleName, [70]), (aTextStyleName, [49])] .nil)
        (.cons (.elem qFontFaceEl [(aStyleName, [70]), (aTextStyleName, [50])] .nil)
          (.cons (.elem qFontFaceEl [(aStyleName, [71])] .nil) .nil))))
    (.cons (.elem qStyles [] (.cons (exE 115) .nil)) .nil))

/-- (were known findings KF-C04-4, KF-C05-3, KF-C05-4, KF-C04-9; repaired in 934baed and b40b9f8) office:font-face-decls
    is read from every part — styles.xml or content.xml, of the top document or of a sub-document; repeats INSIDE a
    part are all kept (F, F, G comes back as three declarations), and reading the same list again from the other part
    adds nothing. -/
theorem fonts_loaded_once :
    (loadPart (stylesPartOf sObj1Styles) {} (evN fontsPart)).map (fun l => declaredNames l.doc.fontFace) =
      some [some [70], some [70], some [71]] ∧
    (loadPart (stylesPartOf sContentXml) {} (evN fontsPart)).map (fun l => declaredNames l.doc.fontFace) =
      some [some [70], some [70], some [71]] ∧
    ((loadPart false {} (evN fontsPart)).bind (fun l => loadPart true l (evN fontsPart))).map
      (fun l => declaredNames l.doc.fontFace) = some [some [70], some [70], some [71]] := by decide

/-! ### the hypotheses are satisfiable -/

/-- namespace table: office ↦ "o", meta ↦ "m", "u" ↦ "p" -/
def exTbl : NsTable := [(OFFICENS, [111]), (METANS, [109]), ([117], [112])]

/-- body `<u:a>x y<u:b/> </u:a>` (mixed content, white-space-only text), one common style element, the rest empty -/
def exDoc : Doc :=
  { body := .cons (.elem (exQ 97) [] (.cons (.text [120, 32, 121]) (.cons (exE 98) (.cons (.text [32]) .nil)))) .nil,
    styles := .cons (exE 115) .nil }

theorem exTbl_ok : TableOK exTbl := by
  refine ⟨by decide, ?_⟩
  intro e he
  simp only [exTbl, List.mem_cons, List.not_mem_nil, or_false] at he
  rcases he with rfl | rfl | rfl <;> refine ⟨by decide, by decide, by decide, ?_⟩ <;> unfold StrOK <;> decide

/-- a decision procedure for the XML layer's `TreeOK` (so that `XmlOK` can be checked by evaluation) -/
def strOKb (s : Str) : Bool := s.all (fun c => decide (c < 0x110000))
def qnameOKb (q : QName) : Bool := isNCName q.loc && (!q.ns.isEmpty || decide (q.loc ≠ XMLNS_NAME))
def coveredB (tbl : NsTable) (q : QName) : Bool := q.ns.isEmpty || (lookupNs tbl q.ns).isSome
def attrsOKb (tbl : NsTable) (as : List (QName × Str)) : Bool :=
  nodupQ as && as.all (fun a => qnameOKb a.1 && coveredB tbl a.1 && strOKb a.2)

mutual
def treeOKb (tbl : NsTable) : Node → Bool
  | .text s => strOKb s
  | .cdata s => strOKb s
  | .elem q a k => qnameOKb q && coveredB tbl q && attrsOKb tbl a && forestOKb tbl k
def forestOKb (tbl : NsTable) : Forest → Bool
  | .nil => true
  | .cons h t => treeOKb tbl h && forestOKb tbl t
end

theorem strOKb_sound {s : Str} (h : strOKb s = true) : StrOK s := by
  intro c hc; simp only [strOKb, List.all_eq_true, decide_eq_true_eq] at h; exact h c hc

theorem qnameOKb_sound {q : QName} (h : qnameOKb q = true) : QNameOK q := by
  simp only [qnameOKb, Bool.and_eq_true, Bool.or_eq_true, Bool.not_eq_true', decide_eq_true_eq] at h
  refine ⟨h.1, fun hn => ?_⟩
  rcases h.2 with h2 | h2
  · simp [hn] at h2
  · exact h2

theorem coveredB_sound {tbl : NsTable} {q : QName} (h : coveredB tbl q = true) : Covered tbl q := by
  simp only [coveredB, Bool.or_eq_true] at h
  rcases h with h | h
  · left; exact isEmpty_eq_nil h
  · right; cases hl : lookupNs tbl q.ns with
    | none => simp [hl] at h
    | some p => exact ⟨p, rfl⟩

theorem attrsOKb_sound {tbl : NsTable} {as : List (QName × Str)} (h : attrsOKb tbl as = true) : AttrsQOK tbl as := by
  simp only [attrsOKb, Bool.and_eq_true, List.all_eq_true] at h
  exact ⟨h.1, fun a ha => ⟨qnameOKb_sound (h.2 a ha).1.1, coveredB_sound (h.2 a ha).1.2, strOKb_sound (h.2 a ha).2⟩⟩

mutual
theorem treeOKb_sound (tbl : NsTable) : (n : Node) → treeOKb tbl n = true → TreeOK tbl n
  | .text s, h => strOKb_sound (by simpa [treeOKb] using h)
  | .cdata s, h => strOKb_sound (by simpa [treeOKb] using h)
  | .elem q a k, h => by
    simp only [treeOKb, Bool.and_eq_true] at h
    exact ⟨qnameOKb_sound h.1.1.1, coveredB_sound h.1.1.2, attrsOKb_sound h.1.2, forestOKb_sound tbl k h.2⟩
theorem forestOKb_sound (tbl : NsTable) : (f : Forest) → forestOKb tbl f = true → ForestOK tbl f
  | .nil, _ => trivial
  | .cons h t, hh => by
    simp only [forestOKb, Bool.and_eq_true] at hh
    exact ⟨treeOKb_sound tbl h hh.1, forestOKb_sound tbl t hh.2⟩
end

/-- non-vacuity: all hypotheses of `load_save_partial`, `loadedOf_doc`, `second_generation_partial` hold for a document with mixed
    content and white-space-only text in the body, a common style, the library's generator string "T" -/
example : XmlOK exTbl [84] exDoc .nil .nil ∧ LoadOK [84] exDoc .nil .nil = true ∧ SecsOK exDoc .nil .nil = true ∧
    noSecAttrs exDoc = true ∧ onlyFonts (canonTF [] exDoc.fontFace) = true ∧ ([84] : Str).map hu = [84] := by
  refine ⟨⟨exTbl_ok, ?_, ?_, ?_, ?_, ?_⟩, by decide, by decide, by decide, by decide, by decide⟩
  · intro e he
    simp only [exTbl, List.mem_cons, List.not_mem_nil, or_false] at he
    rcases he with rfl | rfl | rfl <;> decide
  · exact treeOKb_sound _ _ (by decide)
  · exact treeOKb_sound _ _ (by decide)
  · exact treeOKb_sound _ _ (by decide)
  · exact treeOKb_sound _ _ (by decide)

end OdfModel.Props.C04
